//! Correspondence stream `stream_e2e` (C01): TWO real `qrecovery::streams::DataStreams` endpoints
//! (side 0 = client, side 1 = server) joined by a channel the case controls completely.
//!
//! CASE cfg: W k d_0 … d_{k-1}      W = every stream-data window (both directions, both ends);
//!                                   k streams, all opened by the client in this order, d = 0 bidi / 1 uni
//! Stream j carries the flow (0, j) client→server and, when bidi, the flow (1, j) server→client.
//! The byte at position p of flow (s, j) is `content(p + 7919 * (2 j + s + 1))`.
//!
//! ops (side = endpoint that performs the call):
//!   0 WRITE side j n      Writer::poll_write once with the next n bytes of the flow (side, j)
//!   1 FLUSH side j        Writer::poll_flush once
//!   2 SHUTDOWN side j     Writer::poll_shutdown once
//!   3 READ side j n       Reader::poll_read once into n bytes          (flow (1-side, j))
//!   4 RESET side j err    Writer::cancel(err)
//!   5 STOP side j err     Reader::stop(err)                            (flow (1-side, j))
//!   6 EMIT side cap flow  ONE try_load_data_into_once (StreamFramePackages::dump) into a packet of
//!                         `cap` bytes with a connection credit of `flow` bytes; the frame goes to the pool
//!   7 DELIVER i           pool frame i is received by the endpoint opposite to its origin
//!   8 ACK i               origin's on_data_acked / on_reset_acked for pool frame i
//!   9 LOSE i              origin's may_loss_data for pool frame i (control frames: nothing)
//! observation: code ww rw | READ: n b_1…b_n | DELIVER: fresh | nf (kind sid a b fin hash)*nf
//!   ww / rw = cumulative wake-ups of the flow's writer-side / reader-side waker
//!   frames appended to the pool by this op: kind 1 STREAM sid off len fin hash(data)
//!                                           kind 2 RESET_STREAM sid err final 0 0
//!                                           kind 3 STOP_SENDING sid err 0 0 0
//! After a connection error every later op answers `-1`.
use std::collections::BTreeMap;
use std::future::Future;
use std::pin::Pin;
use std::sync::atomic::{AtomicU64, Ordering};
use std::sync::{Arc, Mutex};
use std::task::{Context, Poll, Wake, Waker};

use bytes::{BufMut, Bytes, buf::UninitSlice};
use hproto::{Obs, Op, content};
use qbase::{
    cid::ConnectionId,
    error::ErrorKind,
    flow::ArcSendControler,
    frame::{
        DataBlockedFrame, Frame, ResetStreamFrame, StopSendingFrame, StreamCtlFrame, StreamFrame,
        io::{ReceiveFrame, SendFrame},
    },
    net::tx::ArcSendWakers,
    packet::{Package, RecordFrame},
    param::{ArcParameters, ClientParameters, ParameterId, Parameters, ServerParameters},
    role::Role,
    sid::{StreamId, handy::ConsistentConcurrency},
    util::ContinuousData,
    varint::VarInt,
};
use qrecovery::{
    recv::{Reader, StopSending},
    send::{CancelStream, Writer},
    streams::{DataStreams, Ext, error::StreamError},
};

#[derive(Clone, Copy, Debug)]
enum Ctl {
    Reset(ResetStreamFrame),
    Stop(StopSendingFrame),
}

#[derive(Clone, Default, Debug)]
struct Tx(Arc<Mutex<Vec<Ctl>>>);

impl SendFrame<StreamCtlFrame> for Tx {
    fn send_frame<I: IntoIterator<Item = StreamCtlFrame>>(&self, iter: I) {
        let mut g = self.0.lock().unwrap();
        for f in iter {
            match f {
                StreamCtlFrame::ResetStream(r) => g.push(Ctl::Reset(r)),
                StreamCtlFrame::StopSending(r) => g.push(Ctl::Stop(r)),
                // window / stream-count updates are outside this stream (C11 / C12): dropped
                _ => {}
            }
        }
    }
}
impl SendFrame<DataBlockedFrame> for Tx {
    fn send_frame<I: IntoIterator<Item = DataBlockedFrame>>(&self, _iter: I) {}
}

/// packet stand-in: a bounded byte sink recording the STREAM frames (and their data) written to it
struct Cap {
    left: usize,
    buf: Vec<u8>,
    frames: Vec<(StreamFrame, Bytes)>,
}
unsafe impl BufMut for Cap {
    fn remaining_mut(&self) -> usize {
        self.left
    }
    unsafe fn advance_mut(&mut self, cnt: usize) {
        assert!(cnt <= self.left);
        self.left -= cnt;
        unsafe { self.buf.advance_mut(cnt) };
    }
    fn chunk_mut(&mut self) -> &mut UninitSlice {
        if self.buf.capacity() == self.buf.len() {
            self.buf.reserve(4096);
        }
        let c = self.buf.chunk_mut();
        let n = c.len().min(self.left);
        &mut c[..n]
    }
}
impl<D: ContinuousData> RecordFrame<Frame<D>, D> for Cap {
    fn record_frame(&mut self, frame: &Frame<D>) {
        if let Frame::Stream(f, d) = frame {
            self.frames.push((*f, d.to_bytes()));
        }
    }
}

struct CountWaker(AtomicU64);
impl Wake for CountWaker {
    fn wake(self: Arc<Self>) {
        self.0.fetch_add(1, Ordering::SeqCst);
    }
    fn wake_by_ref(self: &Arc<Self>) {
        self.0.fetch_add(1, Ordering::SeqCst);
    }
}

#[derive(Clone)]
enum PoolFrame {
    Stream(StreamFrame, Bytes),
    Reset(ResetStreamFrame),
    Stop(StopSendingFrame),
}

struct Side {
    ds: DataStreams<Tx>,
    params: ArcParameters,
    tx: Tx,
    writers: BTreeMap<u64, Writer<Ext<Tx>>>,
    readers: BTreeMap<u64, Reader<Ext<Tx>>>,
}

struct St {
    sides: [Side; 2],
    sids: Vec<u64>,
    pool: Vec<(usize, PoolFrame)>,
    /// bytes accepted so far by the Writer of flow (side, j)
    accepted: BTreeMap<(usize, usize), u64>,
    /// wakers per flow (src side, j): (writer side, reader side)
    wakers: BTreeMap<(usize, usize), (Arc<CountWaker>, Arc<CountWaker>)>,
    closed: bool,
}

fn vi(v: u64) -> VarInt {
    VarInt::from_u64(v).expect("varint")
}

fn fill<R: qbase::role::IntoRole + Default>(p: &mut qbase::param::core::Parameters<R>, w: u64) {
    use ParameterId::*;
    p.set(InitialMaxStreamsBidi, vi(100)).unwrap();
    p.set(InitialMaxStreamsUni, vi(100)).unwrap();
    p.set(InitialMaxData, vi(1 << 40)).unwrap();
    p.set(InitialMaxStreamDataBidiLocal, vi(w)).unwrap();
    p.set(InitialMaxStreamDataBidiRemote, vi(w)).unwrap();
    p.set(InitialMaxStreamDataUni, vi(w)).unwrap();
}

fn poll_once<F: Future>(f: F) -> Poll<F::Output> {
    let waker = futures::task::noop_waker();
    let mut cx = Context::from_waker(&waker);
    let mut f = std::pin::pin!(f);
    Pin::new(&mut f).poll(&mut cx)
}

fn salt(side: usize, j: usize) -> u64 {
    7919 * (2 * j as u64 + side as u64 + 1)
}

fn new_case(words: &[&str]) -> St {
    let c: Vec<u64> = words.iter().map(|w| w.parse::<u64>().expect("cfg")).collect();
    assert!(c.len() >= 2 && c.len() == 2 + c[1] as usize, "cfg: W k d*k");
    let w = c[0];
    let dirs = &c[2..];
    let cid_c = ConnectionId::from_slice(b"client__");
    let cid_s = ConnectionId::from_slice(b"server__");
    let odcid = ConnectionId::from_slice(b"odcid___");

    let mut cp = ClientParameters::default();
    fill(&mut cp, w);
    cp.set(ParameterId::InitialSourceConnectionId, cid_c).unwrap();
    let mut sp = ServerParameters::default();
    fill(&mut sp, w);
    sp.set(ParameterId::InitialSourceConnectionId, cid_s).unwrap();
    sp.set(ParameterId::OriginalDestinationConnectionId, odcid).unwrap();

    let tx_c = Tx::default();
    let tx_s = Tx::default();
    let ds_c = DataStreams::new(
        Role::Client,
        &cp,
        &ServerParameters::default(),
        Box::new(ConsistentConcurrency::new(100, 100)),
        tx_c.clone(),
        ArcSendWakers::default(),
        None,
    );
    let ds_s = DataStreams::new(
        Role::Server,
        &sp,
        &ClientParameters::default(),
        Box::new(ConsistentConcurrency::new(100, 100)),
        tx_s.clone(),
        ArcSendWakers::default(),
        None,
    );
    let params_c = ArcParameters::from(Parameters::new_client(cp.clone(), None, odcid));
    let params_s = ArcParameters::from(Parameters::new_server(sp.clone()));
    // handshake: each end learns the other's parameters
    {
        let mut g = params_c.lock_guard().unwrap();
        g.recv_remote_params(sp.clone()).unwrap();
        g.initial_scid_from_peer_need_equal(cid_s).unwrap();
    }
    ds_c.revise_params(false, &sp);
    {
        let mut g = params_s.lock_guard().unwrap();
        g.recv_remote_params(cp.clone()).unwrap();
        g.initial_scid_from_peer_need_equal(cid_c).unwrap();
    }
    ds_s.revise_params(false, &cp);

    let mut st = St {
        sides: [
            Side { ds: ds_c, params: params_c, tx: tx_c, writers: BTreeMap::new(), readers: BTreeMap::new() },
            Side { ds: ds_s, params: params_s, tx: tx_s, writers: BTreeMap::new(), readers: BTreeMap::new() },
        ],
        sids: Vec::new(),
        pool: Vec::new(),
        accepted: BTreeMap::new(),
        wakers: BTreeMap::new(),
        closed: false,
    };
    for (j, d) in dirs.iter().enumerate() {
        let side = &mut st.sides[0];
        if *d == 0 {
            match poll_once(side.ds.open_bi(&side.params)) {
                Poll::Ready(Ok(Some((sid, (r, w))))) => {
                    let s: u64 = sid.into();
                    side.readers.insert(s, r);
                    side.writers.insert(s, w);
                    st.sids.push(s);
                }
                _ => panic!("open_bi"),
            }
        } else {
            match poll_once(side.ds.open_uni(&side.params)) {
                Poll::Ready(Ok(Some((sid, w)))) => {
                    let s: u64 = sid.into();
                    side.writers.insert(s, w);
                    st.sids.push(s);
                }
                _ => panic!("open_uni"),
            }
        }
        for s in 0..2 {
            st.wakers.insert(
                (s, j),
                (Arc::new(CountWaker(AtomicU64::new(0))), Arc::new(CountWaker(AtomicU64::new(0)))),
            );
            st.accepted.insert((s, j), 0);
        }
    }
    st
}

fn kind_code(k: ErrorKind) -> i128 {
    match k {
        ErrorKind::FlowControl => 3,
        ErrorKind::StreamLimit => 4,
        ErrorKind::StreamState => 5,
        ErrorKind::FinalSize => 6,
        ErrorKind::Internal => 1,
        ErrorKind::ProtocolViolation => 10,
        _ => 99,
    }
}

fn hash(d: &[u8]) -> i128 {
    let mut h: u64 = 0;
    for b in d {
        h = (h * 31 + *b as u64 + 1) % 1_000_000_007;
    }
    h as i128
}

fn err_code(e: &StreamError) -> i128 {
    match e {
        StreamError::EosSent => 2,
        StreamError::Reset(_) => 3,
        StreamError::Connection(_) => 4,
    }
}

/// after something was delivered to `side`: hand every stream the peer created to the application
fn accept_all(side: &mut Side) {
    loop {
        match poll_once(side.ds.accept_bi(&side.params)) {
            Poll::Ready(Ok((sid, (r, w)))) => {
                side.readers.insert(sid.into(), r);
                side.writers.insert(sid.into(), w);
            }
            _ => break,
        }
    }
    loop {
        match poll_once(side.ds.accept_uni()) {
            Poll::Ready(Ok((sid, r))) => {
                side.readers.insert(sid.into(), r);
            }
            _ => break,
        }
    }
}

fn step(st: &mut St, op: &Op, _i: usize) -> Obs {
    let mut o = Obs::new();
    if st.closed {
        o.push(-1);
        return o;
    }
    for s in st.sides.iter() {
        s.tx.0.lock().unwrap().clear();
    }
    // (code, flow for the wake counters, extra words)
    let mut code: i128 = 0;
    let mut flow: Option<(usize, usize)> = None;
    let mut extra: Vec<i128> = Vec::new();
    let mut new_frames: Vec<(usize, PoolFrame)> = Vec::new();
    let k = st.sids.len();
    match op.tag {
        0..=5 => {
            let side = op.u(0) as usize;
            let j = op.u(1) as usize;
            if side > 1 || j >= k {
                code = 9;
                if op.tag == 3 {
                    extra.push(0);
                }
            } else {
                let sid = st.sids[j];
                let wflow = (side, j);
                let rflow = (1 - side, j);
                match op.tag {
                    0 => {
                        flow = Some(wflow);
                        let waker = Waker::from(st.wakers[&wflow].0.clone());
                        let mut cx = Context::from_waker(&waker);
                        match st.sides[side].writers.get_mut(&sid) {
                            None => code = 9,
                            Some(w) => {
                                let n = op.u(2);
                                let pos = st.accepted[&wflow];
                                let sl = salt(side, j);
                                let data: Vec<u8> = (0..n).map(|q| content(pos + q + sl)).collect();
                                match w.poll_write(&mut cx, Bytes::from(data)) {
                                    Poll::Pending => code = 0,
                                    Poll::Ready(Ok(())) => {
                                        code = 1;
                                        *st.accepted.get_mut(&wflow).unwrap() += n;
                                    }
                                    Poll::Ready(Err(e)) => code = err_code(&e),
                                }
                            }
                        }
                    }
                    1 | 2 => {
                        flow = Some(wflow);
                        let waker = Waker::from(st.wakers[&wflow].0.clone());
                        let mut cx = Context::from_waker(&waker);
                        match st.sides[side].writers.get_mut(&sid) {
                            None => code = 9,
                            Some(w) => {
                                let r = if op.tag == 1 { w.poll_flush(&mut cx) } else { w.poll_shutdown(&mut cx) };
                                match r {
                                    Poll::Pending => code = 0,
                                    Poll::Ready(Ok(())) => code = 1,
                                    Poll::Ready(Err(e)) => code = err_code(&e),
                                }
                            }
                        }
                    }
                    3 => {
                        flow = Some(rflow);
                        let waker = Waker::from(st.wakers[&rflow].1.clone());
                        let mut cx = Context::from_waker(&waker);
                        match st.sides[side].readers.get_mut(&sid) {
                            None => {
                                code = 9;
                                extra.push(0);
                            }
                            Some(r) => {
                                let mut dst = vec![0u8; op.u(2) as usize];
                                let n = {
                                    let mut slice: &mut [u8] = &mut dst[..];
                                    let before = slice.remaining_mut();
                                    let res = r.poll_read(&mut cx, &mut slice);
                                    match res {
                                        Poll::Pending => code = 0,
                                        Poll::Ready(Ok(())) => code = 1,
                                        Poll::Ready(Err(e)) => code = err_code(&e),
                                    }
                                    before - slice.remaining_mut()
                                };
                                extra.push(n as i128);
                                extra.extend(dst[..n].iter().map(|b| *b as i128));
                            }
                        }
                    }
                    4 => {
                        flow = Some(wflow);
                        match st.sides[side].writers.get_mut(&sid) {
                            None => code = 9,
                            Some(w) => {
                                w.cancel(op.u(2));
                                code = 1;
                            }
                        }
                    }
                    _ => {
                        flow = Some(rflow);
                        match st.sides[side].readers.get_mut(&sid) {
                            None => code = 9,
                            Some(r) => {
                                r.stop(op.u(2));
                                code = 1;
                            }
                        }
                    }
                }
            }
        }
        6 => {
            let side = op.u(0) as usize;
            if side > 1 {
                code = 9;
            } else {
                let mut cap = Cap { left: op.u(1) as usize, buf: Vec::new(), frames: Vec::new() };
                let fc = ArcSendControler::new(op.u(2), Tx::default(), ArcSendWakers::default());
                let mut pk = st.sides[side].ds.package(fc, false);
                code = match pk.dump(&mut cap) {
                    Ok(_) => 1,
                    Err(_) => 0,
                };
                for (f, d) in cap.frames {
                    new_frames.push((side, PoolFrame::Stream(f, d)));
                }
            }
        }
        7 | 8 | 9 => {
            let i = op.u(0) as usize;
            if i >= st.pool.len() {
                code = 8;
                if op.tag == 7 {
                    extra.push(0);
                }
            } else {
                let (origin, pf) = st.pool[i].clone();
                let sid = match &pf {
                    PoolFrame::Stream(f, _) => u64::from(f.stream_id()),
                    PoolFrame::Reset(f) => u64::from(f.stream_id()),
                    PoolFrame::Stop(f) => u64::from(f.stream_id()),
                };
                let j = st.sids.iter().position(|s| *s == sid).expect("sid of a configured stream");
                // STREAM / RESET belong to the flow sent by `origin`; STOP_SENDING speaks about the opposite flow
                flow = Some(match &pf {
                    PoolFrame::Stop(_) => (1 - origin, j),
                    _ => (origin, j),
                });
                match op.tag {
                    7 => {
                        let dst = 1 - origin;
                        let r = match pf {
                            PoolFrame::Stream(f, d) => st.sides[dst].ds.recv_frame((f, d)),
                            PoolFrame::Reset(f) => st.sides[dst].ds.recv_frame(StreamCtlFrame::ResetStream(f)),
                            PoolFrame::Stop(f) => st.sides[dst].ds.recv_frame(StreamCtlFrame::StopSending(f)),
                        };
                        match r {
                            Ok(fresh) => {
                                code = 0;
                                extra.push(fresh as i128);
                            }
                            Err(e) => {
                                st.closed = true;
                                code = match e {
                                    qbase::error::Error::Quic(q) => kind_code(q.kind()),
                                    _ => 98,
                                };
                                extra.push(0);
                            }
                        }
                        accept_all(&mut st.sides[dst]);
                    }
                    8 => {
                        code = 1;
                        match pf {
                            PoolFrame::Stream(f, _) => st.sides[origin].ds.on_data_acked(f),
                            PoolFrame::Reset(f) => st.sides[origin].ds.on_reset_acked(f),
                            PoolFrame::Stop(_) => {}
                        }
                    }
                    _ => {
                        code = 1;
                        if let PoolFrame::Stream(f, _) = pf {
                            st.sides[origin].ds.may_loss_data(&f);
                        }
                    }
                }
            }
        }
        _ => {
            o.push(-99);
            return o;
        }
    }
    for side in 0..2 {
        let ctl: Vec<Ctl> = st.sides[side].tx.0.lock().unwrap().drain(..).collect();
        for c in ctl {
            new_frames.push((
                side,
                match c {
                    Ctl::Reset(r) => PoolFrame::Reset(r),
                    Ctl::Stop(r) => PoolFrame::Stop(r),
                },
            ));
        }
    }
    o.push(code);
    match flow {
        Some(fl) => {
            let (w, r) = &st.wakers[&fl];
            o.push(w.0.load(Ordering::SeqCst) as i128).push(r.0.load(Ordering::SeqCst) as i128);
        }
        None => {
            o.push(0).push(0);
        }
    }
    for v in extra {
        o.push(v);
    }
    o.push_usize(new_frames.len());
    for (side, pf) in new_frames {
        match &pf {
            PoolFrame::Stream(f, d) => {
                o.push(1)
                    .push(u64::from(f.stream_id()) as i128)
                    .push(f.offset() as i128)
                    .push_usize(f.len())
                    .push_bool(f.is_fin())
                    .push(hash(d));
                // the frame header must describe the data it carries
                assert_eq!(f.len(), d.len(), "STREAM frame length field differs from its data");
            }
            PoolFrame::Reset(f) => {
                o.push(2)
                    .push(u64::from(f.stream_id()) as i128)
                    .push(f.app_error_code() as i128)
                    .push(f.final_size() as i128)
                    .push(0)
                    .push(0);
            }
            PoolFrame::Stop(f) => {
                o.push(3).push(u64::from(f.stream_id()) as i128).push(f.app_err_code() as i128).push(0).push(0).push(0);
            }
        }
        st.pool.push((side, pf));
    }
    o
}

fn main() {
    let rt = tokio::runtime::Builder::new_current_thread()
        .enable_time()
        .start_paused(true)
        .build()
        .unwrap();
    let _g = rt.enter();
    hproto::run(new_case, step);
}
