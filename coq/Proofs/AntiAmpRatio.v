(* The 3x ratio under EVERY interleaving of the atomic steps (small-step system of Model/AntiAmp.v), for the
   conditional send of that system: one segment of at most the balance read by the sender. *)
From Coq Require Import List NArith ZArith Bool Lia.
From GQ Require Import Lib.Base Model.AntiAmp Proofs.Burst Proofs.AntiAmp.
Import ListNotations.
Local Open Scope N_scope.

Arguments N.add : simpl never.
Arguments N.sub : simpl never.
Arguments N.mul : simpl never.
Arguments N.pow : simpl never.
Arguments N.modulo : simpl never.

Definition pend1 (x : npc) : N := match x with NAdd n => n | NWake => 0 end.
Fixpoint pendsum (l : list npc) : N := match l with [] => 0 | x :: t => pend1 x + pendsum t end.
Definition inflight (pc : spc) : N := match pc with SDebitLoad n | SDebit n => n | _ => 0 end.

Lemma pendsum_app l1 l2 : pendsum (l1 ++ l2) = pendsum l1 + pendsum l2.
Proof. induction l1 as [| x l IH]; cbn [app pendsum]; [lia | rewrite IH; lia]. Qed.

Lemma pendsum_remove i l x : nth_error l i = Some x -> pendsum (remove_nth i l) + pend1 x = pendsum l.
Proof.
  revert i. induction l as [| h t IH]; intros i E; [destruct i; discriminate |].
  destruct i as [| i]; cbn in E.
  - injection E as ->. unfold remove_nth. cbn [firstn skipn app pendsum]. apply N.add_comm.
  - specialize (IH i E). unfold remove_nth in *. cbn [firstn skipn app pendsum]. rewrite <- IH. rewrite N.add_assoc. reflexivity.
Qed.

Definition CI (y : sys) : Prop :=
  3 * gR y < W -> st (sa y) = 0 ->
  pendsum (pend y) <= gR y /\
  credit (sa y) + gH y = 3 * (gR y - pendsum (pend y)) + inflight (spcv y) /\
  inflight (spcv y) <= credit (sa y) /\ inflight (spcv y) <= gH y /\
  (forall b, spcv y = SSend b -> b <= credit (sa y)).

Lemma CI_step y l y' : CI y -> sstep y l = Some y' -> CI y'.
Proof.
  intros HI E HR' H0'. unfold CI in HI.
  destruct l as [n | | | i | k]; cbn [sstep] in E.
  - (* on_rcvd entered *)
    destruct (N.eqb_spec (st (sa y)) 0) as [E0 | E0]; injection E as <-; cbn [sa pend spcv gR gH] in *; [| contradiction].
    destruct (HI ltac:(lia) E0) as (P1 & P2 & P3 & P4 & P5).
    rewrite pendsum_app. cbn [pendsum pend1]. repeat split; try lia. exact P5.
  - destruct (N.eqb_spec (st (sa y)) 0) as [E0 | E0]; injection E as <-; cbn [sa set_st st] in *; [discriminate | exact (HI HR' H0')].
  - destruct (N.eqb_spec (st (sa y)) 0) as [E0 | E0]; injection E as <-; cbn [sa set_st st] in *; [discriminate | exact (HI HR' H0')].
  - (* notifier step *)
    destruct (nth_error (pend y) i) as [[n |] |] eqn:En; [| | discriminate]; injection E as <-;
      cbn [sa pend spcv gR gH] in *.
    + cbn [fetch_add set_credit st] in H0'. destruct (HI HR' H0') as (P1 & P2 & P3 & P4 & P5).
      pose proof (pendsum_remove i (pend y) (NAdd n) En) as Hrm. cbn [pend1] in Hrm.
      rewrite pendsum_app. cbn [pendsum pend1].
      assert (Hm : n * FACTOR mod W = 3 * n) by (unfold FACTOR; rewrite N.mod_small; lia).
      rewrite Hm, fetch_add_exact by lia.
      repeat split; try lia. intros b Hb. specialize (P5 b Hb). lia.
    + destruct (wake_credit_props (sa y)) as (_ & W2 & W3 & _). rewrite W2 in H0'. rewrite W3.
      destruct (HI HR' H0') as (P1 & P2 & P3 & P4 & P5).
      pose proof (pendsum_remove i (pend y) NWake En) as Hrm. cbn [pend1] in Hrm.
      repeat split; try lia. exact P5.
  - (* sender step *)
    unfold sender_step in E.
    destruct (spcv y) as [ | | | | | w0 | budget | n | n | ] eqn:Epc.
    + destruct (N.eqb_spec (st (sa y)) 1) as [E1 | E1]; [injection E as <-; cbn [sa st] in H0'; congruence |].
      destruct (N.eqb_spec (st (sa y)) 2) as [E2 | E2]; injection E as <-; cbn [sa pend spcv gR gH] in *; [congruence |].
      destruct (HI HR' H0') as (P1 & P2 & P3 & P4 & P5). cbn [inflight] in *. repeat split; try lia. intros b Hb; discriminate.
    + destruct (N.eqb_spec (credit (sa y)) 0) as [Ez | Ez]; injection E as <-; cbn [sa pend spcv gR gH] in *;
        destruct (HI HR' H0') as (P1 & P2 & P3 & P4 & P5); cbn [inflight] in *; repeat split; try lia.
      * intros b Hb; discriminate.
      * intros b Hb; injection Hb as <-. lia.
    + destruct (N.eqb_spec (st (sa y)) 0) as [E0 | E0]; injection E as <-; cbn [sa pend spcv gR gH] in *; [| contradiction].
      destruct (HI HR' H0') as (P1 & P2 & P3 & P4 & P5); cbn [inflight] in *; repeat split; try lia. intros b Hb; discriminate.
    + injection E as <-. cbn [sa pend spcv gR gH] in *.
      destruct (wake_credit_props (sa y)) as (_ & W2 & W3 & _). rewrite W2 in H0'. rewrite W3. rewrite H0'. cbn [N.eqb].
      destruct (HI HR' H0') as (P1 & P2 & P3 & P4 & P5); cbn [inflight] in *; repeat split; try lia. intros b Hb; discriminate.
    + unfold poll_wait in E. destruct (cbit (sa y)); injection E as <-; cbn [sa pend spcv gR gH st credit] in *;
        destruct (HI HR' H0') as (P1 & P2 & P3 & P4 & P5); cbn [inflight] in *; repeat split; try lia; intros b Hb; discriminate.
    + destruct (w0 <? wakes (sa y)); [| discriminate]. injection E as <-. cbn [sa pend spcv gR gH] in *.
      destruct (HI HR' H0') as (P1 & P2 & P3 & P4 & P5); cbn [inflight] in *; repeat split; try lia. intros b Hb; discriminate.
    + destruct (N.leb_spec k budget) as [Hk | Hk]; [| discriminate]. injection E as <-. cbn [sa pend spcv gR gH] in *.
      destruct (HI HR' H0') as (P1 & P2 & P3 & P4 & P5); cbn [inflight] in *.
      specialize (P5 budget eq_refl). repeat split; try lia. intros b Hb; discriminate.
    + destruct (N.eqb_spec (st (sa y)) 0) as [E0 | E0]; injection E as <-; cbn [sa pend spcv gR gH] in *; [| contradiction].
      destruct (HI HR' H0') as (P1 & P2 & P3 & P4 & P5); cbn [inflight] in *; repeat split; try lia; intros b Hb; discriminate.
    + injection E as <-. cbn [sa pend spcv gR gH debit set_credit st credit] in *.
      destruct (HI HR' H0') as (P1 & P2 & P3 & P4 & P5); cbn [inflight] in *.
      repeat split; try lia. intros b Hb; discriminate.
    + discriminate.
Qed.

Lemma CI_reach y : sreach y -> CI y.
Proof.
  induction 1 as [| y l y' _ IH E].
  - intros _ _. unfold sys0. cbn [pend sa spcv gR gH aa0 credit pendsum inflight]. repeat split; try lia. intros b Hb; discriminate.
  - exact (CI_step _ _ _ IH E).
Qed.

(* c15_ratio under all interleavings *)
Lemma p_c15_ratio_interleaved : forall y,
  sreach y -> 3 * gR y < W -> st (sa y) = 0 ->
  gH y <= 3 * gR y /\ credit (sa y) <= 3 * gR y.
Proof.
  intros y Hr HR H0. destruct (CI_reach y Hr HR H0) as (P1 & P2 & P3 & P4 & P5). lia.
Qed.
