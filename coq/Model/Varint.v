(* qbase/src/varint.rs : VarInt::encoding_size, put_varint, be_varint *)
From Coq Require Import List ZArith NArith Bool.
From GQ Require Export Lib.Wire.
Import ListNotations.
Local Open Scope Z_scope.

Definition VARINT_MAX : Z := 2 ^ 62 - 1.

Definition varint_ok (x : Z) : Prop := 0 <= x < 2 ^ 62.
Definition varint_okb (x : Z) : bool := (0 <=? x) && (x <? 2 ^ 62).

(* VarInt::encoding_size; the last arm is `unreachable!("malformed VarInt")` *)
Definition varint_size (x : Z) : Z :=
  if x <? 2 ^ 6 then 1 else if x <? 2 ^ 14 then 2 else if x <? 2 ^ 30 then 4 else 8.

(* WriteVarInt::put_varint *)
Definition put_varint (x : Z) : list Z :=
  if x <? 2 ^ 6 then put_be 1 x
  else if x <? 2 ^ 14 then put_be 2 (2 ^ 14 + x)
  else if x <? 2 ^ 30 then put_be 4 (2 * 2 ^ 30 + x)
  else put_be 8 (3 * 2 ^ 62 + x).

(* be_varint: 2 prefix bits select 1/2/4/8 bytes; streaming (Incomplete when short) *)
Definition be_varint : parser Z :=
  fun bs => match bs with
            | [] => Incomplete
            | b :: _ =>
              let p := b / 64 in
              let n := if p =? 0 then 1%nat else if p =? 1 then 2%nat else if p =? 2 then 4%nat else 8%nat in
              match get_be n 0 bs with
              | None => Incomplete
              | Some (w, rest) => Ok (w mod 2 ^ (8 * Z.of_nat n - 2)) rest
              end
            end.
