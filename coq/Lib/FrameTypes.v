(* The frame-type enumeration (qbase/src/frame.rs `enum FrameType`), hand-written; the tables over
   it (codes, belongs_to, specs) are regenerated from the Rust source into Generated/FrameTable.v. *)
From Coq Require Import List ZArith Bool.
Import ListNotations.

Inductive ftype :=
| TPadding | TPing | TAck (ecn : bool) | TResetStream | TStopSending | TCrypto | TNewToken
| TStream (off len fin : bool) | TMaxData | TMaxStreamData | TMaxStreams (uni : bool)
| TDataBlocked | TStreamDataBlocked | TStreamsBlocked (uni : bool)
| TNewConnectionId | TRetireConnectionId | TPathChallenge | TPathResponse
| TConnectionClose (app : bool) | THandshakeDone | TDatagram (with_len : bool)
| TAddAddress (v6 : bool) | TRemoveAddress | TPunchMeNow (v6 : bool) | TPunchHello | TPunchDone.

Definition ftype_eqb (a b : ftype) : bool :=
  match a, b with
  | TPadding, TPadding | TPing, TPing | TResetStream, TResetStream | TStopSending, TStopSending
  | TCrypto, TCrypto | TNewToken, TNewToken | TMaxData, TMaxData | TMaxStreamData, TMaxStreamData
  | TDataBlocked, TDataBlocked | TStreamDataBlocked, TStreamDataBlocked
  | TNewConnectionId, TNewConnectionId | TRetireConnectionId, TRetireConnectionId
  | TPathChallenge, TPathChallenge | TPathResponse, TPathResponse | THandshakeDone, THandshakeDone
  | TRemoveAddress, TRemoveAddress | TPunchHello, TPunchHello | TPunchDone, TPunchDone => true
  | TAck x, TAck y | TMaxStreams x, TMaxStreams y | TStreamsBlocked x, TStreamsBlocked y
  | TConnectionClose x, TConnectionClose y | TDatagram x, TDatagram y | TAddAddress x, TAddAddress y
  | TPunchMeNow x, TPunchMeNow y => Bool.eqb x y
  | TStream a1 a2 a3, TStream b1 b2 b3 => Bool.eqb a1 b1 && Bool.eqb a2 b2 && Bool.eqb a3 b3
  | _, _ => false
  end.

Definition all_ftypes : list ftype :=
  [TPadding; TPing; TAck false; TAck true; TResetStream; TStopSending; TCrypto; TNewToken;
   TStream false false false; TStream false false true; TStream false true false; TStream false true true;
   TStream true false false; TStream true false true; TStream true true false; TStream true true true;
   TMaxData; TMaxStreamData; TMaxStreams false; TMaxStreams true; TDataBlocked; TStreamDataBlocked;
   TStreamsBlocked false; TStreamsBlocked true; TNewConnectionId; TRetireConnectionId; TPathChallenge;
   TPathResponse; TConnectionClose false; TConnectionClose true; THandshakeDone; TDatagram false; TDatagram true;
   TAddAddress false; TAddAddress true; TRemoveAddress; TPunchMeNow false; TPunchMeNow true; TPunchHello; TPunchDone].

(* packet types as far as frame admission is concerned *)
Inductive ptype := PInitial | PHandshake | PZeroRtt | POneRtt.

(* qbase/src/frame/error.rs `enum Error` *)
Inductive ferr := ENoFrames | EIncompleteType | EInvalidType | EWrongType | EIncompleteFrame | EParseError.
