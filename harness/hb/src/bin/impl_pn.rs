//! Correspondence stream `pn` (C07): drives the real `qbase::packet::PacketNumber`.
//! ops: 0 pn la exp   encode(pn, la) -> (width, payload); payload after put_packet_number/take_pn_len;
//!                    decode(exp) of the in-memory value and of the value read back from the wire
//!      1 w x exp     PacketNumber::U{8w}(x).decode(exp)
//! a panic prints code 1 in the place of the result.
use std::panic::{AssertUnwindSafe, catch_unwind};

use hproto::{Obs, Op};
use qbase::packet::{PacketNumber, WritePacketNumber, take_pn_len};

fn parts(p: PacketNumber) -> (i128, i128) {
    match p {
        PacketNumber::U8(x) => (1, x as i128),
        PacketNumber::U16(x) => (2, x as i128),
        PacketNumber::U24(x) => (3, x as i128),
        PacketNumber::U32(x) => (4, x as i128),
    }
}

fn dec(o: &mut Obs, p: PacketNumber, exp: u64) {
    match catch_unwind(AssertUnwindSafe(|| p.decode(exp))) {
        Ok(v) => {
            o.push(0u8).push(v);
        }
        Err(_) => {
            o.push(1u8);
        }
    }
}

fn step(_s: &mut (), op: &Op, _i: usize) -> Obs {
    let mut o = Obs::new();
    match op.tag {
        0 => {
            let (pn, la, exp) = (op.u(0), op.u(1), op.u(2));
            match catch_unwind(AssertUnwindSafe(|| PacketNumber::encode(pn, la))) {
                Ok(p) => {
                    let (w, x) = parts(p);
                    o.push(0u8).push(w).push(x);
                    let mut buf: Vec<u8> = Vec::new();
                    buf.put_packet_number(p);
                    let (rest, q) = take_pn_len(p.size() as u8)(&buf).unwrap();
                    assert!(rest.is_empty());
                    o.push(parts(q).1);
                    dec(&mut o, p, exp);
                    dec(&mut o, q, exp);
                }
                Err(_) => {
                    o.push(1u8);
                }
            }
        }
        1 => {
            let x = op.u(1);
            let p = match op.u(0) {
                1 => PacketNumber::U8(x as u8),
                2 => PacketNumber::U16(x as u16),
                3 => PacketNumber::U24(x as u32),
                _ => PacketNumber::U32(x as u32),
            };
            dec(&mut o, p, op.u(2));
        }
        _ => {
            o.push(-99i32);
        }
    }
    o
}

fn main() {
    hproto::run(|_| (), step);
}
