//! Correspondence stream `params` (C18): the real qbase::param::Parameters state machine.
//! cfg: role, local idle ms, origin dcid bytes…   ops: see coq/Model/ParamsState.v
use std::time::Duration;

use hproto::{Obs, Op};
use qbase::{
    cid::ConnectionId,
    param::{ClientParameters, ParameterId, Parameters, ServerParameters},
    varint::VarInt,
};

struct St {
    p: Parameters,
    client: bool,
    failed: bool,
}

fn new_case(cfg: &[&str]) -> St {
    let role: u64 = cfg[0].parse().unwrap();
    let idle: u64 = cfg[1].parse().unwrap();
    let origin: Vec<u8> = cfg[2..].iter().map(|x| x.parse::<u8>().unwrap()).collect();
    if role == 0 {
        let mut c = ClientParameters::new();
        c.set(ParameterId::MaxIdleTimeout, Duration::from_millis(idle)).unwrap();
        St { p: Parameters::new_client(c, None, ConnectionId::from_slice(&origin)), client: true, failed: false }
    } else {
        let mut s = ServerParameters::new();
        s.set(ParameterId::MaxIdleTimeout, Duration::from_millis(idle)).unwrap();
        St { p: Parameters::new_server(s), client: false, failed: false }
    }
}

fn obs(st: &mut St, r: Result<(), qbase::error::QuicError>, o: &mut Obs) {
    match r {
        Ok(()) => {
            o.push(0u8).push_bool(st.p.is_remote_params_ready());
        }
        Err(e) => {
            st.failed = true;
            o.push(1u8).push(VarInt::from(e.kind()).into_u64());
        }
    }
}

fn step(st: &mut St, op: &Op, _i: usize) -> Obs {
    let mut o = Obs::new();
    if st.failed {
        o.push(-1);
        return o;
    }
    match op.tag {
        1 => {
            let b = op.bytes_from(0);
            let r = if st.client {
                ServerParameters::parse_from_bytes(&b).and_then(|p| st.p.recv_remote_params(p))
            } else {
                ClientParameters::parse_from_bytes(&b).and_then(|p| st.p.recv_remote_params(p))
            };
            obs(st, r, &mut o);
        }
        2 => {
            let r = st.p.initial_scid_from_peer_need_equal(ConnectionId::from_slice(&op.bytes_from(0)));
            obs(st, r, &mut o);
        }
        3 => match st.p.negotiated_max_idle_timeout() {
            Some(d) if d == Duration::MAX => {
                o.push(0u8).push(-1);
            }
            Some(d) => {
                o.push(0u8).push(d.as_millis() as u64);
            }
            None => {
                o.push(1u8);
            }
        },
        4 => {
            let n = op.u(0) as usize;
            let all = op.bytes_from(1);
            let (ob, nb) = all.split_at(n);
            match (ServerParameters::try_from_remembered_bytes(ob), ServerParameters::try_from_remembered_bytes(nb)) {
                (Ok(old), Ok(new)) => {
                    o.push(0u8).push_bool(old.is_0rtt_accepted(&new));
                }
                _ => {
                    o.push(1u8);
                }
            }
        }
        _ => {
            o.push(-99);
        }
    }
    o
}

fn main() {
    hproto::run(new_case, step);
}
