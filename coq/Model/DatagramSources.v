(* Packet assembly of one space as far as datagrams are concerned: the sources of the space (table
   regenerated from Components::packages in qconnection/src/path/burst.rs) are asked in order; the
   datagram source is DatagramFlow::try_load_data_into; every other source is idle (the property talks
   about an open, uncongested connection with a datagram to send).  Definitions only. *)
From Coq Require Import List NArith ZArith Bool.
From GQ Require Export Generated.Sources Model.Datagram.
Import ListNotations.
Local Open Scope N_scope.

Definition is_datagram (x : source) : bool := match x with SrcDatagram => true | _ => false end.

Fixpoint assemble_sources (srcs : list source) (s : dg) (rem : N) : dg * list load_res :=
  match srcs with
  | [] => (s, [])
  | SrcDatagram :: tl =>
      let '(s1, r) := load s rem in
      let '(s2, rs) := assemble_sources tl s1 (rem - lenN (wire_bytes r)) in (s2, r :: rs)
  | _ :: tl => assemble_sources tl s rem
  end.

Definition assemble_space (sp : space) (s : dg) (rem : N) := assemble_sources (sources sp) s rem.

Definition emitted (rs : list load_res) : list (list Z) :=
  flat_map (fun r => match r with LFrame _ _ d => [d] | _ => [] end) rs.

Definition datagram_offered : bool := existsb is_datagram (sources SpOneRtt).
