//! Correspondence stream `aa` (C15): drives the real `qconnection::path::{AntiAmplifier, Constraints}`
//! and the real `qbase::net::tx::ArcSendWaker` the amplifier wakes.
//!
//! LEVEL NOTE.  `Burst::burst` / `Burst::load_spaces` / `Path::send_packets` are reachable only through a
//! complete `Components` (TLS, spaces, congestion controller, interface).  The BURST operation below
//! therefore TRANSLITERATES their control structure (one `balance()` per segment = `self.assembler()` in
//! `load_spaces`/`load_ping`/`load_heartbeat`; `Constraints::constrain` before every packet and
//! `Constraints::commit` after it = `PacketsAssembler::assemble`; `if loaded_initial { pad to the whole
//! buffer; return origin }`; the `try_fold` that stops after a shorter segment; one
//! `on_sent(sum of the IoSlice lengths)` = `Path::send_packets`) around the REAL primitives.  The shape
//! facts this transliteration relies on are re-extracted from burst.rs / path.rs on every run by
//! tools/extract_sources.py (coq/Generated/Sources.v, `burst_shape_*`).
//!
//! CASE cfg: `minpkt` (smallest buffer `new_packet` accepts: header + 20)
//! ops (every op ends with the observation of `balance()`: kind value; kind 0 Err(CREDIT), 1 Ok(Some v), 2 Ok(None)):
//!   0 n                       RCVD    on_rcvd(n)
//!   1                         BALANCE
//!   2 n                       ONSENT  on_sent(n)
//!   3                         GRANT
//!   4                         ABORT
//!   5 mtu rsv (quota wi wo)*  BURST   -> status nseg len* sum, then balance
//!                                     status 0 handed to IO | 1 nothing (signals) | 2 path deactivated
//!   6                         POLLWAIT  one poll of tx_waker.wait_for(CREDIT) -> ready wakes, then balance
//!   7 mtu rsv (quota w0 f0 w1 f1 w2 f2 w3 f3)*
//!                             BURSTP  like BURST with the four packet requests of load_spaces (Initial, 0-RTT,
//!                                     Handshake, 1-RTT): wK bytes wanted, fK != 0 = the packet is in flight
//!                                     (`Constraints::commit(len, in_flight)`)
//!   8 ka na kb nb sched*      RACE    two REAL method calls (k: 0 on_rcvd(n), 1 balance, 2 on_sent(n), 3 grant,
//!                                     4 abort, else nothing) on two threads under a deterministic schedule at the
//!                                     granularity of the atomic operations on `credit` / `state` (the
//!                                     cfg(gmquic_verif) instrumented atomics of aa.rs announce each one): bit 0 = A
//!                                     performs its next atomic operation, 1 = B; a finished thread hands over;
//!                                     after the schedule A first.  -> stepsA stepsB resA resB, then balance
//!                                     (res: the balance() result as kind value, `3 0` for the unit methods)
//!   9 narr amt                STRESS  SUPPORT ONLY (real parallelism, bounded): one thread delivers narr arrivals of
//!                                     amt bytes while a disciplined sender (sends exactly what balance() grants and
//!                                     reports it at once) runs on another, then drains -> bytes sent, then balance.
//!                                     Whatever the interleaving this is credit-before + 3*narr*amt on correct code.
use std::{
    future::Future,
    pin::Pin,
    sync::{
        Arc,
        atomic::{AtomicU64, Ordering},
    },
    task::{Context, Poll, Wake, Waker},
};

use hproto::{Obs, Op};
use qbase::net::tx::{ArcSendWaker, Signals};
use qconnection::path::{AntiAmplifier, Constraints, verif_atomic};

struct CountWaker(AtomicU64);
impl Wake for CountWaker {
    fn wake(self: Arc<Self>) {
        self.0.fetch_add(1, Ordering::SeqCst);
    }
    fn wake_by_ref(self: &Arc<Self>) {
        self.0.fetch_add(1, Ordering::SeqCst);
    }
}

struct St {
    aa: AntiAmplifier,
    tx: ArcSendWaker,
    cw: Arc<CountWaker>,
    waker: Waker,
    minpkt: usize,
}

fn new_case(cfg: &[&str]) -> St {
    let minpkt: usize = cfg.first().and_then(|s| s.parse().ok()).unwrap_or(40);
    let tx = ArcSendWaker::new();
    let cw = Arc::new(CountWaker(AtomicU64::new(0)));
    St { aa: AntiAmplifier::new(tx.clone()), tx, waker: Waker::from(cw.clone()), cw, minpkt }
}

fn bal(st: &St, o: &mut Obs) {
    match st.aa.balance() {
        Err(_) => o.push(0u8).push(0u8),
        Ok(Some(v)) => o.push(1u8).push(v as u64),
        Ok(None) => o.push(2u8).push(0u8),
    };
}

enum SegErr {
    Signals,
    Deactivated,
}

/// one packet request: bytes wanted, in flight
type Pkt = (usize, bool);

/// one segment = `Burst::load_spaces` on a buffer of `buf_len` bytes: the Initial space's request first, then
/// the requests of the other spaces in order, all through ONE `Constraints`
fn load_segment(st: &St, buf_len: usize, quota: usize, ini: Pkt, rest: &[Pkt]) -> Result<usize, SegErr> {
    let mut storage = vec![0u8; buf_len];
    let mut buffer: &mut [u8] = &mut storage[..];
    let origin = buffer.len();
    // PacketsAssembler::new
    let credit = match st.aa.balance() {
        Err(_) => return Err(SegErr::Signals),
        Ok(None) => return Err(SegErr::Deactivated),
        Ok(Some(c)) => c,
    };
    let mut cons = Constraints::new(credit, quota);
    // PacketsAssembler::assemble for one packet request: constrain, (new_packet needs `minpkt`), commit
    let mut assemble = |buffer: &mut &mut [u8], (want, in_flight): Pkt| {
        let room = cons.constrain(&mut buffer[..]).len();
        let sent = if want > 0 && room >= st.minpkt { want.min(room) } else { 0 };
        if sent > 0 {
            cons.commit(sent, in_flight);
            let tmp = std::mem::take(buffer);
            *buffer = &mut tmp[sent..];
        }
    };
    assemble(&mut buffer, ini); // Initial space
    let loaded_initial = buffer.len() != origin;
    for &p in rest {
        assemble(&mut buffer, p); // 0-RTT / Handshake / 1-RTT spaces
    }
    if loaded_initial {
        // buffer.put_bytes(0, buffer.remaining_mut()); return Ok((origin, ..))
        return Ok(origin);
    }
    let sent_bytes = origin - buffer.len();
    if sent_bytes > 0 { Ok(sent_bytes) } else { Err(SegErr::Signals) }
}

fn burst(st: &St, mtu: usize, rsv: usize, segs: &[(usize, Pkt, Vec<Pkt>)], o: &mut Obs) {
    // Burst::burst: map over the segments + try_fold
    let mut lens: Vec<usize> = Vec::new();
    let mut status = 0i64;
    for (quota, ini, rest) in segs {
        match load_segment(st, mtu - rsv, *quota, *ini, rest) {
            Err(SegErr::Signals) if lens.is_empty() => {
                status = 1;
                break;
            }
            Err(SegErr::Deactivated) if lens.is_empty() => {
                status = 2;
                break;
            }
            Err(_) => break,
            Ok(n) => {
                let seg_len = rsv + n;
                let shorter = seg_len < lens.last().copied().unwrap_or_default();
                lens.push(seg_len);
                if shorter {
                    break;
                }
            }
        }
    }
    let sum: usize = lens.iter().sum();
    if status == 0 {
        if lens.is_empty() {
            status = 1; // no segments requested at all: burst() returns Ok(vec![]) and send_packets debits 0
        }
        // Path::send_packets
        st.aa.on_sent(sum);
        let _ = st.aa.balance();
    }
    o.push(status).push_usize(lens.len());
    for l in &lens {
        o.push_usize(*l);
    }
    o.push_usize(sum);
}

// ------------------------------------------------------------------------------------------------
// RACE: two real calls, two threads, one atomic operation at a time
// ------------------------------------------------------------------------------------------------

enum Msg {
    /// the thread is about to perform an atomic operation and waits for its turn
    Yield,
    /// the call returned (kind, value)
    Done(i64, u64),
}

fn call(aa: &AntiAmplifier, kind: u64, n: usize) -> (i64, u64) {
    match kind {
        0 => aa.on_rcvd(n),
        1 => {
            return match aa.balance() {
                Err(_) => (0, 0),
                Ok(Some(v)) => (1, v as u64),
                Ok(None) => (2, 0),
            };
        }
        2 => aa.on_sent(n),
        3 => aa.grant(),
        4 => aa.abort(),
        _ => {}
    }
    (3, 0)
}

fn race(st: &St, calls: [(u64, usize); 2], sched: &[bool], o: &mut Obs) {
    use std::sync::mpsc::channel;
    let aa = &st.aa;
    let mut steps = [0u64; 2];
    let mut done: [Option<(i64, u64)>; 2] = [None, None];
    std::thread::scope(|s| {
        let mut go_tx = Vec::new();
        let mut msg_rx = Vec::new();
        for &(kind, n) in calls.iter() {
            let (gtx, grx) = channel::<()>();
            let (mtx, mrx) = channel::<Msg>();
            go_tx.push(gtx);
            msg_rx.push(mrx);
            s.spawn(move || {
                let mtx2 = mtx.clone();
                verif_atomic::set_before_atomic(Some(Box::new(move || {
                    let _ = mtx2.send(Msg::Yield);
                    let _ = grx.recv();
                })));
                let r = std::panic::catch_unwind(std::panic::AssertUnwindSafe(|| call(aa, kind, n)));
                verif_atomic::set_before_atomic(None);
                let (k, v) = r.unwrap_or((-7, 0));
                let _ = mtx.send(Msg::Done(k, v));
            });
        }
        let mut wait = |t: usize, done: &mut [Option<(i64, u64)>; 2]| match msg_rx[t].recv() {
            Ok(Msg::Yield) => {}
            Ok(Msg::Done(k, v)) => done[t] = Some((k, v)),
            Err(_) => done[t] = Some((-7, 0)),
        };
        // both threads run up to their first atomic operation (nothing shared is touched before it)
        wait(0, &mut done);
        wait(1, &mut done);
        let mut i = 0;
        while done[0].is_none() || done[1].is_none() {
            let mut t = if i < sched.len() { sched[i] as usize } else { 0 };
            i += 1;
            if done[t].is_some() {
                t = 1 - t;
            }
            steps[t] += 1;
            let _ = go_tx[t].send(());
            wait(t, &mut done);
        }
    });
    o.push(steps[0]).push(steps[1]);
    for d in done {
        let (k, v) = d.unwrap_or((-7, 0));
        o.push(k).push(v);
    }
}

// ------------------------------------------------------------------------------------------------
// STRESS (support only): real parallelism, bounded
// ------------------------------------------------------------------------------------------------

fn stress(st: &St, narr: usize, amt: usize, o: &mut Obs) {
    use std::sync::atomic::AtomicBool;
    let narr = narr.min(200_000);
    let amt = amt.min(65_535);
    let aa = &st.aa;
    let mut sent: u64 = 0;
    if matches!(aa.balance(), Ok(Some(usize::MAX)) | Ok(None)) {
        // granted / aborted: nothing is counted
        o.push(0u8);
        return;
    }
    let rx_done = AtomicBool::new(false);
    let start = std::sync::Barrier::new(2);
    std::thread::scope(|s| {
        s.spawn(|| {
            start.wait();
            for _ in 0..narr {
                aa.on_rcvd(amt);
            }
            rx_done.store(true, Ordering::SeqCst);
        });
        let sender = s.spawn(|| {
            let mut sent = 0u64;
            start.wait();
            loop {
                let finished = rx_done.load(Ordering::SeqCst);
                match aa.balance() {
                    Ok(Some(c)) if c != usize::MAX => {
                        sent += c as u64;
                        aa.on_sent(c);
                    }
                    Err(_) if !finished => std::hint::spin_loop(),
                    _ => break,
                }
            }
            sent
        });
        sent = sender.join().unwrap_or(0);
    });
    o.push(sent);
}

fn step(st: &mut St, op: &Op, _i: usize) -> Obs {
    let mut o = Obs::new();
    match op.tag {
        0 => st.aa.on_rcvd(op.u(0) as usize),
        1 => {}
        2 => st.aa.on_sent(op.u(0) as usize),
        3 => st.aa.grant(),
        4 => st.aa.abort(),
        5 => {
            let mtu = op.u(0) as usize;
            let rsv = op.u(1) as usize;
            let mut segs = Vec::new();
            let mut i = 2;
            while i + 2 < op.args.len() {
                segs.push((op.u(i) as usize, (op.u(i + 1) as usize, true), vec![(op.u(i + 2) as usize, true)]));
                i += 3;
            }
            burst(st, mtu, rsv, &segs, &mut o);
        }
        7 => {
            let mtu = op.u(0) as usize;
            let rsv = op.u(1) as usize;
            let mut segs = Vec::new();
            let mut i = 2;
            while i + 8 < op.args.len() {
                let pk = |k: usize| (op.u(i + 1 + 2 * k) as usize, op.u(i + 2 + 2 * k) != 0);
                segs.push((op.u(i) as usize, pk(0), vec![pk(1), pk(2), pk(3)]));
                i += 9;
            }
            burst(st, mtu, rsv, &segs, &mut o);
        }
        8 => {
            let calls = [(op.u(0), op.u(1) as usize), (op.u(2), op.u(3) as usize)];
            let sched: Vec<bool> = op.args[4..].iter().map(|v| *v != 0).collect();
            race(st, calls, &sched, &mut o);
        }
        9 => stress(st, op.u(0) as usize, op.u(1) as usize, &mut o),
        6 => {
            let mut cx = Context::from_waker(&st.waker);
            let tx = st.tx.clone();
            let mut fut = Box::pin(async move { tx.wait_for(Signals::CREDIT).await });
            let r = matches!(Pin::new(&mut fut).poll(&mut cx), Poll::Ready(()));
            o.push_bool(r).push(st.cw.0.load(Ordering::SeqCst));
        }
        _ => {
            o.push(-99i32);
            return o;
        }
    }
    bal(st, &mut o);
    o
}

fn main() {
    hproto::run(new_case, step);
}
