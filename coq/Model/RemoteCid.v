(* Model of qbase/src/cid/remote_cid.rs (RemoteCids, CidCell).  Definitions only.

   cid_deque     : IndexDeque<Option<(seq, cid, token)>>  -> [r_coff], [r_cids] (None = hole)
   ready_cells   : IndexDeque<ArcCidCell>                  -> [r_roff], [r_ready] (cell ids)
   pending_cells : VecDeque<ArcCidCell>                    -> [r_pending] (cell ids)
   cursor, active_cid_limit                                -> [r_cursor], [r_limit]
   the cells themselves (Arc<Mutex<CidCell>>), shared with the paths -> store [r_cells],
   a cell id is its index in the store (creation order).
   Frames handed to SendFrame<RetireConnectionIdFrame> are returned as lists of sequence
   numbers, in emission order (RemoteCids and every cell share one sink).

   The limit check of recv_new_cid_frame is the parameter [chk seq rpt limit] (true = reject):
   [chk_coded] is the code as it stands (`seq.saturating_sub(rpt) > limit`), [chk_fixed] the
   minimal span repair (`(seq + 1).saturating_sub(rpt) > limit`).  The RFC-exact repair
   (`fix:` commit on branch fix-f18) has NO test before the frame is processed ([no_pre]) and
   counts the active IDs afterwards: parameter [post], [post_count] = stored IDs minus the
   ready cells already retired by their path exceed the limit.  Everything else is shared.

   `IndexDeque::drain_to` carries a debug assertion `offset <= end <= offset + len`; [drain_ok]
   states it and Proofs/RemoteCid.v shows it is never violated.  `CidCell::assign` asserts
   `!is_retired` immediately after the same test in arrange_idle_cid (same critical section),
   `CidCell::renew` asserts `is_using`: renew runs only from BorrowedCid::drop, and the operation
   interface below keeps at most one BorrowedCid per path (a RELEASE without a borrow is refused).
   Not modelled: wakers (C16), reset tokens, sequence numbers at 2^62 (C04). *)
From Coq Require Import List NArith ZArith Bool.
From GQ Require Export Lib.Base Model.Router Model.LocalCid.
Import ListNotations.
Local Open Scope N_scope.

Record cell := mkCell { a_alloc : list (N * cid); a_retired : bool; a_using : bool }.
Definition cell0 : cell := mkCell [] false false.
(* a cell id outside the store behaves as a retired cell (never happens: see Proofs) *)
Definition cellX : cell := mkCell [] true false.

Record rcids := mkR {
  r_coff : N; r_cids : list (option (N * cid));
  r_roff : N; r_ready : list nat;
  r_pending : list nat;
  r_limit : N; r_cursor : N;
  r_cells : list cell }.

Fixpoint upd {A} (l : list A) (i : nat) (v : A) : list A :=
  match l, i with
  | [], _ => []
  | _ :: r, O => v :: r
  | x :: r, S i' => x :: upd r i' v
  end.

Definition chk_coded (seq rpt limit : N) : bool := limit <? seq - rpt.
Definition chk_fixed (seq rpt limit : N) : bool := limit <? seq + 1 - rpt.
Definition no_pre (seq rpt limit : N) : bool := false.

Definition get_cell (cs : list cell) (p : nat) : cell := nth p cs cellX.

(* IndexDeque::get *)
Definition dq_get {A} (off : N) (l : list A) (idx : N) : option A :=
  if idx <? off then None else nth_error l (N.to_nat (idx - off)).

(* IndexDeque::insert for idx >= off: replace, or pad with the default and push *)
Definition dq_insert {A} (off : N) (l : list (option A)) (idx : N) (v : option A) : list (option A) :=
  let pos := N.to_nat (idx - off) in
  if (pos <? length l)%nat then upd l pos v
  else l ++ repeat None (pos - length l) ++ [v].

(* sequence numbers a, a+1, ..., a+n-1 *)
Fixpoint nseq (a : N) (n : nat) : list N :=
  match n with O => [] | S n' => a :: nseq (a + 1) n' end.
Definition nrange (a b : N) : list N := nseq a (N.to_nat (b - a)).

(* ---- CidCell ---- *)

(* pop_back while len > 1, one RETIRE_CONNECTION_ID each: oldest first *)
Definition trim (al : list (N * cid)) : list (N * cid) * list N :=
  match al with
  | [] => ([], [])
  | x :: r => ([x], map fst (rev r))
  end.

Definition cell_assign (c : cell) (seq : N) (id : cid) : cell * list N :=
  let al := (seq, id) :: a_alloc c in
  if a_using c then (mkCell al (a_retired c) true, [])
  else let '(al', fr) := trim al in (mkCell al' (a_retired c) false, fr).

Inductive borrow_res := BRetired | BPending | BCid (id : cid).

Definition cell_borrow (c : cell) : cell * borrow_res :=
  if a_retired c then (c, BRetired)
  else match a_alloc c with
       | [] => (c, BPending)
       | (_, id) :: _ => (mkCell (a_alloc c) (a_retired c) true, BCid id)
       end.

Definition cell_renew (c : cell) : cell * list N :=
  let '(al', fr) := trim (a_alloc c) in (mkCell al' (a_retired c) false, fr).

Definition cell_retire (c : cell) : cell * list N :=
  if a_retired c then (c, [])
  else (mkCell [] true (a_using c), map fst (a_alloc c)).

(* ---- RemoteCids ---- *)

(* arrange_idle_cid: one turn of the loop per pending cell looked at *)
Fixpoint arrange_loop (pend : list nat) (coff : N) (cids : list (option (N * cid)))
         (cursor : N) (cells : list cell) (ready : list nat)
  : list nat * N * list cell * list nat * list N :=
  match pend with
  | [] => ([], cursor, cells, ready, [])
  | p :: rest =>
      let c := get_cell cells p in
      if a_retired c then arrange_loop rest coff cids cursor cells ready
      else
        match dq_get coff cids cursor with
        | Some (Some (seq, id)) =>
            let '(c', fr) := cell_assign c seq id in
            let '(pend', cur', cells', ready', fr') :=
              arrange_loop rest coff cids (cursor + 1) (upd cells p c') (ready ++ [p]) in
            (pend', cur', cells', ready', fr ++ fr')
        | _ => (pend, cursor, cells, ready, [])
        end
  end.

Definition arrange (s : rcids) : rcids * list N :=
  let '(pend, cur, cells, ready, fr) :=
    arrange_loop (r_pending s) (r_coff s) (r_cids s) (r_cursor s) (r_cells s) (r_ready s) in
  (mkR (r_coff s) (r_cids s) (r_roff s) ready pend (r_limit s) cur cells, fr).

(* cells popped from the front of ready_cells: the live ones go to the back of pending_cells *)
Definition live_of (cells : list cell) (ps : list nat) : list nat :=
  filter (fun p => negb (a_retired (get_cell cells p))) ps.

Definition drain_ok (s : rcids) (tomb : N) : bool :=
  (r_coff s <=? tomb) && (tomb <=? r_coff s + lenN (r_cids s)).

Definition retire_prior_to (s : rcids) (tomb : N) : rcids * list N :=
  if tomb <=? r_roff s then (s, [])
  else
    (* cid_deque.drain_to(tomb), with the clamping of the release build *)
    let coff' := N.min (N.max tomb (r_coff s)) (r_coff s + lenN (r_cids s)) in
    let cids' := dropN (coff' - r_coff s) (r_cids s) in
    let cursor' := N.max (r_cursor s) tomb in
    match r_ready s with
    | [] =>
        (mkR coff' cids' tomb [] (r_pending s) (r_limit s) cursor' (r_cells s),
         nrange (r_roff s) tomb)
    | _ =>
        let applied := r_roff s + lenN (r_ready s) in
        let need := N.min applied tomb in
        let k := need - r_roff s in
        let popped := takeN k (r_ready s) in
        let ready' := dropN k (r_ready s) in
        let pend' := r_pending s ++ live_of (r_cells s) popped in
        if applied <? tomb then
          (mkR coff' cids' tomb ready' pend' (r_limit s) cursor' (r_cells s), nrange applied tomb)
        else
          (mkR coff' cids' need ready' pend' (r_limit s) cursor' (r_cells s), [])
    end.

Inductive newcid_res := NAccepted | NDiscarded | NErrLimit.

(* self.ready_cells.iter().filter(|c| c.is_retired()).count() *)
Definition retired_ready (s : rcids) : nat :=
  length (filter (fun p => a_retired (get_cell (r_cells s) p)) (r_ready s)).
(* self.cid_deque.iter().flatten().count().saturating_sub(retired): the ACTIVE peer IDs - stored and
   not yet retired by the path they were assigned to *)
Definition active (s : rcids) : N := N.of_nat (count_some (r_cids s) - retired_ready s).
Definition no_post (s : rcids) : bool := false.
Definition post_count (s : rcids) : bool := r_limit s <? active s.

Section Remote.
  Variable chk : N -> N -> N -> bool.
  Variable post : rcids -> bool.

  Definition recv_new_cid (s : rcids) (seq rpt : N) (id : cid) : rcids * list N * newcid_res :=
    if chk seq rpt (r_limit s) then (s, [], NErrLimit)
    else if seq <? r_coff s then (s, [], NDiscarded)
    else
      let s1 := mkR (r_coff s) (dq_insert (r_coff s) (r_cids s) seq (Some (seq, id)))
                    (r_roff s) (r_ready s) (r_pending s) (r_limit s) (r_cursor s) (r_cells s) in
      let '(s2, f1) := retire_prior_to s1 rpt in
      let '(s3, f2) := arrange s2 in
      (s3, f1 ++ f2, if post s3 then NErrLimit else NAccepted).
End Remote.

(* apply_dcid: a new cell at the back of pending_cells; returns its id *)
Definition apply_dcid (s : rcids) : rcids * nat * list N :=
  let p := length (r_cells s) in
  let s1 := mkR (r_coff s) (r_cids s) (r_roff s) (r_ready s) (r_pending s ++ [p])
                (r_limit s) (r_cursor s) (r_cells s ++ [cell0]) in
  let '(s2, fr) := arrange s1 in (s2, p, fr).

Fixpoint remove_first (p : nat) (l : list nat) : list nat :=
  match l with
  | [] => []
  | x :: r => if Nat.eqb x p then r else x :: remove_first p r
  end.

(* apply_initial_dcid(initial_dcid, cell p) on a fresh RemoteCids whose pending cells contain p:
   sequence 0, the handshake path first *)
Definition apply_initial_dcid (s : rcids) (id : cid) (p : nat) : rcids * list N :=
  let s1 := mkR 0 [Some (0, id)] (r_roff s) (r_ready s) (p :: remove_first p (r_pending s))
                (r_limit s) (r_cursor s) (r_cells s) in
  arrange s1.

Definition remote_empty (limit : N) : rcids := mkR 0 [] 0 [] [] limit 0 [].

Fixpoint apply_n (n : nat) (s : rcids) : rcids :=
  match n with
  | O => s
  | S n' => let '(s1, _, _) := apply_dcid s in apply_n n' s1
  end.

(* the state in which frames start to arrive: [npre] paths applied, then the first Initial
   packet processed on path [hs] *)
Definition remote_init (limit : N) (npre hs : nat) (id0 : cid) : rcids :=
  fst (apply_initial_dcid (apply_n npre (remote_empty limit)) id0 hs).

(* latest_dcid(): the last stored ID *)
Definition latest_dcid (s : rcids) : option cid :=
  match filter (fun o : option (N * cid) => match o with Some _ => true | None => false end) (rev (r_cids s)) with
  | Some (_, id) :: _ => Some id
  | _ => None
  end.

(* path-side operations on a cell *)
Definition path_borrow (s : rcids) (p : nat) : rcids * borrow_res :=
  let '(c', r) := cell_borrow (get_cell (r_cells s) p) in
  (mkR (r_coff s) (r_cids s) (r_roff s) (r_ready s) (r_pending s) (r_limit s) (r_cursor s)
       (upd (r_cells s) p c'), r).

Definition path_release (s : rcids) (p : nat) : rcids * list N :=
  let '(c', fr) := cell_renew (get_cell (r_cells s) p) in
  (mkR (r_coff s) (r_cids s) (r_roff s) (r_ready s) (r_pending s) (r_limit s) (r_cursor s)
       (upd (r_cells s) p c'), fr).

Definition path_retire (s : rcids) (p : nat) : rcids * list N :=
  let '(c', fr) := cell_retire (get_cell (r_cells s) p) in
  (mkR (r_coff s) (r_cids s) (r_roff s) (r_ready s) (r_pending s) (r_limit s) (r_cursor s)
       (upd (r_cells s) p c'), fr).
