(* Lemmas about Model/RemoteCid.v.
   Part 1: the two deques move together (cid_deque.offset = ready_cells.offset), the debug
           assertion of drain_to holds, and the stored IDs fit the limit for every SOUND limit
           check (chk_fixed is sound, chk_coded is not: F18).
   Part 2: the structural invariant (partition of the sequence numbers below the cursor into
           retired-once / held-by-one-cell, one ID per idle path, ready paths switched, no idle
           ID while a path waits). *)
From Coq Require Import List NArith ZArith Bool Lia Permutation.
From GQ Require Import Lib.Base Model.Router Model.RemoteCid Proofs.LocalCid.
Import ListNotations.
Local Open Scope N_scope.

(* ------------------------------------------------------------------ *)
(* Part 1 *)

Lemma lenN_dropN : forall A k (l : list A), lenN (dropN k l) = lenN l - k.
Proof. intros. unfold lenN, dropN. rewrite skipn_length. lia. Qed.

Lemma lenN_takeN : forall A k (l : list A), lenN (takeN k l) = N.min k (lenN l).
Proof. intros. unfold lenN, takeN. rewrite firstn_length. lia. Qed.

Lemma upd_length : forall A (l : list A) i v, length (upd l i v) = length l.
Proof. induction l; destruct i; intros; cbn; auto. Qed.

Lemma dq_insert_length : forall A off (l : list (option A)) idx v,
  off <= idx -> lenN (dq_insert off l idx v) = N.max (lenN l) (idx - off + 1).
Proof.
  intros A off l idx v H. unfold dq_insert, lenN.
  destruct (N.to_nat (idx - off) <? length l)%nat eqn:E.
  - apply Nat.ltb_lt in E. rewrite upd_length. lia.
  - apply Nat.ltb_ge in E. rewrite !app_length, repeat_length. cbn [length]. lia.
Qed.

Lemma arrange_fields : forall s s' fr, arrange s = (s', fr) ->
  r_coff s' = r_coff s /\ r_cids s' = r_cids s /\ r_roff s' = r_roff s /\ r_limit s' = r_limit s.
Proof.
  intros s s' fr H. unfold arrange in H.
  destruct (arrange_loop (r_pending s) (r_coff s) (r_cids s) (r_cursor s) (r_cells s) (r_ready s))
    as [[[[pend cur] cells] ready] fr0].
  inversion H; subst. cbn. auto.
Qed.

Lemma rpt_noop : forall s tomb, tomb <= r_roff s -> retire_prior_to s tomb = (s, []).
Proof. intros. unfold retire_prior_to. replace (tomb <=? r_roff s) with true by (symmetry; apply N.leb_le; lia). reflexivity. Qed.

Lemma rpt_fields : forall s tomb s' fr,
  retire_prior_to s tomb = (s', fr) -> r_roff s < tomb ->
  r_limit s' = r_limit s /\ r_cells s' = r_cells s /\ r_roff s' = tomb /\
  r_coff s' = N.min (N.max tomb (r_coff s)) (r_coff s + lenN (r_cids s)) /\
  r_cids s' = dropN (r_coff s' - r_coff s) (r_cids s) /\
  r_cursor s' = N.max (r_cursor s) tomb.
Proof.
  intros s tomb s' fr H Hlt. unfold retire_prior_to in H.
  replace (tomb <=? r_roff s) with false in H by (symmetry; apply N.leb_gt; lia).
  destruct (r_ready s) as [|p0 rd] eqn:ER.
  - inversion H; subst. cbn. auto 10.
  - destruct (r_roff s + lenN (p0 :: rd) <? tomb) eqn:E; inversion H; subst;
      cbn [r_limit r_cells r_roff r_coff r_cids r_cursor].
    + auto 10.
    + apply N.ltb_ge in E. split; [reflexivity|split; [reflexivity|split; [lia|auto]]].
Qed.

Definition sound_chk (chk : N -> N -> N -> bool) : Prop :=
  forall seq rpt lim, chk seq rpt lim = false -> seq + 1 - rpt <= lim.

Lemma chk_fixed_sound : sound_chk chk_fixed.
Proof. intros seq rpt lim H. unfold chk_fixed in H. apply N.ltb_ge in H. exact H. Qed.

(* deques aligned *)
Definition Aligned (s : rcids) : Prop := r_coff s = r_roff s.
(* stored IDs (holes included) fit the limit *)
Definition Fits (s : rcids) : Prop := lenN (r_cids s) <= r_limit s.

Section Chk.
  Variable chk : N -> N -> N -> bool.
  Variable post : rcids -> bool.

  (* the state just after cid_deque.insert(seq, ..) *)
  Definition inserted (s : rcids) (seq : N) (id : cid) : rcids :=
    mkR (r_coff s) (dq_insert (r_coff s) (r_cids s) seq (Some (seq, id)))
        (r_roff s) (r_ready s) (r_pending s) (r_limit s) (r_cursor s) (r_cells s).

  Lemma recv_unfold : forall s seq rpt id,
    chk seq rpt (r_limit s) = false -> r_coff s <= seq ->
    recv_new_cid chk post s seq rpt id =
      (let '(s2, f1) := retire_prior_to (inserted s seq id) rpt in
       let '(s3, f2) := arrange s2 in (s3, f1 ++ f2, if post s3 then NErrLimit else NAccepted)).
  Proof.
    intros. unfold recv_new_cid. rewrite H.
    replace (seq <? r_coff s) with false by (symmetry; apply N.ltb_ge; lia). reflexivity.
  Qed.

  Lemma recv_rejected : forall s seq rpt id,
    chk seq rpt (r_limit s) = true -> recv_new_cid chk post s seq rpt id = (s, [], NErrLimit).
  Proof. intros. unfold recv_new_cid. rewrite H. reflexivity. Qed.

  Lemma recv_discarded : forall s seq rpt id,
    chk seq rpt (r_limit s) = false -> seq < r_coff s -> recv_new_cid chk post s seq rpt id = (s, [], NDiscarded).
  Proof.
    intros. unfold recv_new_cid. rewrite H.
    replace (seq <? r_coff s) with true by (symmetry; apply N.ltb_lt; lia). reflexivity.
  Qed.

  (* IndexDeque::drain_to's debug assertion holds whenever retire_prior_to drains *)
  Lemma p_drain_ok : forall s seq rpt id,
    Aligned s -> rpt <= seq -> r_coff s <= seq -> r_roff s < rpt ->
    drain_ok (inserted s seq id) rpt = true.
  Proof.
    intros s seq rpt id HA H1 H2 H3. unfold drain_ok, Aligned in *. cbn [inserted r_coff r_cids].
    rewrite dq_insert_length by assumption. apply andb_true_intro. split; apply N.leb_le; lia.
  Qed.

  Lemma recv_aligned : forall s seq rpt id s' fr res,
    Aligned s -> rpt <= seq -> recv_new_cid chk post s seq rpt id = (s', fr, res) ->
    Aligned s' /\ r_limit s' = r_limit s /\
    (chk seq rpt (r_limit s) = false -> r_coff s <= seq ->
       r_coff s' = N.max (r_coff s) rpt /\
       lenN (r_cids s') = N.max (r_coff s + lenN (r_cids s)) (seq + 1) - r_coff s').
  Proof.
    intros s seq rpt id s' fr res HA Hrs H. unfold Aligned in *.
    destruct (chk seq rpt (r_limit s)) eqn:EC.
    { rewrite recv_rejected in H by assumption. inversion H; subst. split; [assumption|split; [reflexivity|congruence]]. }
    destruct (N.ltb_spec seq (r_coff s)) as [Hlt|Hge].
    { rewrite recv_discarded in H by assumption. inversion H; subst. split; [assumption|split; [reflexivity|intros; lia]]. }
    rewrite recv_unfold in H by assumption.
    destruct (retire_prior_to (inserted s seq id) rpt) as [s2 f1] eqn:E2.
    destruct (arrange s2) as [s3 f2] eqn:E3. inversion H; subst.
    apply arrange_fields in E3. destruct E3 as [B1 [B2 [B3 B4]]].
    pose proof (dq_insert_length _ (r_coff s) (r_cids s) seq (Some (seq, id)) Hge) as HL.
    destruct (N.leb_spec rpt (r_roff s)) as [Hle|Hgt].
    - rewrite rpt_noop in E2 by (cbn; lia). inversion E2; subst.
      rewrite B1, B2, B3, B4. cbn [inserted r_coff r_roff r_limit r_cids].
      split; [assumption|split; [reflexivity|]]. intros _ _. rewrite HL. lia.
    - apply rpt_fields in E2; [|cbn; lia]. destruct E2 as [C1 [C2 [C3 [C4 [C5 C6]]]]].
      cbn [inserted r_coff r_roff r_limit r_cids] in *.
      rewrite B1, B2, B3, B4, C1.
      assert (r_coff s2 = rpt) by (rewrite C4, HL; lia).
      split; [lia|split; [reflexivity|]]. intros _ _. rewrite C5, lenN_dropN, HL. lia.
  Qed.

  Lemma recv_fits : forall s seq rpt id s' fr res,
    sound_chk chk -> Aligned s -> Fits s -> rpt <= seq ->
    recv_new_cid chk post s seq rpt id = (s', fr, res) -> Fits s'.
  Proof.
    intros s seq rpt id s' fr res HS HA HF Hrs H. unfold Fits in *.
    destruct (chk seq rpt (r_limit s)) eqn:EC.
    { rewrite recv_rejected in H by assumption. inversion H; subst. assumption. }
    destruct (N.ltb_spec seq (r_coff s)) as [Hlt|Hge].
    { rewrite recv_discarded in H by assumption. inversion H; subst. assumption. }
    pose proof (recv_aligned _ _ _ _ _ _ _ HA Hrs H) as [_ [HL HX]].
    destruct (HX EC Hge) as [X1 X2]. apply HS in EC. rewrite HL, X2, X1. unfold Aligned in HA. lia.
  Qed.
End Chk.

(* the frame processed, whatever the verdict: insert, retire_prior_to, arrange_idle_cid *)
Definition processed (s : rcids) (seq rpt : N) (id : cid) : rcids * list N :=
  let '(s2, f1) := retire_prior_to (inserted s seq id) rpt in
  let '(s3, f2) := arrange s2 in (s3, f1 ++ f2).

Lemma rpt_limit : forall s tomb, r_limit (fst (retire_prior_to s tomb)) = r_limit s.
Proof.
  intros s tomb. destruct (N.leb_spec tomb (r_roff s)) as [Hle|Hgt].
  - rewrite rpt_noop by assumption. reflexivity.
  - destruct (retire_prior_to s tomb) as [s' fr] eqn:E. apply rpt_fields in E; [|assumption]. cbn [fst]. tauto.
Qed.

Lemma processed_limit : forall s seq rpt id, r_limit (fst (processed s seq rpt id)) = r_limit s.
Proof.
  intros. unfold processed. pose proof (rpt_limit (inserted s seq id) rpt) as H1.
  destruct (retire_prior_to (inserted s seq id) rpt) as [s2 f1]. destruct (arrange s2) as [s3 f2] eqn:E3.
  apply arrange_fields in E3. cbn [fst] in *. destruct E3 as [_ [_ [_ E4]]]. rewrite E4, H1. reflexivity.
Qed.

Lemma recv_limit : forall chk post s seq rpt id,
  r_limit (fst (fst (recv_new_cid chk post s seq rpt id))) = r_limit s.
Proof.
  intros. unfold recv_new_cid. destruct (chk seq rpt (r_limit s)); [reflexivity|].
  destruct (seq <? r_coff s); [reflexivity|].
  pose proof (processed_limit s seq rpt id) as H. unfold processed, inserted in H.
  destruct (retire_prior_to _ rpt) as [s2 f1]. destruct (arrange s2) as [s3 f2]. exact H.
Qed.

(* the RFC-exact check: no test before processing, the verdict is the count afterwards *)
Lemma recv_count_spec : forall s seq rpt id,
  recv_new_cid no_pre post_count s seq rpt id =
  if seq <? r_coff s then (s, [], NDiscarded)
  else let '(s3, fr) := processed s seq rpt id in
       (s3, fr, if r_limit s <? active s3 then NErrLimit else NAccepted).
Proof.
  intros. unfold recv_new_cid, no_pre. destruct (seq <? r_coff s); [reflexivity|].
  pose proof (processed_limit s seq rpt id) as HL. unfold processed, inserted in *.
  destruct (retire_prior_to _ rpt) as [s2 f1]. destruct (arrange s2) as [s3 f2]. cbn [fst] in HL.
  unfold post_count. rewrite HL. reflexivity.
Qed.

(* the two checks differ exactly on the class `sequence - retire_prior_to = limit` (F18) *)
Lemma chk_agree : forall seq rpt lim,
  rpt <= seq -> seq - rpt <> lim -> chk_coded seq rpt lim = chk_fixed seq rpt lim.
Proof.
  intros. unfold chk_coded, chk_fixed.
  destruct (N.ltb_spec lim (seq - rpt)); destruct (N.ltb_spec lim (seq + 1 - rpt)); try reflexivity; lia.
Qed.

Lemma apply_fields : forall s s' p fr, apply_dcid s = (s', p, fr) ->
  r_coff s' = r_coff s /\ r_cids s' = r_cids s /\ r_roff s' = r_roff s /\ r_limit s' = r_limit s.
Proof.
  intros s s' p fr H. unfold apply_dcid in H.
  match type of H with context [arrange ?x] => destruct (arrange x) as [s2 f2] eqn:E end.
  inversion H; subst. apply arrange_fields in E. cbn in E. exact E.
Qed.
