(* Model of qrecovery/src/journal/sent.rs: SentJournal<T> (flat frame queue + one record per
   packet number in an IndexDeque), NewPacketGuard and SentRotateGuard.  Definitions only.

   Frames are opaque integers.  (s_off, s_recs) is the IndexDeque<SentPktState, VARINT_MAX>;
   the next packet number is s_off + |s_recs| (`IndexDeque::largest`).  A guard holds the
   mutex for its whole life, so a whole packet assembly ([new_packet] with a script) and a
   whole ACK processing ([rotate] with a script) are single steps; every interleaving of
   guards is a sequence of such steps.  NewPacketGuard has no Drop impl: an abandoned guard
   leaves whatever it pushed with record_frame in the queue (the model does the same).
   Panic sites (`expect`, `assert!`, out-of-range `range_mut`/`drain`, PacketNumber::encode)
   are explicit outcomes. *)
From Coq Require Import List ZArith Bool.
From GQ Require Export Model.Pn.
Import ListNotations.
Local Open Scope Z_scope.

Inductive sstate :=
| SSkipped
| SFlight (n : nat) (sent exp retran : Z)
| SRetrans (n : nat) (sent exp : Z)
| SAcked (n : nat) (sent exp : Z).

Definition nframes (s : sstate) : nat :=
  match s with SSkipped => O | SFlight n _ _ _ | SRetrans n _ _ | SAcked n _ _ => n end.

Definition be_acked (s : sstate) : sstate * nat :=
  match s with
  | SSkipped => (s, O)
  | SFlight n sent exp _ => (SAcked n sent exp, n)
  | SRetrans n sent exp => (SAcked n sent exp, n)
  | SAcked _ _ _ => (s, O)
  end.

Definition maybe_lost (s : sstate) : sstate * nat :=
  match s with
  | SFlight n sent exp _ => (SRetrans n sent exp, n)
  | SRetrans n _ _ => (s, n)
  | _ => (s, O)
  end.

Definition should_retransmit_after (now : Z) (s : sstate) : sstate * bool :=
  match s with
  | SFlight n sent exp retran => if retran <? now then (SRetrans n sent exp, true) else (s, false)
  | _ => (s, false)
  end.

Definition should_remain_after (now : Z) (s : sstate) : bool :=
  match s with
  | SSkipped => false
  | SFlight _ _ _ _ => true
  | SRetrans _ _ exp => now <? exp
  | SAcked _ _ _ => false
  end.

Record sjournal := mksj { s_queue : list Z; s_off : Z; s_recs : list sstate; s_la : Z }.
Definition sj_new : sjournal := mksj [] 0 [] 0.
Definition s_next (j : sjournal) : Z := s_off j + Z.of_nat (length (s_recs j)).
Definition SLIMIT : Z := 2^62 - 1.

Fixpoint sumn (l : list sstate) : nat :=
  match l with [] => O | s :: r => (nframes s + sumn r)%nat end.

Definition s_get (j : sjournal) (pn : Z) : option sstate :=
  if (s_off j <=? pn) && (pn <? s_next j) then nth_error (s_recs j) (Z.to_nat (pn - s_off j)) else None.

Fixpoint upd_nth {A} (n : nat) (x : A) (l : list A) : list A :=
  match l, n with
  | [], _ => []
  | _ :: r, O => x :: r
  | y :: r, S k => y :: upd_nth k x r
  end.

(* shared shape of on_packet_acked / may_loss_packet: [f] is be_acked or maybe_lost.
   None = `range_mut(offset..offset+len)` out of bounds (panic) *)
Definition feed (f : sstate -> sstate * nat) (j : sjournal) (pn : Z) : option (sjournal * list Z) :=
  let before := firstn (Z.to_nat (pn - s_off j)) (s_recs j) in     (* take_while(idx < pn) *)
  let offset := sumn before in
  let '(recs', len) :=
    match s_get j pn with
    | Some s => let '(s', n) := f s in (upd_nth (Z.to_nat (pn - s_off j)) s' (s_recs j), n)
    | None => (s_recs j, O)
    end in
  if (length (s_queue j) <? offset + len)%nat then None
  else Some (mksj (s_queue j) (s_off j) recs' (s_la j), firstn len (skipn offset (s_queue j))).

Definition on_packet_acked := feed be_acked.
Definition may_loss_packet := feed maybe_lost.

(* resize: drop the leading records that need not remain, and their frames.
   None = `drain(..f)` out of bounds *)
Fixpoint resize_count (now : Z) (l : list sstate) : nat * nat :=
  match l with
  | s :: r => if should_remain_after now s then (O, O)
              else let '(n, f) := resize_count now r in (S n, (nframes s + f)%nat)
  | [] => (O, O)
  end.

Definition resize (j : sjournal) (now : Z) : option sjournal :=
  let '(n, f) := resize_count now (s_recs j) in
  if (length (s_queue j) <? f)%nat then None
  else Some (mksj (skipn f (s_queue j)) (s_off j + Z.of_nat n) (skipn n (s_recs j)) (s_la j)).

(* fast_retransmit after its resize: walk the records with pn < largest_acked, keeping the
   running frame offset; a record that turns Retransmitted contributes its frames *)
Fixpoint fr_walk (now : Z) (k : nat) (l : list sstate) (q : list Z) : list sstate * list Z :=
  match k, l with
  | S k', s :: r =>
      let '(s', b) := should_retransmit_after now s in
      let '(r', out) := fr_walk now k' r (skipn (nframes s) q) in
      (s' :: r', if b then firstn (nframes s) q ++ out else out)
  | _, _ => (l, [])
  end.

Definition fast_retransmit (j : sjournal) (now : Z) : option (sjournal * list Z) :=
  match resize j now with
  | None => None
  | Some j1 =>
      let k := Z.to_nat (s_la j1 - s_off j1) in
      if (length (s_queue j1) <? sumn (firstn k (s_recs j1)))%nat then None     (* queue.range(r) *)
      else
        let '(recs', out) := fr_walk now k (s_recs j1) (s_queue j1) in
        Some (mksj (s_queue j1) (s_off j1) recs' (s_la j1), out)
  end.

(* update_largest: true = Ok.  `largest >= sent_packets.largest()` (the next packet number to be
   sent) is an acknowledgement of a packet never sent: PROTOCOL_VIOLATION (fix of F8; was `>`) *)
Definition update_largest (j : sjournal) (largest : Z) : sjournal * bool :=
  if s_next j <=? largest then (j, false)
  else (mksj (s_queue j) (s_off j) (s_recs j) (Z.max (s_la j) largest), true).

(* ---- SentRotateGuard life: a list of sub-operations, then Drop = resize ---- *)
Inductive rot_op := RoAcked (pn : Z) | RoLost (pn : Z) | RoFast | RoLargest (v : Z).

Definition PANIC : Z := -77.

Fixpoint rot_run (j : sjournal) (now : Z) (ops : list rot_op) : option sjournal * list Z :=
  match ops with
  | [] => (Some j, [])
  | o :: rest =>
      let r :=
        match o with
        | RoAcked pn => match on_packet_acked j pn with Some (j', out) => Some (j', Z.of_nat (length out) :: out) | None => None end
        | RoLost pn => match may_loss_packet j pn with Some (j', out) => Some (j', Z.of_nat (length out) :: out) | None => None end
        | RoFast => match fast_retransmit j now with Some (j', out) => Some (j', Z.of_nat (length out) :: out) | None => None end
        | RoLargest v => let '(j', ok) := update_largest j v in Some (j', [if ok then 0 else 1])
        end in
      match r with
      | None => (None, [PANIC])
      | Some (j', out) => let '(jr, outs) := rot_run j' now rest in (jr, out ++ outs)
      end
  end.

Definition rotate (j : sjournal) (now : Z) (ops : list rot_op) : option sjournal * list Z :=
  match rot_run j now ops with
  | (Some j', outs) => match resize j' now with Some j'' => (Some j'', outs) | None => (None, outs ++ [PANIC]) end
  | (None, outs) => (None, outs)
  end.

(* ---- NewPacketGuard life ---- *)
Inductive np_mode := NpBuildTime | NpBuildTrivial | NpAbandon.
Record np_script := mknp { np_frames : list Z; np_trivial : bool; np_mode_ : np_mode; np_retran : Z; np_expire : Z }.

(* push_back on the record deque; None = `expect("packet number never overflow")` *)
Definition push_rec (j : sjournal) (q : list Z) (s : sstate) : option sjournal :=
  if SLIMIT <? s_next j then None else Some (mksj q (s_off j) (s_recs j ++ [s]) (s_la j)).

(* result: the journal afterwards (None = a panic while the guard held the mutex), the packet
   number handed out with its encoded form (None = PacketNumber::encode panicked), and whether
   a record was pushed, i.e. the packet number was consumed *)
Definition new_packet (j : sjournal) (now : Z) (sc : np_script) : option sjournal * option (Z * pnum) * bool :=
  let pn := s_next j in
  match encode pn (s_la j) with
  | EncOk e =>
      let q := s_queue j ++ np_frames sc in                          (* record_frame … *)
      let nf := length (np_frames sc) in
      match np_mode_ sc with
      | NpAbandon => (Some (mksj q (s_off j) (s_recs j) (s_la j)), Some (pn, e), false)
      | NpBuildTime =>
          if np_trivial sc && (nf =? 0)%nat then
            match push_rec j q SSkipped with Some j' => (Some j', Some (pn, e), true) | None => (None, Some (pn, e), false) end
          else if (0 <? nf)%nat then
            match push_rec j q (SFlight nf now (now + np_expire sc) (now + np_retran sc)) with
            | Some j' => (Some j', Some (pn, e), true) | None => (None, Some (pn, e), false) end
          else (Some (mksj q (s_off j) (s_recs j) (s_la j)), Some (pn, e), false)
      | NpBuildTrivial =>
          if negb (nf =? 0)%nat then (None, Some (pn, e), false)          (* assert_eq!(len, origin_len) *)
          else if negb (np_trivial sc) then (None, Some (pn, e), false)   (* assert!(trivial) *)
          else match push_rec j q SSkipped with Some j' => (Some j', Some (pn, e), true) | None => (None, Some (pn, e), false) end
      end
  | _ => (None, None, false)
  end.

(* ---- canonical dump ---- *)
Definition dump_sstate (s : sstate) : list Z :=
  match s with
  | SSkipped => [0]
  | SFlight n sent exp retran => [1; Z.of_nat n; sent; exp; retran]
  | SRetrans n sent exp => [2; Z.of_nat n; sent; exp]
  | SAcked n sent exp => [3; Z.of_nat n; sent; exp]
  end.
Definition dump_sj (j : sjournal) : list Z :=
  [s_off j; Z.of_nat (length (s_recs j)); s_la j; Z.of_nat (length (s_queue j))]
  ++ s_queue j ++ flat_map dump_sstate (s_recs j).
