#!/bin/bash
# seed_confirm.sh <mutdir> <K> <crate> <demo command...>  : runs the demo without / with the change and the crate's tests with it
M=$1; K=$2; CRATE=$3; shift 3; DEMO="$*"
R=$M/repo; LOG=$M/out/confirm$K.log
cd $R && git checkout -q -- . && git clean -fdq -e target
echo "== baseline demo" > $LOG; (cd $R && eval "$DEMO") >> $LOG 2>&1; B=$?
git -C $R apply $M/out/change$K.diff || { echo "APPLY FAILED" >> $LOG; exit 1; }
echo "== demo with change" >> $LOG; (cd $R && eval "$DEMO") >> $LOG 2>&1; C=$?
echo "== crate tests with change" >> $LOG; (cd $R && cargo test -p $CRATE --offline --lib) >> $LOG 2>&1; T=$?
cd $R && git checkout -q -- . && git clean -fdq -e target
echo "RESULT $M change$K baseline_demo_rc=$B changed_demo_rc=$C crate_tests_rc=$T" | tee -a $LOG
