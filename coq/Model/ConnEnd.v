(* Model of the END of a connection as the applications of both endpoints observe it (C17, stream
   `connend`): application operations of every kind are left pending on the client and on the server
   while the connection is ended by a local Connection::close (qconnection Components::enter_closing),
   by the peer's CONNECTION_CLOSE (Components::enter_draining) after the handshake, or by the server
   refusing the client while it processes the ClientHello (enter_draining on the client BEFORE it has
   seen the server's transport parameters).

   The model is at the level of the property: which operation completes at which observation point
   and how (Ok / the terminating error).  The stack itself (TLS, packets, timers) is not modelled;
   the network is the harness' loss-free 5 ms link and the generator keeps every observation either
   before anything crossed the link (< 5 ms after the event) or after everything settled (>= 500 ms).
   Definitions only. *)
From Coq Require Import List NArith ZArith Bool.
From GQ Require Export Lib.Base.
Import ListNotations.
Local Open Scope N_scope.

Definition LAT : N := 5.          (* one-way latency of the harness network, virtual ms *)
Definition SETTLE : N := 500.     (* everything in flight has been processed *)

Record ce := mkce {
  e_refuse : bool;                       (* the server refuses the client at the ClientHello *)
  e_now : N;                             (* virtual ms since the client connection was created *)
  e_hs : bool;                           (* the handshake completed on both endpoints *)
  e_term : option N * option N;          (* instant at which terminated() resolves on client / server *)
  e_tasks : list (N * (N * N)) }.        (* pending application operations: tid, (side, kind); ascending *)

Definition tget (p : option N * option N) (s : N) : option N := if s =? 0 then fst p else snd p.
Definition tset (p : option N * option N) (s : N) (v : option N) : option N * option N :=
  if s =? 0 then (v, snd p) else (fst p, v).
Definition omin (o : option N) (t : N) : option N :=
  match o with Some x => Some (N.min x t) | None => Some t end.

Definition dead_at (m : ce) (s t : N) : bool :=
  match tget (e_term m) s with Some x => x <=? t | None => false end.
(* the client's connection object exists from the start, the server's once its handshake completed *)
Definition visible (m : ce) (s : N) : bool := (s =? 0) || e_hs m.

(* kinds: 1 open_bi 2 open_uni 3 accept_bi 4 accept_uni 5 datagram recv 6 datagram_writer() 7 handshaked()
          8 terminated() 9 open_bi then read.  Nobody sends application data, so only the operations that
   wait for the handshake alone complete Ok *)
Definition completes_at_handshake (k : N) : bool := (k =? 1) || (k =? 2) || (k =? 6) || (k =? 7).
Definition single_slot (k : N) : bool := (k =? 3) || (k =? 4) || (k =? 5).

(* how a pending operation of kind k on side s stands at instant t: Some 2 = completed with the
   terminating error, Some 1 = completed Ok, None = still pending *)
Definition verdict (m : ce) (t : N) (s k : N) : option Z :=
  if dead_at m s t then Some 2%Z
  else if e_hs m && completes_at_handshake k then Some 1%Z
  else None.

Definition with_time (m : ce) (now : N) (hs : bool) : ce := mkce (e_refuse m) now hs (e_term m) (e_tasks m).
Definition with_tasks (m : ce) (l : list (N * (N * N))) : ce := mkce (e_refuse m) (e_now m) (e_hs m) (e_term m) l.
Definition with_term (m : ce) (p : option N * option N) : ce := mkce (e_refuse m) (e_now m) (e_hs m) p (e_tasks m).

(* ADVANCE: first whatever is runnable at the old instant runs (phase A), then time passes: the
   handshake completes if nothing ended the connection before, a CONNECTION_CLOSE in flight arrives
   (phase B).  One pass over the pending operations in tid order: (completions, still pending) *)
Fixpoint sweep (a b : ce) (l : list (N * (N * N))) : list Z * list (N * (N * N)) :=
  match l with
  | [] => ([], [])
  | (t, (s, k)) :: r =>
    let '(o, p) := sweep a b r in
    match verdict a (e_now a) s k with
    | Some c => (Z.of_N t :: c :: o, p)
    | None =>
      match verdict b (e_now b) s k with
      | Some c => (Z.of_N t :: c :: o, p)
      | None => (o, (t, (s, k)) :: p)
      end
    end
  end.

Definition advance (m : ce) (ms : N) : ce * list Z :=
  let now' := e_now m + N.min ms 100000 in
  let hs' := e_hs m || (negb (e_refuse m) && (SETTLE <=? now') && match fst (e_term m) with None => true | Some _ => false end) in
  let b := with_time m now' hs' in
  let '(o, p) := sweep m b (e_tasks m) in
  let m' := with_tasks b p in
  (m', [Z.of_N now'; Z.of_N (lenN o / 2)] ++ o ++
       [Z.b2z (dead_at m' 0 now'); Z.b2z (e_hs m' && dead_at m' 1 now')]).

Definition start (m : ce) (idx s k : N) : ce * list Z :=
  if negb (visible m s) then (m, [(-1)%Z])
  else if single_slot k && existsb (fun x => (fst (snd x) =? s) && (snd (snd x) =? k)) (e_tasks m) then (m, [(-2)%Z])
  else if (k =? 0) || (9 <? k) then (m, [(-99)%Z])
  else (with_tasks m (e_tasks m ++ [(idx, (s, k))]), [Z.of_N idx]).

(* Connection::close on side s: that endpoint terminates at once (enter_closing), the CONNECTION_CLOSE
   reaches the other one a latency later (enter_draining) *)
Definition close (m : ce) (s : N) : ce * list Z :=
  if negb (visible m s) then (m, [(-1)%Z])
  else if dead_at m s (e_now m) then (m, [1%Z])
  else
    let p1 := tset (e_term m) s (omin (tget (e_term m) s) (e_now m)) in
    let p2 := tset p1 (1 - s) (omin (tget p1 (1 - s)) (e_now m + LAT)) in
    (with_term m p2, [0%Z]).

Definition ce_step (m : ce) (idx : N) (tag : N) (a : list Z) : ce * list Z :=
  match tag, a with
  | 1, [s; k] => start m idx (N.min (Z.to_N s) 1) (Z.to_N k)
  | 2, [ms] => advance m (Z.to_N ms)
  | 3, [s; c] => close m (N.min (Z.to_N s) 1)
  | _, _ => (m, [(-99)%Z])
  end.

Fixpoint ce_run (m : ce) (idx : N) (ops : list (N * list Z)) : list (list Z) :=
  match ops with
  | [] => []
  | (t, a) :: r => let '(m', o) := ce_step m idx t a in o :: ce_run m' (idx + 1) r
  end.

Fixpoint ce_exec (m : ce) (idx : N) (ops : list (N * list Z)) : ce :=
  match ops with
  | [] => m
  | (t, a) :: r => ce_exec (fst (ce_step m idx t a)) (idx + 1) r
  end.

(* a refused client is told by the server's CONNECTION_CLOSE one round trip after it started *)
Definition ce_init (cfg : list Z) : ce :=
  let refuse := match cfg with r :: _ => (r =? 1)%Z | [] => false end in
  mkce refuse 0 false (if refuse then Some (2 * LAT) else None, None) [].

Definition run_connend (cfg : list Z) (ops : list (N * list Z)) : list (list Z) := ce_run (ce_init cfg) 0 ops.
