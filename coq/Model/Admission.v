(* Admission by size: how frames are admitted into the remaining space of a packet.
   qbase/src/packet/io.rs (Package::dump for frames), qbase/src/frame/stream.rs (encoding_strategy,
   estimate_max_capacity), qbase/src/frame/crypto.rs (estimate_max_capacity), and their use in
   qrecovery/src/send/outgoing.rs::try_load_data_into / qrecovery/src/crypto.rs.  Definitions only. *)
From Coq Require Import List ZArith NArith Bool.
From GQ Require Export Model.Frames.
Import ListNotations.
Local Open Scope Z_scope.

(* frame_packages!: `remaining >= max_encoding_size || remaining >= encoding_size` *)
Definition admitted (remaining : Z) (f : frame) : bool :=
  (max_encoding_size f <=? remaining) || (encoding_size f <=? remaining).

Definition STREAM_FRAME_MAX_ENCODING_SIZE : Z := 25.

(* StreamFrame::estimate_max_capacity *)
Definition stream_least (sid off : Z) : Z := 1 + varint_size sid + (if off =? 0 then 0 else varint_size off).
Definition stream_estimate (capacity sid off : Z) : option Z :=
  let least := stream_least sid off in
  if capacity <=? least then None else Some (capacity - least).

(* StreamFrame::encoding_strategy; None = the `assert!(encoding_size_without_length <= capacity)` panics *)
Definition encoding_strategy (capacity sid off len : Z) : option (bool * Z) :=   (* (explicit length?, pre_padding) *)
  let without := stream_least sid off + len in
  if capacity <? without then None else
  let remaining := capacity - without in
  let lsz := varint_size len in
  if lsz <=? remaining then
    let rem2 := remaining - lsz in
    if rem2 <? STREAM_FRAME_MAX_ENCODING_SIZE then Some (true, rem2) else Some (true, 0)
  else Some (false, remaining).

(* CryptoFrame::estimate_max_capacity; outer None = the `unreachable!` arm, inner None = checked_sub failed *)
Definition crypto_estimate (capacity off : Z) : option (option Z) :=
  let need := 1 + varint_size off + 2 in
  if capacity <? need then Some None else
  let r := capacity - need in
  if r <=? 62 then Some (Some (r + 1))
  else if r <=? 16383 then Some (Some r)
  else if r <=? 16385 then Some (Some 16383)
  else if r <=? 1073741825 then Some (Some (r - 2))
  else None.

(* what try_load_data_into writes for a picked range of [len] bytes: padding, then the frame *)
Definition stream_written (sid off len : Z) (explicit : bool) (pad : Z) : Z :=
  pad + stream_least sid off + (if explicit then varint_size len else 0) + len.
