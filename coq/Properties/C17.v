(* C17 — closing or failing a connection ends every pending operation.
   Only the property theorems live here; proofs are in Proofs/ConnState.v, Proofs/ConnError.v and
   Proofs/Idle.v. *)
From Coq Require Import List ZArith NArith Bool.
From GQ Require Import Model.ConnState Model.Idle Model.ConnError Model.ConnEnd Proofs.ConnEnd Proofs.ConnState Proofs.Idle Proofs.ConnError Proofs.ConnErrorLater Proofs.ConnErrorClean Proofs.ConnErrorFlag.
Import ListNotations.

(* ---------------------------------------------------------------- the state word *)
(* for any set of racing callers (local close, the peer's CONNECTION_CLOSE, protocol errors, the
   handshake, bare updates, Terminated) and any schedule of their atomic steps, the state code at a
   later point of the execution is never below the code at an earlier point *)
Theorem c17_monotone : forall calls s1 s2,
  (word (g_sh (grun (g_init calls) s1)) <= word (g_sh (grun (g_init calls) (s1 ++ s2))))%N.
Proof. exact p_c17_monotone. Qed.

(* the codes regenerated from state.rs are ordered as the life cycle *)
Theorem c17_order :
  (initial_word < attempted_code /\ attempted_code < confirmed_code /\ confirmed_code < closing_code /\
   closing_code < draining_code /\ draining_code < closed_code)%N.
Proof. exact p_c17_order. Qed.

Theorem c17_table :
  Forall (fun sc => encode (fst sc) = Some (snd sc) /\ decode (snd sc) = Some (fst sc) /\
                    (0 < snd sc)%N /\ (snd sc < 256)%N) state_table.
Proof. exact p_c17_table. Qed.

(* the terminating error is fixed once: under every schedule no expect()/unreachable!() fires, the
   error never changes once set, is set only from the closing code on, and is set whenever the
   closing code was reached and nobody is in the middle of a call *)
Theorem c17_error_once : forall calls sched,
  Forall (fun c => wf_call c = true) calls ->
  let g := grun (g_init calls) sched in
  Forall (fun t => panicked t = false) (g_tasks g) /\
  (forall e sched', term (g_sh g) = Some e -> term (g_sh (grun g sched')) = Some e) /\
  (term (g_sh g) <> None -> (closing_code <= word (g_sh g))%N) /\
  (quiescent g = true -> (closing_code <= word (g_sh g))%N -> term (g_sh g) <> None) /\
  (hs (g_sh g) = true -> (confirmed_code <= word (g_sh g))%N).
Proof. exact p_c17_error_once. Qed.

(* non-vacuity: a local close racing the peer's CONNECTION_CLOSE, the close's compare_exchange
   first, the draining call overtaking it before the error is stored: exactly the first error is kept *)
Example c17_error_once_nonvacuous :
  let g := grun (g_init [CClosing 5%N; CDraining 9%N]) [0; 1; 0; 1; 1; 0; 1]%nat in
  word (g_sh g) = 8%N /\ term (g_sh g) = Some 5%N /\ quiescent g = true.
Proof. vm_compute. repeat split; reflexivity. Qed.

(* F40 (repaired): every public state constant of state.rs has a row in the mapping! table, CLOSED
   among them, and update() of every public constant is total and a forward move: it never panics,
   and either returns None leaving the word alone, or returns the previous code, which is below *)
Theorem c17_public_consts :
  Forall (fun s => exists k, encode s = Some k) public_consts /\
  (exists s, closed_const = Some s /\ In s public_consts /\ encode s = Some closed_code).
Proof. exact p_c17_public_consts. Qed.

Theorem c17_update_public : forall s sh, In s public_consts ->
  exists k, encode s = Some k /\
  let r := run_to_end 8 (CUpdate s) PStart sh in
  fst r <> PPanic /\
  ((fst r = PDone None /\ snd r = sh /\ (k <= word sh)%N) \/
   (fst r = PDone (Some (word sh)) /\ (word sh < k)%N /\ word (snd r) = k)).
Proof. exact p_c17_update_public. Qed.

Theorem c17_update_total : forall s sh k, encode s = Some k ->
  fst (run_to_end 8 (CUpdate s) PStart sh) <> PPanic /\
  exists r, fst (run_to_end 8 (CUpdate s) PStart sh) = PDone r.
Proof. exact p_c17_update_total. Qed.

(* ---------------------------------------------------------------- release of pending operations *)
(* [Clean m]: no component is poisoned yet.  [registered m]: every task number stored in a waker
   slot of a live component (the three slots of every sender in the output set, the read slot of
   every receiver in the input set, the two listener slots, the stream-id waiters of both
   directions, the parameter waiters, the datagram reader slot).
   After the fan-out of Components::enter_closing / enter_draining (repaired tree):
   every registered sleeper has a pending wake, *)
Theorem c17_release_wakes : forall e m t, Clean m -> c_fix23 m = true ->
  In t (registered m) -> In t (c_woken (conn_error e m)).
Proof. exact conn_error_woken. Qed.

(* no slot keeps a sleeper, and every component is poisoned with e *)
Theorem c17_release_poisons : forall e m, Clean m -> c_fix23 m = true ->
  registered (conn_error e m) = [] /\ Poisoned e (conn_error e m).
Proof. intros e m C F. split; [apply conn_error_cleared; assumption|apply conn_error_poisoned; assumption]. Qed.

(* in ANY poisoned state an application operation of any kind is never Pending; an error it reports
   is e; open / accept / datagram receive / parameters report exactly e; a write is never accepted;
   a stream read/flush/shutdown answers e or the half's own terminal result; the connection stays
   poisoned, no sender changes, no receive buffer grows, nothing is queued for sending *)
Theorem c17_release : forall e m t k, Poisoned e m ->
  let m' := fst (poll m t k) in let code := fst (snd (poll m t k)) in let val := snd (snd (poll m t k)) in
  code <> 0%Z /\ (code = 2%Z -> val = Z.of_N e) /\
  (match k with
   | KOpen _ | KAccept _ | KDgRecv | KPReady => code = 2%Z
   | KWrite _ _ => code <> 1%Z
   | _ => True
   end) /\
  Poisoned e m' /\ c_snd m' = c_snd m /\ total_rcvd m' = total_rcvd m /\
  c_dgout m' = c_dgout m /\ c_tasks m' = c_tasks m.
Proof. exact poisoned_poll. Qed.

(* nothing is emitted, no datagram is accepted in either direction, arriving stream data reaches no
   receive buffer and wakes nobody; a second, racing close is a no-op *)
Theorem c17_release_no_data : forall e m, Poisoned e m ->
  load m = (m, [0; 0; 0]%Z) /\
  (forall len, dgram_send m len = (m, [2%Z; Z.of_N e])) /\
  (forall len, dgram_in m len = (m, [2%Z; Z.of_N e])) /\
  (forall sid len fin, let m' := fst (peer_data m sid len fin) in
     Poisoned e m' /\ total_rcvd m' = total_rcvd m /\ c_snd m' = c_snd m /\ c_woken m' = c_woken m) /\
  (forall e2, conn_error e2 m = m).
Proof.
  intros e m H. split; [apply (poisoned_load e); exact H|].
  split; [intros; apply poisoned_dgram_send; exact H|].
  split; [intros; apply poisoned_dgram_in; exact H|].
  split; [intros; apply poisoned_peer_data; exact H|].
  intros; apply (conn_error_again e); exact H.
Qed.

(* the statement over whole histories (repaired tree): any configuration, ANY history of operations
   without a connection error, then the error e, then ANY further history of operations of any
   kind (a second, racing error included): every sleeper registered at that moment is woken, no slot
   keeps a sleeper, and at every later point the connection is poisoned with e — so c17_release and
   c17_release_no_data apply to every later operation.  ([c_fix23], the choice of the repaired
   on_conn_error, is a constant of the state: c17_flag_constant.) *)
Theorem c17_release_all : forall cfg m0 before e after,
  cm_init true cfg = Some m0 -> Forall (fun o => fst o <> 21%N /\ fst o <> 24%N) before ->
  let m := cm_exec m0 0 before in
  (forall t, In t (registered m) -> In t (c_woken (conn_error e m))) /\
  registered (conn_error e m) = [] /\
  forall idx, Poisoned e (cm_exec (conn_error e m) idx after).
Proof. exact p_c17_release_all'. Qed.

(* the close racing a poll (stream operation 24; "error-free history" above excludes both the plain
   error 21 and this one).  Schedule at the granularity of lock-protected sections: a poll of open_bi /
   open_uni / accept_bi / accept_uni has entered its critical section (it holds the stream / listener
   guards and has found the connection healthy) when the connection error e begins; everything the
   fan-out does to the stream tables, the listener and the stream-id waiters happens under those
   guards, so it is serialised after the poll ([race] = the poll against the healthy state, then the
   whole fan-out).  Then: the operation answers what the poll answered; if that was Pending, the
   poll's own task is woken by the close (it cannot be left parked on a limit that nobody will raise);
   every sleeper registered before is woken; no slot keeps a sleeper; after any further history the
   connection is poisoned with e.  The harness forces this schedule on the real DataStreams with
   two threads, so a fan-out step moved outside the guards (it would run BEFORE the poll parks)
   shows as a parked task that is never completed. *)
Theorem c17_race_release : forall cfg m0 before e t a k idx after,
  cm_init true cfg = Some m0 -> Forall (fun o => fst o <> 21%N /\ fst o <> 24%N) before ->
  race_kind t a = Some k ->
  let m := cm_exec m0 0 before in
  let m1 := fst (start_task m idx k) in
  fst (race m idx e t a) = conn_error e m1 /\
  snd (race m idx e t a) = snd (start_task m idx k) /\
  (snd (start_task m idx k) = [0%Z; 0%Z] -> In idx (c_woken (conn_error e m1))) /\
  (forall x, In x (registered m1) -> In x (c_woken (conn_error e m1))) /\
  registered (conn_error e m1) = [] /\
  forall i, Poisoned e (cm_exec (conn_error e m1) i after).
Proof. exact p_c17_race. Qed.

(* non-vacuity: client, limit of one bidirectional stream used up, a second open_bi races the close:
   the poll parks on the stream limit (Pending) and the close completes it with the error *)
Example c17_race_release_nonvacuous :
  run_connerr [0; 0; 1; 1; 10]%Z [(0%N, []); (1%N, [0%Z]); (24%N, [7; 1; 0]%Z)] =
  [[1; -1; 0; -2; 0]; [1; 0; -1; 0; -2; 0]; [0; 0; -1; 0; -2; 1; 2; 2; 7]]%Z.
Proof. vm_compute. reflexivity. Qed.

(* ---------------------------------------------------------------- both endpoints, end to end (stream connend) *)
(* Model/ConnEnd.v: operations of every kind pending on the client and on the server while the
   connection is ended by a local close (Components::enter_closing), by the peer's CONNECTION_CLOSE
   (Components::enter_draining) after the handshake, or by the server refusing the client at the
   ClientHello (enter_draining before the peer's transport parameters are known).  The REAL dquic
   endpoints are driven with the same histories every run and must answer as the model.
   Any configuration, ANY history, then an observation point: no operation is left pending on an
   endpoint whose terminated() has resolved (those pending when it resolved and those started later
   alike), and that endpoint stays terminated for ever after *)
Theorem c17_end_all : forall cfg ops ms t s k,
  let m := ce_exec (ce_init cfg) 0 ops in
  let m' := fst (advance m ms) in
  (In (t, (s, k)) (e_tasks m') -> dead_at m' s (e_now m') = false) /\
  (forall later idx, dead_at m' s (e_now m') = true ->
     dead_at (ce_exec m' idx later) s (e_now (ce_exec m' idx later)) = true).
Proof. exact p_c17_end_all. Qed.

(* what an observation point reports: completions in task order, each Ok (1) or the terminating error
   (2); a completion on an endpoint that had terminated before the observation interval began is
   always the terminating error *)
Theorem c17_end_codes : forall a b l, e_term b = e_term a -> (e_now a <= e_now b)%N ->
  codes_ok a l (fst (sweep a b l)).
Proof. exact p_sweep_codes. Qed.

(* non-vacuity (and the seeded defect's scenario): the server refuses the client during the handshake
   with accept_bi, datagram_writer and open_bi pending on the client: all three complete with the error *)
Example c17_end_nonvacuous :
  run_connend [1%Z] [(1%N, [0; 3]%Z); (1%N, [0; 6]%Z); (1%N, [0; 1]%Z); (2%N, [1000%Z]); (1%N, [0; 3]%Z); (2%N, [1%Z])] =
  [[0]; [1]; [2]; [1000; 3; 0; 2; 1; 2; 2; 2; 1; 0]; [4]; [1001; 1; 4; 2; 1; 0]]%Z.
Proof. vm_compute. reflexivity. Qed.

(* no operation of any history writes the flag that selects which on_conn_error the model runs *)
Theorem c17_flag_constant : forall ops m idx, c_fix23 (cm_exec m idx ops) = c_fix23 m.
Proof. exact fx_cm_exec. Qed.

(* a poll that answers Pending leaves its task number in a waker slot of the component it waits on
   (one step of the registration invariant; the invariant over whole histories - every parked task
   is in a slot or in the woken list - is NOT proved, see the report) *)
Theorem c17_pending_registers : forall m t k,
  fst (snd (poll m t k)) = 0%Z -> In t (all_slots (fst (poll m t k))).
Proof. exact p_c17_pending_registers. Qed.

(* F23 (tree as it stood, [c_fix23 = false]): a task parked on the stream limit is registered, is not
   woken by the connection error and stays parked; every OTHER registered sleeper is woken *)
Theorem c17_release_refuted :
  let m := f23_state false in
  Clean m /\ In 2%N (registered m) /\ (In 2%N (c_woken (conn_error 7%N m)) -> False) /\
  existsb (fun tk => (fst tk =? 2)%N) (c_tasks (fst (settle (conn_error 7%N m) 3%N))) = true.
Proof. exact p_c17_release_refuted. Qed.

Theorem c17_release_but_sid : forall e m t, Clean m ->
  In t (registered_but_sid m) -> In t (c_woken (conn_error e m)).
Proof. exact conn_error_woken_but_sid. Qed.

Example c17_release_nonvacuous :
  let m := f23_state true in
  In 2%N (c_woken (conn_error 7%N m)) /\ (c_tasks (fst (settle (conn_error 7%N m) 3%N)) = []) /\
  (snd (settle (conn_error 7%N m) 3%N) = [-1; 1; 2; -2; 1; 2; 2; 7]%Z).
Proof. exact p_c17_release_f23_fixed. Qed.

(* ---------------------------------------------------------------- idle timeout *)
Local Open Scope Z_scope.

Theorem c17_idle_not_before : forall m d evs,
  let s := ev_exec (st_init m d) evs in
  let g := ghost_run (st_init m d) ghost_init evs in
  snd (health (s_cfg s) (s_tm s) (s_now s)) = HTimeout ->
  max_idle (s_cfg s) <> 0 /\
  (exists t0, g_last_eff g = Some t0 /\ d + max_idle (s_cfg s) < s_now s - t0) /\
  (forall tr, g_last_rcvd g = Some tr -> max_idle (s_cfg s) < s_now s - tr).
Proof. exact p_c17_idle_not_before. Qed.

(* [g_last_eff]: the last restart of the idle period in RFC 9000 10.1 terms - a received packet with
   effective payload, or the FIRST effective packet sent after a receive.
   Once a health check has seen that restart more than defer old, every health check later than
   max_idle after it answers TimeOut as long as nothing is received, WHATEVER we keep sending: once
   an effective packet has been sent since the last receive, retransmissions do not postpone it *)
Theorem c17_idle_after : forall m d pre q t0,
  let s := ev_exec (st_init m d) pre in
  last_eff (s_tm s) = Some t0 -> d < s_now s - t0 ->
  forallb quiet_ev q = true ->
  (sent_since (s_tm s) = true \/ forallb not_eff_send q = true) ->
  let s1 := fst (ev_step s EHealth) in
  let s2 := ev_exec s1 q in
  max_idle (s_cfg s2) <> 0 -> 0 <= max_idle (s_cfg s2) -> max_idle (s_cfg s2) < s_now s2 - s_now s ->
  snd (health (s_cfg s2) (s_tm s2) (s_now s2)) = HTimeout.
Proof. exact p_c17_idle_after. Qed.

(* F65 regression: effective packets every 5 ms into a dead network, max_idle 20 ms: the rule before
   the repair (every send restarts the idle period) has still not timed out after 42 ms, the
   repaired rule has *)
Example c17_idle_retransmit_regression :
  let old := ev_exec_f65 (st_init 20000 0) f65_history in
  let new := ev_exec (st_init 20000 0) f65_history in
  s_now old = 42000 /\
  snd (health (s_cfg old) (s_tm old) (s_now old)) <> HTimeout /\
  snd (health (s_cfg new) (s_tm new) (s_now new)) = HTimeout.
Proof. exact p_c17_idle_retransmit_regression. Qed.

Example c17_idle_nonvacuous :
  run_idle [100; 50] [(2%N, [2]); (1%N, [51]); (4%N, []); (1%N, [100]); (4%N, []); (1%N, [1]); (4%N, [])]
  = [[0]; [51]; [1]; [151]; [0]; [152]; [2]].
Proof. vm_compute. reflexivity. Qed.

Theorem c17_negotiate : forall c r, 0 <= max_idle c -> 0 <= r ->
  let m := max_idle (negotiate c r) in
  (max_idle c = 0 -> m = r) /\ (r = 0 -> m = max_idle c) /\
  (max_idle c <> 0 -> r <> 0 -> m = Z.min (max_idle c) r) /\ defer (negotiate c r) = defer c.
Proof. exact p_c17_negotiate. Qed.

Print Assumptions c17_monotone.
Print Assumptions c17_order.
Print Assumptions c17_table.
Print Assumptions c17_error_once.
Print Assumptions c17_error_once_nonvacuous.
Print Assumptions c17_public_consts.
Print Assumptions c17_update_public.
Print Assumptions c17_update_total.
Print Assumptions c17_release_wakes.
Print Assumptions c17_release_poisons.
Print Assumptions c17_release.
Print Assumptions c17_release_no_data.
Print Assumptions c17_release_all.
Print Assumptions c17_race_release.
Print Assumptions c17_race_release_nonvacuous.
Print Assumptions c17_end_all.
Print Assumptions c17_end_codes.
Print Assumptions c17_end_nonvacuous.
Print Assumptions c17_flag_constant.
Print Assumptions c17_pending_registers.
Print Assumptions c17_release_refuted.
Print Assumptions c17_release_but_sid.
Print Assumptions c17_release_nonvacuous.
Print Assumptions c17_idle_not_before.
Print Assumptions c17_idle_after.
Print Assumptions c17_idle_retransmit_regression.
Print Assumptions c17_idle_nonvacuous.
Print Assumptions c17_negotiate.
