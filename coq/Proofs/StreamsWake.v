(* No lost wake-up on the reading side of a flow (property C01, liveness as the application sees it).

   A task that called Reader::poll_read and was told Pending runs again only when the waker it left
   behind ([rc_readw]) is woken.  So "every written byte eventually becomes readable" is worth something
   to the application only if a parked reader never coexists with a stream on which poll_read would
   answer Ready.  [NoLost] says exactly that, and is inductive over EVERY flow operation (no hypothesis on
   the channel at all); [wake_or_parked] says the waker is never dropped silently: while the reader is
   parked each operation either leaves it parked or wakes it exactly once. *)
From Coq Require Import List NArith ZArith Bool Lia.
From GQ Require Import Lib.Base Model.SendBuf Model.RecvBuf Model.Streams Proofs.Streams Proofs.StreamsSys.
From GQ Require Model.StreamCtl.
Import ListNotations.
Local Open Scope N_scope.

Arguments N.add : simpl never.

Definition NoLost (r : recver) : Prop :=
  rc_readw r = true ->
  (rc_st r = RRecv \/ exists f, rc_st r = RSizeKnown f) /\ is_readable (rc_buf r) = false.

Ltac rcs := cbn [rc_st rc_buf rc_largest rc_maxsd rc_readw rc_wakes rc_stopped rc_inset rc_got rc_eos with_read rc_wake fst snd] in *.

Lemma nl_false r : rc_readw r = false -> NoLost r.
Proof. intros H H'. congruence. Qed.

Lemma nl_init w : NoLost (new_recver w).
Proof. apply nl_false. reflexivity. Qed.

Lemma nl_recv_data r off d fin r' fresh :
  NoLost r -> rc_recv_data r off d fin = inl (r', fresh) -> NoLost r'.
Proof.
  intros H E. unfold rc_recv_data in E.
  destruct (rc_st r) as [|final|final| | |] eqn:St; try (injection E as <- <-; exact H).
  - destruct fin.
    + rcs. destruct (rc_maxsd r <? off + lenN d); [discriminate|].
      destruct (off + lenN d <? largest (rc_buf r)); [discriminate|].
      destruct (recv (rc_buf r) off d) as [b' fr].
      destruct (all_rcvd b' (off + lenN d)); injection E as <- <-; apply nl_false; reflexivity.
    + destruct (rc_maxsd r <? off + lenN d); [discriminate|].
      destruct (recv (rc_buf r) off d) as [b' fr].
      destruct (is_readable b') eqn:Rd; rcs; injection E as <- <-.
      * apply nl_false; reflexivity.
      * intro Hw; rcs. split; [left; reflexivity|exact Rd].
  - destruct (final <? off + lenN d); [discriminate|].
    destruct (fin && negb (off + lenN d =? final)); [discriminate|].
    destruct (recv (rc_buf r) off d) as [b' fr].
    destruct (is_readable b') eqn:Rd; rcs.
    + destruct (all_rcvd b' final); injection E as <- <-; apply nl_false; reflexivity.
    + destruct (all_rcvd b' final); rcs; injection E as <- <-.
      * apply nl_false; reflexivity.
      * intro Hw; rcs. split; [right; eexists; reflexivity|exact Rd].
Qed.

Lemma nl_recv_reset r final r' fresh :
  NoLost r -> rc_recv_reset r final = inl (r', fresh) -> NoLost r'.
Proof.
  intros H E. unfold rc_recv_reset in E.
  destruct (rc_st r) as [|f|f| | |] eqn:St; try (injection E as <- <-; exact H).
  - destruct (rc_maxsd r <? final); [discriminate|]. destruct (final <? rc_largest r); [discriminate|].
    rcs. injection E as <- <-. apply nl_false; reflexivity.
  - destruct (negb (final =? f)); [discriminate|]. rcs. injection E as <- <-. apply nl_false; reflexivity.
Qed.

(* a poll that answers Ready can only happen with no waker parked; a poll that answers Pending parks *)
Lemma nl_read r room r' z out :
  NoLost r -> rc_poll_read r room = (r', z, out) -> NoLost r'.
Proof.
  intros H E. unfold rc_poll_read in E.
  assert (Hf : forall st b m o, (rc_st r <> RRecv /\ (forall f, rc_st r <> RSizeKnown f)) \/ is_readable (rc_buf r) = true ->
                                NoLost (with_read r st b m (rc_readw r) o room)).
  { intros st b m o Hc. apply nl_false. rcs. destruct (rc_readw r) eqn:W; [|reflexivity].
    destruct (H W) as [[A|[f A]] B]; destruct Hc as [[C1 C2]|C]; try congruence.
  }
  destruct (rc_st r) as [|f|f| | |] eqn:St.
  - destruct (is_readable (rc_buf r)) eqn:Rd.
    + destruct (try_read (rc_buf r) room) as [b' o]. injection E as <- <- <-. apply Hf. right; reflexivity.
    + injection E as <- <- <-. intro Hw; rcs. split; [left; reflexivity|exact Rd].
  - destruct (is_readable (rc_buf r)) eqn:Rd.
    + destruct (try_read (rc_buf r) room) as [b' o]. injection E as <- <- <-. apply Hf. right; reflexivity.
    + injection E as <- <- <-. intro Hw; rcs. split; [right; eexists; reflexivity|exact Rd].
  - destruct (try_read (rc_buf r) room) as [b' o]. injection E as <- <- <-.
    apply Hf. left. split; [discriminate|intros; discriminate].
  - injection E as <- <- <-. apply Hf. left. split; [discriminate|intros; discriminate].
  - injection E as <- <- <-. apply nl_false. rcs. destruct (rc_readw r) eqn:W; [|reflexivity].
    destruct (H W) as [[A|[f A]] _]; congruence.
  - injection E as <- <- <-. exact H.
Qed.

Lemma nl_stop r r' b : NoLost r -> rc_stop r = (r', b) -> NoLost r'.
Proof.
  intros H E. unfold rc_stop in E.
  destruct (rc_st r) as [|f|f| | |] eqn:St; try (injection E as <- <-; exact H).
  - destruct (rc_stopped r); injection E as <- <-; [exact H|]. intro Hw; rcs.
    split; [left; reflexivity|exact (proj2 (H Hw))].
  - destruct (rc_stopped r); injection E as <- <-; [exact H|]. intro Hw; rcs.
    split; [right; eexists; reflexivity|exact (proj2 (H Hw))].
Qed.

Lemma flow_step_nolost c fl o fl' new out :
  NoLost (fl_rcv fl) -> flow_step c fl o = (fl', new, out) -> NoLost (fl_rcv fl').
Proof.
  intros H E. unfold flow_step in E.
  destruct o as [n| | |err|room|err|pred credit|off d fin|final|err|off len fin| |off len fin].
  - destruct (snd_poll_write (fl_snd fl) n). injection E as <- <- <-. exact H.
  - destruct (snd_poll_flush (fl_snd fl)). injection E as <- <- <-. exact H.
  - destruct (snd_poll_shutdown (fl_snd fl)). injection E as <- <- <-. exact H.
  - destruct (snd_cancel (fl_snd fl)). injection E as <- <- <-. exact H.
  - destruct (rc_poll_read (fl_rcv fl) room) as [[r' z] o] eqn:Er. injection E as <- <- <-.
    cbn [fl_rcv]. eapply nl_read; eauto.
  - destruct (rc_stop (fl_rcv fl)) as [r' b] eqn:Er. injection E as <- <- <-. cbn [fl_rcv]. eapply nl_stop; eauto.
  - destruct (snd_try_load c (fl_snd fl) pred credit). injection E as <- <- <-. exact H.
  - destruct (rc_inset (fl_rcv fl)); [|injection E as <- <- <-; exact H].
    destruct (rc_recv_data (fl_rcv fl) off d fin) as [[r' fresh]|e] eqn:Er; injection E as <- <- <-; [|exact H].
    cbn [fl_rcv]. eapply nl_recv_data; eauto.
  - destruct (rc_inset (fl_rcv fl)); [|injection E as <- <- <-; exact H].
    set (r0 := mkrcv _ _ _ _ _ _ _ false _ _) in E.
    assert (H0 : NoLost r0) by (intro Hw; exact (H Hw)).
    destruct (rc_recv_reset r0 final) as [[r' fresh]|e] eqn:Er; injection E as <- <- <-; cbn [fl_rcv]; [|exact H0].
    eapply nl_recv_reset; eauto.
  - destruct (sn_inset (fl_snd fl)); [|injection E as <- <- <-; exact H].
    destruct (snd_be_stopped (fl_snd fl)). injection E as <- <- <-. exact H.
  - destruct (sn_inset (fl_snd fl)); [|injection E as <- <- <-; exact H].
    destruct (snd_on_acked (fl_snd fl) off len fin). injection E as <- <- <-. exact H.
  - destruct (sn_inset (fl_snd fl)); [|injection E as <- <- <-; exact H].
    destruct (snd_on_reset_acked (fl_snd fl)). injection E as <- <- <-. exact H.
  - destruct (sn_inset (fl_snd fl)); [|injection E as <- <- <-; exact H].
    destruct (snd_may_loss (fl_snd fl) off len fin). injection E as <- <- <-. exact H.
Qed.

Lemma reach_nolost c fl P : flow_reach c fl P -> NoLost (fl_rcv fl).
Proof. induction 1; [apply nl_init|eapply flow_step_nolost; eauto]. Qed.

(* ---- statements used by Properties/C01.v *)

(* in every reachable state: while a reader is parked, poll_read would still answer Pending; read the other way
   round, whenever the stream has something to tell the reader (bytes, the end, a reset) no waker is parked, i.e.
   the task that was told Pending has been woken *)
Lemma p_c01_no_lost_wakeup : forall c fl P room r' z out,
  flow_reach c fl P -> rc_readw (fl_rcv fl) = true ->
  rc_poll_read (fl_rcv fl) room = (r', z, out) -> z = 0%Z /\ out = [] /\ rc_readw r' = true.
Proof.
  intros c fl P room r' z out HR Hw E. destruct (reach_nolost _ _ _ HR Hw) as [[A|[f A]] B].
  - unfold rc_poll_read in E. rewrite A, B in E. injection E as <- <- <-. auto.
  - unfold rc_poll_read in E. rewrite A, B in E. injection E as <- <- <-. auto.
Qed.

(* the parked waker is never dropped silently: each operation leaves it parked (with the same wake count) or
   delivers exactly one wake-up; and a wake-up is only ever delivered to a parked waker *)
Lemma p_c01_wake_or_parked : forall c fl o fl' new out,
  flow_step c fl o = (fl', new, out) ->
  (rc_readw (fl_rcv fl) = true ->
     (rc_readw (fl_rcv fl') = true /\ rc_wakes (fl_rcv fl') = rc_wakes (fl_rcv fl)) \/
     (rc_readw (fl_rcv fl') = false /\ rc_wakes (fl_rcv fl') = rc_wakes (fl_rcv fl) + 1)) /\
  (rc_readw (fl_rcv fl) = false -> rc_wakes (fl_rcv fl') = rc_wakes (fl_rcv fl)).
Proof.
  intros c fl o fl' new out E.
  assert (Same : forall r, fl_rcv fl' = r -> rc_readw r = rc_readw (fl_rcv fl) -> rc_wakes r = rc_wakes (fl_rcv fl) ->
    (rc_readw (fl_rcv fl) = true ->
     (rc_readw (fl_rcv fl') = true /\ rc_wakes (fl_rcv fl') = rc_wakes (fl_rcv fl)) \/
     (rc_readw (fl_rcv fl') = false /\ rc_wakes (fl_rcv fl') = rc_wakes (fl_rcv fl) + 1)) /\
    (rc_readw (fl_rcv fl) = false -> rc_wakes (fl_rcv fl') = rc_wakes (fl_rcv fl))).
  { intros r -> A B. split; [intro W; left; split; congruence|intros _; exact B]. }
  assert (Woken : forall r, fl_rcv fl' = r -> rc_readw r = false -> rc_wakes r = rc_wakes (fl_rcv fl) + b2n (rc_readw (fl_rcv fl)) ->
    (rc_readw (fl_rcv fl) = true ->
     (rc_readw (fl_rcv fl') = true /\ rc_wakes (fl_rcv fl') = rc_wakes (fl_rcv fl)) \/
     (rc_readw (fl_rcv fl') = false /\ rc_wakes (fl_rcv fl') = rc_wakes (fl_rcv fl) + 1)) /\
    (rc_readw (fl_rcv fl) = false -> rc_wakes (fl_rcv fl') = rc_wakes (fl_rcv fl))).
  { intros r -> A B. split; intro W; rewrite W in B; cbn [b2n] in B; [right; split; [exact A|exact B]|rewrite B; lia]. }
  unfold flow_step in E.
  destruct o as [n| | |err|room|err|pred credit|off d fin|final|err|off len fin| |off len fin].
  - destruct (snd_poll_write (fl_snd fl) n). injection E as <- <- <-. eapply Same; reflexivity.
  - destruct (snd_poll_flush (fl_snd fl)). injection E as <- <- <-. eapply Same; reflexivity.
  - destruct (snd_poll_shutdown (fl_snd fl)). injection E as <- <- <-. eapply Same; reflexivity.
  - destruct (snd_cancel (fl_snd fl)). injection E as <- <- <-. eapply Same; reflexivity.
  - destruct (rc_poll_read (fl_rcv fl) room) as [[r' z] o] eqn:Er. injection E as <- <- <-. cbn [fl_rcv].
    unfold rc_poll_read in Er.
    destruct (rc_st (fl_rcv fl)) as [|f|f| | |].
    + destruct (is_readable (rc_buf (fl_rcv fl))).
      * destruct (try_read (rc_buf (fl_rcv fl)) room). injection Er as <- <- <-. eapply Same; reflexivity.
      * injection Er as <- <- <-. rcs. split; [intros _; left; split; reflexivity|intros _; reflexivity].
    + destruct (is_readable (rc_buf (fl_rcv fl))).
      * destruct (try_read (rc_buf (fl_rcv fl)) room). injection Er as <- <- <-. eapply Same; reflexivity.
      * injection Er as <- <- <-. rcs. split; [intros _; left; split; reflexivity|intros _; reflexivity].
    + destruct (try_read (rc_buf (fl_rcv fl)) room). injection Er as <- <- <-. eapply Same; reflexivity.
    + injection Er as <- <- <-. eapply Same; reflexivity.
    + injection Er as <- <- <-. eapply Same; reflexivity.
    + injection Er as <- <- <-. eapply Same; reflexivity.
  - destruct (rc_stop (fl_rcv fl)) as [r' b] eqn:Er. injection E as <- <- <-. cbn [fl_rcv].
    unfold rc_stop in Er.
    destruct (rc_st (fl_rcv fl)); try (injection Er as <- <-; eapply Same; reflexivity);
      (destruct (rc_stopped (fl_rcv fl)); injection Er as <- <-; eapply Same; reflexivity).
  - destruct (snd_try_load c (fl_snd fl) pred credit). injection E as <- <- <-. eapply Same; reflexivity.
  - destruct (rc_inset (fl_rcv fl)); [|injection E as <- <- <-; eapply Same; reflexivity].
    destruct (rc_recv_data (fl_rcv fl) off d fin) as [[r' fresh]|e] eqn:Er; injection E as <- <- <-;
      [|eapply Same; reflexivity].
    cbn [fl_rcv]. unfold rc_recv_data in Er.
    destruct (rc_st (fl_rcv fl)) as [|f|f| | |]; try (injection Er as <- <-; eapply Same; reflexivity).
    + destruct fin.
      * rcs. destruct (rc_maxsd (fl_rcv fl) <? off + lenN d); [discriminate|].
        destruct (off + lenN d <? largest (rc_buf (fl_rcv fl))); [discriminate|].
        destruct (recv (rc_buf (fl_rcv fl)) off d) as [b' fr].
        destruct (all_rcvd b' (off + lenN d)); injection Er as <- <-; eapply Woken; reflexivity.
      * destruct (rc_maxsd (fl_rcv fl) <? off + lenN d); [discriminate|].
        destruct (recv (rc_buf (fl_rcv fl)) off d) as [b' fr].
        destruct (is_readable b'); rcs; injection Er as <- <-; [eapply Woken; reflexivity|eapply Same; reflexivity].
    + destruct (f <? off + lenN d); [discriminate|].
      destruct (fin && negb (off + lenN d =? f)); [discriminate|].
      destruct (recv (rc_buf (fl_rcv fl)) off d) as [b' fr].
      destruct (is_readable b'); rcs; destruct (all_rcvd b' f); rcs; injection Er as <- <-.
      * eapply Woken; [reflexivity|reflexivity|]. cbn [fl_rcv]. rcs. lia.
      * eapply Woken; reflexivity.
      * eapply Woken; reflexivity.
      * eapply Same; reflexivity.
  - destruct (rc_inset (fl_rcv fl)); [|injection E as <- <- <-; eapply Same; reflexivity].
    set (r0 := mkrcv _ _ _ _ _ _ _ false _ _) in E.
    destruct (rc_recv_reset r0 final) as [[r' fresh]|e] eqn:Er; injection E as <- <- <-; cbn [fl_rcv];
      [|eapply Same; reflexivity].
    unfold rc_recv_reset in Er. subst r0. rcs.
    destruct (rc_st (fl_rcv fl)) as [|f|f| | |]; try (injection Er as <- <-; eapply Same; reflexivity).
    + destruct (rc_maxsd (fl_rcv fl) <? final); [discriminate|].
      destruct (final <? rc_largest (fl_rcv fl)); [discriminate|].
      injection Er as <- <-. eapply Woken; reflexivity.
    + destruct (negb (final =? f)); [discriminate|]. injection Er as <- <-. eapply Woken; reflexivity.
  - destruct (sn_inset (fl_snd fl)); [|injection E as <- <- <-; eapply Same; reflexivity].
    destruct (snd_be_stopped (fl_snd fl)). injection E as <- <- <-. eapply Same; reflexivity.
  - destruct (sn_inset (fl_snd fl)); [|injection E as <- <- <-; eapply Same; reflexivity].
    destruct (snd_on_acked (fl_snd fl) off len fin). injection E as <- <- <-. eapply Same; reflexivity.
  - destruct (sn_inset (fl_snd fl)); [|injection E as <- <- <-; eapply Same; reflexivity].
    destruct (snd_on_reset_acked (fl_snd fl)). injection E as <- <- <-. eapply Same; reflexivity.
  - destruct (sn_inset (fl_snd fl)); [|injection E as <- <- <-; eapply Same; reflexivity].
    destruct (snd_may_loss (fl_snd fl) off len fin). injection E as <- <- <-. eapply Same; reflexivity.
Qed.

(* the same for every flow of every state the two-endpoint system reaches *)
Lemma p_c01_no_lost_wakeup_system : forall rot w dirs ops key fl room r' z out,
  StreamCtl.alookup (sy_flows (sys_exec (sys_init rot w dirs) ops)) key = Some fl ->
  rc_readw (fl_rcv fl) = true ->
  rc_poll_read (fl_rcv fl) room = (r', z, out) -> z = 0%Z /\ out = [] /\ rc_readw r' = true.
Proof.
  intros rot w dirs ops key fl room r' z out H. eapply p_c01_no_lost_wakeup. exact (p_c01_reach_system _ _ _ _ _ _ H).
Qed.
