(* System-level proofs for Model/Cid.v: every operation list on one endpoint (one RemoteCids, any
   number of connections on one shared router), every random oracle, every fuel.
   Carries the lemmas p_c14_* used by Properties/C14.v. *)
From Coq Require Import List NArith ZArith Bool Lia Permutation.
From GQ Require Import Lib.Base Model.Router Model.LocalCid Model.RemoteCid Model.Cid
  Proofs.Router Proofs.LocalCid Proofs.RemoteCid Proofs.RemoteInv Proofs.RouterInv.
Import ListNotations.
Local Open Scope N_scope.

(* ------------------------------------------------------------------ *)
(* views of a system state *)

Definition acts (s : sys) (i : nat) : list cid :=
  match nth_error (s_conns s) i with
  | Some (mkC (Some l) _ _) => somes (l_cells l)
  | _ => []
  end.

Definition odc (s : sys) (i : nat) : option cid :=
  match nth_error (s_conns s) i with
  | Some (mkC (Some _) od _) => od
  | _ => None
  end.

Definition view_of (s : sys) : view := mkV (e_tab (s_env s)) (acts s) (odc s).

Lemma VB_ext : forall t1 t2 a1 a2 o1 o2,
  (forall x, t_get t1 x = t_get t2 x) -> (forall i, a1 i = a2 i) -> (forall i, o1 i = o2 i) ->
  VB (mkV t1 a1 o1) -> VB (mkV t2 a2 o2).
Proof.
  intros t1 t2 a1 a2 o1 o2 Ht Ha Ho H x q Hx. cbn [v_tab v_act v_od] in *.
  rewrite <- Ht in Hx. destruct (H x q Hx) as [i [Hq Hi]]. exists i. rewrite <- Ha, <- Ho. auto.
Qed.

Lemma VC_ext : forall t1 t2 a1 a2 o1 o2,
  (forall x, t_get t1 x = t_get t2 x) -> (forall i, a1 i = a2 i) -> (forall i, o1 i = o2 i) ->
  VC (mkV t1 a1 o1) -> VC (mkV t2 a2 o2).
Proof.
  intros t1 t2 a1 a2 o1 o2 Ht Ha Ho [H1 H2]. split; cbn [v_tab v_act v_od] in *.
  - intros i x Hx. rewrite <- Ha in Hx. rewrite <- Ht. auto.
  - intros i. rewrite <- Ha. auto.
Qed.

(* P is one of the two invariants *)
Definition good (P : view -> Prop) : Prop :=
  forall t1 t2 a1 a2 o1 o2,
    (forall x, t_get t1 x = t_get t2 x) -> (forall i, a1 i = a2 i) -> (forall i, o1 i = o2 i) ->
    P (mkV t1 a1 o1) -> P (mkV t2 a2 o2).

Section Sys.
  Variable chk : N -> N -> N -> bool.
  Variable post : rcids -> bool.
  Variable rnd : N -> cid.
  Variable fuel : nat.

  Notation genq := (genq rnd fuel).
  Notation step := (step chk post rnd fuel).
  Notation steps := (steps chk post rnd fuel).

  (* ---- effect of the local operations on the environment ---- *)

  Lemma issue_effect : forall q e l e' l' f,
    issue renv (genq q) e l = Some (e', l', f) ->
    exists c, t_get (e_tab e) c = None /\
      (forall x, t_get (e_tab e') x = if c =? x then Some q else t_get (e_tab e) x) /\
      l_cells l' = l_cells l ++ [Some c] /\ f = LNew (l_largest l) (l_off l) c.
  Proof.
    intros q e l e' l' f H. apply issue_spec in H. destruct H as [c [Hg [-> ->]]].
    unfold Cid.genq in Hg. apply gen_unique_spec in Hg. destruct Hg as [H1 H2].
    exists c. split; [assumption|split; [|split; reflexivity]].
    intros x. rewrite H2. apply get_insert.
  Qed.

  Lemma retire_all_effect : forall cells e x,
    t_get (e_tab (retire_all renv retire_cid e cells)) x =
    if existsb (N.eqb x) (somes cells) then None else t_get (e_tab e) x.
  Proof.
    induction cells as [|[c|] r IH]; intros e x; cbn [retire_all somes existsb]; auto.
    rewrite IH. unfold retire_cid. cbn [e_tab]. rewrite get_remove.
    rewrite (N.eqb_sym x c). destruct (c =? x); [|reflexivity].
    cbn [orb]. destruct (existsb (N.eqb x) (somes r)); reflexivity.
  Qed.

  (* one issue, seen on views *)
  Lemma issue_view : forall P i e l e' l' f act od,
    (P = VB \/ P = VC) ->
    issue renv (genq (N.of_nat i)) e l = Some (e', l', f) ->
    act i = somes (l_cells l) ->
    P (mkV (e_tab e) act od) -> P (mkV (e_tab e') (fupd act i (somes (l_cells l'))) od).
  Proof.
    intros P i e l e' l' f act od HP H Ha HV. apply issue_effect in H.
    destruct H as [c [H1 [H2 [H3 _]]]]. rewrite H3, somes_app. cbn [somes]. rewrite <- Ha.
    destruct HP as [-> | ->].
    - apply (gen_VB (mkV (e_tab e) act od) i c (e_tab e') H2 HV).
    - apply (gen_VC (mkV (e_tab e) act od) i c (e_tab e') H1 H2 HV).
  Qed.

  Lemma fupd_fupd : forall A (f : nat -> A) i a b j, fupd (fupd f i a) i b j = fupd f i b j.
  Proof. intros. unfold fupd. destruct (Nat.eqb j i); reflexivity. Qed.

  Lemma good_VB : good VB. Proof. exact VB_ext. Qed.
  Lemma good_VC : good VC. Proof. exact VC_ext. Qed.
  Lemma good_P : forall P, (P = VB \/ P = VC) -> good P.
  Proof. intros P [-> | ->]; [exact good_VB|exact good_VC]. Qed.

  Lemma issue_n_view : forall P i n e l e' l' fs act od,
    (P = VB \/ P = VC) ->
    issue_n renv (genq (N.of_nat i)) n e l = Some (e', l', fs) ->
    act i = somes (l_cells l) ->
    P (mkV (e_tab e) act od) -> P (mkV (e_tab e') (fupd act i (somes (l_cells l'))) od).
  Proof.
    intros P i. induction n as [|n IH]; intros e l e' l' fs act od HP H Ha HV; cbn [issue_n] in H.
    - inversion H; subst. eapply (good_P P HP); [| | |exact HV]; auto.
      intros j. unfold fupd. destruct (Nat.eqb j i) eqn:E; [apply Nat.eqb_eq in E; subst; auto|reflexivity].
    - destruct (issue renv (genq (N.of_nat i)) e l) as [[[e1 l1] f]|] eqn:E1; [|discriminate].
      destruct (issue_n renv (genq (N.of_nat i)) n e1 l1) as [[[e2 l2] fs2]|] eqn:E2; [|discriminate].
      inversion H; subst.
      pose proof (issue_view P i _ _ _ _ _ act od HP E1 Ha HV) as HV1.
      specialize (IH _ _ _ _ _ _ od HP E2 (fupd_same _ _ _ _) HV1).
      eapply (good_P P HP); [| | |exact IH]; auto. intros j. apply fupd_fupd.
  Qed.

  Lemma set_limit_view : forall P i e l n e' l' fs r act od,
    (P = VB \/ P = VC) ->
    l_set_limit renv (genq (N.of_nat i)) e l n = Some (e', l', fs, r) ->
    act i = somes (l_cells l) ->
    P (mkV (e_tab e) act od) -> P (mkV (e_tab e') (fupd act i (somes (l_cells l'))) od).
  Proof.
    intros P i e l n e' l' fs r act od HP H Ha HV. unfold l_set_limit in H.
    assert (Hsame : P (mkV (e_tab e) (fupd act i (somes (l_cells l))) od)).
    { eapply (good_P P HP); [| | |exact HV]; auto.
      intros j. unfold fupd. destruct (Nat.eqb j i) eqn:E; [apply Nat.eqb_eq in E; subst; auto|reflexivity]. }
    destruct (l_limit l); [inversion H; subst; assumption|].
    destruct (n <? 2); [inversion H; subst; assumption|].
    destruct (issue_n renv (genq (N.of_nat i)) (N.to_nat (n - l_largest l)) e l) as [[[e1 l1] fs1]|] eqn:E1; [|discriminate].
    inversion H; subst. cbn [l_cells]. eapply issue_n_view; eassumption.
  Qed.

  Lemma recv_retire_view : forall P i e l seq e' l' fs r act od,
    (P = VB \/ P = VC) ->
    l_recv_retire renv (genq (N.of_nat i)) retire_cid e l seq = Some (e', l', fs, r) ->
    act i = somes (l_cells l) ->
    P (mkV (e_tab e) act od) -> P (mkV (e_tab e') (fupd act i (somes (l_cells l'))) od).
  Proof.
    intros P i e l seq e' l' fs r act od HP H Ha HV.
    assert (Hsame : P (mkV (e_tab e) (fupd act i (somes (l_cells l))) od)).
    { eapply (good_P P HP); [| | |exact HV]; auto.
      intros j. unfold fupd. destruct (Nat.eqb j i) eqn:E; [apply Nat.eqb_eq in E; subst; auto|reflexivity]. }
    destruct (N.leb_spec (l_largest l) seq) as [Hge|Hlt].
    { rewrite retire_unissued in H by assumption. inversion H; subst. assumption. }
    destruct (l_get l seq) as [[c|]|] eqn:EG.
    2:{ rewrite retire_inactive in H; auto; [inversion H; subst; assumption|intros c; congruence]. }
    2:{ rewrite retire_inactive in H; auto; [inversion H; subst; assumption|intros c; congruence]. }
    (* an active ID: redo the computation to see the environment *)
    pose proof (l_get_some _ _ _ EG) as [[Hlo Hhi] Hn].
    unfold l_recv_retire in H.
    replace (l_largest l <=? seq) with false in H by (symmetry; apply N.leb_gt; lia).
    rewrite EG in H.
    set (p := N.to_nat (seq - l_off l)) in *.
    set (cells1 := set_nth p (l_cells l) None) in *.
    set (n := leading_none cells1) in *.
    set (l1 := mkL (l_off l + N.of_nat n) (skipn n cells1) (l_limit l)) in *.
    destruct (issue renv (genq (N.of_nat i)) e l1) as [[[e1 l2] f]|] eqn:E1; [|discriminate].
    inversion H; subst e' l' fs r. clear H.
    apply issue_effect in E1. destruct E1 as [c' [F1 [F2 [F3 _]]]].
    destruct (somes_set_nth _ _ _ _ Hn) as [a1 [a2 [Hs1 Hs2]]]. fold cells1 in Hs2.
    assert (Hcells : somes (l_cells l2) = a1 ++ a2 ++ [c']).
    { rewrite F3, somes_app. cbn [l_cells l1 somes]. unfold n. rewrite somes_skip_leading, Hs2.
      rewrite app_assoc. reflexivity. }
    rewrite Hcells.
    assert (Htab : forall x, t_get (e_tab (retire_cid e1 c)) x =
                     if c =? x then None else if c' =? x then Some (N.of_nat i) else t_get (e_tab e) x).
    { intros x. unfold retire_cid. cbn [e_tab]. rewrite get_remove, F2. reflexivity. }
    assert (Hact : act i = a1 ++ c :: a2) by (rewrite Ha; assumption).
    destruct HP as [-> | ->].
    - apply (retire_VB (mkV (e_tab e) act od) i c c' a1 a2 _ Hact Htab HV).
    - apply (retire_VC (mkV (e_tab e) act od) i c c' a1 a2 _ Hact F1 Htab HV).
  Qed.

  (* ---- views of updated systems ---- *)

  Lemma acts_upd : forall s e i cn r h j, (i < length (s_conns s))%nat ->
    acts (mkS e (upd (s_conns s) i cn) r h) j =
    fupd (acts s) i (match cn with mkC (Some l) _ _ => somes (l_cells l) | _ => [] end) j.
  Proof.
    intros s e i cn r h j Hi. unfold acts, fupd. cbn [s_conns]. rewrite nth_error_upd.
    destruct (Nat.eqb j i); [|reflexivity].
    replace (i <? length (s_conns s))%nat with true by (symmetry; apply Nat.ltb_lt; assumption).
    reflexivity.
  Qed.

  Lemma odc_upd : forall s e i cn r h j, (i < length (s_conns s))%nat ->
    odc (mkS e (upd (s_conns s) i cn) r h) j =
    fupd (odc s) i (match cn with mkC (Some _) od _ => od | _ => None end) j.
  Proof.
    intros s e i cn r h j Hi. unfold odc, fupd. cbn [s_conns]. rewrite nth_error_upd.
    destruct (Nat.eqb j i); [|reflexivity].
    replace (i <? length (s_conns s))%nat with true by (symmetry; apply Nat.ltb_lt; assumption).
    reflexivity.
  Qed.

  Lemma fupd_id : forall A (f : nat -> A) i j, fupd f i (f i) j = f j.
  Proof. intros. unfold fupd. destruct (Nat.eqb j i) eqn:E; [apply Nat.eqb_eq in E; subst|]; reflexivity. Qed.

  Lemma local_op_inv : forall P s i f s' x,
    (P = VB \/ P = VC) ->
    (forall e l e' l' fs r act od,
        f e l = Some (e', l', fs, r) -> act i = somes (l_cells l) ->
        P (mkV (e_tab e) act od) -> P (mkV (e_tab e') (fupd act i (somes (l_cells l'))) od)) ->
    local_op s i f = (s', x) -> P (view_of s) -> P (view_of s').
  Proof.
    intros P s i f s' x HP Hf H HV. unfold local_op in H.
    destruct (nth_error (s_conns s) i) as [[[l|] od h]|] eqn:EN; try (inversion H; subst; assumption).
    destruct (f (s_env s) l) as [[[[e1 l1] fs] r]|] eqn:EF; [|inversion H; subst; assumption].
    inversion H; subst. clear H.
    assert (Hi : (i < length (s_conns s))%nat) by (apply nth_error_Some; congruence).
    assert (Ha : acts s i = somes (l_cells l)) by (unfold acts; rewrite EN; reflexivity).
    specialize (Hf _ _ _ _ _ _ (acts s) (odc s) EF Ha HV).
    unfold view_of. cbn [s_env].
    eapply (good_P P HP); [| | |exact Hf].
    - reflexivity.
    - intros j. rewrite acts_upd by assumption. reflexivity.
    - intros j. rewrite odc_upd by assumption. symmetry.
      replace od with (odc s i) by (unfold odc; rewrite EN; reflexivity). apply fupd_id.
  Qed.

  Lemma acts_out : forall s i, (length (s_conns s) <= i)%nat -> acts s i = [] /\ odc s i = None.
  Proof.
    intros s i H. unfold acts, odc. replace (nth_error (s_conns s) i) with (@None conn); [auto|].
    symmetry. apply nth_error_None. assumption.
  Qed.

  Lemma acts_app : forall s e cn r h j,
    acts (mkS e (s_conns s ++ [cn]) r h) j =
    fupd (acts s) (length (s_conns s)) (match cn with mkC (Some l) _ _ => somes (l_cells l) | _ => [] end) j /\
    odc (mkS e (s_conns s ++ [cn]) r h) j =
    fupd (odc s) (length (s_conns s)) (match cn with mkC (Some _) od _ => od | _ => None end) j.
  Proof.
    intros s e cn r h j. unfold acts, odc, fupd. cbn [s_conns].
    destruct (Nat.eqb j (length (s_conns s))) eqn:E.
    - apply Nat.eqb_eq in E. subst j. rewrite nth_error_app2 by lia. rewrite Nat.sub_diag. cbn. auto.
    - apply Nat.eqb_neq in E. destruct (Nat.lt_ge_cases j (length (s_conns s))) as [Hlt|Hge].
      + rewrite nth_error_app1 by assumption. auto.
      + replace (nth_error (s_conns s ++ [cn]) j) with (@None conn).
        * replace (nth_error (s_conns s) j) with (@None conn); [auto|]. symmetry. apply nth_error_None. assumption.
        * symmetry. apply nth_error_None. rewrite app_length. cbn. lia.
  Qed.

  (* creation of a connection *)
  Lemma conn_new_inv : forall P s od s' x,
    (P = VB \/ (P = VC /\ match od with Some o => route (s_env s) o = None | None => True end)) ->
    conn_new rnd fuel s od = (s', x) -> P (view_of s) -> P (view_of s').
  Proof.
    intros P s od s' x HP H HV. unfold conn_new in H.
    set (i := length (s_conns s)) in *.
    destruct (genq (N.of_nat i) (s_env s)) as [[e1 scid]|] eqn:EG; [|inversion H; subst; assumption].
    set (e2 := match od with Some o => insert_odcid e1 o (N.of_nat i) | None => e1 end) in *.
    destruct (l_new renv (genq (N.of_nat i)) e2 scid) as [[[e3 l] fs]|] eqn:EL; [|inversion H; subst; assumption].
    inversion H; subst s' x. clear H.
    unfold Cid.genq in EG. apply gen_unique_spec in EG. destruct EG as [G1 G2].
    unfold l_new in EL.
    destruct (issue renv (genq (N.of_nat i)) e2 (mkL 0 [Some scid] None)) as [[[e4 l4] f]|] eqn:EI; [|discriminate].
    inversion EL; subst e4 l4 fs. clear EL.
    apply issue_effect in EI. destruct EI as [c1 [I1 [I2 [I3 _]]]]. cbn [l_cells] in I3.
    assert (T2 : forall x, t_get (e_tab e2) x =
                   if (match od with Some o => o =? x | None => false end) then Some (N.of_nat i)
                   else if scid =? x then Some (N.of_nat i) else t_get (e_tab (s_env s)) x).
    { intros x. unfold e2. destruct od as [o|].
      - unfold insert_odcid. cbn [e_tab]. rewrite get_insert, G2, get_insert. reflexivity.
      - rewrite G2, get_insert. reflexivity. }
    assert (Htab : forall x, t_get (e_tab e3) x =
                   if c1 =? x then Some (N.of_nat i)
                   else if (match od with Some o => o =? x | None => false end) then Some (N.of_nat i)
                   else if scid =? x then Some (N.of_nat i) else t_get (e_tab (s_env s)) x).
    { intros x. rewrite I2, T2. reflexivity. }
    assert (Hfresh1 : c1 <> scid /\ t_get (e_tab (s_env s)) c1 = None /\ od <> Some c1).
    { rewrite T2 in I1.
      destruct (match od with Some o => o =? c1 | None => false end) eqn:E1; [discriminate|].
      destruct (scid =? c1) eqn:E2; [discriminate|]. apply N.eqb_neq in E2.
      split; [congruence|split; [assumption|]]. destruct od as [o|]; [|discriminate].
      apply N.eqb_neq in E1. congruence. }
    destruct (acts_out s i (Nat.le_refl _)) as [A0 O0].
    unfold view_of. cbn [s_env].
    assert (Hsomes : somes (l_cells l) = [scid; c1]) by (rewrite I3; reflexivity).
    destruct HP as [-> | [-> Hod]].
    - eapply VB_ext; [| | |apply (new_VB (view_of s) i scid c1 od (e_tab e3) A0 O0 Hfresh1 Htab HV)].
      + reflexivity.
      + intros j. destruct (acts_app s e3 (mkC (Some l) od (scid :: cids_of [f])) (s_remote s) (s_held s) j) as [Ha _].
        rewrite Ha, Hsomes. reflexivity.
      + intros j. destruct (acts_app s e3 (mkC (Some l) od (scid :: cids_of [f])) (s_remote s) (s_held s) j) as [_ Ho].
        rewrite Ho. reflexivity.
    - eapply VC_ext; [| | |apply (new_VC (view_of s) i scid c1 od (e_tab e3) G1 Hfresh1 Htab Hod HV)].
      + reflexivity.
      + intros j. destruct (acts_app s e3 (mkC (Some l) od (scid :: cids_of [f])) (s_remote s) (s_held s) j) as [Ha _].
        rewrite Ha, Hsomes. reflexivity.
      + intros j. destruct (acts_app s e3 (mkC (Some l) od (scid :: cids_of [f])) (s_remote s) (s_held s) j) as [_ Ho].
        rewrite Ho. reflexivity.
  Qed.

  Definition is_force (o : op) : bool := match o with OForce _ => true | _ => false end.

  Lemma step_view : forall P s o s' x,
    (P = VB \/ (P = VC /\ is_force o = false)) ->
    step s o = (s', x) -> P (view_of s) -> P (view_of s').
  Proof.
    intros P s o s' x HP H HV.
    assert (HP' : P = VB \/ P = VC) by (destruct HP as [?|[? _]]; auto).
    destruct o; cbn [Cid.step] in H.
    - (* NEW_CONNECTION_ID *)
      destruct (seq <? rpt); [inversion H; subst; assumption|].
      destruct (recv_new_cid chk post (s_remote s) seq rpt id) as [[r fr] res]. inversion H; subst. exact HV.
    - eapply local_op_inv; [exact HP'| |exact H|exact HV].
      intros e l e' l' fs r act od Hf Ha Hv. cbv beta in Hf. eapply recv_retire_view; [exact HP'|exact Hf|exact Ha|exact Hv].
    - eapply local_op_inv; [exact HP'| |exact H|exact HV].
      intros e l e' l' fs r act od Hf Ha Hv. cbv beta in Hf. eapply set_limit_view; [exact HP'|exact Hf|exact Ha|exact Hv].
    - destruct (apply_dcid (s_remote s)) as [[r p] fr]. inversion H; subst. exact HV.
    - destruct ((p <? length (r_cells (s_remote s)))%nat && negb (nmem p (s_held s))); [|inversion H; subst; assumption].
      destruct (path_borrow (s_remote s) p) as [r res]. inversion H; subst. exact HV.
    - destruct (nmem p (s_held s) && (p <? length (r_cells (s_remote s)))%nat); [|inversion H; subst; assumption].
      destruct (path_release (s_remote s) p) as [r fr]. inversion H; subst. exact HV.
    - destruct (p <? length (r_cells (s_remote s)))%nat; [|inversion H; subst; assumption].
      destruct (path_retire (s_remote s) p) as [r fr]. inversion H; subst. exact HV.
    - eapply conn_new_inv; [|exact H|exact HV]. destruct HP' as [->| ->]; auto.
    - destruct (route (s_env s) x0) eqn:ER; [inversion H; subst; assumption|].
      eapply conn_new_inv; [|exact H|exact HV]. destruct HP' as [->| ->]; auto.
    - destruct HP as [->|[_ Hf]]; [|discriminate]. eapply conn_new_inv; [left; reflexivity|exact H|exact HV].
    - (* drop *)
      destruct (nth_error (s_conns s) c) as [[[l|] od h]|] eqn:EN; try (inversion H; subst; assumption).
      cbn [l_clear] in H. inversion H; subst s' x. clear H.
      assert (Hi : (c < length (s_conns s))%nat) by (apply nth_error_Some; congruence).
      assert (Ha : acts s c = somes (l_cells l)) by (unfold acts; rewrite EN; reflexivity).
      assert (Ho : odc s c = od) by (unfold odc; rewrite EN; reflexivity).
      set (e1 := retire_all renv retire_cid (s_env s) (l_cells l)).
      assert (Htab : forall y, t_get (e_tab (match od with Some o => entry_drop e1 o (N.of_nat c) | None => e1 end)) y =
         if existsb (N.eqb y) (acts s c) then None
         else if (match odc s c with Some o => o =? y | None => false end) &&
                 (match t_get (e_tab (s_env s)) y with Some q => q =? N.of_nat c | None => false end)
              then None else t_get (e_tab (s_env s)) y).
      { intros y. rewrite Ho, Ha. destruct od as [o|].
        - unfold entry_drop. cbn [e_tab]. rewrite get_remove_if. unfold e1. rewrite !retire_all_effect.
          destruct (o =? y) eqn:E1.
          + apply N.eqb_eq in E1. subst o. cbn [andb].
            destruct (existsb (N.eqb y) (somes (l_cells l))); reflexivity.
          + cbn [andb]. reflexivity.
        - unfold e1. rewrite retire_all_effect. cbn [andb]. reflexivity. }
      unfold view_of. cbn [s_env].
      destruct HP' as [-> | ->].
      + eapply VB_ext; [| | |apply (drop_VB (view_of s) c _ Htab HV)].
        * reflexivity.
        * intros j. rewrite acts_upd by assumption. reflexivity.
        * intros j. rewrite odc_upd by assumption. reflexivity.
      + eapply VC_ext; [| | |apply (drop_VC (view_of s) c _ Htab HV)].
        * reflexivity.
        * intros j. rewrite acts_upd by assumption. reflexivity.
        * intros j. rewrite odc_upd by assumption. reflexivity.
    - inversion H; subst. exact HV.
    - (* clear *)
      destruct (nth_error (s_conns s) c) as [[[l|] od h]|] eqn:EN; try (inversion H; subst; assumption).
      cbn [l_clear] in H. inversion H; subst s' x. clear H.
      assert (Hi : (c < length (s_conns s))%nat) by (apply nth_error_Some; congruence).
      assert (Ha : acts s c = somes (l_cells l)) by (unfold acts; rewrite EN; reflexivity).
      assert (Ho : odc s c = od) by (unfold odc; rewrite EN; reflexivity).
      assert (Htab : forall y, t_get (e_tab (retire_all renv retire_cid (s_env s) (l_cells l))) y =
         if existsb (N.eqb y) (acts s c) then None else t_get (e_tab (s_env s)) y).
      { intros y. rewrite Ha. apply retire_all_effect. }
      unfold view_of. cbn [s_env].
      destruct HP' as [-> | ->].
      + eapply VB_ext; [| | |apply (clear_VB (view_of s) c _ Htab HV)].
        * reflexivity.
        * intros j. rewrite acts_upd by assumption. reflexivity.
        * intros j. rewrite odc_upd by assumption. cbn [view_of v_od]. rewrite <- Ho. symmetry. apply fupd_id.
      + eapply VC_ext; [| | |apply (clear_VC (view_of s) c _ Htab HV)].
        * reflexivity.
        * intros j. rewrite acts_upd by assumption. reflexivity.
        * intros j. rewrite odc_upd by assumption. cbn [view_of v_od]. rewrite <- Ho. symmetry. apply fupd_id.
    - inversion H; subst. exact HV.
  Qed.

  Lemma steps_VB : forall ops s s' xs, steps s ops = (s', xs) -> VB (view_of s) -> VB (view_of s').
  Proof.
    induction ops as [|o rest IH]; intros s s' xs H HV; cbn [Cid.steps] in H.
    - inversion H; subst. assumption.
    - destruct (step s o) as [s1 x] eqn:E1. destruct (steps s1 rest) as [s2 xs2] eqn:E2.
      inversion H; subst. eapply IH; [exact E2|]. eapply step_view; [left; reflexivity|exact E1|exact HV].
  Qed.

  Lemma steps_VC : forall ops s s' xs,
    forallb (fun o => negb (is_force o)) ops = true ->
    steps s ops = (s', xs) -> VC (view_of s) -> VC (view_of s').
  Proof.
    induction ops as [|o rest IH]; intros s s' xs Hnf H HV; cbn [Cid.steps] in H.
    - inversion H; subst. assumption.
    - cbn [forallb] in Hnf. apply andb_true_iff in Hnf. destruct Hnf as [Hn1 Hn2].
      destruct (step s o) as [s1 x] eqn:E1. destruct (steps s1 rest) as [s2 xs2] eqn:E2.
      inversion H; subst. eapply IH; [exact Hn2|exact E2|].
      eapply step_view; [right; split; [reflexivity|]|exact E1|exact HV].
      destruct (is_force o); [discriminate|reflexivity].
  Qed.
End Sys.
