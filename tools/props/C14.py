"""C14 — connection IDs are issued, used, retired and routed consistently."""
import itertools
import json
import os

import vlib
from vlib import Case

PROP_FILE = "Properties/C14.v"

# Which limit check the correspondence model uses is decided by ONE file: streams/cid.json
# ("run": "run_cid" = the code as it stands, known finding F18; "run_cid_count" = after the `fix:`
# commit (count of active IDs after processing, RFC 9000 5.1.1); "run_cid_fixed" = the minimal span
# repair, kept for reference only: the oracle below reports its false rejections).
# Prepared copies: streams/variants/cid.{coded,count,fixed}.json.
try:
    _RUN = json.load(open(os.path.join(vlib.ROOT, "streams", "cid.json")))["run"]
except Exception:  # fail closed: strict form
    _RUN = "run_cid_count"
FIXED = _RUN != "run_cid"

RULE = ("cases = op lists over NEWCID seq rpt id / RETIRE c seq / SETLIMIT c n / PATH_APPLY / BORROW p / RELEASE p / "
        "PATH_RETIRE p / CONN_NEW mode / CONN_DROP c / ROUTE id / CLEAR c / LATEST on one ArcRemoteCids and one shared QuicRouter; "
        "non-trivial = a NEW_CONNECTION_ID that is reordered (smaller sequence number than an earlier one) or duplicated, "
        "and a retire-prior-to that rises above an ID already assigned to a path while the frame is inside the limit window; "
        "distinct by hash of configuration + op list")
TRUSTED_BASE = ["models coq/Model/{Router,LocalCid,RemoteCid,Cid}.v restate local_cid.rs / remote_cid.rs / route.rs branch by branch; "
                "DashMap is an association list observed through lookups only; Arc/Weak pointer identity of a connection's queue is its creation index; "
                "equality with the Rust is checked by stream `cid`, not proved",
                "connection IDs are compared by name ((connection, sequence) / the number the case chose), never by their random bytes; "
                "the branch of gen_unique_cid that retries after a collision is covered by the proofs (all oracles), not by the runs"]
MODELLED = ("qbase/src/cid/local_cid.rs: new, set_limit, issue_new_cid, recv_retire_cid_frame, clear/Drop; "
            "qbase/src/cid/remote_cid.rs: recv_new_cid_frame, retire_prior_to, arrange_idle_cid, apply_dcid, apply_initial_dcid, latest_dcid, "
            "CidCell::{assign,borrow_cid,renew,retire}; qbase/src/util/index_deque.rs: get/insert/push_back/advance/drain_to/reset_offset as used there; "
            "qinterface/src/component/route.rs: insert, remove, find_entry (by DCID), QuicRouterEntry::remove, QuicRouterRegistry::{gen_unique_cid,retire_cid}, "
            "deliver's routed/unrouted decision. Not modelled: wakers, reset tokens, zero-length DCID routing by address, sequence numbers near 2^62 (C04)")
ASSUMPTIONS = ["fresh randomness is an oracle (Section variable rnd : N -> cid, any fuel); no hypothesis on it is used by the safety theorems",
               "set_limit is called at most once per connection (the Rust debug-asserts it)",
               "at most one BorrowedCid per path at a time (renew asserts is_using)",
               "frames reach recv_new_cid_frame through the frame parser (retire_prior_to <= sequence)",
               "c14_router's `live ID routes to its owner` clause is for histories in which a server connection is only created for an origin DCID the router "
               "could not route (what QuicRouter::deliver guarantees); the clauses `nothing routes to a dropped connection / retired ID` and `one owner` hold for all histories"]

_FORM = ("The tree carries the `fix:` commit for F18 (limit enforced on the count of active IDs after processing the frame); the full-strength theorems "
         "c14_remote_limit_count (an accepted frame never leaves more than the limit) and c14_remote_no_false_reject (a frame is rejected exactly when it would) "
         "are the ones tied to the code."
         if FIXED else
         "On the unchanged tree the limit clause is refuted (F18, theorem c14_remote_limit_refuted, replayed every run from corpus/C14/cid/f18.case), holds "
         "outside the class `sequence - retire_prior_to = limit` (c14_remote_limit_conditional), and the span test also rejects compliant frames "
         "(c14_remote_conservative_scenario, corpus/C14/cid/conservative.case).")

MANIFEST = {
    "text": "Machine-checked Coq theorems (Properties/C14.v) over executable models of LocalCids, RemoteCids/CidCell and the QuicRouter table, for every "
            "operation list, every random oracle and every interleaving of frames, paths and connections on one shared router: unretired local IDs never exceed "
            "the peer's limit, NEW_CONNECTION_ID sequence numbers are consecutive, every retirement of an active ID issues exactly one replacement, retirement of "
            "an unissued number is rejected; every table entry points to a live connection that still owns that ID, live IDs route to their owner, no ID has two "
            "owners; every peer sequence number below the cursor is either retired exactly once or still held by exactly one path, idle paths hold one ID, ready "
            "paths have switched above retire-prior-to, no ID sits idle while a path waits; active peer IDs never exceed our limit after an accepted frame and no frame inside the limit is rejected. " + _FORM +
            " The models are tied to the Rust by running the extracted model and the real ArcLocalCids/ArcRemoteCids/QuicRouter on the same op lists every run, and the "
            "property is also evaluated directly on the implementation's observations.",
    "note": "Trusted: Coq kernel, extraction (ExtrOcamlBasic only), OCaml driver, Rust harness, Python generators/oracle. Model-to-code equality is checked by "
            "correspondence, not proved. IDs are compared by name, not bytes; wakers and reset tokens are not modelled; cost (F10/F11) belongs to C04.",
    "technique": "Coq proof (invariants by induction over operation lists; refinement to a map id -> owner and to a partition of sequence numbers) + differential "
                 "correspondence model/implementation",
}

ID0 = 1000


def pid(seq, variant=0):
    return ID0 + seq + 1000 * variant


def seq_of_id(v):
    return (v - ID0) % 1000


# --------------------------------------------------------------------------------------
# oracle: the property, stated on the implementation's observations
# --------------------------------------------------------------------------------------

def oracle(case, obs):
    if len(obs) != len(case.ops):
        return "length: %d observations for %d ops (%s)" % (len(obs), len(case.ops), obs[-1] if obs else "")
    limit, npre, hs, id0 = [int(x) for x in case.cfg]
    # --- peer-issued IDs
    recv = {0: {id0}}        # accepted sequence number -> ids carried by the accepted frames
    tomb = 0                 # largest accepted retire_prior_to
    retired = []             # RETIRE_CONNECTION_ID sequence numbers, in emission order
    rset = set()
    npaths = max(1, npre)
    dead_paths = set()
    cur = {}                 # path -> sequence number of the ID it last borrowed
    held = set()
    dead = False             # CONNECTION_ID_LIMIT_ERROR was signalled: the connection is closing, the peer-ID side is no longer judged
    # --- our IDs
    conns = []               # dict(live, issued, retired:set, limit, od, cleared_upto)
    tainted = set()          # ID names used as origin DCID of an unconditionally created connection

    def emit(k, seqs):
        for s in seqs:
            if s in rset:
                return "retire-twice: op %d emits RETIRE_CONNECTION_ID %d a second time" % (k, s)
            rset.add(s)
            retired.append(s)
        return None

    def live_paths():
        return npaths - len(dead_paths)

    def spare():
        return [s for s in recv if s >= tomb and s not in rset]

    def usable():
        """IDs are handed out in sequence order: usable = unretired, >= retire_prior_to, and every number
        between retire_prior_to and it has arrived"""
        out = []
        s = tomb
        while s in recv:
            if s not in rset:
                out.append(s)
            s += 1
        return out

    def active_ids(c):
        return set(s for s in range(c["issued"]) if s not in c["retired"] and s >= c["cleared"])

    def owner_claims(t, key):
        c = conns[t]
        if not c["live"]:
            return False
        if c["od"] == key:
            return True
        return key[0] == "g" and key[1] == t and key[2] in active_ids(c)

    def check_route(k, key, target):
        if target < -1:
            return "route: op %d delivered to %d queues / a queue of no connection (%d)" % (k, 2, target)
        if target >= 0:
            if target >= len(conns) or not owner_claims(target, key):
                return "stale-route: op %d id %s is routed to connection %d, which is dropped or no longer owns it" % (k, key, target)
        if key[0] == "o":
            # a peer-chosen origin DCID can never equal a generated ID: its route is the entry of the LATEST
            # connection created for it, until that connection is dropped (the pointer-equality guard keeps the
            # drop of an older connection from removing it)
            owners = [i for i in range(len(conns)) if conns[i]["od0"] == key]
            want = owners[-1] if owners and conns[owners[-1]]["live"] else -1
            if target != want:
                return "misroute-od: op %d origin DCID %s is routed to %d, its latest connection is %s" % (k, key, target, want)
            return None
        if key in tainted:
            return None
        want = [i for i in range(len(conns)) if owner_claims(i, key)]
        if len(want) > 1:
            return "two-owners: op %d id %s is claimed by connections %s" % (k, key, want)
        if want and target != want[0]:
            return "misroute: op %d live id %s of connection %d is routed to %d" % (k, key, want[0], target)
        return None

    def new_frames(k, c, vals):
        """NEW_CONNECTION_ID frames (seq rpt)… of connection c: consecutive numbering"""
        if len(vals) % 2:
            return "format: op %d odd frame list" % k
        n = 0
        for j in range(0, len(vals), 2):
            seq, rpt = vals[j], vals[j + 1]
            if seq != c["issued"]:
                return "consecutive: op %d connection issues sequence number %d, next unissued is %d" % (k, seq, c["issued"])
            if rpt > seq or rpt < c["last_rpt"]:
                return "rpt: op %d NEW_CONNECTION_ID seq %d carries retire_prior_to %d (previous %d)" % (k, seq, rpt, c["last_rpt"])
            if any(s not in c["retired"] and s >= c["cleared"] for s in range(rpt)):
                return "rpt: op %d retire_prior_to %d covers an ID the peer has not retired" % (k, rpt)
            c["last_rpt"] = rpt
            c["issued"] += 1
            n += 1
        return None

    def count_ok(k, c):
        if c["limit"] is not None and len(active_ids(c)) > c["limit"]:
            return "local-count: op %d connection has %d unretired IDs, peer's limit is %d" % (k, len(active_ids(c)), c["limit"])
        return None

    for k, ((tag, args), line) in enumerate(zip(case.ops, obs)):
        if line.startswith("!"):
            return "abnormal: op %d -> %s" % (k, line)
        v = [int(x) for x in line.split()]
        if not v:
            return "format: op %d empty observation" % k
        if v[0] == -97:
            continue
        if v[0] == -96:
            return "hang: op %d random ID generation did not terminate" % k
        if dead and tag in (0, 3, 4, 5, 6, 12):
            continue
        if tag == 0:
            seq, rpt, idv = args
            code = v[0]
            if code == 3:
                if rpt <= seq:
                    return "parse: op %d well-formed NEW_CONNECTION_ID refused by the parser" % k
                continue
            if rpt > seq:
                return "parse: op %d retire_prior_to %d > sequence %d reached the connection (code %d)" % (k, rpt, seq, code)
            if code == 1:
                if v[1:]:
                    return "frames: op %d discarded NEW_CONNECTION_ID emitted frames" % k
                if seq >= tomb:
                    return "discard: op %d NEW_CONNECTION_ID seq %d >= retire_prior_to %d was discarded" % (k, seq, tomb)
                continue
            if code not in (0, 2):
                return "errkind: op %d NEW_CONNECTION_ID -> error class %d" % (k, code)
            m = emit(k, v[1:])
            if m:
                return m
            # RFC 9000 5.1.1: add the ID, retire everything below retire_prior_to, THEN count the active IDs
            # (issued by the peer, >= retire_prior_to, no RETIRE_CONNECTION_ID sent for them)
            if seq >= tomb:
                recv.setdefault(seq, set()).add(idv)
                tomb = max(tomb, rpt)
            act = spare()
            if code == 0 and len(act) > limit:
                return "limit: op %d NEW_CONNECTION_ID seq %d rpt %d accepted: %d active peer IDs %s, our limit is %d" % (
                    k, seq, rpt, len(act), sorted(act), limit)
            if code == 2:
                if len(act) <= limit:
                    return "false-reject: op %d NEW_CONNECTION_ID seq %d rpt %d answered with CONNECTION_ID_LIMIT_ERROR although only %d peer IDs %s would be active, our limit is %d" % (
                        k, seq, rpt, len(act), sorted(act), limit)
                dead = True
        elif tag == 3:
            if v[0] != npaths:
                return "path: op %d new path numbered %d, expected %d" % (k, v[0], npaths)
            npaths += 1
            m = emit(k, v[1:])
            if m:
                return m
        elif tag == 4:
            p = args[0]
            if v[0] == 0:
                if p not in dead_paths:
                    return "borrow: op %d live path %d is told it is retired" % (k, p)
            elif p in dead_paths:
                return "borrow: op %d retired path %d still gets an ID / waits" % (k, p)
            elif v[0] == 1:
                if p in cur and cur[p] not in rset:
                    return "borrow: op %d path %d lost its ID %d without a retirement" % (k, p, cur[p])
                if len(usable()) >= live_paths():
                    return "hungry: op %d path %d waits although %d usable IDs >= retire_prior_to exist for %d live paths" % (
                        k, p, len(usable()), live_paths())
            elif v[0] == 2:
                s = seq_of_id(v[1])
                if s not in recv or v[1] not in recv[s]:
                    return "borrow: op %d path %d uses ID %d which the peer never issued" % (k, p, v[1])
                if s in rset:
                    return "use-after-retire: op %d path %d uses sequence %d after RETIRE_CONNECTION_ID %d was sent" % (k, p, s, s)
                for q, sq in cur.items():
                    if q != p and sq == s and q not in dead_paths:
                        return "shared: op %d paths %d and %d both use sequence %d" % (k, p, q, s)
                if s < tomb and len(usable()) >= live_paths():
                    return "no-switch: op %d path %d still uses sequence %d < retire_prior_to %d although every live path can have a newer ID" % (k, p, s, tomb)
                cur[p] = s
                held.add(p)
            else:
                return "format: op %d borrow -> %s" % (k, v)
        elif tag == 5:
            m = emit(k, v[1:])
            if m:
                return m
            held.discard(args[0])
            p = args[0]
            # released and idle: at most the newest ID is kept
        elif tag == 6:
            p = args[0]
            m = emit(k, v[1:])
            if m:
                return m
            dead_paths.add(p)
            if p in cur and cur[p] not in rset:
                return "path-retire: op %d path %d retired, its ID %d got no RETIRE_CONNECTION_ID" % (k, p, cur[p])
        elif tag == 12:
            if v[0] == 1 and (seq_of_id(v[1]) not in recv or seq_of_id(v[1]) < tomb):
                return "latest: op %d latest_dcid %d is not a stored ID" % (k, v[1])
        elif tag == 7:
            mode = args[0]
            if v[0] == 1:
                if mode != 1:
                    return "format: op %d" % k
                key = ("o", args[1])
                m = check_route(k, key, v[1])
                if m:
                    return m
                if v[1] < 0:
                    return "route: op %d Initial packet neither routed nor reported unrouted" % k
                continue
            if v[0] != 0 or v[1] != len(conns):
                return "conn: op %d new connection numbered %s, expected %d" % (k, v[:2], len(conns))
            if mode == 0:
                od = None
            elif mode in (1, 2):
                od = ("o", args[1])
            else:
                od = ("g", args[1], args[2])
            if mode in (2, 3):
                tainted.add(od)
            if mode == 1 and od not in tainted:
                # created only because nobody owned that DCID
                for i in range(len(conns)):
                    if owner_claims(i, od):
                        return "dup-conn: op %d second connection created for origin DCID %s still owned by %d" % (k, od, i)
            c = {"live": True, "issued": 1, "retired": set(), "limit": None, "od": od, "od0": od, "cleared": 0, "last_rpt": 0}
            conns.append(c)
            m = new_frames(k, c, v[2:])
            if m:
                return m
            if c["issued"] != 2:
                return "initial: op %d a new connection issued %d IDs besides its initial one, expected 1" % (k, c["issued"] - 1)
        elif tag in (1, 2, 8, 11):
            ci = args[0]
            if ci >= len(conns) or not conns[ci]["live"]:
                return "refuse: op %d on a dropped/unknown connection was executed" % k
            c = conns[ci]
            if tag == 1:
                seq = args[1]
                if seq >= c["issued"]:
                    if v[0] == 0:
                        return "unissued: op %d RETIRE_CONNECTION_ID %d accepted, only %d sequence numbers were issued" % (k, seq, c["issued"])
                    if v[1:]:
                        return "unissued: op %d rejected retirement issued frames" % k
                    if v[0] != 2:
                        return "errkind: op %d RETIRE_CONNECTION_ID of an unissued number -> error class %d" % (k, v[0])
                else:
                    if v[0] != 0:
                        return "retire: op %d RETIRE_CONNECTION_ID %d of an issued number rejected (%d)" % (k, seq, v[0])
                    was_active = seq in active_ids(c)
                    c["retired"].add(seq)
                    before = c["issued"]
                    m = new_frames(k, c, v[1:])
                    if m:
                        return m
                    if was_active and c["issued"] != before + 1:
                        return "replace: op %d retirement of active ID %d issued %d replacements" % (k, seq, c["issued"] - before)
                    if not was_active and c["issued"] != before:
                        return "replace: op %d retirement of inactive ID %d issued %d IDs" % (k, seq, c["issued"] - before)
            elif tag == 2:
                n = args[1]
                if v[0] == -98:
                    continue
                if n < 2:
                    if v[0] != 5 or v[1:]:
                        return "param: op %d active_connection_id_limit %d accepted / wrong error (%s)" % (k, n, v)
                else:
                    if v[0] != 0:
                        return "param: op %d limit %d rejected (%d)" % (k, n, v[0])
                    m = new_frames(k, c, v[1:])
                    if m:
                        return m
                    c["limit"] = n
            elif tag == 8:
                c["live"] = False
            elif tag == 11:
                c["cleared"] = c["issued"]
            m = count_ok(k, c)
            if m:
                return m
        elif tag in (9, 10):
            key = ("g", args[0], args[1]) if tag == 9 else ("o", args[0])
            if tag == 9:
                # an alias: this ID may also be somebody's origin DCID (mode 3)
                pass
            m = check_route(k, key, v[1])
            if m:
                return m
        # invariants after every op
        if not held:
            ab = [s for s in range(tomb) if s not in rset]
            if len(ab) > live_paths():
                return "abandoned: after op %d sequence numbers %s < retire_prior_to %d have no RETIRE_CONNECTION_ID and only %d paths could hold them" % (
                    k, ab, tomb, live_paths())
    return None


def classify(case, msg, obs):
    if (msg.startswith("limit:") or msg.startswith("false-reject:")) and not FIXED:
        if any(e["id"] == "F18" for e in vlib.load_known("C14")):
            return "F18"
    return None


# --------------------------------------------------------------------------------------
# rule / histogram
# --------------------------------------------------------------------------------------

def nontrivial(case):
    limit = int(case.cfg[0])
    seen = []
    reord = False
    hit = False
    tomb = 0
    for t, a in case.ops:
        if t == 0:
            seq, rpt = a[0], a[1]
            if any(s >= seq for s in seen):
                reord = True
            seen.append(seq)
            if tomb < rpt <= seq and seq + 1 - rpt <= limit:
                hit = True           # rises above sequence 0, assigned to the handshake path
                tomb = rpt
    return reord and hit


def hist(case):
    cfg = [int(x) for x in case.cfg]
    lab = ["limit:%d" % cfg[0], "npre:%d" % cfg[1]]
    names = {0: "newcid", 1: "retire", 2: "setlimit", 3: "path_apply", 4: "borrow", 5: "release", 6: "path_retire",
             7: "conn_new", 8: "conn_drop", 9: "route", 10: "route_od", 11: "clear", 12: "latest"}
    seen = []
    for t, a in case.ops:
        lab.append("op:%s" % names.get(t, "?"))
        if t == 0:
            if a[1] > a[0]:
                lab.append("newcid:malformed")
            elif a[0] in seen:
                lab.append("newcid:duplicate")
            elif any(s > a[0] for s in seen):
                lab.append("newcid:reordered")
            if a[0] - a[1] == cfg[0]:
                lab.append("newcid:F18-boundary")
            if a[0] - a[1] > cfg[0]:
                lab.append("newcid:over-limit")
            if a[1] > 0:
                lab.append("newcid:rpt>0")
            seen.append(a[0])
        if t == 7:
            lab.append("conn_new:mode%d" % a[0])
        if t == 2:
            lab.append("setlimit:%s" % ("<2" if a[1] < 2 else "ok"))
    n = len(case.ops)
    lab.append("len:%s" % ("<=4" if n <= 4 else "<=12" if n <= 12 else "<=30" if n <= 30 else ">30"))
    return lab


# --------------------------------------------------------------------------------------
# generators
# --------------------------------------------------------------------------------------

def sweep(nconn, maxseq, ods, npaths):
    ops = []
    for c in range(nconn):
        for s in range(maxseq):
            ops.append((9, [c, s]))
    for x in ods:
        ops.append((10, [x]))
    for p in range(npaths):
        ops.append((4, [p]))
    for p in range(npaths):
        ops.append((5, [p]))
    return ops


def gen_random(rng, n, prefix):
    cases = []
    for i in range(n):
        limit = rng.choice([2, 2, 2, 3, 3, 4, 5, 8])
        npre = rng.choice([1, 1, 1, 2, 3])
        hs = rng.randrange(npre)
        ops = []
        npaths = npre
        nconn = 0
        issued = []          # per connection: sequence numbers issued so far (estimate)
        ods = [1, 2, 3]
        # a peer that is mostly compliant: issues in order, inside the window, then the network
        # reorders and duplicates
        peer_next = 1
        peer_rpt = 0
        inflight = []
        nops = rng.choice([4, 8, 12, 20, 35])
        for _ in range(nops):
            r = rng.random()
            if r < 0.30:
                # peer side
                rr = rng.random()
                if rr < 0.55:
                    if rng.random() < 0.3:
                        peer_rpt = min(peer_next, peer_rpt + rng.randint(1, 2))
                    seq = peer_next
                    if seq - peer_rpt < limit or rng.random() < 0.3:
                        peer_next += 1
                        inflight.append((seq, peer_rpt))
                        if rng.random() < 0.25:
                            inflight.append((seq, peer_rpt))
                    rng.shuffle(inflight)
                    k = rng.randint(0, len(inflight))
                    for (s, t) in inflight[:k]:
                        ops.append((0, [s, t, pid(s, 1 if rng.random() < 0.04 else 0)]))
                    inflight = inflight[k:]
                elif rr < 0.85:
                    seq = rng.randint(0, limit + 4)
                    rpt = rng.randint(0, seq + (1 if rng.random() < 0.1 else 0))
                    ops.append((0, [seq, rpt, pid(seq)]))
                else:
                    seq = rng.randint(0, limit + 3)
                    ops.append((0, [seq, max(0, seq - limit + rng.randint(-1, 1)), pid(seq)]))
            elif r < 0.55:
                # paths
                rr = rng.random()
                if rr < 0.25 and npaths < 6:
                    ops.append((3, []))
                    npaths += 1
                elif rr < 0.6:
                    ops.append((4, [rng.randrange(npaths + (1 if rng.random() < 0.05 else 0))]))
                elif rr < 0.85:
                    ops.append((5, [rng.randrange(npaths)]))
                else:
                    ops.append((6, [rng.randrange(npaths)]))
            elif r < 0.95:
                # our IDs and the router
                rr = rng.random()
                if nconn == 0 or (rr < 0.2 and nconn < 4):
                    mode = rng.choice([0, 0, 1, 1, 1, 2, 3])
                    if mode == 3 and nconn:
                        c = rng.randrange(nconn)
                        ops.append((7, [3, c, rng.randint(0, max(1, issued[c]))]))
                    else:
                        ops.append((7, [mode if mode != 3 else 0, rng.choice(ods), 0]))
                    nconn += 1      # may be one too many when the Initial was routed: refused ops are harmless
                    issued.append(2)
                else:
                    c = rng.randrange(nconn)
                    if rr < 0.5:
                        ops.append((1, [c, rng.randint(0, issued[c] + 1)]))
                        issued[c] += 1
                    elif rr < 0.65:
                        n2 = rng.choice([0, 1, 2, 2, 3, 4, 6])
                        ops.append((2, [c, n2]))
                        issued[c] = max(issued[c], n2)
                    elif rr < 0.72:
                        ops.append((8, [c]))
                    elif rr < 0.76:
                        ops.append((11, [c]))
                    elif rr < 0.92:
                        ops.append((9, [c, rng.randint(0, issued[c])]))
                    else:
                        ops.append((10, [rng.choice(ods)]))
            else:
                ops.append((12, []))
        ops += sweep(min(nconn, 4), 1 + max(issued or [0]), ods, npaths) if rng.random() < 0.8 else []
        cases.append(Case("%s%d" % (prefix, i), ops, cfg=[limit, npre, hs, ID0]))
    return cases


def gen_exh_remote(limit, depth, prefix, seqs=(1, 2, 3), with_paths=True):
    """every op list of the given length over a small alphabet of peer frames and path actions"""
    alpha = []
    for s in seqs:
        for t in range(0, s + 1):
            alpha.append((0, [s, t, pid(s)]))
    if with_paths:
        alpha += [(3, []), (4, [0]), (5, [0]), (6, [0]), (4, [1]), (6, [1])]
    cases = []
    tail = [(4, [0]), (4, [1]), (5, [0]), (5, [1]), (12, [])]
    for n, seq in enumerate(itertools.product(alpha, repeat=depth)):
        cases.append(Case("%s%d" % (prefix, n), list(seq) + tail, cfg=[limit, 1, 0, ID0]))
    return cases


def gen_exh_local(depth, prefix):
    alpha = [(7, [0, 0, 0]), (7, [1, 1, 0]), (7, [3, 0, 1]), (2, [0, 3]), (2, [0, 1]), (1, [0, 0]), (1, [0, 1]), (1, [0, 2]), (1, [0, 3]),
             (1, [1, 1]), (8, [0]), (8, [1]), (11, [0])]
    tail = sweep(3, 5, [1], 0)
    cases = []
    for n, seq in enumerate(itertools.product(alpha, repeat=depth)):
        cases.append(Case("%s%d" % (prefix, n), [(7, [0, 0, 0])] + list(seq) + tail, cfg=[2, 1, 0, ID0]))
    return cases


def gen_chain(rng, n, prefix):
    """a compliant peer that never raises retire_prior_to: every ID is in use by a path, paths other than
    the oldest are abandoned one after the other and the peer replaces each retired ID (RFC 9000 5.1.2)"""
    cases = []
    for i in range(n):
        limit = rng.choice([2, 2, 3, 4])
        ops = []
        nxt = 1
        paths = [0]
        npaths = 1
        for _ in range(limit - 1):
            ops.append((0, [nxt, 0, pid(nxt)]))
            nxt += 1
            ops.append((3, []))
            paths.append(npaths)
            npaths += 1
        for _ in range(rng.randint(1, 7)):
            victims = [p for p in paths if p != 0] or paths
            p = rng.choice(victims)
            if rng.random() < 0.3:
                ops.append((4, [p]))
                if rng.random() < 0.5:
                    ops.append((5, [p]))
            ops.append((6, [p]))
            paths.remove(p)
            frames = [(0, [nxt, 0, pid(nxt)])]
            if rng.random() < 0.2:
                frames.append((0, [nxt, 0, pid(nxt)]))
            nxt += 1
            ops += frames
            ops.append((3, []))
            paths.append(npaths)
            npaths += 1
            if rng.random() < 0.4:
                ops.append((4, [paths[-1]]))
        ops += sweep(0, 0, [], npaths) + [(12, [])]
        cases.append(Case("%s%d" % (prefix, i), ops, cfg=[limit, 1, 0, ID0]))
    return cases


def gen(rng, tier):
    if tier == "quick":
        return (gen_exh_remote(2, 3, "xr2-") + gen_exh_local(3, "xl3-") + gen_chain(rng, 400, "ch") + gen_random(rng, 5000, "r"))
    return (gen_exh_remote(2, 4, "xr2d4-") + gen_exh_remote(3, 3, "xr3-", seqs=(1, 2, 3, 4)) + gen_exh_local(4, "xl4-")
            + gen_exh_remote(2, 5, "xr2d5-", seqs=(1, 2, 3), with_paths=False) + gen_chain(rng, 6000, "ch") + gen_random(rng, 120000, "r"))


def mutate(rng, case, j):
    ops = [(t, list(a)) for t, a in case.ops]
    for _ in range(rng.randint(1, 3)):
        r = rng.random()
        if r < 0.4 and ops:
            k = rng.randrange(len(ops))
            t, a = ops[k]
            if t == 0:
                a[0] = max(0, a[0] + rng.randint(-1, 1))
                a[1] = max(0, min(a[0], a[1] + rng.randint(-1, 1)))
                a[2] = pid(a[0])
            elif a:
                a[-1] = max(0, a[-1] + rng.randint(-1, 1))
        elif r < 0.7:
            s = rng.randint(0, 6)
            ops.insert(rng.randint(0, len(ops)), (0, [s, rng.randint(0, s), pid(s)]))
        elif r < 0.85:
            ops.insert(rng.randint(0, len(ops)), rng.choice([(3, []), (4, [0]), (5, [0]), (6, [0]), (4, [1])]))
        else:
            ops.insert(rng.randint(0, len(ops)), rng.choice([(7, [0, 0, 0]), (1, [0, rng.randint(0, 4)]), (8, [0]), (2, [0, 3])]))
    ops += sweep(2, 5, [1], 2)
    return Case("m%d" % j, ops, cfg=case.cfg)


STREAMS = [{
    "name": "cid", "pkg": "hi", "bin": "impl_cid",
    "gen": gen, "oracle": oracle, "nontrivial": nontrivial, "hist": hist, "mutate": mutate, "classify": classify,
    "profiles": ("debug",), "profiles_thorough": ("debug", "release"),
    "rule": RULE,
}]
