(* Lifting the component results to the composed model (Model/StreamCtl.v, ds_step):
   1. one packet-loading step charges exactly the fresh bytes (c11_load_once_charge);
   2. the sender / controller invariant holds along every whole-DataStreams op list;
   3. simulation of ds_step by the Sid / listener components (c12_open_bound, c12_implicit_open
      for whole-DataStreams op lists). *)
From Coq Require Import List NArith ZArith Bool Lia.
From GQ Require Import Model.StreamCtl Proofs.Sid Proofs.Flow Proofs.StreamCtl.
Import ListNotations.
Local Open Scope N_scope.
Arguments N.add : simpl never.
Arguments N.sub : simpl never.
Arguments N.mul : simpl never.
Arguments N.min : simpl never.
Arguments N.max : simpl never.
Arguments N.pow : simpl never.
Arguments N.div : simpl never.
Arguments N.modulo : simpl never.

(* ---------------------------------------------------------------- association lists *)
Lemma alookup_aupdate {A} (l : list (N * A)) k v k' :
  alookup (aupdate l k v) k'
  = if k =? k' then (match alookup l k with Some _ => Some v | None => None end) else alookup l k'.
Proof.
  induction l as [|[kk vv] tl IH]; cbn [aupdate alookup].
  - destruct (k =? k'); reflexivity.
  - destruct (N.eqb_spec kk k) as [->|Hk].
    + cbn [alookup]. rewrite ?N.eqb_refl. destruct (N.eqb_spec k k'); reflexivity.
    + cbn [alookup]. destruct (N.eqb_spec kk k') as [->|Hk'].
      * destruct (N.eqb_spec k k'); [congruence|reflexivity].
      * rewrite IH. destruct (N.eqb_spec kk k); [congruence|]. reflexivity.
Qed.

Lemma alookup_ainsert {A} (l : list (N * A)) k v k' :
  alookup (ainsert l k v) k' = if k =? k' then Some v else alookup l k'.
Proof.
  induction l as [|[kk vv] tl IH]; cbn [ainsert alookup].
  - destruct (N.eqb_spec k k'); reflexivity.
  - destruct (N.ltb_spec k kk).
    + cbn [alookup]. destruct (N.eqb_spec k k'); [reflexivity|].
      destruct (N.eqb_spec kk k'); reflexivity.
    + destruct (N.eqb_spec kk k) as [->|Hk].
      * cbn [alookup]. destruct (N.eqb_spec k k'); reflexivity.
      * cbn [alookup]. rewrite IH. destruct (N.eqb_spec kk k') as [->|Hk'].
        -- destruct (N.eqb_spec k k'); [congruence|reflexivity].
        -- reflexivity.
Qed.

Definition wmap (outs : list (N * sender)) (k : N) : option N := option_map sn_window (alookup outs k).

Definition AllW (outs : list (N * sender)) : Prop := forall k sn, alookup outs k = Some sn -> Winv sn.

Lemma AllW_aupdate outs k v : AllW outs -> Winv v -> AllW (aupdate outs k v).
Proof.
  intros H Hv k' sn. rewrite alookup_aupdate. destruct (k =? k').
  - destruct (alookup outs k); [|discriminate]. intro E; inversion E; subst; exact Hv.
  - apply H.
Qed.
Lemma AllW_ainsert outs k v : AllW outs -> Winv v -> AllW (ainsert outs k v).
Proof.
  intros H Hv k' sn. rewrite alookup_ainsert. destruct (k =? k').
  - intro E; inversion E; subst; exact Hv.
  - apply H.
Qed.
Lemma wmap_aupdate outs k v s0 k' :
  alookup outs k = Some s0 -> sn_window v = sn_window s0 -> wmap (aupdate outs k v) k' = wmap outs k'.
Proof.
  intros L W. unfold wmap. rewrite alookup_aupdate. destruct (N.eqb_spec k k') as [<-|]; [|reflexivity].
  rewrite L. cbn. congruence.
Qed.

(* ---------------------------------------------------------------- one stream, one attempt *)
Lemma try_load_window s fl av : sn_window (fst (snd_try_load s fl av)) = sn_window s.
Proof.
  unfold snd_try_load. destruct (sn_state s).
  1,2: (cbn [with_state sn_col sn_shut sn_written sn_state];
        destruct (pick (sn_col s) fl av) as [[[[col' st] e] fr]|];
        [destruct (sn_shut s && (e =? sn_written s)); reflexivity
        |destruct (sn_shut s && _); [destruct (av _); reflexivity|reflexivity]]).
  - destruct (pick (sn_col s) fl av) as [[[[col' st] e] fr]|]; [reflexivity|].
    destruct (sn_finlost s); reflexivity.
  - reflexivity.
Qed.

Lemma try_load_Winv s fl av : Winv s -> Winv (fst (snd_try_load s fl av)).
Proof.
  intro I. destruct (snd_try_load s fl av) as [s' r] eqn:E. cbn [fst].
  destruct r as [[[[st e] fr] eos]|].
  - eapply p_c11_stream_limit_step; eauto.
  - eapply try_load_none; eauto.
Qed.

(* the round-robin keeps every window and the invariant of every sender; if a frame comes out it
   ends within the window its stream had BEFORE the call, and a fresh frame fits the credit *)
Lemma try_streams_full order cap fl outs outs' r :
  AllW outs -> try_streams outs order cap fl = (outs', r) ->
  AllW outs' /\ (forall k, wmap outs' k = wmap outs k)
  /\ match r with
     | Some (sid, tok, (st, e, fresh, eos)) =>
       (exists w, wmap outs sid = Some w /\ st <= e <= w) /\ (fresh = true -> e - st <= fl)
     | None => True
     end.
Proof.
  revert outs. induction order as [|[k t] rest IH]; intros outs HW H; cbn [try_streams] in H.
  - inversion H; subst. auto.
  - destruct (alookup outs k) as [sn|] eqn:L; [|eapply IH; eauto].
    destruct (snd_try_load sn fl _) as [sn' rr] eqn:T.
    pose proof (try_load_window sn fl (fun off => match est_cap cap k off with Some c => Some (N.min t c) | None => None end)) as Wn.
    pose proof (try_load_Winv sn fl (fun off => match est_cap cap k off with Some c => Some (N.min t c) | None => None end) (HW _ _ L)) as Iv.
    rewrite T in Wn, Iv. cbn [fst] in Wn, Iv.
    destruct rr as [[[[st0 e0] fr0] eos0]|].
    + inversion H; subst. split; [apply AllW_aupdate; assumption|].
      split; [intro k'; eapply wmap_aupdate; eauto|].
      pose proof (p_c11_stream_limit_step _ _ _ _ _ _ _ _ (HW _ _ L) T) as (_ & _ & B & F).
      split; [|exact F]. exists (sn_window sn). unfold wmap. rewrite L. auto.
    + destruct (IH (aupdate outs k sn') (AllW_aupdate _ _ _ HW Iv) H) as (A1 & A2 & A3).
      split; [exact A1|]. split.
      * intro k'. rewrite A2. eapply wmap_aupdate; eauto.
      * destruct r as [[[sid tok] [[[st e] fresh] eos]]|]; [|exact I].
        destruct A3 as [(w & Hw & Bw) F]. split; [|exact F]. exists w. split; [|exact Bw].
        rewrite <- Hw. symmetry. eapply wmap_aupdate; eauto.
Qed.

(* ---------------------------------------------------------------- one packet-loading step *)
(* sender / controller invariant of the composed state *)
Definition Dinv (s : ds) : Prop := AllW (d_outs s) /\ sent_data (d_fs s) <= max_data (d_fs s).

(* c11_load_once_charge: try_load_data_into_once never hits the controller's arithmetic panic,
   leaves max_data alone, raises sent_data by exactly the fresh bytes of the frame it emits (0 for
   a retransmission, 0 when nothing goes out), stays within max_data, and the frame ends within
   the window its stream had *)
Lemma p_c11_load_once_charge v s cap :
  Dinv s ->
  let '(r, s', _) := load_once v s cap in
  Dinv s' /\ max_data (d_fs s') = max_data (d_fs s)
  /\ (forall k, wmap (d_outs s') k = wmap (d_outs s) k)
  /\ d_l s' = d_l s /\ d_r s' = d_r s /\ d_lq s' = d_lq s /\ d_role s' = d_role s
  /\ match r with
     | None => sent_data (d_fs s') = sent_data (d_fs s)
     | Some (s2, _, fs) =>
       s2 = s' /\
       exists (sid off len : N) (fin fresh : bool),
         fs = [FStream sid off len fin]
         /\ sent_data (d_fs s') = sent_data (d_fs s) + (if fresh then len else 0)
         /\ (exists w, wmap (d_outs s) sid = Some w /\ off + len <= w)
     end.
Proof.
  intros [HW Hle]. unfold load_once.
  destruct (cap <? STREAM_FRAME_MAX).
  { split; [split; assumption|]. repeat split; auto. }
  destruct (sc_credit_spec (d_fs s) cap Hle) as (c1 & blk & -> & F1 & F2).
  set (q := N.min (max_data (d_fs s) - sent_data (d_fs s)) cap) in *.
  assert (Hq : q <= max_data (d_fs s) - sent_data (d_fs s)) by (unfold q; lia). clearbody q.
  destruct (try_streams (d_outs s) (load_order v s) cap q) as [outs' r] eqn:T.
  destruct (try_streams_full _ _ _ _ _ _ HW T) as (A1 & A2 & A3).
  destruct r as [[[sid tok] [[[st e] fresh] eos]]|].
  - destruct A3 as [(w & Hw & Bw) F].
    set (fb := if fresh then e - st else 0).
    assert (Hfb : fb <= q) by (unfold fb; destruct fresh; [apply F; reflexivity|lia]).
    unfold credit_post. destruct (N.leb_spec fb q); [|lia].
    assert (Efb : fb = if fresh then e - st else 0) by reflexivity. clearbody fb.
    assert (C1 : q - fb <= sent_data c1) by (clear - F1; lia).
    assert (C2 : sent_data c1 - (q - fb) <= max_data c1) by (clear - F1 F2 Hle Hq Hfb; lia).
    rewrite (sc_return_spec c1 (q - fb) C1 C2).
    cbn [with_emitted with_cursor with_fs with_outs d_fs d_outs d_l d_r d_lq d_role sent_data max_data].
    split; [split; [exact A1|cbn [sent_data max_data]; exact C2]|].
    split; [exact F2|]. split; [exact A2|]. do 4 (split; [reflexivity|]).
    split; [reflexivity|].
    exists sid, st, (e - st), eos, fresh. split; [reflexivity|].
    split; [rewrite Efb in *; destruct fresh; lia|].
    exists w. split; [exact Hw|lia].
  - assert (C1 : q <= sent_data c1) by (clear - F1; lia).
    assert (C2 : sent_data c1 - q <= max_data c1) by (clear - F1 F2 Hle Hq; lia).
    rewrite (sc_return_spec c1 q C1 C2).
    cbn [with_fs with_outs d_fs d_outs d_l d_r d_lq d_role sent_data max_data].
    split; [split; [exact A1|cbn [sent_data max_data]; exact C2]|].
    split; [exact F2|]. split; [exact A2|]. do 4 (split; [reflexivity|]). cbn [sent_data]. clear - F1. lia.
Qed.

(* ---------------------------------------------------------------- frame facts of the helpers *)
Definition SameOF (s s' : ds) : Prop := d_outs s' = d_outs s /\ d_fs s' = d_fs s.
Definition SameSL (s s' : ds) : Prop :=
  d_l s' = d_l s /\ d_r s' = d_r s /\ d_lq s' = d_lq s /\ d_role s' = d_role s.

Lemma Dinv_same s s' : SameOF s s' -> Dinv s -> Dinv s'.
Proof. intros [H1 H2] [A B]. unfold Dinv. rewrite H1, H2. auto. Qed.

Lemma inject_finish_frame s fresh fs :
  SameOF s (fst (inject_finish s fresh fs)) /\ SameSL s (fst (inject_finish s fresh fs)).
Proof.
  unfold inject_finish. destruct (on_new_rcvd (d_fr s) fresh) as [fr' res].
  destruct res as [m| |]; cbn; unfold SameOF, SameSL; cbn; auto 10.
Qed.
Lemma inject_fail_frame s e fs :
  SameOF s (fst (inject_fail s e fs)) /\ SameSL s (fst (inject_fail s e fs)).
Proof. unfold inject_fail, SameOF, SameSL; cbn; auto 10. Qed.

Lemma create_remote_frame s d idxs :
  d_fs (create_remote s d idxs) = d_fs s /\ d_l (create_remote s d idxs) = d_l s
  /\ d_r (create_remote s d idxs) = d_r s /\ d_role (create_remote s d idxs) = d_role s
  /\ (AllW (d_outs s) -> AllW (d_outs (create_remote s d idxs)))
  /\ d_lq (create_remote s d idxs) = qset (d_lq s) d (qget (d_lq s) d ++ map (sid_of (peer_of (d_role s)) d) idxs).
Proof.
  revert s. induction idxs as [|i t IH]; intro s; cbn [create_remote map].
  - rewrite app_nil_r. destruct d, (d_lq s); cbn; auto 10.
  - destruct d.
    + match goal with |- context [create_remote ?s2 Bi t] => destruct (IH s2) as (I1 & I2 & I3 & I4 & I5 & I6) end.
      rewrite I1, I2, I3, I4, I6. cbn. repeat (split; [reflexivity|]). split.
      * intro HW. apply I5. cbn. apply AllW_ainsert; [exact HW|apply Winv_new].
      * rewrite <- app_assoc. reflexivity.
    + match goal with |- context [create_remote ?s2 Uni t] => destruct (IH s2) as (I1 & I2 & I3 & I4 & I5 & I6) end.
      rewrite I1, I2, I3, I4, I6. cbn. repeat (split; [reflexivity|]). split.
      * intro HW. apply I5. cbn. exact HW.
      * rewrite <- app_assoc. reflexivity.
Qed.

Lemma try_accept_frame v s sid s1 f :
  ds_try_accept v s sid = inl (s1, f) ->
  d_fs s1 = d_fs s /\ d_l s1 = d_l s /\ d_role s1 = d_role s /\ (AllW (d_outs s) -> AllW (d_outs s1)).
Proof.
  unfold ds_try_accept.
  destruct (try_accept_sid false (fix27 v) (d_r s) (sid_dir sid) (sid_idx sid)) as [[r' res] up].
  destruct res; intro H; inversion H; subst; clear H; auto.
  pose proof (create_remote_frame (with_r s r') (sid_dir sid) (need_create first last)) as C.
  destruct C as (C1 & C2 & _ & C4 & C5 & _). cbn in *. auto.
Qed.

Lemma check_sid_frame v s sid side s1 f :
  ds_check_sid v s sid side = inl (s1, f) ->
  d_fs s1 = d_fs s /\ d_l s1 = d_l s /\ d_role s1 = d_role s /\ (AllW (d_outs s) -> AllW (d_outs s1)).
Proof.
  unfold ds_check_sid.
  destruct (negb (role_eqb (sid_role sid) (d_role s))); destruct side; try destruct (sid_dir sid);
    try discriminate; try (apply try_accept_frame); intro H; inversion H; subst; auto.
Qed.

Lemma end_of_stream_frame v s sid :
  SameOF s (fst (ds_end_of_stream v s sid)) /\ d_l (fst (ds_end_of_stream v s sid)) = d_l s
  /\ d_role (fst (ds_end_of_stream v s sid)) = d_role s /\ d_lq (fst (ds_end_of_stream v s sid)) = d_lq s.
Proof.
  unfold ds_end_of_stream. destruct (role_eqb _ _); [unfold SameOF; auto|].
  destruct (on_end_of_stream _ _ _ _) as [r' up]. unfold SameOF; cbn; auto.
Qed.
Lemma shutdown_receive_frame v s sid :
  SameOF s (fst (ds_shutdown_receive v s sid)) /\ d_l (fst (ds_shutdown_receive v s sid)) = d_l s
  /\ d_role (fst (ds_shutdown_receive v s sid)) = d_role s /\ d_lq (fst (ds_shutdown_receive v s sid)) = d_lq s.
Proof.
  unfold ds_shutdown_receive. destruct (sid_dir sid); [unfold SameOF; cbn; auto|apply end_of_stream_frame].
Qed.

(* ---------------------------------------------------------------- the sender/controller invariant along ds_step *)
(* the caller-side conditions: a handshake that is NOT a rejection never shrinks the window of a
   stream whose FIN is out (`debug_assert!(max_data >= self.max_data, "Cannot reduce sndbuf size")`
   in SendBuf::extend); a REJECTED handshake (the streams forget their sent state, the controller
   restarts its charge) needs the repaired revise_max_data (F34; as it was, sent_data > max_data
   afterwards), and the stream-level invariant Winv ("once the FIN is out every written byte is in
   the BufMap") survives it for a finished stream only if the new window still covers what was
   written *)
Definition op_ok (v : variant) (s : ds) (o : op) : Prop :=
  match o with
  | OHandshake rej =>
    (rej = true -> fix34 v = true)
    /\ forall sid sn, alookup (d_outs s) sid = Some sn -> sn_state sn = SDataSent ->
                      (if rej then sn_written sn else sn_window sn) <= revise_send_window (d_rem s) (sid_dir sid)
  | _ => True
  end.

Lemma alookup_map_vals (g : N -> sender -> sender) l k :
  alookup (map (fun ks => (fst ks, g (fst ks) (snd ks))) l) k = option_map (g k) (alookup l k).
Proof.
  induction l as [|[kk vv] tl IH]; cbn [map alookup fst snd]; [reflexivity|].
  destruct (N.eqb_spec kk k) as [->|]; [reflexivity|exact IH].
Qed.

Lemma arc_update_Winv sn w : Winv sn -> Winv (arc_update_window sn w).
Proof.
  intro I. unfold arc_update_window. destruct (sn_state sn); try exact I; apply p_c11_window_update; exact I.
Qed.

Lemma revise_Winv sn w :
  Winv sn -> (sn_state sn = SDataSent -> sn_window sn <= w) -> Winv (snd_revise sn false w).
Proof.
  intros I G. unfold snd_revise. destruct (sn_state sn) eqn:St.
  1,2: apply p_c11_window_update; exact I.
  - destruct I as (W1 & W2 & W3). specialize (G eq_refl). specialize (W3 St).
    unfold Winv. cbn [sn_col sn_window sn_written sn_state]. rewrite col_extend_len.
    split; [lia|split; [lia|]]. intros _. lia.
  - exact I.
Qed.

Lemma revise_Winv_rej sn w :
  Winv sn -> (sn_state sn = SDataSent -> sn_written sn <= w) -> Winv (snd_revise sn true w).
Proof.
  intros I G. unfold snd_revise. destruct (sn_state sn) eqn:St.
  1,2: apply p_c11_window_update; unfold Winv, snd_forget; cbn [sn_col sn_window sn_written sn_state];
       rewrite St; unfold lenN; cbn [length]; (split; [lia|split; [lia|discriminate]]).
  - specialize (G eq_refl). unfold Winv, snd_forget. cbn [sn_col sn_window sn_written sn_state].
    rewrite col_extend_len. unfold lenN at 1 2 3. cbn [length]. split; [lia|split; [lia|]]. intros _. lia.
  - exact I.
Qed.

Lemma hand_recver_frame s sid : SameOF s (hand_recver s sid) /\ SameSL s (hand_recver s sid).
Proof. unfold hand_recver. destruct (alookup (d_rcv s) sid); unfold SameOF, SameSL; cbn; auto 10. Qed.

Lemma hand_sender_frame s sid w :
  SameSL s (hand_sender s sid w) /\ d_fs (hand_sender s sid w) = d_fs s /\ (AllW (d_outs s) -> AllW (d_outs (hand_sender s sid w))).
Proof.
  unfold hand_sender. destruct (alookup (d_outs s) sid) as [sn|] eqn:L; [|unfold SameSL; auto 10].
  unfold SameSL; cbn. split; [auto|]. split; [reflexivity|]. intro HW. apply AllW_aupdate; [exact HW|].
  assert (I : Winv (match w with Some v => arc_update_window sn v | None => sn end))
    by (destruct w; [apply arc_update_Winv|]; eapply HW; eauto).
  destruct I as (W1 & W2 & W3). unfold Winv. cbn [sn_col sn_window sn_written sn_state]. auto.
Qed.

Lemma load_loop_Dinv v fuel s cap sf cf any :
  Dinv s -> Dinv (fst (fst (fst (fst (load_loop v fuel s cap sf cf any))))).
Proof.
  revert s cap sf cf any. induction fuel as [|k IH]; intros s cap sf cf any I; cbn [load_loop]; [exact I|].
  pose proof (p_c11_load_once_charge v s cap I) as C.
  destruct (load_once v s cap) as [[r s'] c]. destruct C as (I' & _ & _ & _ & _ & _ & _ & C).
  destruct r as [[[s2 cap'] f]|].
  - destruct C as [-> _]. apply IH. exact I'.
  - exact I'.
Qed.

Lemma Dinv_step v s o : Dinv s -> op_ok v s o -> Dinv (fst (ds_step v s o)).
Proof.
  intros I OK. unfold ds_step. destruct (d_closed s); [exact I|].
  destruct o; cbn [fst].
  - (* handshake *)
    destruct OK as [FX G]. unfold ds_handshake. destruct (d_hs s); [exact I|]. cbn [fst].
    destruct I as [HW Hle]. split; cbn [d_outs d_fs].
    + unfold revise_outs.
      set (g := fun (sid : N) (sn : sender) =>
                  if (sid_idx sid <? opened_streams v (d_l s) (sid_dir sid))
                     && (negb (fix26 v) || role_eqb (sid_role sid) (d_role s))
                  then snd_revise sn rejected (revise_send_window (d_rem s) (sid_dir sid)) else sn).
      rewrite (map_ext _ (fun ks => (fst ks, g (fst ks) (snd ks)))).
      2:{ intros [k x]. unfold g. cbn [fst snd]. destruct (_ && _); reflexivity. }
      intros k sn. rewrite alookup_map_vals. destruct (alookup (d_outs s) k) as [s0|] eqn:L; [|discriminate].
      cbn [option_map]. intro E; inversion E; subst; clear E. unfold g. destruct (_ && _).
      * destruct rejected.
        -- apply revise_Winv_rej; [eapply HW; eauto|]. intro St. eapply (G k); eauto.
        -- apply revise_Winv; [eapply HW; eauto|]. intro St. eapply (G k); eauto.
      * eapply HW; eauto.
    + unfold sc_revise_with, sc_increase_limit. destruct rejected.
      * rewrite (FX eq_refl). cbn [sent_data max_data flow_limited].
        destruct (0 <? _); cbn [sent_data max_data]; lia.
      * destruct (max_data (d_fs s) <? _) eqn:E; cbn [sent_data max_data]; [|exact Hle].
        apply N.ltb_lt in E. lia.
  - (* open *)
    unfold ds_open. destruct (open_send_window v d (d_mem s) (remote_params s)) as [w|]; [|exact I].
    destruct (poll_alloc_sid (d_role s) (d_l s) d) as [l' res]. destruct res; try exact I.
    destruct I as [HW Hle]. destruct d; cbn [fst]; split; cbn; try exact Hle;
      apply AllW_ainsert; try exact HW; apply Winv_new.
  - (* write *)
    unfold ds_write, handed_sender. destruct (alookup (d_outs s) sid) as [sn|] eqn:L; [|exact I].
    destruct (sn_handed sn); [|exact I]. destruct I as [HW Hle].
    destruct (sn_state sn) eqn:St; try (split; assumption);
      (destruct (sn_shut sn); [split; assumption|]; destruct (sn_window sn <=? sn_written sn); [split; assumption|];
       split; cbn; [apply AllW_aupdate; [exact HW|apply p_c11_window_write; [eapply HW; eauto|congruence]]|exact Hle]).
  - (* shutdown *)
    unfold ds_shutdown, handed_sender. destruct (alookup (d_outs s) sid) as [sn|] eqn:L; [|exact I].
    destruct (sn_handed sn); [|exact I]. destruct I as [HW Hle].
    destruct (sn_state sn) eqn:St; try (split; assumption);
      (split; cbn; [apply AllW_aupdate; [exact HW|]|exact Hle];
       pose proof (HW _ _ L) as (W1 & W2 & W3); unfold Winv; cbn [sn_col sn_window sn_written sn_state];
       (split; [exact W1|split; [exact W2|intro E; apply W3; congruence]])).
  - (* read *)
    unfold ds_read. destruct (alookup (d_rcv s) sid) as [r|]; [|exact I].
    destruct (rc_handed r); [|exact I]. destruct (rc_read r room) as [[[r' code] n] m]. exact I.
  - (* accept *)
    unfold ds_accept. destruct d.
    + destruct (d_hs s); [|exact I]. destruct (fst (d_lq s)) as [|sid q]; [exact I|]. cbn [fst].
      eapply Dinv_same; [apply hand_recver_frame|].
      destruct (hand_sender_frame (with_lq s (q, snd (d_lq s))) sid (Some (accept_send_window (d_rem s)))) as (_ & F & A).
      destruct I as [HW Hle]. split; [apply A; exact HW|rewrite F; exact Hle].
    + destruct (snd (d_lq s)) as [|sid q]; [exact I|]. cbn [fst].
      eapply Dinv_same; [apply hand_recver_frame|]. eapply Dinv_same; [|exact I]. split; reflexivity.
  - (* load *)
    unfold ds_load.
    pose proof (load_loop_Dinv v (N.to_nat (N.min cap 65536 / 2 + 2)) s cap [] [] false I) as L.
    destruct (load_loop v _ s cap [] [] false) as [[[[s' room] sf] cf] any]. exact L.
  - (* STREAM *)
    unfold ds_recv_stream.
    destruct (ds_check_sid v s sid true) as [[s1 f1]|e] eqn:C.
    2:{ eapply Dinv_same; [apply inject_fail_frame|exact I]. }
    destruct (check_sid_frame _ _ _ _ _ _ C) as (F1 & _ & _ & F4).
    assert (I1 : Dinv s1) by (destruct I as [HW Hle]; split; [auto|rewrite F1; exact Hle]).
    destruct (in_set s1 sid) as [r|]; [|eapply Dinv_same; [apply inject_finish_frame|exact I1]].
    destruct (rc_recv_data v r off len fin) as [r'|e]; [|eapply Dinv_same; [apply inject_fail_frame|exact I1]].
    destruct (rc_inset r').
    + eapply Dinv_same; [apply inject_finish_frame|]. eapply Dinv_same; [|exact I1]. split; reflexivity.
    + destruct (ds_shutdown_receive v (with_rcv s1 (aupdate (d_rcv s1) sid r')) sid) as [s3 f3] eqn:S.
      eapply Dinv_same; [apply inject_finish_frame|].
      pose proof (shutdown_receive_frame v (with_rcv s1 (aupdate (d_rcv s1) sid r')) sid) as (SF & _).
      rewrite S in SF. cbn [fst] in SF. eapply Dinv_same; [exact SF|]. eapply Dinv_same; [|exact I1]. split; reflexivity.
  - (* RESET *)
    unfold ds_recv_reset.
    destruct (ds_check_sid v s sid true) as [[s1 f1]|e] eqn:C.
    2:{ eapply Dinv_same; [apply inject_fail_frame|exact I]. }
    destruct (check_sid_frame _ _ _ _ _ _ C) as (F1 & _ & _ & F4).
    assert (I1 : Dinv s1) by (destruct I as [HW Hle]; split; [auto|rewrite F1; exact Hle]).
    destruct (in_set s1 sid) as [r|]; [|eapply Dinv_same; [apply inject_finish_frame|exact I1]].
    destruct (rc_recv_reset v r final) as [[r' fresh]|e]; [|eapply Dinv_same; [apply inject_fail_frame|exact I1]].
    destruct (ds_shutdown_receive v (with_rcv s1 (aupdate (d_rcv s1) sid r')) sid) as [s3 f3] eqn:S.
    eapply Dinv_same; [apply inject_finish_frame|].
    pose proof (shutdown_receive_frame v (with_rcv s1 (aupdate (d_rcv s1) sid r')) sid) as (SF & _).
    rewrite S in SF. cbn [fst] in SF. eapply Dinv_same; [exact SF|]. eapply Dinv_same; [|exact I1]. split; reflexivity.
  - (* STOP *)
    unfold ds_recv_stop.
    destruct (ds_check_sid v s sid false) as [[s1 f1]|e] eqn:C.
    2:{ eapply Dinv_same; [apply inject_fail_frame|exact I]. }
    destruct (check_sid_frame _ _ _ _ _ _ C) as (F1 & _ & _ & F4).
    assert (I1 : Dinv s1) by (destruct I as [HW Hle]; split; [auto|rewrite F1; exact Hle]).
    destruct (alookup (d_outs s1) sid) as [sn|] eqn:L; [|eapply Dinv_same; [apply inject_finish_frame|exact I1]].
    destruct (snd_be_stopped sn) as [sn' fin] eqn:B.
    eapply Dinv_same; [apply inject_finish_frame|]. destruct I1 as [HW1 Hle1]. split; cbn; [|exact Hle1].
    apply AllW_aupdate; [exact HW1|]. pose proof (HW1 _ _ L) as (W1 & W2 & W3).
    unfold snd_be_stopped in B. destruct (sn_state sn) eqn:St; inversion B; subst;
      unfold Winv; cbn [with_state sn_col sn_window sn_written sn_state];
      try (split; [lia|split; [lia|discriminate]]). rewrite St. auto.
  - (* MAX_STREAM_DATA *)
    unfold ds_recv_maxsd.
    destruct (ds_check_sid v s sid false) as [[s1 f1]|e] eqn:C.
    2:{ eapply Dinv_same; [apply inject_fail_frame|exact I]. }
    destruct (check_sid_frame _ _ _ _ _ _ C) as (F1 & _ & _ & F4).
    assert (I1 : Dinv s1) by (destruct I as [HW Hle]; split; [auto|rewrite F1; exact Hle]).
    destruct (alookup (d_outs s1) sid) as [sn|] eqn:L; [|eapply Dinv_same; [apply inject_finish_frame|exact I1]].
    eapply Dinv_same; [apply inject_finish_frame|]. destruct I1 as [HW1 Hle1]. split; cbn; [|exact Hle1].
    apply AllW_aupdate; [exact HW1|]. apply arc_update_Winv. eapply HW1; eauto.
  - (* MAX_STREAMS *)
    unfold ds_recv_maxstreams. destruct (increase_limit (d_l s) d v0);
      (eapply Dinv_same; [apply inject_finish_frame|]); [|exact I]. eapply Dinv_same; [|exact I]. split; reflexivity.
  - (* STREAMS_BLOCKED *)
    unfold ds_recv_sblocked. destruct (recv_streams_blocked _ _ _ _) as [r' up].
    eapply Dinv_same; [apply inject_finish_frame|]. eapply Dinv_same; [|exact I]. split; reflexivity.
  - (* MAX_DATA *)
    destruct I as [HW Hle]. split; cbn; [exact HW|].
    unfold sc_increase_limit. destruct (max_data (d_fs s) <? v0) eqn:E; cbn [sent_data max_data]; [|exact Hle].
    apply N.ltb_lt in E. lia.
  - (* STREAM_DATA_BLOCKED *)
    unfold ds_recv_sdblocked.
    destruct (ds_check_sid v s sid true) as [[s1 f1]|e] eqn:C.
    2:{ eapply Dinv_same; [apply inject_fail_frame|exact I]. }
    destruct (check_sid_frame _ _ _ _ _ _ C) as (F1 & _ & _ & F4).
    eapply Dinv_same; [apply inject_finish_frame|]. destruct I as [HW Hle]; split; [auto|rewrite F1; exact Hle].
  - (* LOSE *)
    unfold ds_lose. destruct (nth_error (d_emitted s) (N.to_nat k)) as [[[[sid st] len] fin]|]; [|exact I].
    destruct (alookup (d_outs s) sid) as [sn|] eqn:L; [|exact I].
    destruct I as [HW Hle]. split; cbn; [|exact Hle].
    apply AllW_aupdate; [exact HW|]. apply p_c11_window_loss. eapply HW; eauto.
Qed.

(* ---------------------------------------------------------------- C11 over whole-DataStreams op lists *)
Fixpoint all_ok (v : variant) (s : ds) (ops : list op) : Prop :=
  match ops with
  | [] => True
  | o :: rest => op_ok v s o /\ all_ok v (fst (ds_step v s o)) rest
  end.

Lemma Dinv_init r c loc rem mem : Dinv (ds_init r c loc rem mem).
Proof.
  unfold Dinv, ds_init, AllW. cbn. split; [intros k sn H; discriminate|lia].
Qed.

Lemma p_c11_ds_invariant v ops s : Dinv s -> all_ok v s ops -> Dinv (ds_exec v s ops).
Proof.
  revert s. induction ops as [|o rest IH]; intros s I OK; cbn [ds_exec]; [exact I|].
  destruct OK as [O1 O2]. apply IH; [apply Dinv_step; assumption|exact O2].
Qed.

(* under the invariant the controller's `max_data - sent_data` never underflows: credit() answers *)
Lemma Dinv_credit s cap : Dinv s -> exists c q b, sc_credit (d_fs s) cap = Some (c, q, b).
Proof.
  intros [_ Hle]. destruct (sc_credit_spec (d_fs s) cap Hle) as (c & b & E & _). eauto.
Qed.

(* frames of a whole LOAD: each ends within the window its stream had when the LOAD began; the
   charge of the LOAD is at most their total length and never passes max_data *)
Definition frame_in_window (outs : list (N * sender)) (f : frame) : Prop :=
  match f with
  | FStream sid off len _ => exists w, wmap outs sid = Some w /\ off + len <= w
  | _ => True
  end.
Definition frame_len (f : frame) : N := match f with FStream _ _ len _ => len | _ => 0 end.
Fixpoint frames_len (l : list frame) : N := match l with [] => 0 | f :: t => frame_len f + frames_len t end.
Lemma frames_len_app a b : frames_len (a ++ b) = frames_len a + frames_len b.
Proof. induction a as [|x t IH]; cbn [frames_len app]; lia. Qed.

Lemma load_loop_spec v fuel s cap sf cf any outs0 base :
  Dinv s -> (forall k, wmap (d_outs s) k = wmap outs0 k) ->
  Forall (frame_in_window outs0) sf ->
  base + frames_len sf >= sent_data (d_fs s) -> base <= sent_data (d_fs s) ->
  let '(s', _, sf', _, _) := load_loop v fuel s cap sf cf any in
  Forall (frame_in_window outs0) sf'
  /\ base <= sent_data (d_fs s') <= base + frames_len sf'
  /\ sent_data (d_fs s') <= max_data (d_fs s') /\ max_data (d_fs s') = max_data (d_fs s)
  /\ d_l s' = d_l s /\ d_r s' = d_r s /\ d_lq s' = d_lq s /\ d_role s' = d_role s.
Proof.
  revert s cap sf cf any. induction fuel as [|k IH]; intros s cap sf cf any I HWm HF Hb1 Hb2; cbn [load_loop].
  - destruct I as [_ Hle]. repeat split; auto; lia.
  - pose proof (p_c11_load_once_charge v s cap I) as C.
    destruct (load_once v s cap) as [[r s'] c]. destruct C as (I' & M & Wm & L1 & L2 & L3 & L4 & C).
    destruct r as [[[s2 cap'] f]|].
    + destruct C as (-> & sid & off & len & fin & fresh & -> & Hs & (w & Hw & Bw)).
      specialize (IH s' cap' (sf ++ [FStream sid off len fin]) (cf ++ c) true I').
      assert (HF' : Forall (frame_in_window outs0) (sf ++ [FStream sid off len fin])).
      { apply Forall_app. split; [exact HF|]. constructor; [|constructor]. cbn. exists w. rewrite <- HWm. auto. }
      assert (Hb1' : base + frames_len (sf ++ [FStream sid off len fin]) >= sent_data (d_fs s')).
      { rewrite frames_len_app. cbn [frames_len frame_len]. destruct fresh; lia. }
      assert (Hb2' : base <= sent_data (d_fs s')) by (destruct fresh; lia).
      specialize (IH (fun k0 => eq_trans (Wm k0) (HWm k0)) HF' Hb1' Hb2').
      destruct (load_loop v k s' cap' _ _ true) as [[[[s3 room] sf3] cf3] any3].
      destruct IH as (A1 & A2 & A3 & A4 & A5 & A6 & A7 & A8).
      rewrite A4, A5, A6, A7, A8. repeat split; auto; lia.
    + destruct I' as [_ Hle']. repeat split; auto; lia.
Qed.

(* every operation other than LOAD leaves sent_data alone *)
Lemma load_loop_frame_fs v fuel s cap sf cf any :
  Dinv s ->
  let '(s', _, _, _, _) := load_loop v fuel s cap sf cf any in
  d_l s' = d_l s /\ d_r s' = d_r s /\ d_lq s' = d_lq s /\ d_role s' = d_role s.
Proof.
  revert s cap sf cf any. induction fuel as [|k IH]; intros s cap sf cf any I; cbn [load_loop]; [auto|].
  pose proof (p_c11_load_once_charge v s cap I) as C.
  destruct (load_once v s cap) as [[r s'] c]. destruct C as (I' & _ & _ & L1 & L2 & L3 & L4 & C).
  destruct r as [[[s2 cap'] f]|]; [|auto].
  destruct C as [-> _]. specialize (IH s' cap' (sf ++ f) (cf ++ c) true I').
  destruct (load_loop v k s' cap' _ _ true) as [[[[s3 room] sf3] cf3] any3].
  destruct IH as (A5 & A6 & A7 & A8). rewrite A5, A6, A7, A8. auto.
Qed.

(* ---------------------------------------------------------------- ds_step simulated by LocalStreamIds *)
Definition op_no_reject (o : op) : Prop := match o with OHandshake true => False | _ => True end.

Lemma ds_step_lsim v s o :
  exists lops, (op_no_reject o -> Forall no_reject lops)
               /\ d_l (fst (ds_step v s o)) = fst (l_exec (d_role s) (d_l s) lops)
               /\ d_role (fst (ds_step v s o)) = d_role s.
Proof.
  unfold ds_step. destruct (d_closed s); [exists []; cbn; auto|].
  destruct o; cbn [fst].
  - (* handshake *)
    unfold ds_handshake. destruct (d_hs s); [exists []; cbn; auto|].
    exists [LRevise rejected (p_msb (d_rem s)) (p_msu (d_rem s))]. cbn [fst d_l d_role l_exec l_step].
    split; [intro NR; constructor; [destruct rejected; [contradiction|exact I]|constructor]|]. auto.
  - (* open *)
    unfold ds_open. destruct (open_send_window v d (d_mem s) (remote_params s)); [|exists []; cbn; auto].
    exists [LAlloc d]. split; [intros _; constructor; [exact I|constructor]|].
    cbn [l_exec l_step]. destruct (poll_alloc_sid (d_role s) (d_l s) d) as [l' res] eqn:E.
    pose proof (alloc_spec _ _ _ _ _ E) as A.
    destruct res; cbn [fst]; try (destruct A as [-> _] || subst l'); auto.
    destruct d; cbn; auto.
  - unfold ds_write, handed_sender. exists []. cbn [l_exec fst]. split; [constructor|].
    destruct (alookup (d_outs s) sid) as [sn|]; [|auto]. destruct (sn_handed sn); [|auto].
    destruct (sn_state sn); auto; destruct (sn_shut sn); auto; destruct (_ <=? _); auto.
  - unfold ds_shutdown, handed_sender. exists []. cbn [l_exec fst]. split; [constructor|].
    destruct (alookup (d_outs s) sid) as [sn|]; [|auto]. destruct (sn_handed sn); [|auto].
    destruct (sn_state sn); auto.
  - unfold ds_read. exists []. cbn [l_exec fst]. split; [constructor|].
    destruct (alookup (d_rcv s) sid) as [r|]; [|auto]. destruct (rc_handed r); [|auto].
    destruct (rc_read r room) as [[[r' code] n] m]. auto.
  - (* accept *)
    unfold ds_accept. exists []. cbn [l_exec fst]. split; [constructor|]. destruct d.
    + destruct (d_hs s); [|auto]. destruct (fst (d_lq s)) as [|sid q]; [auto|]. cbn [fst].
      destruct (hand_recver_frame (hand_sender (with_lq s (q, snd (d_lq s))) sid (Some (accept_send_window (d_rem s)))) sid) as (_ & R1 & _ & _ & R4).
      destruct (hand_sender_frame (with_lq s (q, snd (d_lq s))) sid (Some (accept_send_window (d_rem s)))) as ((S1 & _ & _ & S4) & _).
      rewrite R1, R4, S1, S4. auto.
    + destruct (snd (d_lq s)) as [|sid q]; [auto|]. cbn [fst].
      destruct (hand_recver_frame (with_lq s (fst (d_lq s), q)) sid) as (_ & R1 & _ & _ & R4). rewrite R1, R4. auto.
  - (* load: the local ids do not move; without the invariant the model's panic branch is inert too *)
    unfold ds_load. exists []. cbn [l_exec fst]. split; [constructor|].
    assert (G : forall v fuel s cap sf cf any,
               let '(s', _, _, _, _) := load_loop v fuel s cap sf cf any in d_l s' = d_l s /\ d_role s' = d_role s).
    { clear. intro v. induction fuel as [|k IH]; intros s cap sf cf any; cbn [load_loop]; [auto|].
      unfold load_once. destruct (cap <? STREAM_FRAME_MAX); [auto|].
      destruct (sc_credit (d_fs s) cap) as [[[fs1 credit] blk]|]; [|auto].
      destruct (try_streams (d_outs s) (load_order v s) cap credit) as [outs' r].
      destruct r as [[[sid tok] [[[st e] fresh] eos]]|]; [|cbn; auto].
      match goal with |- context [load_loop v k ?s1 ?c1 ?a ?b true] => specialize (IH s1 c1 a b true); destruct (load_loop v k s1 c1 a b true) as [[[[s3 r3] f3] c3] a3] end.
      cbn in IH. exact IH. }
    specialize (G v (N.to_nat (N.min cap 65536 / 2 + 2)) s cap [] [] false).
    destruct (load_loop v _ s cap [] [] false) as [[[[s' room] sf] cf] any]. exact G.
  - (* STREAM *)
    exists []. cbn [l_exec fst]. split; [constructor|]. unfold ds_recv_stream.
    destruct (ds_check_sid v s sid true) as [[s1 f1]|e] eqn:C.
    2:{ destruct (inject_fail_frame s e []) as (_ & A1 & _ & _ & A4). auto. }
    destruct (check_sid_frame _ _ _ _ _ _ C) as (_ & F2 & F3 & _). rewrite <- F2, <- F3.
    destruct (in_set s1 sid) as [r|].
    2:{ destruct (inject_finish_frame s1 0 f1) as (_ & A1 & _ & _ & A4). auto. }
    destruct (rc_recv_data v r off len fin) as [r'|e].
    2:{ destruct (inject_fail_frame s1 e f1) as (_ & A1 & _ & _ & A4). auto. }
    destruct (rc_inset r').
    + match goal with |- context [inject_finish ?a ?b ?c] => destruct (inject_finish_frame a b c) as (_ & A1 & _ & _ & A4) end.
      rewrite A1, A4. auto.
    + destruct (ds_shutdown_receive v (with_rcv s1 (aupdate (d_rcv s1) sid r')) sid) as [s3 f3] eqn:S.
      pose proof (shutdown_receive_frame v (with_rcv s1 (aupdate (d_rcv s1) sid r')) sid) as (_ & B1 & B2 & _).
      rewrite S in B1, B2. cbn [fst] in B1, B2.
      match goal with |- context [inject_finish ?a ?b ?c] => destruct (inject_finish_frame a b c) as (_ & A1 & _ & _ & A4) end.
      rewrite A1, A4, B1, B2. auto.
  - (* RESET *)
    exists []. cbn [l_exec fst]. split; [constructor|]. unfold ds_recv_reset.
    destruct (ds_check_sid v s sid true) as [[s1 f1]|e] eqn:C.
    2:{ destruct (inject_fail_frame s e []) as (_ & A1 & _ & _ & A4). auto. }
    destruct (check_sid_frame _ _ _ _ _ _ C) as (_ & F2 & F3 & _). rewrite <- F2, <- F3.
    destruct (in_set s1 sid) as [r|].
    2:{ destruct (inject_finish_frame s1 0 f1) as (_ & A1 & _ & _ & A4). auto. }
    destruct (rc_recv_reset v r final) as [[r' fresh]|e].
    2:{ destruct (inject_fail_frame s1 e f1) as (_ & A1 & _ & _ & A4). auto. }
    destruct (ds_shutdown_receive v (with_rcv s1 (aupdate (d_rcv s1) sid r')) sid) as [s3 f3] eqn:S.
    pose proof (shutdown_receive_frame v (with_rcv s1 (aupdate (d_rcv s1) sid r')) sid) as (_ & B1 & B2 & _).
    rewrite S in B1, B2. cbn [fst] in B1, B2.
    match goal with |- context [inject_finish ?a ?b ?c] => destruct (inject_finish_frame a b c) as (_ & A1 & _ & _ & A4) end.
    rewrite A1, A4, B1, B2. auto.
  - (* STOP *)
    exists []. cbn [l_exec fst]. split; [constructor|]. unfold ds_recv_stop.
    destruct (ds_check_sid v s sid false) as [[s1 f1]|e] eqn:C.
    2:{ destruct (inject_fail_frame s e []) as (_ & A1 & _ & _ & A4). auto. }
    destruct (check_sid_frame _ _ _ _ _ _ C) as (_ & F2 & F3 & _). rewrite <- F2, <- F3.
    destruct (alookup (d_outs s1) sid) as [sn|].
    2:{ destruct (inject_finish_frame s1 0 f1) as (_ & A1 & _ & _ & A4). auto. }
    destruct (snd_be_stopped sn) as [sn' fin].
    match goal with |- context [inject_finish ?a ?b ?c] => destruct (inject_finish_frame a b c) as (_ & A1 & _ & _ & A4) end.
    rewrite A1, A4. auto.
  - (* MAX_STREAM_DATA *)
    exists []. cbn [l_exec fst]. split; [constructor|]. unfold ds_recv_maxsd.
    destruct (ds_check_sid v s sid false) as [[s1 f1]|e] eqn:C.
    2:{ destruct (inject_fail_frame s e []) as (_ & A1 & _ & _ & A4). auto. }
    destruct (check_sid_frame _ _ _ _ _ _ C) as (_ & F2 & F3 & _). rewrite <- F2, <- F3.
    destruct (alookup (d_outs s1) sid) as [sn|];
      match goal with |- context [inject_finish ?a ?b ?c] => destruct (inject_finish_frame a b c) as (_ & A1 & _ & _ & A4) end;
      rewrite A1, A4; auto.
  - (* MAX_STREAMS *)
    exists [LIncrease d v0]. split; [intros _; constructor; [exact I|constructor]|].
    cbn [l_exec l_step fst]. unfold ds_recv_maxstreams.
    destruct (increase_limit (d_l s) d v0) as [l'|];
      match goal with |- context [inject_finish ?a ?b ?c] => destruct (inject_finish_frame a b c) as (_ & A1 & _ & _ & A4) end;
      rewrite A1, A4; auto.
  - (* STREAMS_BLOCKED *)
    exists []. cbn [l_exec fst]. split; [constructor|]. unfold ds_recv_sblocked.
    destruct (recv_streams_blocked _ _ _ _) as [r' up].
    match goal with |- context [inject_finish ?a ?b ?c] => destruct (inject_finish_frame a b c) as (_ & A1 & _ & _ & A4) end.
    rewrite A1, A4. auto.
  - exists []. cbn; auto.
  - (* STREAM_DATA_BLOCKED *)
    exists []. cbn [l_exec fst]. split; [constructor|]. unfold ds_recv_sdblocked.
    destruct (ds_check_sid v s sid true) as [[s1 f1]|e] eqn:C.
    2:{ destruct (inject_fail_frame s e []) as (_ & A1 & _ & _ & A4). auto. }
    destruct (check_sid_frame _ _ _ _ _ _ C) as (_ & F2 & F3 & _). rewrite <- F2, <- F3.
    destruct (inject_finish_frame s1 0 f1) as (_ & A1 & _ & _ & A4). auto.
  - (* LOSE *)
    exists []. cbn [l_exec fst]. split; [constructor|]. unfold ds_lose.
    destruct (nth_error (d_emitted s) (N.to_nat k)) as [[[[sid st] len] fin]|]; [|auto].
    destruct (alookup (d_outs s) sid); auto.
Qed.

Lemma l_exec_app r s a b :
  fst (l_exec r s (a ++ b)) = fst (l_exec r (fst (l_exec r s a)) b).
Proof.
  revert s. induction a as [|o t IH]; intro s; cbn [app l_exec]; [reflexivity|].
  destruct (l_step r s o) as [s1 out]. specialize (IH s1).
  destruct (l_exec r s1 (t ++ b)) as [s2 outs]. destruct (l_exec r s1 t) as [s3 outs3]. cbn [fst] in *. exact IH.
Qed.

(* c12_open_bound for whole-DataStreams op lists *)
Lemma p_c12_open_bound_ds v ops s :
  Forall op_no_reject ops -> Linv (d_l s) -> Linv (d_l (ds_exec v s ops)).
Proof.
  revert s. induction ops as [|o rest IH]; intros s F I; cbn [ds_exec]; [exact I|].
  inversion F; subst. apply IH; [assumption|].
  destruct (ds_step_lsim v s o) as (lops & NR & E & _). rewrite E.
  apply p_c12_open_bound; [apply NR; assumption|exact I].
Qed.

(* ---------------------------------------------------------------- ds_step simulated by RemoteStreamIds + listener *)
Definition rl_of (s : ds) (y : list N * list N) : rl := mkrl (d_r s) (d_lq s) y.

(* (s, y) evolves to (s', y') by operations of the component; y = ids yielded by accept so far *)
Definition Sim (v : variant) (s : ds) (y : list N * list N) (s' : ds) (y' : list N * list N) : Prop :=
  d_role s' = d_role s
  /\ exists rops, rl_exec false (fix27 v) (peer_of (d_role s)) rops (rl_of s y) = rl_of s' y'.

Lemma Sim_same v s y s' : d_r s' = d_r s -> d_lq s' = d_lq s -> d_role s' = d_role s -> Sim v s y s' y.
Proof. intros H1 H2 H3. split; [exact H3|]. exists []. unfold rl_of. cbn. rewrite H1, H2. reflexivity. Qed.

Lemma Sim_trans v s y s1 y1 s2 y2 : Sim v s y s1 y1 -> Sim v s1 y1 s2 y2 -> Sim v s y s2 y2.
Proof.
  intros [R1 [o1 E1]] [R2 [o2 E2]]. split; [congruence|]. exists (o1 ++ o2).
  unfold rl_exec in *. rewrite fold_left_app, E1. rewrite R1 in E2. exact E2.
Qed.

Lemma Sim_SL v s y s' : SameSL s s' -> Sim v s y s' y.
Proof. intros (_ & H2 & H3 & H4). apply Sim_same; assumption. Qed.

Lemma try_accept_sim v s y sid s1 f :
  ds_try_accept v s sid = inl (s1, f) -> sid_role sid <> d_role s -> Sim v s y s1 y.
Proof.
  unfold ds_try_accept. intros H Hr.
  destruct (try_accept_sid false (fix27 v) (d_r s) (sid_dir sid) (sid_idx sid)) as [[r' res] up] eqn:E.
  split.
  - destruct res; inversion H; subst; [reflexivity|].
    destruct (create_remote_frame (with_r s r') (sid_dir sid) (need_create first last)) as (_ & _ & _ & C4 & _). exact C4.
  - exists [RUse (sid_dir sid) (sid_idx sid)]. unfold rl_exec, rl_of. cbn [fold_left rl_step rl_s rl_q rl_y]. rewrite E.
    destruct res; inversion H; subst; clear H.
    + pose proof (try_accept_spec _ _ _ _ _ _ _ _ E) as (-> & _). reflexivity.
    + destruct (create_remote_frame (with_r s r') (sid_dir sid) (need_create first last)) as (_ & _ & C3 & _ & _ & C6).
      rewrite C3, C6. cbn [with_r d_r d_lq d_role]. reflexivity.
Qed.

Lemma check_sid_sim v s y sid side s1 f :
  ds_check_sid v s sid side = inl (s1, f) -> Sim v s y s1 y.
Proof.
  unfold ds_check_sid. destruct (role_eqb (sid_role sid) (d_role s)) eqn:R; cbn [negb].
  - destruct side; [destruct (sid_dir sid); [|discriminate]|]; intro H; inversion H; subst; apply Sim_same; reflexivity.
  - assert (Hr : sid_role sid <> d_role s) by (destruct (sid_role sid), (d_role s); cbn in R; congruence).
    destruct side; [|destruct (sid_dir sid); [|discriminate]]; intro H; eapply try_accept_sim; eauto.
Qed.

Lemma end_of_stream_sim v s y sid : Sim v s y (fst (ds_end_of_stream v s sid)) y.
Proof.
  unfold ds_end_of_stream. destruct (role_eqb (sid_role sid) (d_role s)); [apply Sim_same; reflexivity|].
  destruct (on_end_of_stream (fix27 v) (d_r s) (sid_dir sid) (sid_idx sid)) as [r' up] eqn:E. cbn [fst].
  split; [reflexivity|]. exists [REnd (sid_dir sid) (sid_idx sid)].
  unfold rl_exec, rl_of. cbn [fold_left rl_step rl_s rl_q rl_y]. rewrite E. reflexivity.
Qed.
Lemma shutdown_receive_sim v s y sid : Sim v s y (fst (ds_shutdown_receive v s sid)) y.
Proof.
  unfold ds_shutdown_receive. destruct (sid_dir sid); [apply Sim_same; reflexivity|apply end_of_stream_sim].
Qed.

(* the ids handed to the application, read off the observation of an ACCEPT *)
Definition accept_yield (o : op) (obs : list Z) (y : list N * list N) : list N * list N :=
  match o with
  | OAccept d =>
    match obs with
    | [1%Z; z; _] => qset y d (qget y d ++ [Z.to_N z])
    | _ => y
    end
  | _ => y
  end.

Lemma ds_step_rsim v s y o :
  Sim v s y (fst (ds_step v s o)) (accept_yield o (snd (ds_step v s o)) y).
Proof.
  unfold ds_step. destruct (d_closed s) eqn:Cl.
  { destruct o; apply Sim_same; reflexivity. }
  destruct o; cbn [accept_yield].
  - unfold ds_handshake. destruct (d_hs s); apply Sim_same; reflexivity.
  - unfold ds_open. destruct (open_send_window v d (d_mem s) (remote_params s)); [|apply Sim_same; reflexivity].
    destruct (poll_alloc_sid (d_role s) (d_l s) d) as [l' res]. destruct res; try (apply Sim_same; reflexivity).
    destruct d; apply Sim_same; reflexivity.
  - unfold ds_write, handed_sender. destruct (alookup (d_outs s) sid) as [sn|]; [|apply Sim_same; reflexivity].
    destruct (sn_handed sn); [|apply Sim_same; reflexivity].
    destruct (sn_state sn); try (apply Sim_same; reflexivity);
      destruct (sn_shut sn); try (apply Sim_same; reflexivity); destruct (_ <=? _); apply Sim_same; reflexivity.
  - unfold ds_shutdown, handed_sender. destruct (alookup (d_outs s) sid) as [sn|]; [|apply Sim_same; reflexivity].
    destruct (sn_handed sn); [|apply Sim_same; reflexivity]. destruct (sn_state sn); apply Sim_same; reflexivity.
  - unfold ds_read. destruct (alookup (d_rcv s) sid) as [r|]; [|apply Sim_same; reflexivity].
    destruct (rc_handed r); [|apply Sim_same; reflexivity].
    destruct (rc_read r room) as [[[r' code] n] m]. apply Sim_same; reflexivity.
  - (* accept *)
    unfold ds_accept. destruct d.
    + destruct (d_hs s); [|cbn; apply Sim_same; reflexivity].
      destruct (fst (d_lq s)) as [|sid q] eqn:Q; [cbn; apply Sim_same; reflexivity|].
      cbn [fst snd]. rewrite N2Z.id.
      destruct (hand_recver_frame (hand_sender (with_lq s (q, snd (d_lq s))) sid (Some (accept_send_window (d_rem s)))) sid) as (_ & _ & R2 & R3 & R4).
      destruct (hand_sender_frame (with_lq s (q, snd (d_lq s))) sid (Some (accept_send_window (d_rem s)))) as ((_ & S2 & S3 & S4) & _).
      split; [rewrite R4, S4; reflexivity|]. exists [RPop Bi].
      unfold rl_exec, rl_of. cbn [fold_left rl_step rl_s rl_q rl_y qget]. rewrite Q.
      rewrite R2, R3, S2, S3. cbn [with_lq d_r d_lq qset]. reflexivity.
    + destruct (snd (d_lq s)) as [|sid q] eqn:Q; [cbn; apply Sim_same; reflexivity|].
      cbn [fst snd]. rewrite N2Z.id.
      destruct (hand_recver_frame (with_lq s (fst (d_lq s), q)) sid) as (_ & _ & R2 & R3 & R4).
      split; [rewrite R4; reflexivity|]. exists [RPop Uni].
      unfold rl_exec, rl_of. cbn [fold_left rl_step rl_s rl_q rl_y qget]. rewrite Q.
      rewrite R2, R3. cbn [with_lq d_r d_lq qset]. reflexivity.
  - (* load *)
    unfold ds_load.
    assert (G : forall v fuel s cap sf cf any,
               let '(s', _, _, _, _) := load_loop v fuel s cap sf cf any in
               d_r s' = d_r s /\ d_lq s' = d_lq s /\ d_role s' = d_role s).
    { clear. intro v. induction fuel as [|k IH]; intros s cap sf cf any; cbn [load_loop]; [auto|].
      unfold load_once. destruct (cap <? STREAM_FRAME_MAX); [auto|].
      destruct (sc_credit (d_fs s) cap) as [[[fs1 credit] blk]|]; [|auto].
      destruct (try_streams (d_outs s) (load_order v s) cap credit) as [outs' r].
      destruct r as [[[sid tok] [[[st e] fresh] eos]]|]; [|cbn; auto].
      match goal with |- context [load_loop v k ?s1 ?c1 ?a ?b true] => specialize (IH s1 c1 a b true); destruct (load_loop v k s1 c1 a b true) as [[[[s3 r3] f3] c3] a3] end.
      cbn in IH. exact IH. }
    specialize (G v (N.to_nat (N.min cap 65536 / 2 + 2)) s cap [] [] false).
    destruct (load_loop v _ s cap [] [] false) as [[[[s' room] sf] cf] any]. cbn [fst].
    destruct G as (G1 & G2 & G3). apply Sim_same; assumption.
  - (* STREAM *)
    unfold ds_recv_stream.
    destruct (ds_check_sid v s sid true) as [[s1 f1]|e] eqn:C.
    2:{ apply Sim_SL. apply inject_fail_frame. }
    eapply Sim_trans; [eapply check_sid_sim; eauto|].
    destruct (in_set s1 sid) as [r|]; [|apply Sim_SL; apply inject_finish_frame].
    destruct (rc_recv_data v r off len fin) as [r'|e]; [|apply Sim_SL; apply inject_fail_frame].
    destruct (rc_inset r').
    + eapply Sim_trans; [|apply Sim_SL; apply inject_finish_frame]. apply Sim_same; reflexivity.
    + destruct (ds_shutdown_receive v (with_rcv s1 (aupdate (d_rcv s1) sid r')) sid) as [s3 f3] eqn:S.
      eapply Sim_trans; [|apply Sim_SL; apply inject_finish_frame].
      eapply Sim_trans; [apply (Sim_same v s1 y (with_rcv s1 (aupdate (d_rcv s1) sid r'))); reflexivity|].
      pose proof (shutdown_receive_sim v (with_rcv s1 (aupdate (d_rcv s1) sid r')) y sid) as H. rewrite S in H. exact H.
  - (* RESET *)
    unfold ds_recv_reset.
    destruct (ds_check_sid v s sid true) as [[s1 f1]|e] eqn:C.
    2:{ apply Sim_SL. apply inject_fail_frame. }
    eapply Sim_trans; [eapply check_sid_sim; eauto|].
    destruct (in_set s1 sid) as [r|]; [|apply Sim_SL; apply inject_finish_frame].
    destruct (rc_recv_reset v r final) as [[r' fresh]|e]; [|apply Sim_SL; apply inject_fail_frame].
    destruct (ds_shutdown_receive v (with_rcv s1 (aupdate (d_rcv s1) sid r')) sid) as [s3 f3] eqn:S.
    eapply Sim_trans; [|apply Sim_SL; apply inject_finish_frame].
    eapply Sim_trans; [apply (Sim_same v s1 y (with_rcv s1 (aupdate (d_rcv s1) sid r'))); reflexivity|].
    pose proof (shutdown_receive_sim v (with_rcv s1 (aupdate (d_rcv s1) sid r')) y sid) as H. rewrite S in H. exact H.
  - (* STOP *)
    unfold ds_recv_stop.
    destruct (ds_check_sid v s sid false) as [[s1 f1]|e] eqn:C.
    2:{ apply Sim_SL. apply inject_fail_frame. }
    eapply Sim_trans; [eapply check_sid_sim; eauto|].
    destruct (alookup (d_outs s1) sid) as [sn|]; [|apply Sim_SL; apply inject_finish_frame].
    destruct (snd_be_stopped sn) as [sn' fin].
    eapply Sim_trans; [|apply Sim_SL; apply inject_finish_frame]. apply Sim_same; reflexivity.
  - (* MAX_STREAM_DATA *)
    unfold ds_recv_maxsd.
    destruct (ds_check_sid v s sid false) as [[s1 f1]|e] eqn:C.
    2:{ apply Sim_SL. apply inject_fail_frame. }
    eapply Sim_trans; [eapply check_sid_sim; eauto|].
    destruct (alookup (d_outs s1) sid) as [sn|]; [|apply Sim_SL; apply inject_finish_frame].
    eapply Sim_trans; [|apply Sim_SL; apply inject_finish_frame]. apply Sim_same; reflexivity.
  - (* MAX_STREAMS *)
    unfold ds_recv_maxstreams. destruct (increase_limit (d_l s) d v0) as [l'|];
      [eapply Sim_trans; [|apply Sim_SL; apply inject_finish_frame]; apply Sim_same; reflexivity
      |apply Sim_SL; apply inject_finish_frame].
  - (* STREAMS_BLOCKED *)
    unfold ds_recv_sblocked.
    destruct (recv_streams_blocked (fix27 v) (d_r s) d v0) as [r' up] eqn:E.
    eapply Sim_trans; [|apply Sim_SL; apply inject_finish_frame].
    split; [reflexivity|]. exists [RBlocked d v0].
    unfold rl_exec, rl_of. cbn [fold_left rl_step rl_s rl_q rl_y]. rewrite E. reflexivity.
  - apply Sim_same; reflexivity.
  - (* STREAM_DATA_BLOCKED *)
    unfold ds_recv_sdblocked.
    destruct (ds_check_sid v s sid true) as [[s1 f1]|e] eqn:C.
    2:{ apply Sim_SL. apply inject_fail_frame. }
    eapply Sim_trans; [eapply check_sid_sim; eauto|]. apply Sim_SL; apply inject_finish_frame.
  - (* LOSE *)
    unfold ds_lose. destruct (nth_error (d_emitted s) (N.to_nat k)) as [[[[sid st] len] fin]|]; [|apply Sim_same; reflexivity].
    destruct (alookup (d_outs s) sid); apply Sim_same; reflexivity.
Qed.

(* run with the ghost list of yielded ids *)
Fixpoint ds_exec_y (v : variant) (s : ds) (y : list N * list N) (ops : list op) : ds * (list N * list N) :=
  match ops with
  | [] => (s, y)
  | o :: rest => ds_exec_y v (fst (ds_step v s o)) (accept_yield o (snd (ds_step v s o)) y) rest
  end.

Lemma ds_exec_y_state v s y ops : fst (ds_exec_y v s y ops) = ds_exec v s ops.
Proof. revert s y. induction ops as [|o rest IH]; intros s y; cbn [ds_exec_y ds_exec]; [reflexivity|apply IH]. Qed.

Lemma Rinv_exec strict mono peer ops x : Rinv peer x -> Rinv peer (rl_exec strict mono peer ops x).
Proof.
  unfold rl_exec. revert x. induction ops as [|o rest IH]; intros x I; cbn [fold_left]; [exact I|].
  apply IH. apply Rinv_step. exact I.
Qed.

(* c12_implicit_open for whole-DataStreams op lists: at every point, the ids accept has yielded so
   far followed by the ids still queued are exactly the peer's streams 0 .. next-1 of that
   direction, in order (hence each is offered exactly once) *)
Lemma p_c12_implicit_open_ds v ops s y :
  Rinv (peer_of (d_role s)) (rl_of s y) ->
  let '(s', y') := ds_exec_y v s y ops in
  d_role s' = d_role s /\ Rinv (peer_of (d_role s)) (rl_of s' y').
Proof.
  revert s y. induction ops as [|o rest IH]; intros s y I; cbn [ds_exec_y]; [auto|].
  destruct (ds_step_rsim v s y o) as [R [rops E]].
  assert (I1 : Rinv (peer_of (d_role s)) (rl_of (fst (ds_step v s o)) (accept_yield o (snd (ds_step v s o)) y))).
  { rewrite <- E. apply Rinv_exec. exact I. }
  specialize (IH (fst (ds_step v s o)) (accept_yield o (snd (ds_step v s o)) y)).
  rewrite R in IH. specialize (IH I1).
  destruct (ds_exec_y v _ _ rest) as [s' y']. destruct IH as [R' I']. split; [congruence|exact I'].
Qed.

Lemma Rinv_init_ds r c loc rem mem : Rinv (peer_of r) (rl_of (ds_init r c loc rem mem) ([], [])).
Proof. intro d. unfold rl_of, ds_init. cbn. destruct d; reflexivity. Qed.

(* and the advertised MAX_STREAMS limit never decreases along a whole-DataStreams op list (F27 repaired) *)
Lemma p_c12_limit_monotone_ds v ops s :
  fix27 v = true -> max_le (r_max (d_r s)) (r_max (d_r (ds_exec v s ops))).
Proof.
  intro HV. revert s. induction ops as [|o rest IH]; intro s; cbn [ds_exec]; [intro; lia|].
  destruct (ds_step_rsim v s ([], []) o) as [_ [rops E]].
  pose proof (p_c12_limit_monotone false (peer_of (d_role s)) rops (rl_of s ([], []))) as M.
  rewrite HV in E. rewrite E in M. cbn [rl_of rl_s] in M.
  intro d. specialize (M d). specialize (IH (fst (ds_step v s o)) d). lia.
Qed.

(* ---------------------------------------------------------------- C11 over op lists: statements *)
(* sent_data is raised only by LOAD; the only other operation that moves it is a rejected
   handshake of the repaired code, which restarts it from 0 *)
Lemma ds_step_sent v s o :
  (forall cap, o <> OLoad cap) -> (fix34 v = true -> o <> OHandshake true) ->
  sent_data (d_fs (fst (ds_step v s o))) = sent_data (d_fs s).
Proof.
  intros NL NR. unfold ds_step. destruct (d_closed s); [reflexivity|].
  destruct o; cbn [fst].
  - unfold ds_handshake. destruct (d_hs s); [reflexivity|]. cbn [fst d_fs].
    unfold sc_revise_with, sc_increase_limit. destruct rejected; cbn [max_data sent_data].
    + destruct (fix34 v); [exfalso; apply NR; reflexivity|]. destruct (_ <? _); reflexivity.
    + destruct (_ <? _); reflexivity.
  - unfold ds_open. destruct (open_send_window v d (d_mem s) (remote_params s)); [|reflexivity].
    destruct (poll_alloc_sid (d_role s) (d_l s) d) as [l' res]. destruct res; try reflexivity. destruct d; reflexivity.
  - unfold ds_write, handed_sender. destruct (alookup (d_outs s) sid) as [sn|]; [|reflexivity].
    destruct (sn_handed sn); [|reflexivity].
    destruct (sn_state sn); try reflexivity; destruct (sn_shut sn); try reflexivity; destruct (_ <=? _); reflexivity.
  - unfold ds_shutdown, handed_sender. destruct (alookup (d_outs s) sid) as [sn|]; [|reflexivity].
    destruct (sn_handed sn); [|reflexivity]. destruct (sn_state sn); reflexivity.
  - unfold ds_read. destruct (alookup (d_rcv s) sid) as [r|]; [|reflexivity].
    destruct (rc_handed r); [|reflexivity]. destruct (rc_read r room) as [[[r' code] n] m]. reflexivity.
  - unfold ds_accept. destruct d.
    + destruct (d_hs s); [|reflexivity]. destruct (fst (d_lq s)) as [|sid q]; [reflexivity|]. cbn [fst].
      destruct (hand_recver_frame (hand_sender (with_lq s (q, snd (d_lq s))) sid (Some (accept_send_window (d_rem s)))) sid) as ((_ & R) & _).
      destruct (hand_sender_frame (with_lq s (q, snd (d_lq s))) sid (Some (accept_send_window (d_rem s)))) as (_ & S & _).
      rewrite R, S. reflexivity.
    + destruct (snd (d_lq s)) as [|sid q]; [reflexivity|]. cbn [fst].
      destruct (hand_recver_frame (with_lq s (fst (d_lq s), q)) sid) as ((_ & R) & _). rewrite R. reflexivity.
  - exfalso. eapply NL; reflexivity.
  - unfold ds_recv_stream.
    destruct (ds_check_sid v s sid true) as [[s1 f1]|e] eqn:C.
    2:{ destruct (inject_fail_frame s e []) as ((_ & A) & _). rewrite A. reflexivity. }
    destruct (check_sid_frame _ _ _ _ _ _ C) as (F1 & _). rewrite <- F1.
    destruct (in_set s1 sid) as [r|].
    2:{ destruct (inject_finish_frame s1 0 f1) as ((_ & A) & _). rewrite A. reflexivity. }
    destruct (rc_recv_data v r off len fin) as [r'|e].
    2:{ destruct (inject_fail_frame s1 e f1) as ((_ & A) & _). rewrite A. reflexivity. }
    destruct (rc_inset r').
    + match goal with |- context [inject_finish ?a ?b ?c] => destruct (inject_finish_frame a b c) as ((_ & A) & _) end.
      rewrite A. reflexivity.
    + destruct (ds_shutdown_receive v (with_rcv s1 (aupdate (d_rcv s1) sid r')) sid) as [s3 f3] eqn:S.
      pose proof (shutdown_receive_frame v (with_rcv s1 (aupdate (d_rcv s1) sid r')) sid) as ((_ & B) & _).
      rewrite S in B. cbn [fst] in B.
      match goal with |- context [inject_finish ?a ?b ?c] => destruct (inject_finish_frame a b c) as ((_ & A) & _) end.
      rewrite A, B. reflexivity.
  - unfold ds_recv_reset.
    destruct (ds_check_sid v s sid true) as [[s1 f1]|e] eqn:C.
    2:{ destruct (inject_fail_frame s e []) as ((_ & A) & _). rewrite A. reflexivity. }
    destruct (check_sid_frame _ _ _ _ _ _ C) as (F1 & _). rewrite <- F1.
    destruct (in_set s1 sid) as [r|].
    2:{ destruct (inject_finish_frame s1 0 f1) as ((_ & A) & _). rewrite A. reflexivity. }
    destruct (rc_recv_reset v r final) as [[r' fresh]|e].
    2:{ destruct (inject_fail_frame s1 e f1) as ((_ & A) & _). rewrite A. reflexivity. }
    destruct (ds_shutdown_receive v (with_rcv s1 (aupdate (d_rcv s1) sid r')) sid) as [s3 f3] eqn:S.
    pose proof (shutdown_receive_frame v (with_rcv s1 (aupdate (d_rcv s1) sid r')) sid) as ((_ & B) & _).
    rewrite S in B. cbn [fst] in B.
    match goal with |- context [inject_finish ?a ?b ?c] => destruct (inject_finish_frame a b c) as ((_ & A) & _) end.
    rewrite A, B. reflexivity.
  - unfold ds_recv_stop.
    destruct (ds_check_sid v s sid false) as [[s1 f1]|e] eqn:C.
    2:{ destruct (inject_fail_frame s e []) as ((_ & A) & _). rewrite A. reflexivity. }
    destruct (check_sid_frame _ _ _ _ _ _ C) as (F1 & _). rewrite <- F1.
    destruct (alookup (d_outs s1) sid) as [sn|].
    2:{ destruct (inject_finish_frame s1 0 f1) as ((_ & A) & _). rewrite A. reflexivity. }
    destruct (snd_be_stopped sn) as [sn' fin].
    match goal with |- context [inject_finish ?a ?b ?c] => destruct (inject_finish_frame a b c) as ((_ & A) & _) end.
    rewrite A. reflexivity.
  - unfold ds_recv_maxsd.
    destruct (ds_check_sid v s sid false) as [[s1 f1]|e] eqn:C.
    2:{ destruct (inject_fail_frame s e []) as ((_ & A) & _). rewrite A. reflexivity. }
    destruct (check_sid_frame _ _ _ _ _ _ C) as (F1 & _). rewrite <- F1.
    destruct (alookup (d_outs s1) sid) as [sn|];
      match goal with |- context [inject_finish ?a ?b ?c] => destruct (inject_finish_frame a b c) as ((_ & A) & _) end;
      rewrite A; reflexivity.
  - unfold ds_recv_maxstreams. destruct (increase_limit (d_l s) d v0) as [l'|];
      match goal with |- context [inject_finish ?a ?b ?c] => destruct (inject_finish_frame a b c) as ((_ & A) & _) end;
      rewrite A; reflexivity.
  - unfold ds_recv_sblocked. destruct (recv_streams_blocked _ _ _ _) as [r' up].
    match goal with |- context [inject_finish ?a ?b ?c] => destruct (inject_finish_frame a b c) as ((_ & A) & _) end.
    rewrite A. reflexivity.
  - cbn. unfold sc_increase_limit. destruct (_ <? _); reflexivity.
  - unfold ds_recv_sdblocked.
    destruct (ds_check_sid v s sid true) as [[s1 f1]|e] eqn:C.
    2:{ destruct (inject_fail_frame s e []) as ((_ & A) & _). rewrite A. reflexivity. }
    destruct (check_sid_frame _ _ _ _ _ _ C) as (F1 & _). rewrite <- F1.
    destruct (inject_finish_frame s1 0 f1) as ((_ & A) & _). rewrite A. reflexivity.
  - unfold ds_lose. destruct (nth_error (d_emitted s) (N.to_nat k)) as [[[[sid st] len] fin]|]; [|reflexivity].
    destruct (alookup (d_outs s) sid); reflexivity.
Qed.

(* F34 repaired: a rejected handshake restarts the connection-level accounting: the charge is 0 and
   the limit is exactly the server's initial_max_data *)
Lemma p_c11_rejected_restarts v s :
  fix34 v = true -> d_closed s = false -> d_hs s = false ->
  let s' := fst (ds_step v s (OHandshake true)) in
  sent_data (d_fs s') = 0 /\ max_data (d_fs s') = p_md (d_rem s).
Proof.
  intros FX C H. cbn zeta. unfold ds_step. rewrite C. unfold ds_handshake. rewrite H. cbn [fst d_fs].
  unfold sc_revise_with, sc_increase_limit. rewrite FX. cbn [sent_data max_data flow_limited].
  destruct (N.ltb_spec 0 (p_md (d_rem s))); cbn [sent_data max_data]; split; try reflexivity; lia.
Qed.

(* c11_stream_limit / c11_conn_limit at every state reachable by a whole-DataStreams op list:
   a LOAD of any capacity emits only frames that end within their stream's window, charges at most
   their total length, never passes max_data, and credit() cannot underflow *)
Lemma p_c11_limits_ds v ops s0 cap fuel :
  Dinv s0 -> all_ok v s0 ops ->
  let s := ds_exec v s0 ops in
  (exists c q b, sc_credit (d_fs s) cap = Some (c, q, b))
  /\ let '(s', _, sf, _, _) := load_loop v fuel s cap [] [] false in
     Forall (frame_in_window (d_outs s)) sf
     /\ sent_data (d_fs s) <= sent_data (d_fs s') <= sent_data (d_fs s) + frames_len sf
     /\ sent_data (d_fs s') <= max_data (d_fs s') /\ max_data (d_fs s') = max_data (d_fs s).
Proof.
  intros I OK. pose proof (p_c11_ds_invariant v ops s0 I OK) as Is. cbn zeta.
  split; [apply Dinv_credit; exact Is|].
  pose proof (load_loop_spec v fuel (ds_exec v s0 ops) cap [] [] false (d_outs (ds_exec v s0 ops))
                (sent_data (d_fs (ds_exec v s0 ops))) Is (fun _ => eq_refl) (Forall_nil _)) as H.
  cbn [frames_len] in H.
  assert (A : sent_data (d_fs (ds_exec v s0 ops)) + 0 >= sent_data (d_fs (ds_exec v s0 ops))) by lia.
  assert (B : sent_data (d_fs (ds_exec v s0 ops)) <= sent_data (d_fs (ds_exec v s0 ops))) by lia.
  specialize (H A B).
  destruct (load_loop v fuel (ds_exec v s0 ops) cap [] [] false) as [[[[s' room] sf] cf] any].
  destruct H as (H1 & H2 & H3 & H4 & _). auto.
Qed.

(* ---------------------------------------------------------------- F33 repaired: only streams within the peer's stream limit send *)
Lemma allowed_below_limit v s sid :
  fix33 v = true -> stream_allowed v s sid = true -> sid_role sid = d_role s ->
  sid_idx sid < pget (l_max (d_l s)) (sid_dir sid).
Proof.
  intros HV H Hr. unfold stream_allowed, opened_streams in H. rewrite HV, Hr in H.
  assert (E : role_eqb (d_role s) (peer_of (d_role s)) = false) by (destruct (d_role s); reflexivity).
  rewrite E in H. cbn [orb] in H.
  destruct (sid_dir sid); cbn [dir_eqb andb orb] in H.
  - rewrite orb_false_r in H. apply N.ltb_lt in H. lia.
  - apply N.ltb_lt in H. lia.
Qed.

Lemma try_streams_in outs order cap fl outs' sid tok fp :
  try_streams outs order cap fl = (outs', Some (sid, tok, fp)) -> In (sid, tok) order.
Proof.
  revert outs. induction order as [|[k t] rest IH]; intros outs H; cbn [try_streams] in H; [discriminate|].
  destruct (alookup outs k) as [sn|]; [|right; eapply IH; eauto].
  destruct (snd_try_load sn fl _) as [sn' r]. destruct r as [fp0|].
  - inversion H; subst. left; reflexivity.
  - right. eapply IH; eauto.
Qed.

Lemma p_c11_load_within_stream_limit v s cap :
  fix33 v = true ->
  let '(r, _, _) := load_once v s cap in
  match r with
  | Some (_, _, fs) =>
    forall sid off len fin, In (FStream sid off len fin) fs -> sid_role sid = d_role s ->
                            sid_idx sid < pget (l_max (d_l s)) (sid_dir sid)
  | None => True
  end.
Proof.
  intro HV. unfold load_once. destruct (cap <? STREAM_FRAME_MAX); [exact I|].
  destruct (sc_credit (d_fs s) cap) as [[[fs1 credit] blk]|]; [|exact I].
  destruct (try_streams (d_outs s) (load_order v s) cap credit) as [outs' r] eqn:T.
  destruct r as [[[sid tok] [[[st e] fresh] eos]]|]; [|exact I].
  intros sid' off len fin [E|[]] Hr. inversion E; subst.
  apply try_streams_in in T. unfold load_order in T. apply filter_In in T. destruct T as [_ A]. cbn [fst] in A.
  eapply allowed_below_limit; eauto.
Qed.

(* before the repair the filter was vacuous: 0-RTT client, three bidi streams opened under a
   remembered limit of 5, rejected handshake with a limit of 1, streams 4 and 8 still send *)
