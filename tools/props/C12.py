"""C12 — stream limits, stream direction and final size are enforced."""
import itertools
from vlib import Case
import props.streams_common as sc

PROP_FILE = "Properties/C12.v"
RULE = ("cases = (role, 0-RTT mode, concurrency controller, our six+two parameters, the peer's, the remembered ones) + op lists over "
        "HANDSHAKE, OPEN, WRITE, SHUTDOWN, READ, ACCEPT, LOAD, peer STREAM/RESET_STREAM/STOP_SENDING/MAX_STREAM_DATA/MAX_STREAMS/"
        "STREAMS_BLOCKED/MAX_DATA/STREAM_DATA_BLOCKED with arbitrary ids, offsets, lengths and FIN, LOSE; "
        "non-trivial = at least 2 distinct stream ids touched and (a peer frame that is rejected, or a peer stream index that skips at least one "
        "lower index, or an OPEN that hits the limit); distinct by hash of configuration + op list")
TRUSTED_BASE = ["models coq/Model/Sid.v and coq/Model/StreamCtl.v re-state LocalStreamIds/RemoteStreamIds, the direction checks of "
                "DataStreams::{recv_data,recv_stream_control}, Recv::determin_size, SizeKnown::recv, recv_reset and the listener queues; equality with "
                "the Rust is checked by stream `streams` (real qrecovery::streams::DataStreams), not proved",
                "harness glue = 3 lines copied from qconnection::space::FlowControlledDataStreams (recv, then on_new_rcvd(fresh))"]
MODELLED = ("qbase/src/sid.rs, sid/local_sid.rs, sid/remote_sid.rs, sid/handy.rs; qrecovery/src/streams/raw.rs (recv_data, recv_stream_control, "
            "try_accept_*, poll_open_*), streams/listener.rs, recv/recver.rs, recv/incoming.rs. Wakers (C16), acknowledgement-driven stream "
            "termination and connection-error fan-out (C17) are not modelled; after the first connection error the model stops.")
ASSUMPTIONS = ["frames reach DataStreams only through the frame decoders: MAX_STREAMS / STREAMS_BLOCKED values <= 2^60-1, offset+length <= 2^62-1",
               "the peer's transport parameters satisfy the bounds checked by C18 (max_streams <= 2^60-1)",
               "an accepted 0-RTT handshake does not shrink a remembered parameter (ServerParameters::is_0rtt_accepted)"]

MANIFEST = {
    "text": "Machine-checked Coq theorems (Properties/C12.v) over executable models of LocalStreamIds, RemoteStreamIds, both concurrency controllers, the "
            "role/direction checks of DataStreams and the per-stream receive state machine: for every operation list, locally opened streams never exceed the "
            "peer's current limit and get consecutive ids; a peer stream index is accepted only if it is <= the advertised limit (the boundary index itself is "
            "the known finding F14, the theorem is conditional on it and the refutation of the full statement is proved too); frames on the wrong half of a "
            "unidirectional stream give StreamState; shrinking, exceeding or changing a final size gives FinalSize; using index n creates every lower index and "
            "each is offered by accept exactly once, in order. The model is tied to the Rust by running the extracted model and the real "
            "qrecovery::streams::DataStreams on the same configurations and op lists every run, and the clauses are evaluated directly on the implementation's observations.",
    "note": "Trusted: Coq kernel, extraction, OCaml driver, Rust harness, Python generators/oracle. Model hand-written; correspondence checked, not proved. "
            "Known finding F14 (index == limit accepted, pinned by a unit test) is reported as KNOWN-FINDING; F27 (STREAMS_BLOCKED could lower or choose the limit under DemandConcurrency) is repaired by a fix: commit, its corpus case is a regression case and the theorems c12_limit_monotone* / c12_blocked_* state the repaired behaviour.",
    "technique": "Coq proof (invariants over operation lists, state-machine case analysis) + differential correspondence model/implementation + direct oracle",
}

oracle = sc.oracle_for(sc.C12_CLAUSES)


def classify(case, msg, obs):
    """maps an oracle message to a known finding id, but only while that finding is listed as OPEN in
    known_findings.json: once a finding is repaired its class is an ordinary violation again"""
    import vlib
    fid = _classify(case, msg, obs)
    return fid if fid in {e["id"] for e in vlib.load_known("C12")} else None


def _classify(case, msg, obs):
    if msg.startswith("accept:") and "demands" in msg and "StreamLimit" in msg:
        # F14: the accepted index equals the advertised limit exactly
        for (c, m) in sc.judge(case, obs):
            if c == "accept":
                import re
                mm = re.search(r"index (\d+), limit for that kind (\d+)", m)
                if mm and int(mm.group(1)) == int(mm.group(2)):
                    return "F14"
                return None
    return None


def nontrivial(case):
    sids = set()
    for t, a in case.ops:
        if t in (2, 3, 4, 7, 8, 9, 10, 14):
            sids.add(a[0])
    if len(sids) < 2:
        return False
    cf = sc.cfg_of(case)
    peer = 1 - cf["role"]
    used = [0, 0]
    for t, a in case.ops:
        if t in (7, 8, 9, 10, 14):
            sid = a[0]
            d = (sid >> 1) & 1
            if (sid & 1) == peer:
                if (sid >> 2) > used[d]:
                    return True
                used[d] = max(used[d], (sid >> 2) + 1)
                if (sid >> 2) >= cf["L"].ms(d):
                    return True
            elif d == 1 and t in (7, 8, 14):
                return True
    return sum(1 for t, a in case.ops if t == 1) > min(cf["R"].msb, cf["R"].msu)


def hist(case):
    lab = ["role:%s" % ("client", "server")[int(case.cfg[0])], "mode:%s" % case.cfg[1], "ctrl:%s" % ("consistent", "demand")[int(case.cfg[2])]]
    cf = sc.cfg_of(case)
    lab.append("maxstreams0:%s" % ("yes" if 0 in (cf["L"].msb, cf["L"].msu, cf["R"].msb, cf["R"].msu) else "no"))
    for t, a in case.ops:
        lab.append("op:" + sc.OPS[t])
        if t == 7:
            lab.append("stream:%s%s" % ("fin" if a[3] else "nofin", "-empty" if a[2] == 0 else ""))
    return lab


def hist_obs(case, obs):
    return []


def gen_exhaustive_accept(prefix):
    """every pair of peer-stream frames over indices 0..3 x both directions, limits 0..2, both roles"""
    out = []
    n = 0
    z6 = [0] * 6
    for role in (0, 1):
        peer = 1 - role
        for lim in (0, 1, 2):
            for (d1, i1), (d2, i2) in itertools.product(itertools.product((0, 1), range(4)), repeat=2):
                cfg = [role, 0, n % 2, lim, lim, 1000, 50, 50, 50, 1, 1, 1000, 50, 50, 50] + z6
                ops = [(0, [0]), (7, [sc.sid_of(peer, d1, i1), 0, 1, 0]), (8, [sc.sid_of(peer, d2, i2), 0, 3]),
                       (5, [0]), (5, [1]), (5, [0]), (5, [1]), (5, [0]), (5, [1])]
                out.append(Case("%s%d" % (prefix, n), ops, cfg))
                n += 1
    return out


def gen_exhaustive_finalsize(prefix):
    """three frames on one peer stream, offsets/lengths over a tiny grid, FIN on any of them, then RESET"""
    out = []
    n = 0
    z6 = [0] * 6
    grid = [(0, 0), (0, 2), (1, 2), (2, 1), (3, 0), (4, 1)]
    for role in (0, 1):
        sid = sc.sid_of(1 - role, 1 if role else 0, 0)
        for f1, f2 in itertools.product(grid, repeat=2):
            for fins in itertools.product((0, 1), repeat=2):
                for fs in (0, 2, 3, 5):
                    cfg = [role, 0, 0, 2, 2, 1000, 4, 4, 4, 1, 1, 1000, 50, 50, 50] + z6
                    ops = [(0, [0]), (7, [sid, f1[0], f1[1], fins[0]]), (7, [sid, f2[0], f2[1], fins[1]]), (8, [sid, 1, fs])]
                    out.append(Case("%s%d" % (prefix, n), ops, cfg))
                    n += 1
    return out


def gen(rng, tier):
    cases = sc.scenario_cases()
    if tier == "quick":
        cases += gen_exhaustive_accept("exa-") + gen_exhaustive_finalsize("exf-")[::3]
        cases += [sc.gen_case(rng, "r%d" % i) for i in range(3500)]
        cases += [sc.gen_case(rng, "h%d" % i, hostile=0.7, nops=rng.randint(3, 10)) for i in range(1500)]
        cases += sc.directed_cases(rng, 600)
    else:
        cases += gen_exhaustive_accept("exa-") + gen_exhaustive_finalsize("exf-")
        cases += [sc.gen_case(rng, "r%d" % i) for i in range(60000)]
        cases += [sc.gen_case(rng, "h%d" % i, hostile=0.7, nops=rng.randint(3, 12)) for i in range(30000)]
        cases += [sc.gen_case(rng, "L%d" % i, nops=rng.randint(30, 80)) for i in range(5000)]
        cases += sc.directed_cases(rng, 10000)
    return cases


def mutate(rng, case, j):
    ops = [(t, list(a)) for t, a in case.ops]
    for _ in range(rng.randint(1, 3)):
        r = rng.random()
        if r < 0.5 and ops:
            k = rng.randrange(len(ops))
            t, a = ops[k]
            if a:
                i = rng.randrange(len(a))
                a[i] = max(0, a[i] + rng.choice([-4, -1, 1, 4]))
        elif r < 0.8:
            extra = sc.gen_case(rng, "x", cfg=[int(x) for x in case.cfg], nops=2).ops
            pos = rng.randint(0, len(ops))
            ops[pos:pos] = [(t, list(a)) for t, a in extra if t != 0]
        elif ops:
            del ops[rng.randrange(len(ops))]
    return Case("m%d" % j, ops, case.cfg)


STREAMS = [{
    "name": "streams", "pkg": "hr", "bin": "impl_streams",
    "gen": gen, "oracle": oracle, "nontrivial": nontrivial, "hist": hist, "mutate": mutate, "classify": classify,
    "profiles": ("debug",), "profiles_thorough": ("debug",),
    "rule": RULE,
}]
