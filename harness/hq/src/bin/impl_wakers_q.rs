//! Correspondence stream `wakers_q` (C16): protocols that need qconnection / rustls types, on the REAL objects.
//! CASE cfg: `<protocol id>`; ids: 7 ArcKeys, 14 AntiAmplifier + SendWaker, 15 SendBuffer + SendWaker,
//! 16 RecvBuffer (AsyncDeque wrapper).  The AntiAmplifier can only be driven at METHOD granularity here
//! (its atomic steps are modelled in Coq); SendBuffer::write additionally has the cfg(gmquic_verif) hook that
//! runs the sending task between its two locked steps (NOTIFY 1).
use std::cell::Cell;
use std::future::Future;
use std::pin::{Pin, pin};
use std::rc::Rc;
use std::sync::Arc;
use std::task::{Context, Poll, Waker};

use futures::Stream;
use hproto::{Obs, Op};
use qbase::frame::PingFrame;
use qbase::net::tx::ArcSendWaker;
use qbase::packet::keys::{ArcKeys, DirectionalKeys, Keys};
use qconnection::path::{AntiAmplifier, RecvBuffer, SendBuffer};
use rustls::quic::{HeaderProtectionKey, PacketKey, Tag};

#[path = "../../../hproto/src/wakers_common.rs"]
mod wc;
use wc::{SKIP, Waiters, wid};

/// a packet buffer that the `Package` impls of the frames can be dumped into
struct Pkt(bytes::buf::Limit<Vec<u8>>);
impl Pkt {
    fn new(cap: usize) -> Self {
        use bytes::BufMut;
        Pkt(Vec::with_capacity(cap).limit(cap))
    }
}
unsafe impl bytes::BufMut for Pkt {
    fn remaining_mut(&self) -> usize {
        self.0.remaining_mut()
    }
    unsafe fn advance_mut(&mut self, cnt: usize) {
        unsafe { self.0.advance_mut(cnt) }
    }
    fn chunk_mut(&mut self) -> &mut bytes::buf::UninitSlice {
        self.0.chunk_mut()
    }
}
impl<D: qbase::util::ContinuousData> qbase::packet::io::RecordFrame<qbase::frame::Frame<D>, D> for Pkt {
    fn record_frame(&mut self, _frame: &qbase::frame::Frame<D>) {}
}

struct NoKey;
impl HeaderProtectionKey for NoKey {
    fn encrypt_in_place(&self, _s: &[u8], _f: &mut u8, _p: &mut [u8]) -> Result<(), rustls::Error> {
        Err(rustls::Error::EncryptError)
    }
    fn decrypt_in_place(&self, _s: &[u8], _f: &mut u8, _p: &mut [u8]) -> Result<(), rustls::Error> {
        Err(rustls::Error::DecryptError)
    }
    fn sample_len(&self) -> usize {
        16
    }
}
impl PacketKey for NoKey {
    fn encrypt_in_place(&self, _pn: u64, _h: &[u8], _p: &mut [u8]) -> Result<Tag, rustls::Error> {
        Err(rustls::Error::EncryptError)
    }
    fn decrypt_in_place<'a>(&self, _pn: u64, _h: &[u8], _p: &'a mut [u8]) -> Result<&'a [u8], rustls::Error> {
        Err(rustls::Error::DecryptError)
    }
    fn tag_len(&self) -> usize {
        16
    }
    fn confidentiality_limit(&self) -> u64 {
        1 << 20
    }
    fn integrity_limit(&self) -> u64 {
        1 << 20
    }
}
fn dummy_keys() -> Keys {
    let d = || DirectionalKeys { header: Arc::new(NoKey), packet: Arc::new(NoKey) };
    Keys { local: d(), remote: d() }
}

struct SbCase {
    sb: Rc<SendBuffer<PingFrame>>,
    sw: ArcSendWaker,
}

enum Proto {
    Keys(ArcKeys, u8),
    Aa(AntiAmplifier, ArcSendWaker),
    Sb(SbCase),
    Rb(RecvBuffer<u64>),
    Unknown,
}

struct St {
    ws: Waiters,
    p: Proto,
}

fn new_case(cfg: &[&str]) -> St {
    let id: u32 = cfg.first().and_then(|s| s.parse().ok()).unwrap_or(0);
    let p = match id {
        7 => Proto::Keys(ArcKeys::new_pending(), 0),
        14 => {
            let sw = ArcSendWaker::new();
            Proto::Aa(AntiAmplifier::new(sw.clone()), sw)
        }
        15 => {
            let sw = ArcSendWaker::new();
            Proto::Sb(SbCase { sb: Rc::new(SendBuffer::new(sw.clone())), sw })
        }
        16 => Proto::Rb(RecvBuffer::new()),
        _ => Proto::Unknown,
    };
    St { ws: Waiters::new(), p }
}

/// the sending task's step on a SendBuffer: try_load, and wait_for(signals) when it is empty
fn sb_poll(sb: &SendBuffer<PingFrame>, sw: &ArcSendWaker, waker: &Waker) -> i64 {
    let mut pkt = Pkt::new(1200);
    match sb.try_load_frames_into(&mut pkt) {
        Ok(()) => 1,
        Err(signals) => {
            let fut = pin!(sw.wait_for(signals));
            match fut.poll(&mut Context::from_waker(waker)) {
                Poll::Pending => 0,
                Poll::Ready(()) => 4,
            }
        }
    }
}

fn step(st: &mut St, op: &Op, _i: usize) -> Obs {
    let ws = &st.ws;
    let code: i64 = match (&mut st.p, op.tag, op.args.len()) {
        (Proto::Unknown, _, _) => SKIP,
        // ---------------- ArcKeys: POLL 0 = get_remote_keys().poll / NOTIFY = set_keys (once) / CLOSE = invalid
        (Proto::Keys(k, _), 0, 1) => match wid(op, 0) {
            Some(0) => {
                let mut fut = k.get_remote_keys();
                match Pin::new(&mut fut).poll(&mut ws.cx(0)) {
                    Poll::Pending => 0,
                    Poll::Ready(Some(_)) => 1,
                    Poll::Ready(None) => 2,
                }
            }
            _ => SKIP,
        },
        (Proto::Keys(k, state), 1, 0) => {
            if *state != 0 {
                SKIP // set_keys twice / after invalidation is `unreachable!` in the code
            } else {
                k.set_keys(dummy_keys());
                *state = 1;
                0
            }
        }
        (Proto::Keys(k, state), 2, 0) => {
            *state = 2;
            match k.invalid() {
                Some(_) => 1,
                None => 0,
            }
        }
        // ---------------- AntiAmplifier: POLL 0 = balance(), then on_sent(all) or wait_for(signals) /
        //                  NOTIFY n = on_rcvd(n) / CLOSE 0 = grant, CLOSE 1 = abort
        (Proto::Aa(aa, sw), 0, 1) => match wid(op, 0) {
            Some(0) => match aa.balance() {
                Ok(Some(usize::MAX)) => 1,
                Ok(None) => 2,
                Ok(Some(c)) => {
                    aa.on_sent(c);
                    100 + c as i64
                }
                Err(signals) => {
                    let fut = pin!(sw.wait_for(signals));
                    match fut.poll(&mut ws.cx(0)) {
                        Poll::Pending => 0,
                        Poll::Ready(()) => 4,
                    }
                }
            },
            _ => SKIP,
        },
        (Proto::Aa(aa, _), 1, 1) if op.args[0] >= 0 && op.args[0] < 1000 => {
            aa.on_rcvd(op.u(0) as usize);
            0
        }
        (Proto::Aa(aa, _), 2, 1) => match op.args[0] {
            0 => {
                aa.grant();
                0
            }
            1 => {
                aa.abort();
                0
            }
            _ => SKIP,
        },
        // ---------------- SendBuffer: POLL 0 = try_load_frames_into, then wait_for(signals) when empty /
        //                  NOTIFY 0 = write / NOTIFY 1 = write with the sending task running (until it parks or gets
        //                  the frame) between the two locked steps of write
        (Proto::Sb(c), 0, 1) => match wid(op, 0) {
            Some(0) => sb_poll(&c.sb, &c.sw, ws.waker(0)),
            _ => SKIP,
        },
        (Proto::Sb(c), 1, 1) => match op.args[0] {
            0 => {
                c.sb.write(PingFrame);
                0
            }
            1 => {
                let res = Rc::new(Cell::new(SKIP));
                let (sb, sw, waker, out) = (c.sb.clone(), c.sw.clone(), ws.waker(0).clone(), res.clone());
                qconnection::path::util::verif::set_between_write_steps(Some(Box::new(move || {
                    let mut code = 4;
                    for _ in 0..4 {
                        code = sb_poll(&sb, &sw, &waker);
                        if code != 4 {
                            break;
                        }
                    }
                    out.set(code);
                })));
                c.sb.write(PingFrame);
                res.get()
            }
            _ => SKIP,
        },
        // ---------------- RecvBuffer: POLL 0 = poll_next / NOTIFY 0 v = write(v) / CLOSE = dismiss
        (Proto::Rb(rb), 0, 1) => match wid(op, 0) {
            Some(0) => {
                let mut r: &RecvBuffer<u64> = rb;
                match Pin::new(&mut r).poll_next(&mut ws.cx(0)) {
                    Poll::Pending => 0,
                    Poll::Ready(None) => 2,
                    Poll::Ready(Some(v)) => 100 + v as i64,
                }
            }
            _ => SKIP,
        },
        (Proto::Rb(rb), 1, 2) if op.args[0] == 0 => {
            rb.write(op.u(1));
            0
        }
        (Proto::Rb(rb), 2, 0) => {
            rb.dismiss();
            0
        }
        // ---------------- DROPW w
        (_, 3, 1) => match wid(op, 0) {
            Some(_) => 0,
            None => SKIP,
        },
        _ => SKIP,
    };
    ws.obs(code)
}

fn main() {
    hproto::run(new_case, step);
}
