(* C16 — no wake-up is ever lost.
   Only the property theorems live here: each is closed by a lemma of Proofs/Wakers.v.

   `NoLostWakeup P cond` (Lib/Interleave.v) unfolds to
     forall s, reach (lift P) s -> forall w,
       t_sleep (snd s w) = true -> cond (fst s) (t_arg (snd s w)) -> t_pend (snd s w) = true
   i.e. in EVERY reachable state of the protocol (any number of steps, any interleaving of polls,
   re-polls, drops, notifier and closer calls, one label = one lock-protected call) a task whose
   last poll returned Pending and whose condition holds -- the condition includes "closed / failed"
   -- has a pending wake.  `Observes P cond`: a poll made while the condition holds does not park
   ("observes the condition on its own").
   The composite protocols (a condition behind one lock or atomic, the Waker in a SendWaker behind
   another) are bespoke systems with program counters; their theorems are stated on `reach` directly,
   "pending wake, or a notifier call is still between its set and its wake_by", with the quiescent
   corollary. *)
From Coq Require Import List NArith ZArith.
From GQ Require Import Lib.Interleave Model.Wakers Proofs.Wakers.
Import ListNotations.

(* ---- 1. SendWaker (qbase/src/net/tx.rs) *)
Theorem c16_sendwaker : NoLostWakeup sendwaker_proto sw_cond.
Proof. exact p_c16_sendwaker. Qed.
Theorem c16_sendwaker_observes : Observes sendwaker_proto sw_cond.
Proof. exact p_c16_sendwaker_observes. Qed.

(* ---- 2. AsyncDeque (qbase/src/util/async_deque.rs; RecvBuffer of qconnection/src/path/util.rs) *)
Theorem c16_asyncdeque : NoLostWakeup asyncdeque_proto ad_cond.
Proof. exact p_c16_asyncdeque. Qed.
Theorem c16_asyncdeque_observes : Observes asyncdeque_proto ad_cond.
Proof. exact p_c16_asyncdeque_observes. Qed.
Theorem c16_asyncdeque_close : forall s, reach (lift asyncdeque_proto) s -> ad_q (fst s) = None ->
  forall w, t_sleep (snd s w) = true -> t_pend (snd s w) = true.
Proof. exact p_c16_asyncdeque_close. Qed.

(* ---- 3. Receiving / ArcReceiving (qbase/src/lib.rs, frame/io.rs) -- the code as it is: finding F1 *)
Theorem c16_receiving_refuted :
  exists tr s, run (lift receiving_proto) (linit receiving_proto) tr = Some s /\
               t_sleep (snd s 0) = true /\ rc_cond (fst s) (t_arg (snd s 0)) /\ t_pend (snd s 0) = false.
Proof. exact p_c16_receiving_refuted. Qed.
Theorem c16_receiving_erase_refuted :
  exists tr s, run (lift receiving_proto) (linit receiving_proto) tr = Some s /\
               fst s = RcPending /\
               tr = [@LOp receiving_proto (RcRecv 7); @LOp receiving_proto (RcRecv 8)].
Proof. exact p_c16_receiving_erase_refuted. Qed.
Theorem c16_receiving_cond : forall s, reach (lift receiving_proto) s ->
  forall w, ~ f1_class s w ->
  t_sleep (snd s w) = true -> rc_cond (fst s) (t_arg (snd s w)) -> t_pend (snd s w) = true.
Proof. exact p_c16_receiving_cond. Qed.
Theorem c16_receiving_observes : Observes receiving_proto rc_cond.
Proof. exact p_c16_receiving_observes. Qed.
(*      the repaired code *)
Theorem c16_receiving_fixed : NoLostWakeup receiving_fixed_proto rc_cond.
Proof. exact p_c16_receiving_fixed. Qed.
Theorem c16_receiving_fixed_observes : Observes receiving_fixed_proto rc_cond.
Proof. exact p_c16_receiving_fixed_observes. Qed.
Theorem c16_receiving_fixed_keeps : forall o op o' wk r,
  oper receiving_fixed_proto o op = Some (o', wk, r) -> rc_cond o tt -> rc_cond o' tt.
Proof. exact p_c16_receiving_fixed_keeps. Qed.

(* ---- 4. Wakers / WakerVec (qbase/src/util/wakers.rs), m waiters *)
Theorem c16_wakervec : NoLostWakeup wakervec_proto wv_cond.
Proof. exact p_c16_wakervec. Qed.
Theorem c16_wakervec_observes : Observes wakervec_proto wv_cond.
Proof. exact p_c16_wakervec_observes. Qed.

(* ---- 5. Parameters::{poll_ready, recv_remote_params, initial_scid_from_peer_need_equal}, on_conn_error
           (qbase/src/param.rs), m waiters *)
Theorem c16_params : NoLostWakeup params_proto pm_cond.
Proof. exact p_c16_params. Qed.
Theorem c16_params_observes : Observes params_proto pm_cond.
Proof. exact p_c16_params_observes. Qed.

(* ---- 6. CidCell + SendWaker (qbase/src/cid/remote_cid.rs), two locks *)
Theorem c16_cidcell : forall s, reach cidcell_sys s ->
  t_sleep (cc_t s) = true -> cc_cond s -> t_pend (cc_t s) = true.
Proof. exact p_c16_cidcell. Qed.
Theorem c16_cidcell_observes : forall s, reach cidcell_sys s ->
  cc_pc s = CNeed -> cc_cond s -> exists s', cc_exec s CcWait = Some (s', 4%Z).
Proof. exact p_c16_cidcell_observes. Qed.

(* ---- 7. KeysState (qbase/src/packet/keys.rs): ArcKeys; ArcZeroRttKeys / OneRttKeysState have the same shape *)
Theorem c16_keys : NoLostWakeup keys_proto ky_cond.
Proof. exact p_c16_keys. Qed.
Theorem c16_keys_observes : Observes keys_proto ky_cond.
Proof. exact p_c16_keys_observes. Qed.

(* ---- 8. LocalStreamIds::poll_alloc_sid under DataStreams (qbase/src/sid/local_sid.rs, qrecovery/src/streams/raw.rs),
           m waiters; for every initial limit m0 *)
(*      raising the limit never loses a wake-up: the code as it is (false) and the repaired code (true) *)
Theorem c16_sid_limit : forall fixed m0, NoLostWakeup (sid_gen_proto fixed m0) sd_cond_limit.
Proof. exact p_c16_sid_limit. Qed.
(*      the code as it is: the connection error does not wake the parked task -- finding F23 *)
Theorem c16_sid_close_refuted :
  exists tr s, run (lift (sid_proto 0)) (linit (sid_proto 0)) tr = Some s /\
               t_sleep (snd s 0) = true /\ sd_cond (fst s) (t_arg (snd s 0)) /\ t_pend (snd s 0) = false.
Proof. exact p_c16_sid_close_refuted. Qed.
Theorem c16_sid_cond : forall m0 s, reach (lift (sid_proto m0)) s ->
  sd_closed (fst s) = false ->
  forall w, t_sleep (snd s w) = true -> sd_cond (fst s) (t_arg (snd s w)) -> t_pend (snd s w) = true.
Proof. exact p_c16_sid_cond. Qed.
(*      the repaired code: full statement, including the connection error *)
Theorem c16_sid_fixed : forall m0, NoLostWakeup (sid_fixed_proto m0) sd_cond.
Proof. exact p_c16_sid_fixed. Qed.
Theorem c16_sid_observes : forall fixed m0, Observes (sid_gen_proto fixed m0) sd_cond.
Proof. exact p_c16_sid_observes. Qed.

(* ---- 9. stream sender: writable / flush / shutdown wakers (qrecovery/src/send/sender.rs), for every initial window *)
Theorem c16_sender : forall m0, NoLostWakeup (sender_proto m0) sn_cond.
Proof. exact p_c16_sender. Qed.
Theorem c16_sender_observes : forall m0, Observes (sender_proto m0) sn_cond.
Proof. exact p_c16_sender_observes. Qed.

(* ---- 10. stream receiver: read_waker (qrecovery/src/recv/recver.rs) *)
Theorem c16_recver : NoLostWakeup recver_proto rv_cond.
Proof. exact p_c16_recver. Qed.
Theorem c16_recver_observes : Observes recver_proto rv_cond.
Proof. exact p_c16_recver_observes. Qed.
(*       one frame may be lost and retransmitted: with the FIN behind the hole SizeKnown is a resting state in
         which the reader parks (reachable witness) ... *)
Theorem c16_recver_sizeknown_rests :
  exists s, run (lift recver_proto) (linit recver_proto)
              [@LOp recver_proto (RvLose 2); @LOp recver_proto (RvFin 2); @LPoll recver_proto 0 tt] = Some s /\
            rv_st (fst s) = RvSizeKnown /\ rv_w (fst s) = Some 0 /\ t_sleep (snd s 0) = true /\ t_pend (snd s 0) = false.
Proof. exact p_c16_recver_sizeknown_rests. Qed.
(*       ... and whatever ends the wait there or in Recv -- RESET_STREAM, the connection error, the retransmission --
         invokes the parked reader's Waker in the same lock-protected call *)
Theorem c16_recver_end_wakes : forall o op o' wk r w,
  oper recver_proto o op = Some (o', wk, r) ->
  rv_live (rv_st o) = true -> rv_w o = Some w ->
  op = RvReset \/ op = RvConnError \/ op = RvRetx ->
  In w wk /\ rv_w o' = None.
Proof. exact p_c16_recver_end_wakes. Qed.

(* ---- 11. crypto stream, sending side (qrecovery/src/crypto.rs) -- the code as it is: finding F24 *)
Theorem c16_crypto_flush_refuted :
  exists tr s, run (lift crypto_send_proto) (linit crypto_send_proto) tr = Some s /\
               t_sleep (snd s 0) = true /\ cs_cond (fst s) (t_arg (snd s 0)) /\ t_pend (snd s 0) = false.
Proof. exact p_c16_crypto_flush_refuted. Qed.
Theorem c16_crypto_flush_cond : forall s, reach (lift crypto_send_proto) s ->
  forall w, ~ f24_class s w ->
  t_sleep (snd s w) = true -> cs_cond (fst s) (t_arg (snd s w)) -> t_pend (snd s w) = true.
Proof. exact p_c16_crypto_flush_cond. Qed.
(*       the repaired code *)
Theorem c16_crypto_flush_fixed : NoLostWakeup crypto_send_fixed_proto cs_cond.
Proof. exact p_c16_crypto_flush_fixed. Qed.
Theorem c16_crypto_send_observes : forall fixed, Observes (crypto_send_gen_proto fixed) cs_cond.
Proof. exact p_c16_crypto_send_observes. Qed.

(* ---- 12. crypto stream, receiving side *)
Theorem c16_crypto_recv : NoLostWakeup crypto_recv_proto cr_cond.
Proof. exact p_c16_crypto_recv. Qed.
Theorem c16_crypto_recv_observes : Observes crypto_recv_proto cr_cond.
Proof. exact p_c16_crypto_recv_observes. Qed.

(* ---- 13. DatagramReader (qdatagram/src/reader.rs) *)
Theorem c16_datagram : NoLostWakeup datagram_proto dg_cond.
Proof. exact p_c16_datagram. Qed.
Theorem c16_datagram_observes : Observes datagram_proto dg_cond.
Proof. exact p_c16_datagram_observes. Qed.

(* ---- 14. AntiAmplifier::balance + SendWaker (qconnection/src/path/aa.rs), one label = one atomic operation,
            any number of on_rcvd / grant / abort calls in flight *)
Theorem c16_aa : forall s, reach aa_sys s ->
  t_sleep (aa_t s) = true -> aa_cond s -> t_pend (aa_t s) = true \/ In FlWake (aa_fl s).
Proof. exact p_c16_aa. Qed.
Theorem c16_aa_quiescent : forall s, reach aa_sys s ->
  aa_fl s = [] -> t_sleep (aa_t s) = true -> aa_cond s -> t_pend (aa_t s) = true.
Proof. exact p_c16_aa_quiescent. Qed.

(* ---- 15. SendBuffer::write + SendWaker (qconnection/src/path/util.rs), two locks -- the code as it is
            (wake_by, then store): finding F36, a lost wake-up at quiescence *)
Theorem c16_sendbuffer_refuted :
  exists tr s, run sendbuffer_sys sb_init tr = Some s /\
               t_sleep (sb_t s) = true /\ sb_cond s /\ sb_nw s = 0 /\ t_pend (sb_t s) = false.
Proof. exact p_c16_sendbuffer_refuted. Qed.
(*       store, then wake_by *)
Theorem c16_sendbuffer_fixed : forall s, reach sendbuffer_fixed_sys s ->
  t_sleep (sb_t s) = true -> sb_cond s -> t_pend (sb_t s) = true \/ 0 < sb_nw s.
Proof. exact p_c16_sendbuffer_fixed. Qed.
Theorem c16_sendbuffer_fixed_quiescent : forall s, reach sendbuffer_fixed_sys s ->
  sb_nw s = 0 -> t_sleep (sb_t s) = true -> sb_cond s -> t_pend (sb_t s) = true.
Proof. exact p_c16_sendbuffer_fixed_quiescent. Qed.

(* ---- 17. Wakers::combine_with (qbase/src/util/wakers.rs) over an event source, m waiters: the calling task is in
            the set BEFORE the inner poll gets the combined waker; the notifier (a datagram, a spurious event, poll_close)
            may run at any lock-protected step, including between the inner poll's registration and its return *)
Theorem c16_combine : NoLostWakeup combine_proto cb_cond.
Proof. exact p_c16_combine. Qed.
Theorem c16_combine_observes : Observes combine_proto cb_cond_obs.
Proof. exact p_c16_combine_observes. Qed.
Theorem c16_combine_inner_wake : forall o w a o' wk,
  poll combine_proto o w a = Some (o', wk, Pending) -> a <> CbPlain -> In w wk.
Proof. exact p_c16_combine_inner_wake. Qed.

(* non-vacuity: sleeping states with a pending wake are reachable in the sound protocols *)
Example c16_nonvacuous :
  (exists s, run (lift asyncdeque_proto) (linit _) [@LPoll asyncdeque_proto 0 tt; @LOp asyncdeque_proto (AdPushBack 5)] = Some s /\
             t_sleep (snd s 0) = true /\ ad_cond (fst s) tt /\ t_pend (snd s 0) = true /\ t_cnt (snd s 0) = 1%N) /\
  (exists s, run (lift (sid_fixed_proto 0)) (linit _)
               [@LPoll (sid_fixed_proto 0) 0 tt; @LPoll (sid_fixed_proto 0) 1 tt; @LOp (sid_fixed_proto 0) SdConnError] = Some s /\
             t_pend (snd s 0) = true /\ t_pend (snd s 1) = true) /\
  (exists s, run aa_sys aa_init [AaB1; AaB2; AaRcvd 1; AaB3; AaFl 0; AaWait; AaFl 0] = Some s /\
             t_sleep (aa_t s) = true /\ aa_credit s = 3%N /\ t_pend (aa_t s) = true).
Proof.
  split; [|split]; eexists; (split; [vm_compute; reflexivity|]); cbn; repeat split.
Qed.

Print Assumptions c16_sendwaker.
Print Assumptions c16_sendwaker_observes.
Print Assumptions c16_asyncdeque.
Print Assumptions c16_asyncdeque_observes.
Print Assumptions c16_asyncdeque_close.
Print Assumptions c16_receiving_refuted.
Print Assumptions c16_receiving_erase_refuted.
Print Assumptions c16_receiving_cond.
Print Assumptions c16_receiving_observes.
Print Assumptions c16_receiving_fixed.
Print Assumptions c16_receiving_fixed_observes.
Print Assumptions c16_receiving_fixed_keeps.
Print Assumptions c16_wakervec.
Print Assumptions c16_wakervec_observes.
Print Assumptions c16_params.
Print Assumptions c16_params_observes.
Print Assumptions c16_cidcell.
Print Assumptions c16_cidcell_observes.
Print Assumptions c16_keys.
Print Assumptions c16_keys_observes.
Print Assumptions c16_sid_limit.
Print Assumptions c16_sid_close_refuted.
Print Assumptions c16_sid_cond.
Print Assumptions c16_sid_fixed.
Print Assumptions c16_sid_observes.
Print Assumptions c16_sender.
Print Assumptions c16_sender_observes.
Print Assumptions c16_recver.
Print Assumptions c16_recver_observes.
Print Assumptions c16_recver_sizeknown_rests.
Print Assumptions c16_recver_end_wakes.
Print Assumptions c16_crypto_flush_refuted.
Print Assumptions c16_crypto_flush_cond.
Print Assumptions c16_crypto_flush_fixed.
Print Assumptions c16_crypto_send_observes.
Print Assumptions c16_crypto_recv.
Print Assumptions c16_crypto_recv_observes.
Print Assumptions c16_datagram.
Print Assumptions c16_datagram_observes.
Print Assumptions c16_aa.
Print Assumptions c16_aa_quiescent.
Print Assumptions c16_sendbuffer_refuted.
Print Assumptions c16_sendbuffer_fixed.
Print Assumptions c16_sendbuffer_fixed_quiescent.
Print Assumptions c16_combine.
Print Assumptions c16_combine_observes.
Print Assumptions c16_combine_inner_wake.
Print Assumptions c16_nonvacuous.
