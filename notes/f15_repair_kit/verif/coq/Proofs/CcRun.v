(* Link between the stream entry point run_cc (what the extracted model executes on the wire form
   of the operations) and [reach]: every controller state visited by run_cc is reachable, so all
   theorems about reachable states apply to every state behind an observation line. *)
From Coq Require Import List ZArith NArith Bool Lia.
From GQ Require Import Model.NewReno Model.LossDetect Model.Pto Proofs.Pto.
Import ListNotations.
Local Open Scope Z_scope.

Section Fx.
Context {fx : bool}.
Local Notation on_packet_sent_core := (@GQ.Proofs.Pto.on_packet_sent_core fx).
Local Notation InvA_step := (@GQ.Proofs.Pto.InvA_step fx).
Local Notation InvA_ack := (@GQ.Proofs.Pto.InvA_ack fx).
Local Notation InvA_timeout := (@GQ.Proofs.Pto.InvA_timeout fx).

Definition epoch_ok (o : cc_op) : Prop :=
  match o with
  | OpSent e _ _ _ _ => In e epochs
  | OpAck e _ _ => In e epochs
  | _ => True
  end.

Lemma decode_op_epoch t a : epoch_ok (decode_op t a).
Proof.
  unfold decode_op.
  repeat match goal with
         | |- epoch_ok (match ?x with _ => _ end) => is_var x; destruct x
         end; try exact I; try apply clamp_epoch_in.
  all: try (destruct (Nat.even _); apply clamp_epoch_in).
Qed.

(* the only side condition on the wire form: clock advances are not negative (the harness reads
   them as u64) *)
Definition wire_ok (x : N * list Z) : Prop :=
  forall dt, snd (decode (fst x) (snd x)) = OpAdv dt -> 0 <= dt.

Lemma decode_ok t a : wire_ok (t, a) -> op_ok (snd (decode t a)).
Proof.
  unfold wire_ok, decode. cbn [fst snd].
  destruct a as [|ld [|sr [|rv [|la [|has [|nt rest]]]]]]; cbn [snd]; try (intros _; exact I).
  intro H. pose proof (decode_op_epoch t rest) as E.
  destruct (decode_op t rest); cbn [op_ok epoch_ok] in *; auto.
Qed.

Fixpoint cc_states fx (c : cc) (l : list (N * list Z)) : list cc :=
  match l with
  | [] => []
  | (t, a) :: rest =>
      let c1 := fst (cc_obs fx c (fst (decode t a)) (snd (decode t a))) in
      c1 :: cc_states fx c1 rest
  end.

Lemma cc_obs_reach c ri o : reach fx c -> op_ok o -> reach fx (fst (cc_obs fx c ri o)).
Proof.
  intros Hr Ho. unfold cc_obs. destruct (c_dead c); [exact Hr|].
  destruct o; try exact Hr;
    match goal with |- context [cc_step fx c ri ?op] =>
      pose proof (reachS c ri op Hr Ho) as X; destruct (cc_step fx c ri op) as (c1, out); exact X end.
Qed.

Lemma cc_states_reach c l : reach fx c -> Forall wire_ok l -> Forall (reach fx) (cc_states fx c l).
Proof.
  revert c. induction l as [|[t a] rest IH]; intros c Hr Hf; cbn [cc_states]; constructor;
    inversion Hf as [|? ? Hw Hrest]; subst.
  - apply cc_obs_reach; [exact Hr|now apply decode_ok].
  - apply IH; [|exact Hrest]. apply cc_obs_reach; [exact Hr|now apply decode_ok].
Qed.

Lemma p_c13_run_reach cfg l :
  (match cfg with [_; mtu; mad_us] => 0 < mtu /\ 0 <= mad_us | _ => True end) ->
  Forall wire_ok l ->
  let c0 := match cfg with
            | [role; mtu; mad_us] => cc_new (negb (role =? 0)) mtu (mad_us * 1000)
            | _ => cc_new false 1200 25000000
            end in
  run_cc_with fx cfg l = cc_run fx c0 l /\ reach fx c0 /\ Forall (reach fx) (cc_states fx c0 l).
Proof.
  intros Hc Hf. cbn zeta.
  assert (R : reach fx (match cfg with
                     | [role; mtu; mad_us] => cc_new (negb (role =? 0)) mtu (mad_us * 1000)
                     | _ => cc_new false 1200 25000000 end)).
  { destruct cfg as [|r [|m [|d [|x y]]]]; try (apply reach0; lia). }
  split; [|split; [exact R|now apply cc_states_reach]].
  unfold run_cc_with. destruct cfg as [|r [|m [|d [|x y]]]]; reflexivity.
Qed.

End Fx.
