(* Slices of a content function, lengths in N.  Shared by RecvBuf / SendBuf / Streams proofs. *)
From Coq Require Import List NArith ZArith Lia.
Import ListNotations.
From GQ Require Import Lib.Base.
Local Open Scope N_scope.

Lemma lenN_nil {A} : lenN (@nil A) = 0.
Proof. reflexivity. Qed.

Lemma lenN_cons {A} (x : A) l : lenN (x :: l) = 1 + lenN l.
Proof. unfold lenN; cbn [length]; lia. Qed.

Lemma lenN_app {A} (l1 l2 : list A) : lenN (l1 ++ l2) = lenN l1 + lenN l2.
Proof. unfold lenN; rewrite app_length; lia. Qed.

Lemma lenN_zero {A} (l : list A) : lenN l = 0 <-> l = [].
Proof. unfold lenN; destruct l; cbn [length]; split; intro H; try reflexivity; try discriminate; lia. Qed.

Lemma lenN_pos {A} (l : list A) : l <> [] <-> 0 < lenN l.
Proof. unfold lenN; destruct l; cbn [length]; split; intro H; try congruence; try lia. Qed.

Lemma lenN_takeN {A} n (l : list A) : lenN (takeN n l) = N.min n (lenN l).
Proof. unfold lenN, takeN; rewrite firstn_length; lia. Qed.

Lemma lenN_dropN {A} n (l : list A) : lenN (dropN n l) = lenN l - n.
Proof. unfold lenN, dropN; rewrite skipn_length; lia. Qed.

Lemma takeN_dropN {A} n (l : list A) : takeN n l ++ dropN n l = l.
Proof. apply firstn_skipn. Qed.

Lemma dropN_0 {A} (l : list A) : dropN 0 l = l.
Proof. reflexivity. Qed.

Lemma dropN_all {A} n (l : list A) : lenN l <= n -> dropN n l = [].
Proof. unfold lenN, dropN; intro H; apply skipn_all2; lia. Qed.

Lemma takeN_all {A} n (l : list A) : lenN l <= n -> takeN n l = l.
Proof. unfold lenN, takeN; intro H; apply firstn_all2; lia. Qed.

Lemma slice_nat_length c off n : length (slice_nat c off n) = n.
Proof. revert off; induction n as [|n IH]; intro off; cbn [slice_nat length]; [reflexivity|now rewrite IH]. Qed.

Lemma lenN_slice c off len : lenN (slice c off len) = len.
Proof. unfold lenN, slice; rewrite slice_nat_length; lia. Qed.

Lemma slice_nat_app c off n m :
  slice_nat c off (n + m) = slice_nat c off n ++ slice_nat c (off + N.of_nat n) m.
Proof.
  revert off; induction n as [|n IH]; intro off.
  - cbn [slice_nat plus app]. now replace (off + N.of_nat 0) with off by lia.
  - cbn [slice_nat plus app]. rewrite IH. do 3 f_equal. lia.
Qed.

Lemma slice_app c off n m : slice c off (n + m) = slice c off n ++ slice c (off + n) m.
Proof.
  unfold slice. replace (N.to_nat (n + m)) with (N.to_nat n + N.to_nat m)%nat by lia.
  rewrite slice_nat_app. do 3 f_equal. lia.
Qed.

Lemma slice_0 c off : slice c off 0 = [].
Proof. reflexivity. Qed.

Lemma takeN_slice c off len k : k <= len -> takeN k (slice c off len) = slice c off k.
Proof.
  intro H. replace len with (k + (len - k)) by lia. rewrite slice_app.
  unfold takeN. rewrite firstn_app.
  assert (L : length (slice c off k) = N.to_nat k) by (unfold slice; apply slice_nat_length).
  rewrite L, PeanoNat.Nat.sub_diag. cbn [firstn]. rewrite app_nil_r.
  apply firstn_all2. lia.
Qed.

Lemma dropN_slice c off len k : k <= len -> dropN k (slice c off len) = slice c (off + k) (len - k).
Proof.
  intro H. replace len with (k + (len - k)) at 1 by lia. rewrite slice_app.
  unfold dropN. rewrite skipn_app.
  assert (L : length (slice c off k) = N.to_nat k) by (unfold slice; apply slice_nat_length).
  rewrite L, PeanoNat.Nat.sub_diag. cbn [skipn].
  rewrite skipn_all2 by lia. reflexivity.
Qed.

(* a list that is a slice of c stays one under take / drop *)
Definition is_slice (c : N -> Z) (off : N) (l : list Z) : Prop := l = slice c off (lenN l).

Lemma is_slice_slice c off len : is_slice c off (slice c off len).
Proof. unfold is_slice. now rewrite lenN_slice. Qed.

Lemma is_slice_take c off l k : is_slice c off l -> is_slice c off (takeN k l).
Proof.
  unfold is_slice; intro H. rewrite lenN_takeN.
  destruct (N.le_gt_cases k (lenN l)) as [Hk|Hk].
  - replace (N.min k (lenN l)) with k by lia.
    rewrite H at 1. apply takeN_slice. exact Hk.
  - replace (N.min k (lenN l)) with (lenN l) by lia.
    rewrite takeN_all by lia. exact H.
Qed.

Lemma is_slice_drop c off l k : k <= lenN l -> is_slice c off l -> is_slice c (off + k) (dropN k l).
Proof.
  unfold is_slice; intros Hk H. rewrite lenN_dropN.
  rewrite H at 1. apply dropN_slice. exact Hk.
Qed.

Lemma is_slice_app c off l1 l2 :
  is_slice c off l1 -> is_slice c (off + lenN l1) l2 -> is_slice c off (l1 ++ l2).
Proof.
  unfold is_slice; intros H1 H2. rewrite lenN_app, slice_app, <- H1, <- H2. reflexivity.
Qed.

Lemma is_slice_nil c off : is_slice c off [].
Proof. reflexivity. Qed.
