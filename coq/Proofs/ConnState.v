(* Proofs about Model/ConnState.v: monotonicity of the state word and the set-once discipline of
   the two cells, for every interleaving of any number of racing calls. *)
From Coq Require Import List NArith ZArith Bool Lia Arith.
From GQ Require Import Model.ConnState.
Import ListNotations.
Local Open Scope N_scope.

(* ---------------------------------------------------------------- the table (closed facts) *)
Lemma codes :
  attempted_from = 0 /\ attempted_code = 1 /\ confirmed_code = 6 /\ closing_code = 7 /\
  draining_code = 8 /\ closed_code = 9.
Proof. vm_compute. repeat split; reflexivity. Qed.

Lemma p_c17_order :
  initial_word < attempted_code /\ attempted_code < confirmed_code /\ confirmed_code < closing_code /\
  closing_code < draining_code /\ draining_code < closed_code.
Proof. vm_compute. repeat split; reflexivity. Qed.

(* decode is the inverse of encode on the table, and every row is a positive u8 *)
Lemma p_c17_table :
  Forall (fun sc => encode (fst sc) = Some (snd sc) /\ decode (snd sc) = Some (fst sc) /\
                    0 < snd sc /\ snd sc < 256) state_table.
Proof. vm_compute. repeat constructor. Qed.

Lemma skip_test : forall old, old < draining_code ->
  cstate_beq (old_state old) draining_skip_state = (old =? closing_code).
Proof.
  intros old H. destruct codes as (_ & _ & _ & Hc & Hd & _). rewrite Hd in H. rewrite Hc.
  assert (old = 0 \/ old = 1 \/ old = 2 \/ old = 3 \/ old = 4 \/ old = 5 \/ old = 6 \/ old = 7) as D by lia.
  destruct D as [-> | [-> | [-> | [-> | [-> | [-> | [-> | ->]]]]]]]; reflexivity.
Qed.

(* ---------------------------------------------------------------- monotone *)
Lemma tstep_mono : forall c p sh, word sh <= word (snd (tstep c p sh)).
Proof.
  intros c p sh. destruct p as [| new old | old | r |]; cbn [tstep].
  - destruct c; cbn [target];
      try (match goal with |- context[encode ?s] => destruct (encode s) end; cbn [snd]; lia).
    destruct (encode attempted_state) as [a|] eqn:E; cbn [snd]; [|lia].
    destruct (N.eqb_spec (word sh) attempted_from); cbn [snd word]; [|lia].
    destruct codes as (H0 & _). lia.
  - unfold update_rejects. destruct (N.leb_spec new old); cbn [snd]; [lia|].
    destruct (N.eqb_spec (word sh) old); cbn [snd word]; lia.
  - destruct c; cbn [snd]; try lia.
    + destruct (hs sh); cbn [snd word]; lia.
    + destruct (term sh); cbn [snd word]; lia.
    + destruct (cstate_beq _ _); cbn [snd]; [lia|]. destruct (term sh); cbn [snd word]; lia.
  - cbn [snd]. lia.
  - cbn [snd]. lia.
Qed.

Lemma gstep_mono : forall g i, word (g_sh g) <= word (g_sh (gstep g i)).
Proof.
  intros g i. unfold gstep. destruct (nth_error (g_tasks g) i) as [[c p]|]; [|lia].
  destruct (enabled c p (g_sh g)); [|lia].
  pose proof (tstep_mono c p (g_sh g)) as H. destruct (tstep c p (g_sh g)) as [p' sh']. cbn in *. exact H.
Qed.

Lemma grun_app : forall s1 s2 g, grun g (s1 ++ s2) = grun (grun g s1) s2.
Proof. intros. unfold grun. apply fold_left_app. Qed.

Lemma grun_mono : forall sched g, word (g_sh g) <= word (g_sh (grun g sched)).
Proof.
  induction sched as [|i rest IH]; intros g; cbn [grun fold_left]; [lia|].
  pose proof (gstep_mono g i). pose proof (IH (gstep g i)). unfold grun in *. lia.
Qed.

(* the state code never decreases: for every set of racing calls, every schedule, every further
   step (and hence between any two points of any execution) *)
Lemma p_c17_monotone : forall calls s1 s2,
  word (g_sh (grun (g_init calls) s1)) <= word (g_sh (grun (g_init calls) (s1 ++ s2))).
Proof. intros. rewrite grun_app. apply grun_mono. Qed.

(* the word only ever holds 0 or a code of the table *)
Definition legal_word (w : N) : Prop := w = initial_word \/ exists s, encode s = Some w.
Lemma tstep_legal : forall c p sh,
  (match p with PLoop new _ => exists s, encode s = Some new | _ => True end) ->
  legal_word (word sh) ->
  legal_word (word (snd (tstep c p sh))) /\
  (match fst (tstep c p sh) with PLoop new _ => exists s, encode s = Some new | _ => True end).
Proof.
  intros c p sh Hp Hw. destruct p as [| new old | old | r |]; cbn [tstep].
  - destruct c; cbn [target].
    + destruct (encode attempted_state) as [a|] eqn:E; cbn [fst snd]; [|auto].
      destruct (word sh =? attempted_from); cbn [fst snd word]; [|auto]. split; [right; eauto|exact I].
    + destruct (encode s) eqn:E; cbn [fst snd]; eauto.
    + destruct (encode terminated_event_state) eqn:E; cbn [fst snd]; eauto.
    + destruct (encode enter_handshaked_target) eqn:E; cbn [fst snd]; eauto.
    + destruct (encode enter_closing_target) eqn:E; cbn [fst snd]; eauto.
    + destruct (encode enter_draining_target) eqn:E; cbn [fst snd]; eauto.
  - destruct (update_rejects new old); cbn [fst snd]; [auto|].
    destruct (word sh =? old); cbn [fst snd word].
    + split; [right; exact Hp|]. destruct c; cbn; exact I.
    + auto.
  - destruct c; cbn [fst snd]; auto.
    + destruct (hs sh); cbn [fst snd word]; auto.
    + destruct (term sh); cbn [fst snd word]; auto.
    + destruct (cstate_beq _ _); cbn [fst snd]; auto. destruct (term sh); cbn [fst snd word]; auto.
  - cbn [fst snd]. auto.
  - cbn [fst snd]. auto.
Qed.

(* ---------------------------------------------------------------- counting over the task list *)
Fixpoint cnt (f : task -> nat) (l : list task) : nat :=
  match l with [] => O | t :: r => (f t + cnt f r)%nat end.

Lemma cnt_set_nth : forall f l i x y, nth_error l i = Some y ->
  (cnt f (set_nth l i x) + f y = cnt f l + f x)%nat.
Proof.
  induction l as [|h t IH]; intros [|i] x y H; cbn in *; try discriminate.
  - inversion H; subst. lia.
  - specialize (IH _ x _ H). lia.
Qed.

Lemma Forall_set_nth : forall (P : task -> Prop) l i x, Forall P l -> P x -> Forall P (set_nth l i x).
Proof.
  induction l as [|h t IH]; intros [|i] x Hl Hx; cbn; auto; inversion Hl; subst; constructor; auto.
Qed.

Lemma Forall_nth : forall (P : task -> Prop) l i y, Forall P l -> nth_error l i = Some y -> P y.
Proof. intros P l i y Hl Hn. rewrite Forall_forall in Hl. apply Hl. eapply nth_error_In; eauto. Qed.

(* ---------------------------------------------------------------- the invariant *)
Definition tcode (c : call) : option N :=
  match target c with Some s => encode s | None => None end.

Definition tsetter (t : task) : nat :=
  match snd t with
  | PSet old =>
    match fst t with
    | CClosing _ => 1
    | CDraining _ => if old =? closing_code then 0 else 1
    | _ => 0
    end
  | _ => O
  end.
Definition hsetter (t : task) : nat :=
  match fst t, snd t with CHandshaked, PSet _ => 1 | _, _ => 0 end%nat.

Definition twf (sh : shared) (t : task) : Prop :=
  match snd t with
  | PLoop new old =>
    tcode (fst t) = Some new /\
    (match fst t with CTerminated => closing_code <= word sh | _ => True end)
  | PSet old =>
    (match fst t with CHandshaked | CClosing _ | CDraining _ => True | _ => False end) /\
    exists new, tcode (fst t) = Some new /\ old < new /\ new <= word sh
  | PPanic => False
  | _ => True
  end.

Definition Tn (sh : shared) : nat := match term sh with Some _ => 1 | None => 0 end.
Definition Kn (sh : shared) : nat := if closing_code <=? word sh then 1 else 0.
Definition Hn (sh : shared) : nat := if hs sh then 1 else 0.

Record Inv (g : gstate) : Prop := mkInv {
  inv_wf : Forall (fun t => wf_call (fst t) = true) (g_tasks g);
  inv_twf : Forall (twf (g_sh g)) (g_tasks g);
  inv_term : (cnt tsetter (g_tasks g) + Tn (g_sh g) = Kn (g_sh g))%nat;
  inv_hs : (cnt hsetter (g_tasks g) + Hn (g_sh g) <= 1)%nat;
  inv_hs0 : word (g_sh g) < confirmed_code -> (cnt hsetter (g_tasks g) + Hn (g_sh g) = 0)%nat }.

Lemma twf_mono : forall sh sh' t, word sh <= word sh' -> twf sh t -> twf sh' t.
Proof.
  intros sh sh' [c p] Hle H. unfold twf in *. cbn [fst snd] in *. destruct p; auto.
  - destruct H as [H1 H2]. split; auto. destruct c; auto. lia.
  - destruct H as [H1 (new & E & Ho & Hw)]. split; auto. exists new. repeat split; auto. lia.
Qed.

Lemma tcode_wf : forall c new, wf_call c = true -> tcode c = Some new ->
  match c with
  | CTryAttempted => False
  | CUpdate _ => new < closing_code
  | CTerminated => new = closed_code
  | CHandshaked => new = confirmed_code
  | CClosing _ => new = closing_code
  | CDraining _ => new = draining_code
  end.
Proof.
  intros c new Hwf H. destruct c; unfold tcode in H; cbn [target] in H.
  - discriminate.
  - cbn [wf_call] in Hwf. rewrite H in Hwf. apply N.ltb_lt. exact Hwf.
  - unfold closed_code, code_or0. rewrite H. reflexivity.
  - unfold confirmed_code, code_or0. rewrite H. reflexivity.
  - unfold closing_code, code_or0. rewrite H. reflexivity.
  - unfold draining_code, code_or0. rewrite H. reflexivity.
Qed.

Ltac norm :=
  repeat match goal with
         | H : context[if ?a <=? ?b then _ else _] |- _ => revert H
         end;
  repeat match goal with
         | |- context[?a <=? ?b] => destruct (N.leb_spec a b)
         end; intros.

(* the effect of one step of one task, relative to the rest of the system summarised by the two
   counts R (other term-setters) and R2 (other hs-setters) *)
Lemma tstep_effect : forall c p sh R R2,
  wf_call c = true -> twf sh (c, p) -> enabled c p sh = true ->
  (R + tsetter (c, p) + Tn sh = Kn sh)%nat ->
  (R2 + hsetter (c, p) + Hn sh <= 1)%nat ->
  (word sh < confirmed_code -> (R2 + hsetter (c, p) + Hn sh = 0)%nat) ->
  let p' := fst (tstep c p sh) in let sh' := snd (tstep c p sh) in
  twf sh' (c, p') /\
  (R + tsetter (c, p') + Tn sh' = Kn sh')%nat /\
  (R2 + hsetter (c, p') + Hn sh' <= 1)%nat /\
  (word sh' < confirmed_code -> (R2 + hsetter (c, p') + Hn sh' = 0)%nat).
Proof.
  intros c p sh R R2 Hwf Htw Hen Ht Hh Hh0.
  destruct codes as (C0 & C1 & C6 & C7 & C8 & C9).
  unfold Kn, Tn, Hn in *. rewrite C7 in *. rewrite C6 in *.
  destruct p as [| new old | old | r |].
  - (* PStart *)
    cbn [tstep]. destruct c; cbn [target].
    + assert (E : encode attempted_state = Some 1) by reflexivity. rewrite E.
      rewrite C0. destruct (N.eqb_spec (word sh) 0) as [W|W]; cbn [fst snd word term hs twf tsetter hsetter] in *.
      * rewrite W in *. cbn in Ht, Hh0 |- *. repeat split; auto; try lia; try (intros _; apply Hh0; lia).
      * repeat split; auto.
    + cbn [wf_call] in Hwf. destruct (encode s) as [k|] eqn:E; [|discriminate].
      cbn [fst snd twf tsetter hsetter] in *. unfold tcode. cbn [target]. rewrite E. repeat split; auto.
    + assert (E : encode terminated_event_state = Some 9) by reflexivity. rewrite E.
      cbn [enabled] in Hen. rewrite C7 in Hen. apply N.leb_le in Hen.
      cbn [fst snd twf tsetter hsetter] in *. unfold tcode. cbn [target]. rewrite E, C7. repeat split; auto.
    + assert (E : encode enter_handshaked_target = Some 6) by reflexivity. rewrite E.
      cbn [fst snd twf tsetter hsetter] in *. unfold tcode. cbn [target]. rewrite E. repeat split; auto.
    + assert (E : encode enter_closing_target = Some 7) by reflexivity. rewrite E.
      cbn [fst snd twf tsetter hsetter] in *. unfold tcode. cbn [target]. rewrite E. repeat split; auto.
    + assert (E : encode enter_draining_target = Some 8) by reflexivity. rewrite E.
      cbn [fst snd twf tsetter hsetter] in *. unfold tcode. cbn [target]. rewrite E. repeat split; auto.
  - (* PLoop *)
    cbn [tstep]. unfold update_rejects. destruct Htw as [Htc Hg]. cbn [fst snd] in Htc, Hg.
    pose proof (tcode_wf c new Hwf Htc) as Hnew. rewrite ?C6, ?C7, ?C8, ?C9 in Hnew.
    destruct (N.leb_spec new old) as [Hle|Hlt].
    { cbn [fst snd twf tsetter hsetter] in *. destruct c; cbn in *; repeat split; auto. }
    destruct (N.eqb_spec (word sh) old) as [W|W].
    + (* CAS succeeded *)
      destruct (term sh) eqn:Tm; destruct (hs sh) eqn:Hs;
        destruct c; cbn [after_cas fst snd word term hs twf tsetter hsetter] in *; try contradiction;
        try subst new; rewrite ?C7 in *; rewrite ?Tm, ?Hs in *;
        try (destruct (N.eqb_spec old 7));
        norm;
        solve [ repeat split; intros; auto; try lia; try (eexists; repeat split; eauto; lia) ].
    + cbn [fst snd twf tsetter hsetter] in *. repeat split; auto.
  - (* PSet *)
    destruct Htw as [Hc (new & Htc & Hold & Hw)]. cbn [fst snd] in Hc, Htc, Hold, Hw.
    pose proof (tcode_wf c new Hwf Htc) as Hnew. rewrite ?C6, ?C7, ?C8, ?C9 in Hnew.
    cbn [tstep]. destruct c; try contradiction; cbn [tsetter hsetter fst snd] in *.
    + (* CHandshaked *)
      subst new. destruct (hs sh) eqn:Hs; destruct (term sh) eqn:Tm;
        cbn [fst snd twf tsetter hsetter word term hs] in *; rewrite ?Hs, ?Tm in *; norm;
        solve [ repeat split; intros; auto; try lia ].
    + (* CClosing *)
      subst new. destruct (hs sh) eqn:Hs; destruct (term sh) eqn:Tm;
        cbn [fst snd twf tsetter hsetter word term hs] in *; rewrite ?Hs, ?Tm in *; norm;
        solve [ repeat split; intros; auto; try lia ].
    + (* CDraining *)
      subst new. rewrite skip_test by (rewrite C8; lia). rewrite C7 in *.
      destruct (N.eqb_spec old 7) as [O7|O7];
        destruct (hs sh) eqn:Hs; destruct (term sh) eqn:Tm;
        cbn [fst snd twf tsetter hsetter word term hs] in *; rewrite ?Hs, ?Tm in *; norm;
        solve [ repeat split; intros; auto; try lia ].
  - cbn in Hen. destruct c; discriminate.
  - cbn in Hen. destruct c; discriminate.
Qed.

Lemma inv_init : forall calls, Forall (fun c => wf_call c = true) calls -> Inv (g_init calls).
Proof.
  intros calls H. unfold g_init.
  assert (A : forall f, (forall c, f (c, PStart) = O) -> cnt f (map (fun c => (c, PStart)) calls) = O).
  { intros f Hf. induction calls as [|c r IH]; cbn; auto. rewrite Hf. inversion H; subst. rewrite IH; auto. }
  constructor; cbn [g_sh g_tasks].
  - rewrite Forall_map. exact H.
  - rewrite Forall_map. apply Forall_forall. intros c _. exact I.
  - rewrite A by (intros; reflexivity). reflexivity.
  - rewrite A by (intros c; destruct c; reflexivity). cbn. lia.
  - intros _. rewrite A by (intros c; destruct c; reflexivity). reflexivity.
Qed.

Lemma inv_step : forall g i, Inv g -> Inv (gstep g i).
Proof.
  intros g i [Hwf Htw Ht Hh Hh0]. unfold gstep.
  destruct (nth_error (g_tasks g) i) as [[c p]|] eqn:En; [|constructor; auto].
  destruct (enabled c p (g_sh g)) eqn:Een; [|constructor; auto].
  pose proof (Forall_nth _ _ _ _ Hwf En) as Wc. cbn [fst] in Wc.
  pose proof (Forall_nth _ _ _ _ Htw En) as Tc.
  set (R := cnt tsetter (set_nth (g_tasks g) i (c, PStart))).
  set (R2 := cnt hsetter (set_nth (g_tasks g) i (c, PStart))).
  pose proof (cnt_set_nth tsetter _ _ (c, PStart) _ En) as E1.
  pose proof (cnt_set_nth hsetter _ _ (c, PStart) _ En) as E2.
  assert (tsetter (c, PStart) = O) as Z1 by reflexivity.
  assert (hsetter (c, PStart) = O) as Z2 by (destruct c; reflexivity).
  fold R in E1. fold R2 in E2.
  assert (Q1 : (cnt tsetter (g_tasks g) = R + tsetter (c, p))%nat) by lia.
  assert (Q2 : (cnt hsetter (g_tasks g) = R2 + hsetter (c, p))%nat) by lia.
  rewrite Q1 in Ht. rewrite Q2 in Hh, Hh0.
  pose proof (tstep_effect c p (g_sh g) R R2 Wc Tc Een Ht Hh Hh0) as (A1 & A2 & A3 & A4).
  pose proof (tstep_mono c p (g_sh g)) as Hm.
  destruct (tstep c p (g_sh g)) as [p' sh']. cbn [fst snd] in *.
  assert (S1 : forall f x, (cnt f (set_nth (g_tasks g) i x) + f (c, p) = cnt f (g_tasks g) + f x)%nat).
  { intros. apply cnt_set_nth. exact En. }
  constructor; cbn [g_sh g_tasks].
  - apply Forall_set_nth; auto.
  - apply Forall_set_nth; auto. eapply Forall_impl; [|exact Htw]. intros t. apply twf_mono. exact Hm.
  - pose proof (S1 tsetter (c, p')). lia.
  - pose proof (S1 hsetter (c, p')). lia.
  - intros Hlt. pose proof (S1 hsetter (c, p')). specialize (A4 Hlt). lia.
Qed.

Lemma inv_run : forall sched g, Inv g -> Inv (grun g sched).
Proof.
  induction sched as [|i r IH]; intros g H; cbn [grun fold_left]; auto.
  apply IH. apply inv_step. exact H.
Qed.

(* ---------------------------------------------------------------- consequences *)
Lemma term_stable_step : forall c p sh e, term sh = Some e -> term (snd (tstep c p sh)) = Some e.
Proof.
  intros c p sh e H. destruct p as [| new old | old | r |]; cbn [tstep].
  - destruct c; cbn [target];
      try (match goal with |- context[encode ?s] => destruct (encode s) end; cbn [snd]; auto).
    destruct (word sh =? attempted_from); cbn [snd term]; auto.
  - destruct (update_rejects new old); cbn [snd]; auto.
    destruct (word sh =? old); cbn [snd term]; auto.
  - destruct c; cbn [snd]; auto.
    + destruct (hs sh); cbn [snd term]; auto.
    + rewrite H. cbn [snd]. auto.
    + destruct (cstate_beq _ _); cbn [snd]; auto. rewrite H. cbn [snd]. auto.
  - cbn [snd]. auto.
  - cbn [snd]. auto.
Qed.

Lemma term_stable_gstep : forall g i e, term (g_sh g) = Some e -> term (g_sh (gstep g i)) = Some e.
Proof.
  intros g i e H. unfold gstep. destruct (nth_error (g_tasks g) i) as [[c p]|]; auto.
  destruct (enabled c p (g_sh g)); auto.
  pose proof (term_stable_step c p (g_sh g) e H). destruct (tstep c p (g_sh g)). cbn in *. auto.
Qed.

Lemma term_stable_run : forall sched g e, term (g_sh g) = Some e -> term (g_sh (grun g sched)) = Some e.
Proof.
  induction sched as [|i r IH]; intros g e H; cbn [grun fold_left]; auto.
  apply IH. apply term_stable_gstep. exact H.
Qed.

Lemma quiescent_no_setter : forall sh l,
  forallb (fun t => finished t || negb (enabled (fst t) (snd t) sh)) l = true -> cnt tsetter l = O.
Proof.
  induction l as [|[c p] r IH]; cbn [forallb cnt]; auto. intros H.
  apply andb_true_iff in H. destruct H as [H1 H2]. rewrite (IH H2).
  destruct p; cbn in *; auto. destruct c; cbn in H1; discriminate.
Qed.

Lemma p_c17_error_once : forall calls sched,
  Forall (fun c => wf_call c = true) calls ->
  let g := grun (g_init calls) sched in
  (* no expect()/unreachable!() fires *)
  Forall (fun t => panicked t = false) (g_tasks g) /\
  (* once set, the terminating error never changes *)
  (forall e sched', term (g_sh g) = Some e -> term (g_sh (grun g sched')) = Some e) /\
  (* it is set only at or after the closing code *)
  (term (g_sh g) <> None -> closing_code <= word (g_sh g)) /\
  (* and whenever no step is left to take, reaching the closing code means it IS set *)
  (quiescent g = true -> closing_code <= word (g_sh g) -> term (g_sh g) <> None) /\
  (* same for the handshaked cell: never set below the confirmed code *)
  (hs (g_sh g) = true -> confirmed_code <= word (g_sh g)).
Proof.
  intros calls sched Hwf g. pose proof (inv_run sched _ (inv_init calls Hwf)) as [_ Htw Ht Hh Hh0].
  fold g in Htw, Ht, Hh, Hh0. repeat split.
  - eapply Forall_impl; [|exact Htw]. intros [c p] H. destruct p; cbn in *; auto. contradiction.
  - intros e sched' H. apply term_stable_run. exact H.
  - intros H. unfold Tn, Kn in Ht. destruct (term (g_sh g)); [|contradiction].
    destruct (N.leb_spec closing_code (word (g_sh g))); [auto|lia].
  - intros Hq Hw. unfold quiescent in Hq. rewrite (quiescent_no_setter _ _ Hq) in Ht.
    unfold Tn, Kn in Ht. destruct (N.leb_spec closing_code (word (g_sh g))); [|lia].
    destruct (term (g_sh g)); [discriminate|cbn in Ht; lia].
  - intros H. destruct (N.lt_ge_cases (word (g_sh g)) confirmed_code) as [L|L]; [|exact L].
    specialize (Hh0 L). unfold Hn in Hh0. rewrite H in Hh0. lia.
Qed.

(* F40 (repaired): every public state constant of state.rs (HANDSHAKE_CONFIRMED, CLOSING, DRAINING,
   CLOSED) has a row in the table, CLOSED among them *)
Lemma p_c17_public_consts :
  Forall (fun s => exists k, encode s = Some k) public_consts /\
  (exists s, closed_const = Some s /\ In s public_consts /\ encode s = Some closed_code).
Proof.
  split.
  - vm_compute. repeat constructor; eexists; reflexivity.
  - eexists. split; [reflexivity|]. split; [vm_compute; tauto|reflexivity].
Qed.

(* update() of a state with a table row never panics, returns, and is a forward move: it either
   returns None and leaves the word alone, or returns the previous code, which is below the new one *)
Lemma p_c17_update_total : forall s sh k, encode s = Some k ->
  fst (run_to_end 8 (CUpdate s) PStart sh) <> PPanic /\
  exists r, fst (run_to_end 8 (CUpdate s) PStart sh) = PDone r.
Proof.
  intros s sh k E. cbn [run_to_end tstep target]. rewrite E. cbn [run_to_end tstep].
  destruct (update_rejects k (word sh)); cbn [run_to_end fst].
  - split; [discriminate|eauto].
  - rewrite N.eqb_refl. cbn [after_cas run_to_end fst]. split; [discriminate|eauto].
Qed.

Lemma p_c17_update_forward : forall s sh k, encode s = Some k ->
  let r := run_to_end 8 (CUpdate s) PStart sh in
  (fst r = PDone None /\ snd r = sh /\ k <= word sh) \/
  (fst r = PDone (Some (word sh)) /\ word sh < k /\ word (snd r) = k).
Proof.
  intros s sh k E. cbn [run_to_end tstep target]. rewrite E. cbn [run_to_end tstep].
  unfold update_rejects. destruct (N.leb_spec k (word sh)); cbn [run_to_end fst snd].
  - left. auto.
  - rewrite N.eqb_refl. cbn [after_cas run_to_end fst snd word]. right. auto.
Qed.

(* hence update() of every PUBLIC constant is total and forward *)
Lemma p_c17_update_public : forall s sh, In s public_consts ->
  exists k, encode s = Some k /\
  let r := run_to_end 8 (CUpdate s) PStart sh in
  fst r <> PPanic /\
  ((fst r = PDone None /\ snd r = sh /\ k <= word sh) \/
   (fst r = PDone (Some (word sh)) /\ word sh < k /\ word (snd r) = k)).
Proof.
  intros s sh H. destruct p_c17_public_consts as [F _]. rewrite Forall_forall in F.
  destruct (F s H) as [k E]. exists k. split; [exact E|]. cbv zeta.
  split; [apply (p_c17_update_total s sh k E)|apply p_c17_update_forward; exact E].
Qed.

(* a racing pair: local close vs the peer's CONNECTION_CLOSE — under every schedule exactly one of
   the two errors ends up in the cell (non-vacuity of the race is the Example in Properties/C17.v) *)
Definition race2 (e1 e2 : err) : list call := [CClosing e1; CDraining e2].
