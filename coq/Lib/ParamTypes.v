(* Transport-parameter value types (qbase/src/param/core.rs `ParameterValueType`) and the row
   format of the table regenerated into Generated/ParamTable.v. *)
From Coq Require Import List ZArith Bool.
Import ListNotations.

Inductive pvtype := VTVarInt | VTBoolean | VTBytes | VTDuration | VTResetToken | VTConnectionId | VTPreferredAddress.

Record param_row := mk_param {
  p_id : Z;
  p_type : pvtype;
  p_default : option Z;          (* VarInt value / Duration in ms / 0 for Bytes *)
  p_bound : option (Z * Z)       (* inclusive *)
}.

Inductive role := Client | Server.
