#!/usr/bin/env python3
"""design_tables.py: prints the Markdown tables of DESIGN.md §8 (findings, seeded changes) from known_findings.json and seeded/*/"""
import json, os, glob
ROOT = os.path.dirname(os.path.dirname(os.path.abspath(__file__)))
import re, sys, importlib
sys.path.insert(0, os.path.join(ROOT, "tools"))
print("| property | theorems (coq/Properties) | correspondence streams | what is proved / what stays partial |")
print("|---|---|---|---|")
for l in open(os.path.join(ROOT, "properties.jsonl")):
    pid = json.loads(l)["id"]
    pf = os.path.join(ROOT, "coq", "Properties", pid + ".v")
    if not os.path.exists(pf):
        print("| %s | - | - | not built |" % pid)
        continue
    thms = re.findall(r"^(?:Theorem|Lemma)\s+(\w+)", open(pf).read(), re.M)
    try:
        mod = importlib.import_module("props." + pid)
        streams = ", ".join(sp["name"] for sp in mod.STREAMS)
        note = mod.MANIFEST["text"].replace("\n", " ").replace("|", "/")
    except Exception as e:
        streams, note = "?", str(e)
    print("| %s | %d: %s | %s | %s |" % (pid, len(thms), ", ".join(thms[:40]), streams, note[:600]))
print()
k = json.load(open(os.path.join(ROOT, "known_findings.json")))
print("| id | property | status | commit | what |")
print("|----|----------|--------|--------|------|")
def key(e):
    import re
    m = re.match(r"F(\d+)(.*)", e["id"])
    return (int(m.group(1)), m.group(2)) if m else (999, e["id"])
for e in sorted(k["findings"], key=key):
    what = e["what"].replace("\n", " ").replace("|", "/")
    if len(what) > 230:
        what = what[:227] + "..."
    print("| %s | %s | %s | %s | %s |" % (e["id"], e["property"], e.get("status", "open"), e.get("commit", ""), what))
print()
print("| seeded change | files | what it breaks | detected by | failing input | first report |")
print("|---|---|---|---|---|---|")
for d in sorted(glob.glob(os.path.join(ROOT, "seeded", "*"))):
    mp = os.path.join(d, "meta.json")
    if not os.path.exists(mp):
        continue
    m = json.load(open(mp))
    rp = os.path.join(d, "result.json")
    r = json.load(open(rp)) if os.path.exists(rp) else {}
    det = [p for p, v in r.get("results", {}).items() if v.get("exit") == 1]
    first = ""
    for p, v in r.get("results", {}).items():
        for fr in v.get("first_replay", []):
            lines = [l for l in fr.split("\n") if l.startswith("#")]
            if len(lines) > 1:
                first = lines[1][2:160].replace("|", "/")
            break
        if first:
            break
    wb = (m.get("what_breaks") or "").replace("\n", " ").replace("|", "/")[:200]
    print("| %s | %s | %s | %s | %s | %s |" % (m["id"], ", ".join(m.get("files", [])), wb, ", ".join(det) or ("NOT DETECTED" if r else "not evaluated"),
                                          "yes" if r.get("with_failing_input") else ("no" if r else ""), first))
