(* Shared executable definitions used by the models (no proofs here). *)
From Coq Require Import List NArith ZArith.
Import ListNotations.
Local Open Scope N_scope.

Definition lenN {A} (l : list A) : N := N.of_nat (length l).
Definition takeN {A} (n : N) (l : list A) := firstn (N.to_nat n) l.
Definition dropN {A} (n : N) (l : list A) := skipn (N.to_nat n) l.

Fixpoint slice_nat (c : N -> Z) (off : N) (len : nat) : list Z :=
  match len with
  | O => []
  | S n => c off :: slice_nat c (off + 1) n
  end.
Definition slice (c : N -> Z) (off len : N) : list Z := slice_nat c off (N.to_nat len).

(* position-derived stream content; the harness binaries use the same formula *)
Definition content (i : N) : Z :=
  Z.of_N ((i * 131 + (i / 256) * 17 + 7) mod 256).
