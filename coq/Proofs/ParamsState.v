(* Proofs for property C18 over Model/ParamsState.v *)
From Coq Require Import List ZArith NArith Bool Lia.
From GQ Require Import Lib.Wire Model.Varint Model.Frames Model.Params Model.ParamsState Proofs.Packets.
Import ListNotations.
Local Open Scope Z_scope.

(* ---------------- what a successfully parsed parameter map guarantees ---------------- *)

Definition entry_valid (r : role) (id : Z) (v : pvalue) : Prop :=
  exists row, param_row_of id = Some row /\ belong_to id r = true /\ in_bound row v = true /\
              p_type row = value_type v.

Definition map_valid (r : role) (m : pmap_t) : Prop :=
  forall id v, pm_get m id = Some v -> entry_valid r id v.

Lemma whole_some {A} (x : res A) v : whole x = Some v -> x = Ok v [].
Proof. unfold whole. destruct x as [w rest| | |]; try discriminate. destruct rest; [|discriminate]. now intros [= ->]. Qed.

Lemma be_param_value_type t data v : be_param_value t data = Some v -> value_type v = t.
Proof.
  destruct t; cbn [be_param_value]; intro H.
  - apply whole_some in H. unfold pmap, bind, ret in H. destruct (be_varint data); try discriminate. now injection H as <- _.
  - destruct data; [now injection H as <-|discriminate].
  - now injection H as <-.
  - apply whole_some in H. unfold pmap, bind, ret in H. destruct (be_varint data); try discriminate. now injection H as <- _.
  - apply whole_some in H. unfold pmap, bind, ret in H. destruct (take_c RESET_TOKEN_SIZE data); try discriminate. now injection H as <- _.
  - destruct (MAX_CID_SIZE <? zlen data); [discriminate|]. now injection H as <-.
  - apply whole_some in H. unfold be_pref_addr, bind, ret in H.
    destruct (take_s 6 data); try discriminate. destruct (take_s 18 rest); try discriminate.
    destruct (be_cid rest0); try discriminate. destruct (take_c RESET_TOKEN_SIZE rest1); try discriminate.
    now injection H as <- _.
Qed.

Lemma map_valid_set r m id v : map_valid r m -> entry_valid r id v -> map_valid r (pm_set m id v).
Proof.
  intros Hm He id' v' H. rewrite pm_get_set in H.
  destruct (Z.eqb_spec id id') as [<-|NE]; [injection H as <-; exact He|now apply Hm].
Qed.

Lemma parse_loop_valid r : forall fuel m buf m', map_valid r m ->
  parse_loop fuel r m buf = PaOk m' -> map_valid r m'.
Proof.
  induction fuel as [|fuel IH]; intros m buf m' Hm H; destruct buf as [|b t]; cbn [parse_loop] in H;
    try discriminate; try (injection H as <-; exact Hm).
  destruct (be_raw_parameter (b :: t)) as [[id data] rest| | |st]; try discriminate.
  destruct (param_row_of id) as [row|] eqn:Er; [|eauto].
  destruct (belong_to id r) eqn:Eb; cbn [negb] in H; [|discriminate].
  destruct (be_param_value (p_type row) data) as [v|] eqn:Ev; [|discriminate].
  destruct (in_bound row v) eqn:Ei; [|discriminate].
  apply (IH _ _ _ (map_valid_set _ _ _ _ Hm (ex_intro _ row (conj Er (conj Eb (conj Ei (eq_sym (be_param_value_type _ _ _ Ev)))))))) in H.
  exact H.
Qed.

Lemma map_valid_nil r : map_valid r [].
Proof. intros id v H. discriminate. Qed.

(* every accepted blob: each id is legal for the sender's role, typed as the table says, inside its
   bound, and all mandatory ids are present *)
Lemma p_c18_parse_valid r buf m : parse_params r buf = PaOk m ->
  map_valid r m /\ (forall id, In id (required_of r) -> exists v, pm_get m id = Some v).
Proof.
  unfold parse_params. destruct (parse_loop (S (length buf)) r [] buf) as [m0| |st] eqn:E; try discriminate.
  destruct (forallb _ (required_of r)) eqn:Ef; [|discriminate]. intro H. injection H as <-.
  split; [exact (parse_loop_valid _ _ _ _ _ (map_valid_nil r) E)|].
  intros id Hin. rewrite forallb_forall in Ef. specialize (Ef _ Hin).
  destruct (pm_get m0 id) as [v|]; [eauto|discriminate].
Qed.

(* the bounds of the regenerated table are the RFC's *)
Lemma p_c18_bounds_rfc : forall row, In row param_table -> p_bound row = rfc_bound (p_id row).
Proof.
  assert (H : forallb (fun row => match p_bound row, rfc_bound (p_id row) with
                                  | Some (a, b), Some (c, d) => (a =? c) && (b =? d)
                                  | None, None => true
                                  | _, _ => false end) param_table = true) by (vm_compute; reflexivity).
  rewrite forallb_forall in H. intros row Hin. specialize (H _ Hin).
  destruct (p_bound row) as [[a b]|], (rfc_bound (p_id row)) as [[c d]|]; try discriminate; [|reflexivity].
  apply andb_true_iff in H. destruct H as [H1 H2]. apply Z.eqb_eq in H1. apply Z.eqb_eq in H2. now subst.
Qed.

(* ---------------- readiness in both arrival orders ---------------- *)

Definition accept (r : role) (origin blob cid : list Z) : Prop :=
  exists m, parse_params (peer_of r) blob = PaOk m /\
            get_cid m PID_INITIAL_SOURCE_CONNECTION_ID = Some cid /\
            (r = Client -> get_cid m PID_ORIGINAL_DESTINATION_CONNECTION_ID = Some origin).

Lemma cid_eqb_spec a b : cid_eqb a b = true <-> a = b.
Proof. unfold cid_eqb. destruct (list_eq_dec Z.eq_dec a b); split; congruence. Qed.

Definition outcome (s : pstate) : bool * bool := (ps_ready s, ps_failed s).

(* the verdict of authenticate once both pieces are known *)
Definition verdict (r : role) (origin : list Z) (m : pmap_t) (cid : list Z) : bool :=
  match get_cid m PID_INITIAL_SOURCE_CONNECTION_ID with
  | Some c => cid_eqb c cid &&
              match r with
              | Server => true
              | Client => match get_cid m PID_ORIGINAL_DESTINATION_CONNECTION_ID with
                          | Some o => cid_eqb o origin | None => false end
              end
  | None => false
  end.

Lemma authenticate_verdict s m cid : ps_scid s = Some cid ->
  authenticate s m = Some (verdict (ps_role s) (ps_origin s) m cid).
Proof.
  intro H. unfold authenticate, verdict. rewrite H.
  destruct (get_cid m PID_INITIAL_SOURCE_CONNECTION_ID) as [c|]; [|reflexivity].
  destruct (cid_eqb c cid); cbn [negb andb]; [|reflexivity].
  destruct (ps_role s); [|reflexivity].
  destruct (get_cid m PID_ORIGINAL_DESTINATION_CONNECTION_ID); reflexivity.
Qed.

Lemma run_params_first r idle origin blob cid m : parse_params (peer_of r) blob = PaOk m ->
  ps_run (ps_init r idle origin) [PsParams blob; PsScid cid] =
  after_auth (mk_ps r idle origin (Some m) (Some cid) false false) m.
Proof.
  intro Ep. unfold ps_run, ps_init. cbn [fold_left].
  assert (E1 : ps_step (mk_ps r idle origin None None false false) (PsParams blob) =
               mk_ps r idle origin (Some m) None false false).
  { unfold ps_step. cbn [ps_failed ps_role ps_local_idle ps_origin ps_remote ps_scid ps_ready]. rewrite Ep.
    unfold after_auth, authenticate. cbn [ps_scid]. reflexivity. }
  rewrite E1. unfold ps_step. cbn [ps_failed ps_role ps_local_idle ps_origin ps_remote ps_scid ps_ready]. reflexivity.
Qed.

Lemma run_scid_first r idle origin blob cid m : parse_params (peer_of r) blob = PaOk m ->
  ps_run (ps_init r idle origin) [PsScid cid; PsParams blob] =
  after_auth (mk_ps r idle origin (Some m) (Some cid) false false) m.
Proof.
  intro Ep. unfold ps_run, ps_init. cbn [fold_left].
  assert (E1 : ps_step (mk_ps r idle origin None None false false) (PsScid cid) =
               mk_ps r idle origin None (Some cid) false false).
  { unfold ps_step. cbn [ps_failed ps_role ps_local_idle ps_origin ps_remote ps_scid ps_ready]. reflexivity. }
  rewrite E1. unfold ps_step. cbn [ps_failed ps_role ps_local_idle ps_origin ps_remote ps_scid ps_ready].
  rewrite Ep. reflexivity.
Qed.

Lemma run_bad_blob r idle origin blob cid : (forall m, parse_params (peer_of r) blob <> PaOk m) ->
  outcome (ps_run (ps_init r idle origin) [PsParams blob; PsScid cid]) = (false, true) /\
  outcome (ps_run (ps_init r idle origin) [PsScid cid; PsParams blob]) = (false, true).
Proof.
  intro Hn. unfold ps_run, ps_init. cbn [fold_left]. unfold ps_step.
  cbn [ps_failed ps_role ps_local_idle ps_origin ps_remote ps_scid ps_ready].
  destruct (parse_params (peer_of r) blob) as [m| |st] eqn:Ep; [exfalso; exact (Hn m eq_refl)| |];
    cbn [ps_failed ps_role ps_local_idle ps_origin ps_remote ps_scid ps_ready]; rewrite ?Ep; split; reflexivity.
Qed.

Lemma two_orders r idle origin blob cid :
  let s0 := ps_init r idle origin in
  outcome (ps_run s0 [PsParams blob; PsScid cid]) = outcome (ps_run s0 [PsScid cid; PsParams blob]) /\
  outcome (ps_run s0 [PsParams blob; PsScid cid]) =
    match parse_params (peer_of r) blob with
    | PaOk m => if verdict r origin m cid then (true, false) else (false, true)
    | _ => (false, true)
    end.
Proof.
  cbv zeta. destruct (parse_params (peer_of r) blob) as [m| |st] eqn:Ep.
  - rewrite (run_params_first _ _ _ _ _ _ Ep), (run_scid_first _ _ _ _ _ _ Ep). split; [reflexivity|].
    unfold after_auth. rewrite authenticate_verdict with (cid := cid) by reflexivity.
    cbn [ps_role ps_origin]. destruct (verdict r origin m cid); reflexivity.
  - destruct (run_bad_blob r idle origin blob cid) as [A B]; [intros m H; congruence|]. rewrite A, B. split; reflexivity.
  - destruct (run_bad_blob r idle origin blob cid) as [A B]; [intros m H; congruence|]. rewrite A, B. split; reflexivity.
Qed.

Lemma verdict_accept r origin m cid :
  verdict r origin m cid = true <->
  (get_cid m PID_INITIAL_SOURCE_CONNECTION_ID = Some cid /\
   (r = Client -> get_cid m PID_ORIGINAL_DESTINATION_CONNECTION_ID = Some origin)).
Proof.
  unfold verdict. destruct (get_cid m PID_INITIAL_SOURCE_CONNECTION_ID) as [c|].
  - rewrite andb_true_iff, cid_eqb_spec. destruct r.
    + destruct (get_cid m PID_ORIGINAL_DESTINATION_CONNECTION_ID) as [o|].
      * rewrite cid_eqb_spec. split; [intros [-> ->]; auto|intros [H1 H2]; injection H1 as ->; specialize (H2 eq_refl); injection H2 as ->; auto].
      * split; [intros [_ H]; discriminate|intros [_ H2]; specialize (H2 eq_refl); discriminate].
    + split; [intros [-> _]; split; [reflexivity|discriminate]|intros [H1 _]; injection H1 as ->; auto].
  - split; [discriminate|intros [H _]; discriminate].
Qed.

(* ready iff accepted, failed iff not, in both orders *)
Lemma p_c18_ready_iff r idle origin blob cid :
  let s0 := ps_init r idle origin in
  let a := ps_run s0 [PsParams blob; PsScid cid] in
  let b := ps_run s0 [PsScid cid; PsParams blob] in
  outcome a = outcome b /\
  (ps_ready a = true <-> accept r origin blob cid) /\
  (ps_failed a = true <-> ~ accept r origin blob cid).
Proof.
  cbv zeta. destruct (two_orders r idle origin blob cid) as [H1 H2]. split; [exact H1|].
  unfold outcome in H2.
  remember (ps_run (ps_init r idle origin) [PsParams blob; PsScid cid]) as a eqn:Ea. clear Ea H1.
  destruct (parse_params (peer_of r) blob) as [m| |st] eqn:Ep.
  - destruct (verdict r origin m cid) eqn:Ev; injection H2 as Hr Hf; rewrite Hr, Hf.
    + apply verdict_accept in Ev. split; split; try tauto; try discriminate.
      * intros _. exists m. tauto.
      * intro Hn. exfalso. apply Hn. exists m. tauto.
    + assert (Hna : ~ accept r origin blob cid).
      { intros (m' & Hp & Hc). rewrite Ep in Hp. injection Hp as <-. apply verdict_accept in Hc. congruence. }
      split; split; try discriminate; tauto.
  - injection H2 as Hr Hf; rewrite Hr, Hf.
    assert (Hna : ~ accept r origin blob cid) by (intros (m' & Hp & _); congruence).
    split; split; try discriminate; tauto.
  - injection H2 as Hr Hf; rewrite Hr, Hf.
    assert (Hna : ~ accept r origin blob cid) by (intros (m' & Hp & _); congruence).
    split; split; try discriminate; tauto.
Qed.

(* nothing is usable after only one of the two events *)
Lemma p_c18_not_ready_early r idle origin o : ps_ready (ps_step (ps_init r idle origin) o) = false.
Proof.
  unfold ps_init. destruct o as [blob|cid]; unfold ps_step;
    cbn [ps_failed ps_role ps_local_idle ps_origin ps_remote ps_scid ps_ready]; [|reflexivity].
  destruct (parse_params (peer_of r) blob); reflexivity.
Qed.

(* ---------------- idle timeout ---------------- *)

Lemma p_c18_idle s m rem v : ps_ready s = true -> ps_remote s = Some m ->
  num_of (pm_get_d m PID_MAX_IDLE_TIMEOUT) = Some rem -> 0 <= rem -> 0 <= ps_local_idle s ->
  negotiated_idle s = Some v ->
  (ps_local_idle s = 0 /\ rem = 0 -> v = -1) /\
  (ps_local_idle s = 0 /\ 0 < rem -> v = rem) /\
  (0 < ps_local_idle s /\ rem = 0 -> v = ps_local_idle s) /\
  (0 < ps_local_idle s /\ 0 < rem -> v = Z.min (ps_local_idle s) rem).
Proof.
  intros Hr Hm Hn H0 H1. unfold negotiated_idle. rewrite Hr, Hm, Hn. cbn [negb].
  intro H. injection H as <-.
  destruct (Z.eqb_spec (ps_local_idle s) 0) as [El|El], (Z.eqb_spec rem 0) as [Er|Er]; cbn [andb]; repeat split; intros; lia.
Qed.

(* ---------------- 0-RTT acceptance ---------------- *)

Lemma p_c18_0rtt_spec old new b : is_0rtt_accepted old new = Some b ->
  (b = true <-> forall id, In id zero_rtt_ids ->
     exists o n, num_of (pm_get_d old id) = Some o /\ num_of (pm_get_d new id) = Some n /\ o <= n).
Proof.
  unfold is_0rtt_accepted. generalize zero_rtt_ids as ids. intro ids. revert b.
  induction ids as [|id t IH]; intros b H; cbn [fold_right] in H.
  - injection H as <-. split; [intros _ id []|reflexivity].
  - destruct (fold_right _ (Some true) t) as [b0|] eqn:Ef; [|discriminate].
    destruct (num_of (pm_get_d old id)) as [o|] eqn:Eo; [|discriminate].
    destruct (num_of (pm_get_d new id)) as [n|] eqn:En; [|discriminate].
    injection H as <-. specialize (IH b0 eq_refl). rewrite andb_true_iff, Z.leb_le. split.
    + intros [Hb Hle] id' [<-|Hin]; [exists o, n; auto|]. apply IH; assumption.
    + intro Hall. split.
      * apply IH. intros id' Hin. apply Hall. now right.
      * destruct (Hall id (or_introl eq_refl)) as (o' & n' & H1 & H2 & H3). congruence.
Qed.

(* the `unreachable!` arm cannot be hit for maps produced by the parser: the eight ids are VarInt with a default *)
Lemma zero_rtt_ids_varint : forall id, In id zero_rtt_ids ->
  exists row d, param_row_of id = Some row /\ p_type row = VTVarInt /\ p_default row = Some d.
Proof.
  intros id Hin. unfold zero_rtt_ids in Hin.
  repeat (destruct Hin as [<-|Hin]; [eexists; eexists; vm_compute; repeat split; reflexivity|]). destruct Hin.
Qed.

Lemma num_of_valid r m id : map_valid r m -> In id zero_rtt_ids -> exists x, num_of (pm_get_d m id) = Some x.
Proof.
  intros Hm Hin. destruct (zero_rtt_ids_varint _ Hin) as (row & d & Hr & Ht & Hd).
  unfold pm_get_d. destruct (pm_get m id) as [v|] eqn:Eg.
  - destruct (Hm _ _ Eg) as (row' & Hr' & _ & _ & Hty). rewrite Hr in Hr'. injection Hr' as <-.
    rewrite Ht in Hty. destruct v; try discriminate. eexists; reflexivity.
  - unfold param_default. rewrite Hr, Hd, Ht. eexists; reflexivity.
Qed.

Lemma p_c18_0rtt_total old new : map_valid Server old -> map_valid Server new ->
  exists b, is_0rtt_accepted old new = Some b.
Proof.
  intros Ho Hn. unfold is_0rtt_accepted.
  assert (G : forall ids, (forall id, In id ids -> In id zero_rtt_ids) ->
     exists b, fold_right (fun id acc =>
        match acc, num_of (pm_get_d old id), num_of (pm_get_d new id) with
        | Some b, Some o, Some n => Some (b && (o <=? n))
        | _, _, _ => None end) (Some true) ids = Some b).
  { induction ids as [|id t IH]; intro Hs; cbn [fold_right]; [eauto|].
    destruct (IH (fun i Hi => Hs i (or_intror Hi))) as [b0 ->].
    destruct (num_of_valid _ _ _ Ho (Hs id (or_introl eq_refl))) as [o ->].
    destruct (num_of_valid _ _ _ Hn (Hs id (or_introl eq_refl))) as [n ->]. eauto. }
  apply G. auto.
Qed.
