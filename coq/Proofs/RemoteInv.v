(* Structural invariant of Model/RemoteCid.v (Part 2 of the remote proofs).

   [RPre s em] — [em] is every RETIRE_CONNECTION_ID sequence number emitted so far:
     p_al     the two deques have the same offset
     p_cur    cursor = ready_cells.largest()
     p_perm   em ++ (sequence numbers held by the cells) is a permutation of 0 .. cursor-1:
              every number below the cursor is retired exactly once or held by exactly one cell
     p_idx    a stored ID sits at the index given by its sequence number
     p_nodup  a cell is in at most one of ready_cells / pending_cells, once
     p_ready  the cell at index i of ready_cells is retired or its newest ID is number i
     p_cells  a retired cell holds nothing; an idle (not borrowed) cell holds at most one ID
   [Arranged s] — no stored ID waits at the cursor while a cell is pending. *)
From Coq Require Import List NArith ZArith Bool Lia Permutation.
From GQ Require Import Lib.Base Model.Router Model.RemoteCid Proofs.LocalCid Proofs.RemoteCid.
Import ListNotations.
Local Open Scope N_scope.

Definition aseqs (c : cell) : list N := map fst (a_alloc c).
Definition held (cs : list cell) : list N := flat_map aseqs cs.

Definition CellOk (c : cell) : Prop :=
  (a_retired c = true -> a_alloc c = []) /\
  (a_retired c = false -> a_using c = false -> (length (a_alloc c) <= 1)%nat).

Record RPre (s : rcids) (em : list N) : Prop := mkRPre {
  p_al : r_coff s = r_roff s;
  p_cur : r_cursor s = r_roff s + lenN (r_ready s);
  p_perm : Permutation (em ++ held (r_cells s)) (nseq 0 (N.to_nat (r_cursor s)));
  p_idx : forall i q id, nth_error (r_cids s) i = Some (Some (q, id)) -> q = r_coff s + N.of_nat i;
  p_nodup : NoDup (r_ready s ++ r_pending s);
  p_valid : forall p, In p (r_ready s ++ r_pending s) -> (p < length (r_cells s))%nat;
  p_ready : forall j p, nth_error (r_ready s) j = Some p ->
      a_retired (get_cell (r_cells s) p) = true \/
      exists id rest, a_alloc (get_cell (r_cells s) p) = (r_roff s + N.of_nat j, id) :: rest;
  p_cells : forall p, (p < length (r_cells s))%nat -> CellOk (get_cell (r_cells s) p) }.

Definition Arranged (s : rcids) : Prop :=
  r_pending s = [] \/ forall x, dq_get (r_coff s) (r_cids s) (r_cursor s) <> Some (Some x).

(* ---- lists ---- *)

Lemma get_upd_same : forall (cs : list cell) p v, (p < length cs)%nat -> get_cell (upd cs p v) p = v.
Proof. unfold get_cell. induction cs; destruct p; intros; cbn in *; try lia; auto. apply IHcs. lia. Qed.

Lemma get_upd_other : forall (cs : list cell) p q v, p <> q -> get_cell (upd cs p v) q = get_cell cs q.
Proof.
  unfold get_cell. induction cs; intros p q v H; destruct p; destruct q; cbn; auto; try congruence.
Qed.

Lemma held_upd : forall cs p c', (p < length cs)%nat ->
  exists rest, Permutation (held cs) (aseqs (get_cell cs p) ++ rest) /\
               Permutation (held (upd cs p c')) (aseqs c' ++ rest).
Proof.
  unfold get_cell. induction cs as [|c r IH]; intros p c' H; [cbn in H; lia|].
  destruct p as [|p].
  - exists (held r). split; reflexivity.
  - destruct (IH p c') as [rest [H1 H2]]; [cbn in H; lia|].
    exists (aseqs c ++ rest). cbn [held flat_map upd nth]. fold (held r). fold (held (upd r p c')). split.
    + rewrite H1. rewrite !app_assoc. apply Permutation_app_tail. apply Permutation_app_comm.
    + rewrite H2. rewrite !app_assoc. apply Permutation_app_tail. apply Permutation_app_comm.
Qed.

Lemma held_app : forall a b, held (a ++ b) = held a ++ held b.
Proof. intros. unfold held. apply flat_map_app. Qed.

Lemma nseq_app : forall n m a, nseq a (n + m) = nseq a n ++ nseq (a + N.of_nat n) m.
Proof.
  induction n; intros m a.
  - cbn. rewrite N.add_0_r. reflexivity.
  - cbn [Nat.add nseq app]. rewrite IHn. f_equal. f_equal. f_equal. lia.
Qed.

Lemma nseq_range : forall a b, a <= b -> nseq 0 (N.to_nat b) = nseq 0 (N.to_nat a) ++ nrange a b.
Proof.
  intros a b H. unfold nrange. replace (N.to_nat b) with (N.to_nat a + N.to_nat (b - a))%nat by lia.
  rewrite nseq_app. f_equal. f_equal. lia.
Qed.

Lemma nth_error_upd : forall A (l : list A) p v i,
  nth_error (upd l p v) i = if Nat.eqb i p then (if (p <? length l)%nat then Some v else None) else nth_error l i.
Proof.
  induction l as [|x r IH]; intros p v i.
  - cbn. destruct (Nat.eqb i p); destruct i; reflexivity.
  - destruct p; destruct i; cbn [upd nth_error Nat.eqb]; auto.
    rewrite IH. destruct (Nat.eqb i p); [|reflexivity].
    cbn [length]. destruct (p <? length r)%nat eqn:E1; destruct (S p <? S (length r))%nat eqn:E2; auto;
      apply Nat.ltb_lt in E1 || apply Nat.ltb_ge in E1; apply Nat.ltb_lt in E2 || apply Nat.ltb_ge in E2; lia.
Qed.

Lemma nodup_filter_app : forall (f : nat -> bool) a b, NoDup (a ++ b) -> NoDup (filter f a ++ b).
Proof.
  induction a as [|x r IH]; intros b H; cbn [filter app] in *; [assumption|].
  inversion H; subst. destruct (f x).
  - constructor; [|apply IH; assumption]. intro Hin. apply H2. apply in_app_or in Hin.
    apply in_or_app. destruct Hin as [Hin|Hin]; [left; apply filter_In in Hin; tauto|right; assumption].
  - apply IH. assumption.
Qed.

(* ---- cells ---- *)

Lemma trim_spec : forall al al' fr, trim al = (al', fr) ->
  Permutation (fr ++ map fst al') (map fst al) /\ (length al' <= 1)%nat /\
  (forall x r, al = x :: r -> al' = [x]) /\ (al = [] -> al' = []).
Proof.
  intros al al' fr H. destruct al as [|x r]; cbn [trim] in H; inversion H; subst.
  - cbn. repeat split; auto; intros; discriminate.
  - split; [|split; [cbn; lia|split; [intros ? ? E; inversion E; reflexivity|intros; discriminate]]].
    cbn [map]. rewrite map_rev. rewrite <- Permutation_rev.
    change (fst x :: map fst r) with ([fst x] ++ map fst r). apply Permutation_app_comm.
Qed.

Lemma assign_spec : forall c seq id c' fr,
  a_retired c = false -> cell_assign c seq id = (c', fr) ->
  Permutation (fr ++ aseqs c') (seq :: aseqs c) /\ a_retired c' = false /\
  (exists rest, a_alloc c' = (seq, id) :: rest) /\ CellOk c'.
Proof.
  intros c seq id c' fr HR H. unfold cell_assign in H. destruct (a_using c) eqn:EU.
  - inversion H; subst. unfold aseqs, CellOk. cbn. split; [reflexivity|]. split; [assumption|].
    split; [eexists; reflexivity|]. rewrite HR. split; intros; discriminate.
  - destruct (trim ((seq, id) :: a_alloc c)) as [al' fr0] eqn:ET. inversion H; subst.
    apply trim_spec in ET. destruct ET as [T1 [T2 [T3 _]]].
    specialize (T3 _ _ eq_refl). subst al'. unfold aseqs, CellOk. cbn [a_alloc a_retired a_using].
    split; [exact T1|]. split; [assumption|]. split; [eexists; reflexivity|].
    rewrite HR. split; intros; [discriminate|cbn; lia].
Qed.

(* ---- a cell changes, the deques do not ---- *)

Definition with_cells (s : rcids) (cs : list cell) : rcids :=
  mkR (r_coff s) (r_cids s) (r_roff s) (r_ready s) (r_pending s) (r_limit s) (r_cursor s) cs.

Lemma cell_update_inv : forall s em p c' fr,
  RPre s em -> (p < length (r_cells s))%nat ->
  Permutation (fr ++ aseqs c') (aseqs (get_cell (r_cells s) p)) ->
  (a_retired c' = true \/
   forall x rest, a_alloc (get_cell (r_cells s) p) = x :: rest -> exists rest', a_alloc c' = x :: rest') ->
  (a_retired (get_cell (r_cells s) p) = true -> a_retired c' = true) ->
  CellOk c' ->
  RPre (with_cells s (upd (r_cells s) p c')) (em ++ fr).
Proof.
  intros s em p c' fr [A1 A2 A3 A4 A5 A6 A7 A8] Hp HP HK HR HC.
  constructor; cbn [with_cells r_coff r_cids r_roff r_ready r_pending r_limit r_cursor r_cells]; auto.
  - destruct (held_upd (r_cells s) p c' Hp) as [rest [H1 H2]].
    rewrite <- A3. rewrite H2, H1. rewrite <- !app_assoc. apply Permutation_app_head.
    rewrite !app_assoc. apply Permutation_app_tail. exact HP.
  - intros q Hq. rewrite upd_length. auto.
  - intros j q Hq. destruct (Nat.eq_dec p q) as [->|Hne].
    + rewrite get_upd_same by assumption. destruct (A7 j q Hq) as [Hr|[id [rest Hal]]].
      * left. auto.
      * destruct HK as [HK|HK]; [left; assumption|]. right. destruct (HK _ _ Hal) as [rest' Hx]. eauto.
    + rewrite get_upd_other by assumption. auto.
  - intros q Hq. rewrite upd_length in Hq. destruct (Nat.eq_dec p q) as [->|Hne].
    + rewrite get_upd_same by assumption. assumption.
    + rewrite get_upd_other by assumption. auto.
Qed.

(* ---- arrange_idle_cid ---- *)

Lemma dq_get_idx : forall s em x, RPre s em ->
  dq_get (r_coff s) (r_cids s) (r_cursor s) = Some (Some x) -> fst x = r_cursor s.
Proof.
  intros s em [q id] H HG. unfold dq_get in HG.
  destruct (r_cursor s <? r_coff s) eqn:E; [discriminate|]. apply N.ltb_ge in E.
  apply (p_idx _ _ H) in HG. cbn. lia.
Qed.

Lemma arrange_loop_inv : forall pend coff cids roff limit cursor cells ready em pend' cur' cells' ready' fr,
  RPre (mkR coff cids roff ready pend limit cursor cells) em ->
  arrange_loop pend coff cids cursor cells ready = (pend', cur', cells', ready', fr) ->
  RPre (mkR coff cids roff ready' pend' limit cur' cells') (em ++ fr) /\
  Arranged (mkR coff cids roff ready' pend' limit cur' cells').
Proof.
  induction pend as [|p rest IH]; intros coff cids roff limit cursor cells ready em pend' cur' cells' ready' fr HP H;
    cbn [arrange_loop] in H.
  - inversion H; subst. rewrite app_nil_r. split; [assumption|left; reflexivity].
  - destruct (a_retired (get_cell cells p)) eqn:ER.
    + (* a retired cell is dropped from pending_cells *)
      apply IH with (em := em) (roff := roff) (limit := limit) in H; [assumption|].
      destruct HP as [A1 A2 A3 A4 A5 A6 A7 A8]; cbn [r_coff r_cids r_roff r_ready r_pending r_limit r_cursor r_cells] in *.
      constructor; cbn [r_coff r_cids r_roff r_ready r_pending r_limit r_cursor r_cells]; auto.
      * apply NoDup_remove_1 in A5. assumption.
      * intros q Hq. apply A6. apply in_app_or in Hq. apply in_or_app. destruct Hq; [left|right; right]; assumption.
    + destruct (dq_get coff cids cursor) as [[[seq id]|]|] eqn:EG.
      * destruct (cell_assign (get_cell cells p) seq id) as [c' fr0] eqn:EA.
        destruct (arrange_loop rest coff cids (cursor + 1) (upd cells p c') (ready ++ [p]))
          as [[[[pend1 cur1] cells1] ready1] fr1] eqn:EL.
        inversion H; subst. rewrite app_assoc.
        apply IH with (em := em ++ fr0) (roff := roff) (limit := limit) in EL; [assumption|].
        pose proof (dq_get_idx _ _ _ HP EG) as Hseq. cbn [fst r_cursor] in Hseq. subst seq.
        destruct (assign_spec _ _ _ _ _ ER EA) as [S1 [S2 [[rest0 S3] S4]]].
        destruct HP as [A1 A2 A3 A4 A5 A6 A7 A8]; cbn [r_coff r_cids r_roff r_ready r_pending r_limit r_cursor r_cells] in *.
        assert (Hp : (p < length cells)%nat) by (apply A6; apply in_or_app; right; left; reflexivity).
        constructor; cbn [r_coff r_cids r_roff r_ready r_pending r_limit r_cursor r_cells]; auto.
        -- rewrite A2. unfold lenN. rewrite app_length. cbn [length]. lia.
        -- destruct (held_upd cells p c' Hp) as [rest1 [H1 H2]].
           replace (N.to_nat (cursor + 1)) with (S (N.to_nat cursor)) by lia.
           rewrite nseq_snoc. rewrite <- A3. rewrite H2, H1.
           replace (0 + N.of_nat (N.to_nat cursor)) with cursor by lia.
           rewrite <- !app_assoc.
           transitivity (em ++ (fr0 ++ aseqs c') ++ rest1); [rewrite <- !app_assoc; reflexivity|].
           rewrite S1. cbn [app].
           transitivity (cursor :: em ++ aseqs (get_cell cells p) ++ rest1).
           ++ symmetry. apply Permutation_middle.
           ++ rewrite !app_assoc. apply Permutation_cons_append.
        -- rewrite <- app_assoc. cbn [app]. assumption.
        -- intros q Hq. rewrite upd_length. apply A6. rewrite <- app_assoc in Hq. cbn [app] in Hq. assumption.
        -- intros j q Hq. destruct (Nat.eq_dec p q) as [->|Hne].
           ++ rewrite get_upd_same by assumption. right.
              assert (j = length ready).
              { destruct (Nat.lt_ge_cases j (length ready)) as [Hlt|Hge].
                - rewrite nth_error_app1 in Hq by assumption. exfalso.
                  apply nth_error_In in Hq. apply NoDup_remove_2 in A5. apply A5. apply in_or_app. left; assumption.
                - rewrite nth_error_app2 in Hq by assumption. destruct (j - length ready)%nat as [|k] eqn:EK; [lia|].
                  cbn in Hq. destruct k; discriminate. }
              subst j. exists id, rest0. rewrite S3. f_equal. f_equal. rewrite A2. unfold lenN. reflexivity.
           ++ rewrite get_upd_other by assumption.
              destruct (Nat.lt_ge_cases j (length ready)) as [Hlt|Hge].
              ** rewrite nth_error_app1 in Hq by assumption. auto.
              ** rewrite nth_error_app2 in Hq by assumption. destruct (j - length ready)%nat as [|k]; cbn in Hq.
                 --- inversion Hq. congruence.
                 --- destruct k; discriminate.
        -- intros q Hq. rewrite upd_length in Hq. destruct (Nat.eq_dec p q) as [->|Hne].
           ++ rewrite get_upd_same by assumption. assumption.
           ++ rewrite get_upd_other by assumption. auto.
      * inversion H; subst. rewrite app_nil_r. split; [assumption|]. right. cbn. intros x. congruence.
      * inversion H; subst. rewrite app_nil_r. split; [assumption|]. right. cbn. intros x. congruence.
Qed.

Lemma arrange_inv : forall s em s' fr,
  RPre s em -> arrange s = (s', fr) -> RPre s' (em ++ fr) /\ Arranged s'.
Proof.
  intros s em s' fr HP H. unfold arrange in H.
  destruct (arrange_loop (r_pending s) (r_coff s) (r_cids s) (r_cursor s) (r_cells s) (r_ready s))
    as [[[[pend cur] cells] ready] fr0] eqn:EL.
  inversion H; subst. destruct s as [x1 x2 x3 x4 x5 x6 x7 x8]. cbn [r_pending r_coff r_cids r_cursor r_cells r_ready r_roff r_limit] in *.
  eapply arrange_loop_inv; eassumption.
Qed.

(* ---- cid_deque.insert ---- *)

Lemma nth_error_repeat_none : forall A n i (x : option A), nth_error (repeat None n) i = Some x -> x = None.
Proof. induction n; destruct i; cbn; intros; try discriminate; [congruence|eauto]. Qed.

Lemma insert_inv : forall s em seq id, RPre s em -> r_coff s <= seq -> RPre (inserted s seq id) em.
Proof.
  intros s em seq id [A1 A2 A3 A4 A5 A6 A7 A8] Hge.
  constructor; cbn [inserted r_coff r_cids r_roff r_ready r_pending r_limit r_cursor r_cells]; auto.
  intros i q id' H. unfold dq_insert in H.
  set (pos := N.to_nat (seq - r_coff s)) in *.
  destruct (pos <? length (r_cids s))%nat eqn:E.
  - rewrite nth_error_upd, E in H. destruct (Nat.eqb i pos) eqn:E2.
    + apply Nat.eqb_eq in E2. inversion H; subst. unfold pos. lia.
    + eauto.
  - apply Nat.ltb_ge in E. destruct (Nat.lt_ge_cases i (length (r_cids s))) as [Hlt|Hge2].
    + rewrite nth_error_app1 in H by assumption. eauto.
    + rewrite nth_error_app2 in H by assumption.
      destruct (Nat.lt_ge_cases (i - length (r_cids s)) (pos - length (r_cids s))) as [Hlt|Hge3].
      * rewrite nth_error_app1 in H by (rewrite repeat_length; assumption).
        apply nth_error_repeat_none in H. discriminate.
      * rewrite nth_error_app2 in H by (rewrite repeat_length; assumption). rewrite repeat_length in H.
        destruct (i - length (r_cids s) - (pos - length (r_cids s)))%nat as [|k] eqn:EK; cbn in H.
        -- inversion H; subst. unfold pos in *. lia.
        -- destruct k; discriminate.
Qed.

(* ---- retire_prior_to ---- *)

Lemma nth_error_dropN : forall A k (l : list A) i, nth_error (dropN k l) i = nth_error l (N.to_nat k + i).
Proof. intros. unfold dropN. apply nth_error_skipn'. Qed.

Lemma rpt_inv : forall s em tomb s' fr,
  RPre s em -> r_roff s < tomb -> tomb <= r_coff s + lenN (r_cids s) ->
  retire_prior_to s tomb = (s', fr) -> RPre s' (em ++ fr).
Proof.
  intros s em tomb s' fr HP Hlt Hok H.
  pose proof (rpt_fields _ _ _ _ H Hlt) as [F1 [F2 [F3 [F4 [F5 F6]]]]].
  destruct HP as [A1 A2 A3 A4 A5 A6 A7 A8].
  assert (Hcoff : r_coff s' = tomb) by lia.
  assert (Hidx : forall i q id, nth_error (r_cids s') i = Some (Some (q, id)) -> q = r_coff s' + N.of_nat i).
  { intros i q id Hn. rewrite F5, nth_error_dropN in Hn. apply A4 in Hn. lia. }
  unfold retire_prior_to in H.
  replace (tomb <=? r_roff s) with false in H by (symmetry; apply N.leb_gt; lia).
  destruct (r_ready s) as [|p0 rd] eqn:ER.
  - (* nothing assigned yet: everything from the cursor up to tomb is retired unused *)
    inversion H; subst s' fr. clear H.
    cbn [r_coff r_cids r_roff r_ready r_pending r_limit r_cursor r_cells] in *.
    assert (Hc : r_cursor s = r_roff s) by (rewrite A2; unfold lenN; cbn; lia).
    constructor; cbn [r_coff r_cids r_roff r_ready r_pending r_limit r_cursor r_cells]; auto.
    + unfold lenN. cbn. lia.
    + replace (N.max (r_cursor s) tomb) with tomb by lia.
      rewrite (nseq_range (r_cursor s) tomb) by lia. rewrite <- A3, Hc.
      rewrite <- !app_assoc. apply Permutation_app_head. apply Permutation_app_comm.
    + intros j p Hj. destruct j; discriminate.
  - rewrite <- ER in *. clear p0 rd ER.
    set (applied := r_roff s + lenN (r_ready s)) in *.
    set (need := N.min applied tomb) in *.
    set (k := need - r_roff s) in *.
    assert (Hsplit : r_ready s = takeN k (r_ready s) ++ dropN k (r_ready s)).
    { unfold takeN, dropN. symmetry. apply firstn_skipn. }
    assert (Hnd : NoDup (dropN k (r_ready s) ++ r_pending s ++ live_of (r_cells s) (takeN k (r_ready s)))).
    { rewrite Hsplit, <- app_assoc in A5. apply (nodup_filter_app (fun p => negb (a_retired (get_cell (r_cells s) p)))) in A5.
      fold (live_of (r_cells s) (takeN k (r_ready s))) in A5.
      eapply Permutation_NoDup; [|exact A5].
      rewrite (app_assoc (dropN k (r_ready s)) (r_pending s)). apply Permutation_app_comm. }
    assert (Hval : forall p, In p (dropN k (r_ready s) ++ r_pending s ++ live_of (r_cells s) (takeN k (r_ready s))) ->
                             (p < length (r_cells s))%nat).
    { intros p Hp. apply A6. rewrite Hsplit. apply in_app_or in Hp. destruct Hp as [Hp|Hp].
      - apply in_or_app. left. apply in_or_app. right. assumption.
      - apply in_app_or in Hp. destruct Hp as [Hp|Hp].
        + apply in_or_app. right. assumption.
        + apply in_or_app. left. apply in_or_app. left. unfold live_of in Hp. apply filter_In in Hp. tauto. }
    destruct (applied <? tomb) eqn:EA.
    + apply N.ltb_lt in EA. inversion H; subst s' fr. clear H.
      cbn [r_coff r_cids r_roff r_ready r_pending r_limit r_cursor r_cells] in *.
      assert (Hk : dropN k (r_ready s) = []).
      { unfold dropN. apply skipn_all2. unfold k, need, applied, lenN in *. lia. }
      constructor; cbn [r_coff r_cids r_roff r_ready r_pending r_limit r_cursor r_cells]; auto.
      * rewrite Hk. unfold lenN. cbn. lia.
      * replace (N.max (r_cursor s) tomb) with tomb by (unfold applied in *; lia).
        rewrite (nseq_range (r_cursor s) tomb) by (unfold applied in *; lia).
        rewrite <- A3. replace applied with (r_cursor s) by (unfold applied; lia).
        rewrite <- !app_assoc. apply Permutation_app_head. apply Permutation_app_comm.
      * intros j p Hj. rewrite Hk in Hj. destruct j; discriminate.
    + apply N.ltb_ge in EA. inversion H; subst s' fr. clear H.
      cbn [r_coff r_cids r_roff r_ready r_pending r_limit r_cursor r_cells] in *.
      assert (Hneed : need = tomb) by (unfold need; lia).
      constructor; cbn [r_coff r_cids r_roff r_ready r_pending r_limit r_cursor r_cells]; auto.
      * rewrite Hneed. exact Hcoff.
      * rewrite lenN_dropN. unfold k, applied in *. lia.
      * rewrite app_nil_r. replace (N.max (r_cursor s) tomb) with (r_cursor s) by (unfold applied in *; lia). exact A3.
      * intros j p Hj. rewrite nth_error_dropN in Hj. apply A7 in Hj.
        replace (need + N.of_nat j) with (r_roff s + N.of_nat (N.to_nat k + j)) by (unfold k; lia). exact Hj.
Qed.

Lemma rpt_noop_inv : forall s em tomb s' fr,
  RPre s em -> tomb <= r_roff s -> retire_prior_to s tomb = (s', fr) -> RPre s' (em ++ fr).
Proof. intros s em tomb s' fr HP Hle H. rewrite rpt_noop in H by assumption. inversion H; subst. rewrite app_nil_r. assumption. Qed.

(* ---- recv_new_cid_frame ---- *)

Lemma recv_inv : forall chk post s em seq rpt id s' fr res,
  RPre s em -> Arranged s -> rpt <= seq -> recv_new_cid chk post s seq rpt id = (s', fr, res) ->
  RPre s' (em ++ fr) /\ Arranged s'.
Proof.
  intros chk post s em seq rpt id s' fr res HP HA Hrs H.
  destruct (chk seq rpt (r_limit s)) eqn:EC.
  { rewrite recv_rejected in H by assumption. inversion H; subst. rewrite app_nil_r. split; assumption. }
  destruct (N.ltb_spec seq (r_coff s)) as [Hlt|Hge].
  { rewrite recv_discarded in H by assumption. inversion H; subst. rewrite app_nil_r. split; assumption. }
  rewrite recv_unfold in H by assumption.
  destruct (retire_prior_to (inserted s seq id) rpt) as [s2 f1] eqn:E2.
  destruct (arrange s2) as [s3 f2] eqn:E3. inversion H; subst.
  pose proof (insert_inv _ _ seq id HP Hge) as HP1.
  assert (HP2 : RPre s2 (em ++ f1)).
  { destruct (N.leb_spec rpt (r_roff s)) as [Hle|Hgt].
    - eapply rpt_noop_inv; [exact HP1| |exact E2]. cbn. lia.
    - eapply rpt_inv; [exact HP1| | |exact E2]; cbn [inserted r_roff r_coff r_cids]; [lia|].
      rewrite dq_insert_length by assumption. lia. }
  rewrite app_assoc. eapply arrange_inv; eassumption.
Qed.

(* ---- apply_dcid ---- *)

Lemma get_cell_app1 : forall cs c p, (p < length cs)%nat -> get_cell (cs ++ [c]) p = get_cell cs p.
Proof. intros. unfold get_cell. apply app_nth1. assumption. Qed.

Lemma get_cell_last : forall cs c, get_cell (cs ++ [c]) (length cs) = c.
Proof. intros. unfold get_cell. rewrite app_nth2 by lia. rewrite Nat.sub_diag. reflexivity. Qed.

Lemma apply_inv : forall s em s' p fr,
  RPre s em -> apply_dcid s = (s', p, fr) -> RPre s' (em ++ fr) /\ Arranged s' /\ p = length (r_cells s).
Proof.
  intros s em s' p fr [A1 A2 A3 A4 A5 A6 A7 A8] H. unfold apply_dcid in H.
  match type of H with context [arrange ?x] => destruct (arrange x) as [s2 f2] eqn:E end.
  inversion H; subst. clear H.
  assert (CellOk cell0) by (split; cbn; intros; [reflexivity|lia]).
  eapply arrange_inv in E.
  - destruct E. split; [eassumption|split; [assumption|reflexivity]].
  - constructor; cbn [r_coff r_cids r_roff r_ready r_pending r_limit r_cursor r_cells]; auto.
    + rewrite held_app. cbn [held flat_map aseqs cell0 a_alloc map app]. rewrite app_nil_r. assumption.
    + rewrite app_assoc. eapply Permutation_NoDup; [apply Permutation_cons_append|]. constructor; [|assumption].
      intro Hin. apply A6 in Hin. lia.
    + intros q Hq. rewrite app_length. cbn [length]. rewrite app_assoc in Hq. apply in_app_or in Hq.
      destruct Hq as [Hq|[Hq|[]]]; [apply A6 in Hq; lia|lia].
    + intros j q Hq. assert (q < length (r_cells s))%nat.
      { apply A6. apply in_or_app. left. eapply nth_error_In; eassumption. }
      rewrite get_cell_app1 by assumption. auto.
    + intros q Hq. rewrite app_length in Hq. cbn [length] in Hq.
      destruct (Nat.eq_dec q (length (r_cells s))) as [->|Hne].
      * rewrite get_cell_last. assumption.
      * rewrite get_cell_app1 by lia. apply A8. lia.
Qed.

(* ---- path-side operations ---- *)

Lemma arranged_with_cells : forall s cs, Arranged s -> Arranged (with_cells s cs).
Proof. intros s cs H. exact H. Qed.

Lemma borrow_inv : forall s em p s' r,
  RPre s em -> (p < length (r_cells s))%nat -> path_borrow s p = (s', r) ->
  RPre s' em /\ (Arranged s -> Arranged s') /\
  match r with
  | BRetired => a_retired (get_cell (r_cells s) p) = true
  | BPending => a_retired (get_cell (r_cells s) p) = false /\ a_alloc (get_cell (r_cells s) p) = []
  | BCid id => a_retired (get_cell (r_cells s) p) = false /\
               exists q rest, a_alloc (get_cell (r_cells s) p) = (q, id) :: rest
  end.
Proof.
  intros s em p s' r HP Hp H. unfold path_borrow in H.
  destruct (cell_borrow (get_cell (r_cells s) p)) as [c' r0] eqn:EB. inversion H; subst. clear H.
  pose proof (p_cells _ _ HP p Hp) as [K1 K2].
  assert (Hc : a_alloc c' = a_alloc (get_cell (r_cells s) p) /\ a_retired c' = a_retired (get_cell (r_cells s) p) /\
               (a_using c' = true \/ c' = get_cell (r_cells s) p)).
  { unfold cell_borrow in EB. destruct (a_retired (get_cell (r_cells s) p)) eqn:ER.
    - inversion EB; subst. auto.
    - destruct (a_alloc (get_cell (r_cells s) p)) as [|[q id] rest] eqn:EA; inversion EB; subst; cbn; auto. }
  destruct Hc as [C1 [C2 C3]].
  split; [|split; [intros HA; exact HA|]].
  - rewrite <- (app_nil_r em).
    apply (cell_update_inv s em p c' [] HP Hp).
    + unfold aseqs. rewrite C1. reflexivity.
    + right. intros x rest Hx. rewrite C1. eauto.
    + intros Hr. congruence.
    + destruct C3 as [C3| ->]; [|split; assumption].
      split; [rewrite C1, C2; assumption|]. intros _ Hu. congruence.
  - unfold cell_borrow in EB. destruct (a_retired (get_cell (r_cells s) p)) eqn:ER.
    + inversion EB; subst. reflexivity.
    + destruct (a_alloc (get_cell (r_cells s) p)) as [|[q id] rest] eqn:EA; inversion EB; subst; eauto.
Qed.

Lemma release_inv : forall s em p s' fr,
  RPre s em -> (p < length (r_cells s))%nat -> path_release s p = (s', fr) ->
  RPre s' (em ++ fr) /\ (Arranged s -> Arranged s') /\
  a_using (get_cell (r_cells s') p) = false.
Proof.
  intros s em p s' fr HP Hp H. unfold path_release, cell_renew in H.
  destruct (trim (a_alloc (get_cell (r_cells s) p))) as [al' fr0] eqn:ET. inversion H; subst. clear H.
  apply trim_spec in ET. destruct ET as [T1 [T2 [T3 T4]]].
  pose proof (p_cells _ _ HP p Hp) as [K1 K2].
  split; [|split; [intros HA; exact HA|]].
  - apply (cell_update_inv s em p _ fr HP Hp).
    + unfold aseqs. cbn [a_alloc]. exact T1.
    + right. intros x rest Hx. cbn [a_alloc]. rewrite (T3 _ _ Hx). eauto.
    + intros Hr. exact Hr.
    + split; cbn [a_alloc a_retired a_using]; [|intros; assumption].
      intros Hr. apply T4. auto.
  - cbn [r_cells]. rewrite get_upd_same by assumption. reflexivity.
Qed.

Lemma retire_inv : forall s em p s' fr,
  RPre s em -> (p < length (r_cells s))%nat -> path_retire s p = (s', fr) ->
  RPre s' (em ++ fr) /\ (Arranged s -> Arranged s') /\
  a_retired (get_cell (r_cells s') p) = true /\ a_alloc (get_cell (r_cells s') p) = [].
Proof.
  intros s em p s' fr HP Hp H. unfold path_retire, cell_retire in H.
  pose proof (p_cells _ _ HP p Hp) as [K1 K2].
  destruct (a_retired (get_cell (r_cells s) p)) eqn:ER; inversion H; subst; clear H.
  - split; [|split; [intros HA; exact HA|]].
    + apply (cell_update_inv s em p _ [] HP Hp); [reflexivity|left; assumption|auto|exact (p_cells _ _ HP p Hp)].
    + cbn [r_cells]. rewrite get_upd_same by assumption. auto.
  - split; [|split; [intros HA; exact HA|]].
    + apply (cell_update_inv s em p _ _ HP Hp); cbn [a_alloc a_retired a_using].
      * unfold aseqs. cbn [a_alloc map]. rewrite app_nil_r. reflexivity.
      * left. reflexivity.
      * reflexivity.
      * split; cbn [a_alloc a_retired a_using]; [reflexivity|intros; discriminate].
    + cbn [r_cells]. rewrite get_upd_same by assumption. auto.
Qed.

(* ---- the initial state ---- *)

Lemma arrange_loop_none : forall pend coff cids cursor cells ready,
  (forall x, dq_get coff cids cursor <> Some (Some x)) ->
  exists pend', arrange_loop pend coff cids cursor cells ready = (pend', cursor, cells, ready, []).
Proof.
  induction pend as [|p rest IH]; intros coff cids cursor cells ready Hn; cbn [arrange_loop].
  - eexists; reflexivity.
  - destruct (a_retired (get_cell cells p)); [apply IH; assumption|].
    destruct (dq_get coff cids cursor) as [[[q id]|]|] eqn:E; [exfalso; eapply Hn; reflexivity| |]; eexists; reflexivity.
Qed.

Lemma get_cell_repeat : forall n p, (p < n)%nat -> get_cell (repeat cell0 n) p = cell0.
Proof. unfold get_cell. induction n; destruct p; intros; cbn; try lia; auto. apply IHn. lia. Qed.

Lemma held_repeat : forall n, held (repeat cell0 n) = [].
Proof. induction n; cbn; auto. Qed.

Definition pre_state (limit : N) (k : nat) : rcids := mkR 0 [] 0 [] (seq 0 k) limit 0 (repeat cell0 k).

Lemma apply_n_empty : forall n k limit, apply_n n (pre_state limit k) = pre_state limit (k + n).
Proof.
  induction n; intros k limit.
  - rewrite Nat.add_0_r. reflexivity.
  - cbn [apply_n]. unfold apply_dcid, arrange, pre_state.
    cbn [r_coff r_cids r_roff r_ready r_pending r_limit r_cursor r_cells].
    rewrite repeat_length.
    replace (seq 0 k ++ [k]) with (seq 0 (S k)) by (rewrite seq_S; reflexivity).
    replace (repeat cell0 k ++ [cell0]) with (repeat cell0 (S k)).
    2:{ change [cell0] with (repeat cell0 1). rewrite <- repeat_app. f_equal. lia. }
    change (seq 0 (S k)) with (0%nat :: seq 1 k) at 1. cbn [arrange_loop].
    rewrite get_cell_repeat by lia. cbn [a_retired cell0 dq_get N.ltb N.compare nth_error N.sub N.to_nat].
    change (0%nat :: seq 1 k) with (seq 0 (S k)).
    replace (k + S n)%nat with (S k + n)%nat by lia. apply IHn.
Qed.

Lemma remove_first_in : forall p l x, In x (remove_first p l) -> In x l.
Proof.
  induction l as [|y r IH]; intros x H; cbn [remove_first] in H; [assumption|].
  destruct (Nat.eqb y p); [right; assumption|]. destruct H; [left; assumption|right; auto].
Qed.

Lemma remove_first_nodup : forall p l, NoDup l -> NoDup (p :: remove_first p l).
Proof.
  intros p l H. constructor.
  - induction l as [|y r IH]; cbn [remove_first]; [tauto|]. inversion H; subst.
    destruct (Nat.eqb y p) eqn:E.
    + apply Nat.eqb_eq in E. subst. assumption.
    + apply Nat.eqb_neq in E. intros [Hx|Hx]; [congruence|]. apply IH; assumption.
  - induction l as [|y r IH]; cbn [remove_first]; [constructor|]. inversion H; subst.
    destruct (Nat.eqb y p); [assumption|]. constructor; [|auto].
    intro Hin. apply remove_first_in in Hin. contradiction.
Qed.

Lemma init_inv : forall limit npre hs id0, (hs < npre)%nat ->
  RPre (remote_init limit npre hs id0) [] /\ Arranged (remote_init limit npre hs id0).
Proof.
  intros limit npre hs id0 Hhs. unfold remote_init.
  change (remote_empty limit) with (pre_state limit 0). rewrite apply_n_empty. cbn [Nat.add].
  unfold apply_initial_dcid, pre_state. cbn [r_coff r_cids r_roff r_ready r_pending r_limit r_cursor r_cells].
  set (s1 := mkR 0 [Some (0, id0)] 0 [] (hs :: remove_first hs (seq 0 npre)) limit 0 (repeat cell0 npre)).
  assert (HP1 : RPre s1 []).
  { constructor; unfold s1; cbn [r_coff r_cids r_roff r_ready r_pending r_limit r_cursor r_cells]; auto.
    - rewrite held_repeat. reflexivity.
    - intros i q id H. destruct i; cbn in H; [inversion H; reflexivity|destruct i; discriminate].
    - cbn [app]. apply remove_first_nodup. apply seq_NoDup.
    - cbn [app]. intros p [<-|Hp]; rewrite repeat_length; [assumption|].
      apply remove_first_in in Hp. apply in_seq in Hp. lia.
    - intros j p H. destruct j; discriminate.
    - intros p Hp. rewrite repeat_length in Hp. rewrite get_cell_repeat by assumption.
      split; cbn; intros; [reflexivity|lia]. }
  destruct (arrange s1) as [s2 fr] eqn:EA. cbn [fst].
  assert (Hfr : fr = []).
  { unfold arrange, s1 in EA. cbn [r_coff r_cids r_roff r_ready r_pending r_limit r_cursor r_cells arrange_loop] in EA.
    rewrite get_cell_repeat in EA by assumption.
    cbn [a_retired cell0 dq_get N.ltb N.compare nth_error N.sub N.to_nat cell_assign a_using a_alloc trim rev map app] in EA.
    match type of EA with context [arrange_loop ?a ?b ?c ?d ?e ?f] =>
      destruct (arrange_loop_none a b c d e f) as [pend' HL] end.
    { intros x. unfold dq_get. cbn. discriminate. }
    rewrite HL in EA. inversion EA; reflexivity. }
  subst fr. apply (arrange_inv _ _ _ _ HP1) in EA. exact EA.
Qed.
