"""Shared by C12.py and C11.py: the `streams` stream (real DataStreams + FlowController).
The spec side below is written from RFC 9000 (sections 2.1, 3, 4.1, 4.5, 4.6, 19.4-19.14), not from
the model: `judge(case, obs)` walks the implementation's observations and returns a list of
(clause, message) for every clause of C12 / C11 that the observations contradict."""
import random
from vlib import Case

OPS = ["HANDSHAKE", "OPEN", "WRITE", "SHUTDOWN", "READ", "ACCEPT", "LOAD", "STREAM", "RESET", "STOP",
       "MAXSD", "MAXSTREAMS", "SBLOCKED", "MAXDATA", "SDBLOCKED", "LOSE"]
ERR = {3: "FlowControl", 4: "StreamLimit", 5: "StreamState", 6: "FinalSize"}
LIMIT60 = 2 ** 60 - 1
VARINT_MAX = 2 ** 62 - 1


def sid_of(role, d, idx):
    return idx * 4 + d * 2 + role


class P:
    """one endpoint's parameters: msb msu md sdbl sdbr sdu"""
    def __init__(self, v):
        self.msb, self.msu, self.md, self.sdbl, self.sdbr, self.sdu = v

    def ms(self, d):
        return self.msu if d else self.msb


def cfg_of(case):
    c = [int(x) for x in case.cfg]
    return {"role": c[0], "mode": c[1] if c[0] == 0 else 0, "ctrl": c[2], "L": P(c[3:9]), "R": P(c[9:15]), "M": P(c[15:21])}


def frames_of(words):
    n = words[0]
    return [tuple(words[1 + 5 * i: 6 + 5 * i]) for i in range(n)]


class Intervals:
    def __init__(self):
        self.iv = []

    def add(self, a, b):
        if a >= b:
            return
        out = []
        for (x, y) in self.iv:
            if y < a or b < x:
                out.append((x, y))
            else:
                a, b = min(a, x), max(b, y)
        out.append((a, b))
        self.iv = sorted(out)

    def covers_prefix(self, n):
        if n == 0:
            return True
        return bool(self.iv) and self.iv[0][0] == 0 and self.iv[0][1] >= n


class RS:
    """receive half of one stream, as the RFC describes it"""
    def __init__(self, window):
        self.window = window        # advertised MAX_STREAM_DATA (initial, then frames we emitted)
        self.high = 0               # largest end of received non-empty data
        self.high0 = 0              # same, counting empty frames too
        self.final = None
        self.got = Intervals()
        self.done = False           # all data received or reset: the RFC's checks become SHOULDs


class SS:
    """send half of one stream"""
    def __init__(self, limit, local):
        self.limit = limit          # peer's MAX_STREAM_DATA for it
        self.local = local
        self.written = 0
        self.high = 0               # bytes ever put on the wire
        self.handed = local
        self.dead = False           # reset / fin emitted


def judge(case, obs):
    """-> list of (clause, message).  clause in: abnormal open accept direction finalsize implicit
    limitfp (C12) ; window streamlimit connlimit progress recvdetect recvaccept monotone (C11)"""
    cf = cfg_of(case)
    role, peer = cf["role"], 1 - cf["role"]
    L, R, M = cf["L"], cf["R"], cf["M"]
    bad = []
    hs = False
    rejected = False
    cur = M if cf["mode"] == 1 else P([0] * 6)      # the peer parameters we may act on
    peer_max = [cur.msb, cur.msu]
    peer_md = cur.md
    opened = [0, 0]
    adv_cur = [L.msb, L.msu]
    adv_high = [L.msb, L.msu]
    used = [0, 0]            # peer streams implicitly opened so far (count)
    accepted = [0, 0]
    rs = {}
    ss = {}
    adv_md = L.md
    rcvd_total = 0
    fresh_total = 0
    last_maxdata = None
    last_maxsd = {}
    empty_quirk = False
    if len(obs) != len(case.ops):
        return [("abnormal", "%d observations for %d ops (%s)" % (len(obs), len(case.ops), obs[-1] if obs else ""))]

    def send_limit_initial(sid):
        d = (sid >> 1) & 1
        if sid & 1 == role:
            return cur.sdu if d else cur.sdbr
        return R.sdbl if hs else 0

    def touch_peer_stream(sid):
        """a frame for a peer-initiated stream was accepted: it and every lower one now exist"""
        d = (sid >> 1) & 1
        idx = sid >> 2
        for i in range(used[d], idx + 1):
            s = sid_of(peer, d, i)
            rs[s] = RS(L.sdu if d else L.sdbr)
            if d == 0:
                ss[s] = SS(R.sdbl if hs else 0, False)
        used[d] = max(used[d], idx + 1)

    for k, ((tag, a), line) in enumerate(zip(case.ops, obs)):
        if line.startswith("!"):
            return bad + [("abnormal", "op %d %s%s -> %s" % (k, OPS[tag], a, line))]
        v = [int(x) for x in line.split()]
        if v == [-1]:
            break      # connection already closed by an error that was judged when it happened
        name = OPS[tag]
        where = "op %d %s%s" % (k, name, a)
        frames = []
        if name == "HANDSHAKE":
            if v[0] == 1:
                hs = True
                rejected = bool(a[0])
                cur = R
                if rejected:
                    peer_max = [R.msb, R.msu]
                    peer_md = R.md
                    for s in ss.values():
                        if s.local:
                            s.high = 0
                    fresh_total = 0
                else:
                    peer_max = [max(peer_max[0], R.msb), max(peer_max[1], R.msu)]
                    peer_md = max(peer_md, R.md)
                for sid, s in ss.items():
                    if s.local:
                        d = (sid >> 1) & 1
                        w = R.sdu if d else R.sdbr
                        s.limit = w if rejected else max(s.limit, w)
            frames = frames_of(v[1:])
        elif name == "OPEN":
            d = a[0]
            frames = frames_of(v[2:])
            if v[0] == 1:
                want = sid_of(role, d, opened[d])
                if v[1] != want:
                    bad.append(("open", "%s returned stream id %d, the next unused one is %d" % (where, v[1], want)))
                if opened[d] + 1 > peer_max[d]:
                    bad.append(("open", "%s opened stream #%d of its kind, peer allows %d" % (where, opened[d] + 1, peer_max[d])))
                opened[d] += 1
                ss[v[1]] = SS(cur.sdu if d else cur.sdbr, True)
                if d == 0:
                    rs[v[1]] = RS(L.sdbl)
            elif v[0] == 0:
                known = hs or cf["mode"] == 1
                if known and opened[d] < peer_max[d] and opened[d] <= LIMIT60:
                    bad.append(("open", "%s is pending although only %d of %d allowed streams are open" % (where, opened[d], peer_max[d])))
        elif name == "ACCEPT":
            d = a[0]
            frames = frames_of(v[2:])
            if v[0] == 1:
                want = sid_of(peer, d, accepted[d])
                if v[1] != want or accepted[d] >= used[d]:
                    bad.append(("implicit", "%s yielded stream %d; streams of that kind opened by the peer so far: %d, already yielded: %d (next must be %d)"
                                % (where, v[1], used[d], accepted[d], want)))
                accepted[d] += 1
                if v[1] in ss:
                    ss[v[1]].handed = True
                    ss[v[1]].limit = max(ss[v[1]].limit, R.sdbl)
            elif v[0] == 0:
                if accepted[d] < used[d] and (d == 1 or hs):
                    bad.append(("implicit", "%s is pending although %d peer streams exist and only %d were yielded" % (where, used[d], accepted[d])))
        elif name == "WRITE":
            frames = frames_of(v[1:])
            if v[0] == 1 and a[0] in ss:
                ss[a[0]].written += a[1]
        elif name == "SHUTDOWN":
            frames = frames_of(v[1:])
        elif name == "READ":
            frames = frames_of(v[2:])
        elif name == "LOAD":
            frames = frames_of(v[3:])
            got_stream = [f for f in frames if f[0] == 1]
            for (_, sid, off, ln, fin) in got_stream:
                s = ss.get(sid)
                if s is None:
                    bad.append(("streamlimit", "%s emitted a STREAM frame for stream %d which we cannot send on" % (where, sid)))
                    continue
                if s.local and hs and (sid >> 2) >= peer_max[(sid >> 1) & 1]:
                    bad.append(("rejectsend", "%s emitted STREAM on locally opened stream %d (index %d) although the peer currently allows %d streams of that kind"
                                % (where, sid, sid >> 2, peer_max[(sid >> 1) & 1])))
                lim = s.limit
                if off + ln > lim:
                    bad.append(("streamlimit", "%s emitted STREAM(sid %d, off %d, len %d): end %d exceeds the peer's limit %d for that stream (%s)"
                                % (where, sid, off, ln, off + ln, lim, kind_name(sid, role))))
                fresh = max(0, off + ln - max(s.high, off)) if off + ln > s.high else 0
                s.high = max(s.high, off + ln)
                fresh_total += fresh
                # after a rejected 0-RTT attempt the count restarts (HANDSHAKE above): everything sent in 0-RTT is
                # discarded by the server and the limit is its new initial_max_data (RFC 9000 7.4.1, RFC 9001 4.6.2)
                if fresh_total > peer_md:
                    bad.append(("connlimit", "%s: %d fresh stream bytes sent in total%s, peer's MAX_DATA is %d"
                                % (where, fresh_total, " since the rejected 0-RTT attempt" if rejected else "", peer_md)))
                if fin:
                    s.dead = True
            if not got_stream and a[0] >= 64:
                for sid, s in ss.items():
                    if (s.handed and not s.dead and s.written > s.high and s.high < s.limit and fresh_total < peer_md
                            and (s.local or hs) and not (s.local and (sid >> 2) >= peer_max[(sid >> 1) & 1])):
                        bad.append(("progress", "%s sent nothing although stream %d (%s) has %d unsent bytes, stream window %d > %d sent and connection credit %d > %d used"
                                    % (where, sid, kind_name(sid, role), s.written - s.high, s.limit, s.high, peer_md, fresh_total)))
                        break
        elif name == "MAXDATA":
            peer_md = max(peer_md, a[0])
            frames = frames_of(v[2:])
        elif name == "LOSE":
            frames = frames_of(v[1:])
        else:
            # ---------------------------------------------------------------- peer frames
            code, fresh = v[0], v[1]
            frames = frames_of(v[2:])
            must = set()     # error kinds the RFC demands (any one of them is a correct answer)
            r = None
            may = set()      # error kinds that are also justified
            fresh_spec = 0
            if name in ("MAXSTREAMS", "SBLOCKED"):
                d, val = a
                if name == "MAXSTREAMS":
                    if code == 0:
                        peer_max[d] = max(peer_max[d], val)
            else:
                sid = a[0]
                d = (sid >> 1) & 1
                idx = sid >> 2
                mine = (sid & 1) == role
                sender_side = name in ("STREAM", "RESET", "SDBLOCKED")
                if mine and d == 1 and sender_side:
                    must.add(5)
                if (not mine) and d == 1 and not sender_side:
                    must.add(5)
                if not mine and not (d == 1 and not sender_side):
                    if idx >= adv_high[d]:
                        must.add(4)
                    elif idx >= adv_cur[d]:
                        may.add(4)
                r = rs.get(sid)
                if 5 not in must and (not mine) and idx >= used[d]:
                    r = RS(L.sdu if d else L.sdbr)      # would be created by this very frame
                if 5 not in must and r is not None and not r.done:
                    if name == "STREAM":
                        off, ln, fin = a[1], a[2], a[3]
                        end = off + ln
                        if end > r.window:
                            must.add(3)
                        if r.final is not None and (end > r.final or (fin and end != r.final)):
                            must.add(6)
                        if fin and end < r.high:
                            must.add(6)
                        fresh_spec = max(0, end - r.high) if ln > 0 else 0
                        if fin and ln == 0 and r.final is None:
                            fresh_spec = max(0, end - r.high)
                            fresh_spec = 0      # an empty FIN frame carries no new bytes; see empty_quirk
                    elif name == "RESET":
                        fs = a[2]
                        if fs > r.window:
                            must.add(3)
                        if r.final is not None and fs != r.final:
                            must.add(6)
                        if fs < r.high:
                            must.add(6)
                        elif fs < r.high0:
                            may.add(6)
                        fresh_spec = max(0, fs - r.high) if r.final is None else 0
                if rcvd_total + fresh_spec > adv_md and not (must - {4}):
                    must.add(3)
            # ---- compare
            if code in (0,) and must and not empty_quirk:
                clause = "recvdetect" if must == {3} else ("accept" if 4 in must else "direction" if 5 in must else "finalsize")
                bad.append((clause, "%s was accepted; the RFC demands %s (%s)" % (where, "/".join(ERR[e] for e in sorted(must)), explain(name, a, role, adv_high, r if name not in ('MAXSTREAMS', 'SBLOCKED') else None, rcvd_total, adv_md))))
            elif code in ERR and must and code not in must and code not in may:
                clause = "direction" if (5 in must or code == 5) else "finalsize" if (6 in must or code == 6) else "accept" if 4 in must else "recvdetect"
                bad.append((clause, "%s answered %s; the RFC demands %s (%s)" % (where, ERR[code], "/".join(ERR[e] for e in sorted(must)), explain(name, a, role, adv_high, r if name not in ('MAXSTREAMS', 'SBLOCKED') else None, rcvd_total, adv_md))))
            elif code in ERR and not must and code not in may and not empty_quirk:
                clause = {3: "recvaccept", 4: "limitfp", 5: "direction", 6: "finalsize"}[code]
                bad.append((clause, "%s answered %s although the frame is within every limit we advertised (%s)"
                            % (where, ERR[code], explain(name, a, role, adv_high, r if name not in ('MAXSTREAMS', 'SBLOCKED') else None, rcvd_total, adv_md))))
            elif code not in ERR and code != 0:
                bad.append(("abnormal", "%s -> unexpected result %d" % (where, code)))
            if code != 0:
                break
            # ---- accepted: update the spec state
            if name not in ("MAXSTREAMS", "SBLOCKED"):
                sid = a[0]
                d = (sid >> 1) & 1
                if (sid & 1) != role and (sid >> 2) >= used[d]:
                    touch_peer_stream(sid)
                r = rs.get(sid)
                if r is not None and not r.done:
                    if name == "STREAM":
                        off, ln, fin = a[1], a[2], a[3]
                        if ln == 0 and not fin and off > r.high:
                            empty_quirk = True
                        if ln > 0:
                            r.high = max(r.high, off + ln)
                            r.got.add(off, off + ln)
                        r.high0 = max(r.high0, off + ln)
                        if fin:
                            r.final = off + ln
                        if r.final is not None and r.got.covers_prefix(r.final):
                            r.done = True
                    elif name == "RESET":
                        r.final = a[2]
                        r.done = True
                rcvd_total += fresh_spec
                if name == "MAXSD" and sid in ss:
                    ss[sid].limit = max(ss[sid].limit, a[1])
                if name == "STOP" and sid in ss:
                    ss[sid].dead = True
        # ---------------------------------------------------------------- frames we emitted
        for f in frames:
            if f[0] == 5:
                d, val = f[1], f[2]
                if val < adv_high[d]:
                    bad.append(("limitfp", "%s: MAX_STREAMS(%s) went down from %d to %d" % (where, "uni" if d else "bidi", adv_high[d], val)))
                adv_cur[d] = val
                adv_high[d] = max(adv_high[d], val)
            elif f[0] == 7:
                if last_maxdata is not None and f[1] < last_maxdata or f[1] < L.md:
                    bad.append(("monotone", "%s: MAX_DATA went down to %d (before: %s, initial %d)" % (where, f[1], last_maxdata, L.md)))
                last_maxdata = f[1]
                adv_md = max(adv_md, f[1])
            elif f[0] == 4:
                sid, val = f[1], f[2]
                prev = last_maxsd.get(sid, rs[sid].window if sid in rs else 0)
                if val < prev:
                    bad.append(("monotone", "%s: MAX_STREAM_DATA(%d) went down from %d to %d" % (where, sid, prev, val)))
                last_maxsd[sid] = val
                if sid in rs:
                    rs[sid].window = max(rs[sid].window, val)
            elif f[0] == 2:
                if f[1] in ss:
                    ss[f[1]].dead = True
    return bad


def kind_name(sid, role):
    return "%s-initiated %s" % ("locally" if (sid & 1) == role else "peer", "uni" if sid & 2 else "bidi")


def explain(name, a, role, adv_high, r, rcvd_total, adv_md):
    if name in ("MAXSTREAMS", "SBLOCKED"):
        return ""
    sid = a[0]
    s = "stream %d is %s, index %d, limit for that kind %d" % (sid, kind_name(sid, role), sid >> 2, adv_high[(sid >> 1) & 1])
    if r is not None:
        s += "; stream window %d, received up to %d, final size %s" % (r.window, r.high, r.final)
    s += "; connection: %d of %d" % (rcvd_total, adv_md)
    return s


C12_CLAUSES = {"abnormal", "open", "accept", "direction", "finalsize", "implicit", "limitfp"}
C11_CLAUSES = {"abnormal", "window", "streamlimit", "connlimit", "progress", "recvdetect", "recvaccept", "monotone", "rejectsend"}


def oracle_for(clauses):
    def oracle(case, obs):
        for (c, m) in judge(case, obs):
            if c in clauses:
                return "%s: %s" % (c, m)
        return None
    return oracle


# ------------------------------------------------------------------------------------------------
# generators
# ------------------------------------------------------------------------------------------------
SMALL = [0, 1, 7, 100, 1000, 5000, 70000]


def rand_params(rng, style):
    """style: 'equal' (the handy default shape), 'mixed'"""
    if style == "equal":
        w = rng.choice([100, 1000, 65536])
        return [rng.choice([0, 1, 2, 3, 5, 8]), rng.choice([0, 1, 2, 3, 5]), rng.choice([w, 4 * w, 10 ** 6]), w, w, w]
    return [rng.choice([0, 0, 1, 2, 3, 4, 6, 10]), rng.choice([0, 0, 1, 2, 3, 5]),
            rng.choice([0, 1, 50, 300, 1000, 4000, 10 ** 5, 10 ** 6]),
            rng.choice(SMALL), rng.choice(SMALL), rng.choice(SMALL)]


def make_cfg(rng, role=None, mode=None):
    role = rng.randint(0, 1) if role is None else role
    if mode is None:
        mode = 1 if (role == 0 and rng.random() < 0.15) else 0
    ctrl = rng.randint(0, 1)
    style = "equal" if rng.random() < 0.15 else "mixed"
    Lp = rand_params(rng, style)
    Rp = rand_params(rng, style)
    if mode == 1:
        # an accepted 0-RTT handshake never shrinks a remembered value (ServerParameters::is_0rtt_accepted)
        Mp = [rng.choice([x, x // 2, 0, min(x, 3)]) for x in Rp]
    else:
        Mp = [0] * 6
    return [role, mode, ctrl] + Lp + Rp + Mp


class Sim:
    """light bookkeeping so that the generator can aim at boundaries; it never decides a verdict"""
    def __init__(self, cfg):
        self.role = cfg[0]
        self.mode = cfg[1]
        self.L, self.R, self.M = P(cfg[3:9]), P(cfg[9:15]), P(cfg[15:21])
        self.hs = False
        self.opened = [0, 0]
        self.used = [0, 0]
        self.high = {}
        self.loads = 0
        self.emitted_guess = 0
        self.stale = False          # a rejected handshake followed a LOAD: frames of rejected 0-RTT packets exist


def gen_case(rng, name, cfg=None, nops=None, hostile=0.25):
    cfg = cfg or make_cfg(rng)
    sim = Sim(cfg)
    role, peer = sim.role, 1 - sim.role
    ops = []
    n = nops or rng.randint(4, 28)
    if rng.random() < 0.8:
        pre = rng.randint(0, 2) if sim.mode == 1 else rng.randint(0, 1)
    else:
        pre = rng.randint(0, n)
    local_sids = []

    def some_local(d=None):
        c = [s for s in local_sids if d is None or ((s >> 1) & 1) == d]
        if c and rng.random() < 0.85:
            return rng.choice(c)
        dd = rng.randint(0, 1) if d is None else d
        return sid_of(role, dd, rng.choice([0, 1, 2, sim.opened[dd], sim.opened[dd] + 1, rng.randint(0, 12)]))

    def some_peer(d=None):
        dd = rng.randint(0, 1) if d is None else d
        lim = sim.L.ms(dd)
        r = rng.random()
        if r < 0.55:
            idx = rng.randint(0, max(0, min(lim, 12) - 1)) if lim > 0 else 0
        elif r < 0.75:
            idx = max(0, lim - 1)
        elif r < 0.88:
            idx = lim
        else:
            idx = lim + rng.choice([1, 2, 5])
        return sid_of(peer, dd, idx)

    def window_for(sid):
        d = (sid >> 1) & 1
        if (sid & 1) == role:
            return sim.L.sdbl
        return sim.L.sdu if d else sim.L.sdbr

    for i in range(n):
        if i == pre and not sim.hs:
            rej = 1 if (sim.mode == 1 and rng.random() < 0.3) else 0
            ops.append((0, [rej]))
            sim.hs = True
            # frames of a rejected 0-RTT packet ARE reported lost afterwards (the Data-space sent journal keeps their records and
            # loss detection declares the packets lost): after a rejection that follows a LOAD, LOSE is generated more often
            # (finding F70, repaired: SendBuf::may_loss_data ignores the part of the range that is pending again)
            sim.stale = bool(rej and sim.loads > 0)
            continue
        r = rng.random()
        if r < 0.12:
            d = rng.randint(0, 1)
            ops.append((1, [d]))
            # we do not know whether it succeeded; remember the id it would get
            local_sids.append(sid_of(role, d, sim.opened[d]))
            sim.opened[d] += 1 if rng.random() < 0.8 else 0
        elif r < 0.22:
            sid = some_local() if rng.random() < 0.7 else some_peer(0)
            ops.append((2, [sid, rng.choice([0, 1, 5, 50, 99, 100, 101, 700, 1000, 1001, 4096, 5000, rng.randint(0, 3000)])]))
        elif r < 0.26:
            sid = some_local() if rng.random() < 0.7 else some_peer(0)
            ops.append((3, [sid]))
        elif r < 0.32:
            sid = some_peer() if rng.random() < 0.7 else some_local(0)
            ops.append((4, [sid, rng.choice([0, 1, 10, 100, 5000])]))
        elif r < 0.42:
            ops.append((5, [rng.randint(0, 1)]))
        elif r < 0.54:
            ops.append((6, [rng.choice([24, 25, 26, 30, 64, 100, 200, 1200, 1200, 1200, 1500, 4000, 9000, 65535, rng.randint(20, 1400)])]))
            sim.loads += 1
            sim.emitted_guess += 2
        elif r < 0.74:
            # STREAM from the peer
            hostile_now = rng.random() < hostile
            if hostile_now and rng.random() < 0.35:
                sid = sid_of(role, 1, rng.randint(0, 3))        # our own uni stream
            elif rng.random() < 0.3:
                sid = some_local(0)
            else:
                sid = some_peer()
            w = window_for(sid)
            hi = sim.high.get(sid, 0)
            rr = rng.random()
            if rr < 0.5:
                off = hi if rng.random() < 0.7 else rng.randint(0, hi)
                room = max(0, w - off)
                ln = rng.choice([0, 1, min(room, 10), min(room, 100), room, max(0, room - 1)])
            elif rr < 0.7:
                off = rng.randint(0, max(0, w))
                ln = rng.randint(0, max(0, w - off))
            elif rr < 0.85:
                off = rng.choice([0, hi, max(0, w - 1), w])
                ln = rng.choice([w - off + 1 if w >= off else 1, 1, 2, 10, 200])
            else:
                off = rng.choice([5000, 2 ** 20, 2 ** 32, 2 ** 61, VARINT_MAX - 10])
                ln = rng.choice([0, 1, 10])
            ln = max(0, min(ln, 6000))
            if off + ln > VARINT_MAX:
                ln = 0
            fin = 1 if rng.random() < 0.3 else 0
            ops.append((7, [sid, off, ln, fin]))
            sim.high[sid] = max(hi, off + ln)
        elif r < 0.80:
            sid = some_peer() if rng.random() < 0.75 else some_local()
            hi = sim.high.get(sid, 0)
            fs = rng.choice([hi, hi, hi + 1, max(0, hi - 1), 0, window_for(sid), window_for(sid) + 1, 10 ** 6])
            ops.append((8, [sid, rng.randint(0, 9), min(fs, VARINT_MAX)]))      # a final size is a varint on the wire
        elif r < 0.84:
            sid = some_local() if rng.random() < 0.6 else some_peer()
            ops.append((9, [sid, rng.randint(0, 9)]))
        elif r < 0.90:
            sid = some_local() if rng.random() < 0.6 else some_peer()
            ops.append((10, [sid, rng.choice([0, 1, 100, 1000, 1001, 5000, 20000, 10 ** 6])]))
        elif r < 0.94:
            d = rng.randint(0, 1)
            ops.append((11, [d, rng.choice([0, 1, 2, 3, sim.opened[d], sim.opened[d] + 1, 10, 40])]))
        elif r < 0.96:
            d = rng.randint(0, 1)
            ops.append((12, [d, rng.choice([0, 1, 2, sim.L.ms(d), sim.L.ms(d) + 1, 7])]))
        elif r < 0.98:
            ops.append((13, [rng.choice([0, 1, 100, 1000, 5000, 10 ** 5, 10 ** 7])]))
        elif r < 0.99:
            ops.append((14, [some_peer() if rng.random() < 0.5 else some_local(), rng.randint(0, 5000)]))
        else:
            if sim.emitted_guess:
                ops.append((15, [rng.randint(0, sim.emitted_guess)]))
        if sim.stale and rng.random() < 0.25:
            ops.append((15, [rng.randint(0, 3)]))       # one of the first frames = a frame of a rejected 0-RTT packet
    return Case(name, ops, cfg)


def scenario_cases():
    """hand-written shapes that every run must contain (each aims at one clause)"""
    out = []
    z6 = [0] * 6
    # send path with small, unequal windows (client and server)
    for role in (0, 1):
        for (sdbl, sdbr, sdu) in ((700, 1000, 0), (0, 50, 300), (300, 0, 50), (1, 0, 0), (64, 64, 64)):
            cfg = [role, 0, 0, 4, 4, 100000, 500, 600, 700, 5, 5, 2500, sdbl, sdbr, sdu] + z6
            ops = [(0, [0]), (1, [0]), (1, [1]), (2, [sid_of(role, 0, 0), 1500]), (2, [sid_of(role, 1, 0), 1500]),
                   (6, [1200]), (6, [1200]), (10, [sid_of(role, 0, 0), 1200]), (10, [sid_of(role, 1, 0), 1300]),
                   (6, [1200]), (6, [1200]), (13, [3000]), (6, [1200]), (6, [200]),
                   (7, [sid_of(1 - role, 0, 0), 0, 10, 0]), (5, [0]), (2, [sid_of(1 - role, 0, 0), 900]), (6, [1200]), (6, [1200]),
                   (3, [sid_of(role, 0, 0)]), (6, [1200])]
            out.append(Case("sc-send-%d-%d-%d-%d" % (role, sdbl, sdbr, sdu), ops, cfg))
    # receive windows by stream kind, one frame just inside and one just outside
    for role in (0, 1):
        peer = 1 - role
        for kind, sid, wname in (("peer-bidi", sid_of(peer, 0, 0), 4), ("peer-uni", sid_of(peer, 1, 0), 5), ("own-bidi", sid_of(role, 0, 0), 3)):
            for fin in (0, 1):
                for delta in (0, 1):
                    Lp = [3, 3, 100000, 111, 222, 333]
                    w = Lp[wname]
                    cfg = [role, 0, 0] + Lp + [3, 3, 100000, 1000, 1000, 1000] + z6
                    ops = [(0, [0]), (1, [0]), (7, [sid, 0, 10, 0]), (7, [sid, w - 5 + delta, 5, fin])]
                    out.append(Case("sc-rwin-%d-%s-%d-%d" % (role, kind, fin, delta), ops, cfg))
                    ops = [(0, [0]), (1, [0]), (7, [sid, 0, 10, 0]), (8, [sid, 0, w + delta])]
                    out.append(Case("sc-rwinreset-%d-%s-%d" % (role, kind, delta), ops, cfg))
    # stream-count limits incl. 0, both controllers
    for role in (0, 1):
        peer = 1 - role
        for ctrl in (0, 1):
            for lim in (0, 1, 3):
                for d in (0, 1):
                    cfg = [role, 0, ctrl, lim if d == 0 else 2, lim if d == 1 else 2, 100000, 100, 100, 100, 2, 2, 100000, 100, 100, 100] + z6
                    for idx in (max(0, lim - 1), lim, lim + 1):
                        ops = [(0, [0]), (7, [sid_of(peer, d, idx), 0, 1, 0]), (5, [d]), (5, [d]), (5, [d]), (5, [d]), (5, [d])]
                        out.append(Case("sc-lim-%d-%d-%d-%d-%d" % (role, ctrl, lim, d, idx), ops, cfg))
    # connection-level receive limit
    for md in (0, 1, 50):
        cfg = [1, 0, 0, 3, 3, md, 1000, 1000, 1000, 3, 3, 1000, 100, 100, 100] + z6
        out.append(Case("sc-conn-%d" % md, [(0, [0]), (7, [0, 0, md, 0]), (7, [4, 0, 1, 0]), (7, [4, 1, 60, 0])], cfg))
    # 0-RTT: remembered parameters, accepted and rejected
    cfgm = [0, 1, 0, 3, 3, 100000, 100, 100, 100, 4, 4, 5000, 900, 800, 700, 2, 2, 1000, 300, 400, 500]
    out.append(Case("sc-0rtt-accept", [(1, [0]), (1, [1]), (2, [0, 900]), (2, [2, 900]), (6, [1200]), (6, [1200]), (0, [0]), (6, [1200]), (6, [1200]), (1, [1]), (2, [6, 900]), (6, [1200])], cfgm))
    out.append(Case("sc-0rtt-reject", [(1, [0]), (1, [1]), (2, [0, 900]), (2, [2, 900]), (0, [1]), (6, [1200]), (6, [1200]), (6, [1200])], cfgm))
    # loss and retransmission under a tight connection limit
    cfg = [0, 0, 0, 3, 3, 100000, 100, 100, 100, 4, 4, 1000, 5000, 5000, 5000] + z6
    out.append(Case("sc-retx", [(0, [0]), (1, [0]), (2, [0, 3000]), (6, [600]), (6, [600]), (15, [0]), (6, [600]), (15, [1]), (6, [1200]), (13, [2000]), (6, [1200]), (15, [0]), (6, [1200]), (6, [1200])], cfg))
    return out


def directed_cases(rng, n):
    """randomised families aimed at interleavings the uniform generator reaches too rarely:
    (a) reordered arrival - the FIN-only frame (or the last fragment) of a peer stream first, the data afterwards,
        with our connection window (MAX_DATA) the binding limit, just below / at / above the final size;
    (b) write / small packet / loss / full packet rounds on locally opened streams with the peer's MAX_DATA the
        binding limit (retransmissions next to never-sent data, loss of a frame that ends where fresh data begins)"""
    out = []
    z6 = [0] * 6
    for i in range(n):
        role = rng.randint(0, 1)
        peer = 1 - role
        if i % 2 == 0:
            d = rng.randint(0, 1)
            F = rng.choice([1, 2, 10, 60, 150, 400, 1500])
            md = max(0, F + rng.choice([-1, -1, 0, 1, -F // 2, 40]))
            win = F + rng.choice([0, 1, 100, 5000])
            Lp = [3, 3, md, win, win, win]
            cfg = [role, 0, rng.randint(0, 1)] + Lp + [3, 3, 100000, 1000, 1000, 1000] + z6
            sid = sid_of(peer, d, rng.randint(0, 1))
            ops = [(0, [0])]
            if rng.random() < 0.3:
                other = sid_of(peer, 1 - d, 0)
                k = rng.choice([0, 1, min(md, 5)])
                ops.append((7, [other, 0, k, 0]))
            style = rng.random()
            if style < 0.5:
                ops.append((7, [sid, F, 0, 1]))                  # FIN-only frame overtakes the data
            elif style < 0.8:
                t = rng.randint(1, F)
                ops.append((7, [sid, F - t, t, 1]))              # last fragment first
            else:
                ops.append((8, [sid, 0, F]))                     # RESET_STREAM announces the final size
            # the data, in a few fragments, shuffled
            cuts = sorted(set([0, F] + [rng.randint(0, F) for _ in range(rng.randint(0, 3))]))
            frs = [(cuts[j], cuts[j + 1] - cuts[j]) for j in range(len(cuts) - 1)]
            rng.shuffle(frs)
            for (off, ln) in frs:
                ops.append((7, [sid, off, ln, 0]))
                if rng.random() < 0.2:
                    ops.append((4, [sid, rng.choice([1, 10, 1000])]))
            out.append(Case("dir-finfirst-%d" % i, ops, cfg))
        else:
            md = rng.choice([300, 1000, 1000, 2500])
            big = 100000
            cfg = [role, 0, 0, 3, 3, 100000, 100, 100, 100, 4, 4, md, big, big, big] + z6
            ops = [(0, [0]), (1, [0])]
            sids = [sid_of(role, 0, 0)]
            if rng.random() < 0.4:
                ops.append((1, [1]))
                sids.append(sid_of(role, 1, 0))
            emitted = 0
            w = rng.choice([100, 300, 300, 700])
            for r in range(rng.randint(3, 9)):
                sid = rng.choice(sids)
                ops.append((2, [sid, rng.choice([w, w, w // 2, 2 * w])]))
                small = rng.choice([40, 60, 100, 150, w // 2 + 30])
                ops.append((6, [small]))
                emitted += 1
                if rng.random() < 0.8:
                    ops.append((15, [rng.choice([emitted - 1, emitted - 1, rng.randint(0, emitted)])]))
                ops.append((6, [rng.choice([1200, 1200, 600, 2 * w + 60])]))
                emitted += 1
                if rng.random() < 0.15:
                    ops.append((13, [md + rng.choice([100, 500])]))
                    md += 500
            ops += [(6, [1200]), (6, [1200])]
            out.append(Case("dir-retx-%d" % i, ops, cfg))
    return out
