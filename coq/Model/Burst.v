(* Model of the send-side use of the anti-amplification credit.  Definitions only.

   qconnection/src/path/util.rs   Constraints::{new, constrain, commit, is_available}
   qconnection/src/path/burst.rs  PacketsAssembler::new (one `balance()` per assembler),
                                  PacketsAssembler::assemble (constrain, new_packet, commit),
                                  Burst::load_spaces (`if loaded_initial { pad to the whole buffer; return origin }`),
                                  Burst::burst (per-segment map + try_fold, reserved forward header)
   qconnection/src/path.rs        Path::send_packets (ONE `on_sent(sum of the segment lengths)` per burst)

   What the packet sources would write is an input: per segment the Initial space wants `wi` bytes and
   the other spaces together want `wo` bytes; a packet is `min want room` bytes when the constrained
   room reaches `minpkt` (header + 20, the smallest buffer `new_packet` accepts), else it is skipped. *)
From Coq Require Import List NArith ZArith Bool.
From GQ Require Export Lib.Base Model.AntiAmp.
Import ListNotations.
Local Open Scope N_scope.

(* ---- Constraints ---- *)
Record cons := mkcons { cl : N; sq : N }.            (* credit_limit, send_quota *)
Definition constrain (c : cons) (len : N) : N := N.min (N.min len (cl c)) (sq c).
Definition commit (c : cons) (len : N) (in_flight : bool) : cons :=
  mkcons (cl c - len) (if in_flight then sq c - len else sq c).       (* saturating_sub *)
Definition is_available (c : cons) : bool := 0 <? cl c.

(* ---- one packet = PacketsAssembler::assemble: constrain, new_packet, commit(sent, in_flight) ----
   `fl` = the packet is in flight (false: only Padding / Ack / ConnectionClose frames, Constraints::commit then
   leaves the send quota alone - but always charges the credit) *)
Definition assemble (minpkt : N) (c : cons) (buf want : N) (fl : bool) : cons * N :=
  let room := constrain c buf in
  let sent := if (0 <? want) && (minpkt <=? room) then N.min want room else 0 in
  (if 0 <? sent then commit c sent fl else c, sent).

(* ---- one segment = Burst::load_spaces ----
   a packet request = (bytes the space wants to write, in-flight flag); the Initial space first, then the other
   spaces in order (0-RTT, Handshake, 1-RTT), all through ONE Constraints value *)
Record pktreq := mkpk { pk_want : N; pk_fl : bool }.
Record segreq := mksegp { sg_quota : N; sg_ini : pktreq; sg_rest : list pktreq }.
Definition sg_wi (r : segreq) : N := pk_want (sg_ini r).
(* the two-request form of stream op BURST: Initial wants wi, the other spaces together want wo, all in flight *)
Definition mkseg (q wi wo : N) : segreq := mksegp q (mkpk wi true) [mkpk wo true].

(* the packets after the Initial one: each constrained by what the previous ones left; returns the bytes written *)
Fixpoint assemble_all (minpkt : N) (c : cons) (buf : N) (ps : list pktreq) : cons * N :=
  match ps with
  | [] => (c, 0)
  | p :: t =>
      let '(c1, s1) := assemble minpkt c buf (pk_want p) (pk_fl p) in
      let '(c2, s2) := assemble_all minpkt c1 (buf - s1) t in
      (c2, s1 + s2)
  end.

Inductive seg_res := SegSignals | SegDeact | SegOk (n : N) | SegPanic.

Definition load_segment (minpkt : N) (b : bres) (buf : N) (r : segreq) : seg_res :=
  match b with
  | BErr => SegSignals
  | BNone => SegDeact
  | BPanic => SegPanic
  | BSome credit =>
      let c0 := mkcons credit (sg_quota r) in
      let '(c1, s1) := assemble minpkt c0 buf (sg_wi r) (pk_fl (sg_ini r)) in
      let loaded_initial := 0 <? s1 in
      let '(_, s2) := assemble_all minpkt c1 (buf - s1) (sg_rest r) in
      if loaded_initial then SegOk buf                   (* padded to the whole buffer, credit not consulted *)
      else if 0 <? s1 + s2 then SegOk (s1 + s2) else SegSignals
  end.

(* ---- Burst::burst: every segment gets a fresh assembler, i.e. a fresh balance() ---- *)
Fixpoint burst_loop (minpkt : N) (a : aa) (buf rsv : N) (segs : list segreq) (lens : list N)
  : aa * list N * N :=
  match segs with
  | [] => (a, lens, 0)
  | r :: rest =>
      let '(a1, b) := balance a in
      match load_segment minpkt b buf r with
      | SegSignals => (a1, lens, match lens with [] => 1 | _ => 0 end)
      | SegDeact => (a1, lens, match lens with [] => 2 | _ => 0 end)
      | SegPanic => (a1, lens, 9)
      | SegOk n =>
          let len := rsv + n in
          if len <? last lens 0 then (a1, lens ++ [len], 0)      (* shorter than the previous one: last segment *)
          else burst_loop minpkt a1 buf rsv rest (lens ++ [len])
      end
  end.

Definition sumN (l : list N) : N := fold_right N.add 0 l.

Record burst_out := mkbo { bo_status : N; bo_lens : list N; bo_sum : N; bo_over : bool }.

(* burst + Path::send_packets (on_sent(sum); balance() for the status flag; sendmmsg) *)
Definition burst (minpkt : N) (a : aa) (mtu rsv : N) (segs : list segreq) : aa * burst_out :=
  let '(a1, lens, status) := burst_loop minpkt a (mtu - rsv) rsv segs [] in
  let sum := sumN lens in
  if status =? 0 then
    let wrap := (st a1 =? 0) && over_debit a1 sum in     (* the debit saturated: more was handed to IO than the credit *)
    let a2 := on_sent a1 sum in
    let '(a3, _) := balance a2 in
    (a3, mkbo (match lens with [] => 1 | _ => 0 end) lens sum wrap)
  else (a1, mkbo status lens sum false).

(* ---- operations of the `aa` stream ---- *)
Inductive aa_op :=
| ARcvd (n : N) | ABalance | AOnSent (n : N) | AGrant | AAbort
| ABurst (mtu rsv : N) (segs : list segreq)
| APollWait.

Inductive aa_out :=
| XPlain
| XBurst (o : burst_out)
| XPoll (ready : bool) (wk : N)
| XRace (na nb : N) (ra rb : mpc)
| XStress (sent : N).

Definition aa_exec (minpkt : N) (a : aa) (o : aa_op) : aa * aa_out :=
  match o with
  | ARcvd n => (on_rcvd a n, XPlain)
  | ABalance => (a, XPlain)
  | AOnSent n => (on_sent a n, XPlain)
  | AGrant => (grant a, XPlain)
  | AAbort => (abort a, XPlain)
  | ABurst mtu rsv segs => let '(a', bo) := burst minpkt a mtu rsv segs in (a', XBurst bo)
  | APollWait => let '(a', r) := poll_wait a in (a', XPoll r (wakes a'))
  end.

Definition print_bres (b : bres) : list Z :=
  match b with
  | BErr => [0; 0]
  | BSome v => [1; Z.of_N v]
  | BNone => [2; 0]
  | BPanic => [-7; 0]
  end%Z.

Definition print_mpc (p : mpc) : list Z :=
  match p with
  | PDone RUnit => [3; 0]
  | PDone (RBal b) => print_bres b
  | _ => [-8; 0]                       (* not finished: excluded by race_finishes *)
  end%Z.

Definition print_aa_out (o : aa_out) : list Z :=
  match o with
  | XPlain => []
  | XBurst bo => [Z.of_N (bo_status bo); Z.of_N (lenN (bo_lens bo))] ++ map Z.of_N (bo_lens bo) ++ [Z.of_N (bo_sum bo)]
  | XPoll r w => [if r then 1%Z else 0%Z; Z.of_N w]
  | XRace na nb ra rb => [Z.of_N na; Z.of_N nb] ++ print_mpc ra ++ print_mpc rb
  | XStress sent => [Z.of_N sent]
  end.

(* ---- the operations of the stream: the sequential ones above, and two that involve a second thread ---- *)
Definition STRESS_MAX_ARRIVALS : N := 200000.
Definition STRESS_MAX_AMOUNT : N := 65535.

Inductive aa_xop :=
| XSeq (o : aa_op)
| XRaceOp (ca cb : mcall) (sched : list bool)     (* two calls on two threads, one atomic operation at a time *)
| XStressOp (narr amt : N).                       (* narr arrivals of amt bytes on one thread while a disciplined sender
                                                     (sends exactly what balance() grants, reports it at once) runs on
                                                     another; afterwards the sender drains what is left *)

(* whatever the interleaving, a disciplined sender ends up having sent the credit there was plus 3 x the arrivals,
   and nothing is left (unvalidated path; the counter is assumed not to overflow); a granted / aborted path: nothing
   is counted *)
Definition stress (a : aa) (narr amt : N) : aa * N :=
  let narr := N.min narr STRESS_MAX_ARRIVALS in
  let amt := N.min amt STRESS_MAX_AMOUNT in
  if st a =? 0 then
    let a1 := if 0 <? narr then wake_credit a else a in
    (set_credit a1 0, credit a + FACTOR * (narr * amt))
  else (a, 0).

Definition aa_xexec (minpkt : N) (a : aa) (o : aa_xop) : aa * aa_out :=
  match o with
  | XSeq o => aa_exec minpkt a o
  | XRaceOp ca cb sched =>
      let '(a', pa, pb, na, nb) := race_calls a ca cb sched in (a', XRace na nb pa pb)
  | XStressOp narr amt => let '(a', sent) := stress a narr amt in (a', XStress sent)
  end.

(* every observation ends with the result of a balance() call (which is part of the history) *)
Definition aa_step (minpkt : N) (a : aa) (o : aa_xop) : aa * list Z :=
  let '(a1, out) := aa_xexec minpkt a o in
  let '(a2, b) := balance a1 in
  (a2, print_aa_out out ++ print_bres b).

Fixpoint aa_run (minpkt : N) (a : aa) (ops : list aa_xop) : list (list Z) :=
  match ops with
  | [] => []
  | o :: rest => let '(a', obs) := aa_step minpkt a o in obs :: aa_run minpkt a' rest
  end.

Fixpoint decode_segs (args : list Z) : list segreq :=
  match args with
  | q :: wi :: wo :: rest => mkseg (Z.to_N q) (Z.to_N wi) (Z.to_N wo) :: decode_segs rest
  | _ => []
  end.

(* BURSTP: per segment `quota w0 f0 w1 f1 w2 f2 w3 f3` - four packet requests (Initial, 0-RTT, Handshake, 1-RTT)
   with their in-flight flags *)
Definition zflag (z : Z) : bool := negb (z =? 0)%Z.
Fixpoint decode_psegs (args : list Z) : list segreq :=
  match args with
  | q :: w0 :: f0 :: w1 :: f1 :: w2 :: f2 :: w3 :: f3 :: rest =>
      mksegp (Z.to_N q) (mkpk (Z.to_N w0) (zflag f0))
             [mkpk (Z.to_N w1) (zflag f1); mkpk (Z.to_N w2) (zflag f2); mkpk (Z.to_N w3) (zflag f3)]
        :: decode_psegs rest
  | _ => []
  end.

Definition decode_call (k n : Z) : mcall :=
  (if k =? 0 then CRcvd (Z.to_N n) else if k =? 1 then CBalance else if k =? 2 then CSent (Z.to_N n)
   else if k =? 3 then CGrant else if k =? 4 then CAbort else CNop)%Z.

Definition aa_decode (t : N) (args : list Z) : option aa_xop :=
  match t, args with
  | 0, [n] => Some (XSeq (ARcvd (Z.to_N n)))
  | 1, [] => Some (XSeq ABalance)
  | 2, [n] => Some (XSeq (AOnSent (Z.to_N n)))
  | 3, [] => Some (XSeq AGrant)
  | 4, [] => Some (XSeq AAbort)
  | 5, mtu :: rsv :: segs => Some (XSeq (ABurst (Z.to_N mtu) (Z.to_N rsv) (decode_segs segs)))
  | 6, [] => Some (XSeq APollWait)
  | 7, mtu :: rsv :: segs => Some (XSeq (ABurst (Z.to_N mtu) (Z.to_N rsv) (decode_psegs segs)))
  | 8, ka :: na :: kb :: nb :: sched => Some (XRaceOp (decode_call ka na) (decode_call kb nb) (map zflag sched))
  | 9, [narr; amt] => Some (XStressOp (Z.to_N narr) (Z.to_N amt))
  | _, _ => None
  end.

Fixpoint aa_decode_all (l : list (N * list Z)) : list aa_xop :=
  match l with
  | [] => []
  | (t, a) :: rest =>
      match aa_decode t a with
      | Some o => o :: aa_decode_all rest
      | None => aa_decode_all rest
      end
  end.

(* CASE cfg: minpkt *)
Definition run_aa (cfg : list Z) (l : list (N * list Z)) : list (list Z) :=
  let minpkt := match cfg with v :: _ => Z.to_N v | [] => 40 end in
  aa_run minpkt aa0 (aa_decode_all l).
