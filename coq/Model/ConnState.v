(* Model of qconnection/src/state.rs `ArcConnState` at ATOMIC granularity.  Definitions only.

   Shared memory: the AtomicU8 state word and the two tokio SetOnce cells (`handshaked`,
   `terminated`).  Every task executes one call; one [tstep] is exactly one access to shared
   memory (the `load`, one `compare_exchange`, one `SetOnce::set`) together with the local
   computation that follows it.  A global step picks any task; a schedule is a list of task
   indices, so "for every interleaving" is "for every schedule".

   `expect` / `unreachable!` sites are the explicit outcome [PPanic].
   The numeric codes, which state every enter_* method targets and the comparison of the update
   loop come from Generated/StateTable.v (regenerated from state.rs on every run). *)
From Coq Require Import List NArith ZArith Bool.
From GQ Require Export Lib.Base Generated.StateTable.
Import ListNotations.
Local Open Scope N_scope.

Scheme Equality for cstate.

Definition err := N.

Record shared := mksh { word : N; hs : bool; term : option err }.
Definition sh_init : shared := mksh initial_word false None.

Inductive call :=
| CTryAttempted                 (* try_entry_attempted: one compare_exchange(0, attempted) *)
| CUpdate (s : cstate)          (* update(s) *)
| CTerminated                   (* Event::Terminated -> update(Closed); emitted only by the timer that
                                   Components::enter_closing / enter_draining spawn, i.e. after the word
                                   reached the closing code *)
| CHandshaked                   (* enter_handshaked *)
| CClosing (e : err)            (* enter_closing(e): local close or protocol error *)
| CDraining (e : err).          (* enter_draining(ccf): the peer's CONNECTION_CLOSE *)

Inductive pc :=
| PStart
| PLoop (new old : N)           (* in update's loop, old_state_code = old *)
| PSet (old : N)                (* update returned Some(old); the SetOnce::set is next *)
| PDone (r : option N)          (* returned None / Some(old code) *)
| PPanic.

Definition target (c : call) : option cstate :=
  match c with
  | CTryAttempted => None
  | CUpdate s => Some s
  | CTerminated => Some terminated_event_state
  | CHandshaked => Some enter_handshaked_target
  | CClosing _ => Some enter_closing_target
  | CDraining _ => Some enter_draining_target
  end.

Definition code_or0 (s : cstate) : N := match encode s with Some c => c | None => 0 end.
Definition closing_code : N := code_or0 enter_closing_target.
Definition draining_code : N := code_or0 enter_draining_target.
Definition confirmed_code : N := code_or0 enter_handshaked_target.
Definition closed_code : N := code_or0 terminated_event_state.
Definition attempted_code : N := code_or0 attempted_state.

(* decode(old).unwrap_or(Attempted) *)
Definition old_state (old : N) : cstate :=
  match decode old with Some s => s | None => unwrap_default_state end.

(* a task may take its next step?  (only CTerminated has a guard, see above) *)
Definition enabled (c : call) (p : pc) (sh : shared) : bool :=
  match c, p with
  | CTerminated, PStart => closing_code <=? word sh
  | _, PDone _ | _, PPanic => false
  | _, _ => true
  end.

Definition after_cas (c : call) (old : N) : pc :=
  match c with
  | CHandshaked | CClosing _ | CDraining _ => PSet old
  | _ => PDone (Some old)
  end.

Definition tstep (c : call) (p : pc) (sh : shared) : pc * shared :=
  match p with
  | PStart =>
    match c with
    | CTryAttempted =>
      match encode attempted_state with
      | None => (PPanic, sh)
      | Some a =>
        if word sh =? attempted_from
        then (PDone (Some attempted_from), mksh a (hs sh) (term sh))
        else (PDone None, sh)
      end
    | _ =>
      match target c with
      | None => (PPanic, sh)
      | Some s =>
        match encode s with
        | None => (PPanic, sh)                       (* unreachable!() in encode *)
        | Some new => (PLoop new (word sh), sh)      (* the load *)
        end
      end
    end
  | PLoop new old =>
    if update_rejects new old then (PDone None, sh)
    else if word sh =? old
         then (after_cas c old, mksh new (hs sh) (term sh))     (* compare_exchange succeeded *)
         else (PLoop new (word sh), sh)                         (* failed: retry with the current value *)
  | PSet old =>
    match c with
    | CHandshaked =>
      if hs sh then (PPanic, sh)                                (* expect("Handshaked already set") *)
      else (PDone (Some old), mksh (word sh) true (term sh))
    | CClosing e =>
      match term sh with
      | Some _ => (PPanic, sh)                                  (* expect("Terminated error already set") *)
      | None => (PDone (Some old), mksh (word sh) (hs sh) (Some e))
      end
    | CDraining e =>
      if cstate_beq (old_state old) draining_skip_state then (PDone (Some old), sh)
      else
        match term sh with
        | Some _ => (PPanic, sh)
        | None => (PDone (Some old), mksh (word sh) (hs sh) (Some e))
        end
    | _ => (PDone (Some old), sh)
    end
  | PDone _ | PPanic => (p, sh)
  end.

(* ---------------------------------------------------------------- the concurrent system *)
Definition task := (call * pc)%type.
Record gstate := mkg { g_sh : shared; g_tasks : list task }.

Definition g_init (calls : list call) : gstate := mkg sh_init (map (fun c => (c, PStart)) calls).

Fixpoint set_nth {A} (l : list A) (i : nat) (x : A) : list A :=
  match l, i with
  | [], _ => []
  | _ :: t, O => x :: t
  | h :: t, S k => h :: set_nth t k x
  end.

(* task i takes one step (a disabled / finished / missing task leaves the state unchanged) *)
Definition gstep (g : gstate) (i : nat) : gstate :=
  match nth_error (g_tasks g) i with
  | None => g
  | Some (c, p) =>
    if enabled c p (g_sh g) then
      let '(p', sh') := tstep c p (g_sh g) in
      mkg sh' (set_nth (g_tasks g) i (c, p'))
    else g
  end.

Definition grun (g : gstate) (sched : list nat) : gstate := fold_left gstep sched g.

Definition finished (t : task) : bool :=
  match snd t with PDone _ | PPanic => true | _ => false end.
Definition quiescent (g : gstate) : bool :=
  forallb (fun t => finished t || negb (enabled (fst t) (snd t) (g_sh g))) (g_tasks g).
Definition panicked (t : task) : bool := match snd t with PPanic => true | _ => false end.

(* the calls of the real connection: everything except a bare update() to a closing-or-later code
   (the code base calls update() directly only for Event::Terminated, modelled as CTerminated) and
   except update() of a state that has no row in the mapping! table (encode() is unreachable!()) *)
Definition wf_call (c : call) : bool :=
  match c with
  | CUpdate s => match encode s with Some k => k <? closing_code | None => false end
  | _ => true
  end.

(* ---------------------------------------------------------------- method granularity (the stream) *)
Fixpoint run_to_end (fuel : nat) (c : call) (p : pc) (sh : shared) : pc * shared :=
  match fuel with
  | O => (p, sh)
  | S k =>
    match p with
    | PDone _ | PPanic => (p, sh)
    | _ => let '(p', sh') := tstep c p sh in run_to_end k c p' sh'
    end
  end.

Definition ret_words (p : pc) : list Z :=
  match p with
  | PDone None => [(-1)%Z]
  | PDone (Some old) => [Z.of_N (code_or0 (old_state old))]
  | PPanic => [(-9)%Z]
  | _ => [(-8)%Z]
  end.

Definition do_call (c : call) (sh : shared) : shared * list Z :=
  let '(p, sh') := run_to_end 8 c PStart sh in (sh', ret_words p).

Definition cs_step (sh : shared) (tag : N) (a : list Z) : shared * list Z :=
  match tag, a with
  | 1, [s] =>
    match nth_error all_states (Z.to_nat s) with
    | Some st => do_call (CUpdate st) sh
    | None => match closed_const with
              | Some st => do_call (CUpdate st) sh
              | None => (sh, [(-99)%Z])
              end
    end
  | 2, [] => do_call CHandshaked sh
  | 3, [e] => do_call (CClosing (Z.to_N e)) sh
  | 4, [e] => do_call (CDraining (Z.to_N e)) sh
  | 5, [] => (sh, [match decode (word sh) with Some s => Z.of_N (code_or0 s) | None => 0%Z end])
  | 6, [] => (sh, match term sh with Some e => [1%Z; Z.of_N e] | None => [0%Z] end)
  | 7, [] =>
    (sh, match hs sh, term sh with
         | true, Some e => [3%Z; Z.of_N e]     (* tokio::select! without `biased`: either branch *)
         | true, None => [1%Z]
         | false, Some e => [2%Z; Z.of_N e]
         | false, None => [0%Z]
         end)
  | _, _ => (sh, [(-99)%Z])
  end.

Fixpoint cs_run (sh : shared) (ops : list (N * list Z)) : list (list Z) :=
  match ops with
  | [] => []
  | (t, a) :: rest => let '(sh', o) := cs_step sh t a in o :: cs_run sh' rest
  end.

Definition run_connstate (cfg : list Z) (ops : list (N * list Z)) : list (list Z) :=
  cs_run sh_init ops.
