"""C07 — packet numbers are never reused and always decode to the number sent."""
from vlib import Case
from props import _journal as J

PROP_FILE = "Properties/C07.v"
RULE = ("stream pn: cases = one ENCDEC pn largest_acked expected (or DEC width payload expected) each; non-trivial = pn - largest_acked "
        "within 3 of a width boundary (2^15, 2^23, 2^31) or expected within 3 of an edge of the decode window; "
        "stream journal: as C10 (non-trivial = >= 1 multi-frame packet, >= 1 trivial packet, >= 1 abandoned guard, acks out of order, "
        "or the received-side rule); stream txpn: cases = histories of tx::PacketWriter / tx::TrivialPacketWriter lives, SentRotateGuard lives, "
        "clock ticks and dumps over the three spaces (non-trivial = within one space a packet of one writer follows a packet of the other "
        "writer or an abandoned assembly); distinct by hash of the op list")
TRUSTED_BASE = ["models coq/Model/Pn.v (u64 arithmetic with explicit overflow/panic outcomes, `&`/`|` as Z.ldiff/Z.lor) and "
                "coq/Model/SentJournal.v transcribe number.rs / sent.rs, coq/Model/TxPn.v transcribes the two writers of qconnection/src/tx.rs with the "
                "Package / RecordFrame path of qbase/src/packet/io.rs for a seven-frame vocabulary; equality with the Rust is checked by "
                "streams `pn`, `journal` and `txpn`, not proved",
                "stream txpn uses transparent packet protection (the AEAD records its nonce, header protection is the identity) so that the "
                "packet-number field can be read back from the wire bytes"]
MODELLED = ("qbase/src/packet/number.rs: PacketNumber::{encode, decode, size}, put_packet_number/take_pn_len as the [wire] map; "
            "qrecovery/src/journal/sent.rs: NewPacketGuard::{pn, record_frame, record_trivial, build_with_time, build_trivial, drop}, "
            "SentRotateGuard calls; qrecovery/src/journal/rcvd.rs: decode_pn (in C10's model); qconnection/src/tx.rs: PacketWriter and "
            "TrivialPacketWriter {new_long, new_short, RecordFrame::record_frame, encrypt_and_protect_packet, drop} with the fit test and "
            "debug assertions of the frame Package impls (release-profile wrapping arithmetic is not modelled: debug profile only)")
ASSUMPTIONS = ["c07_unique: guard discipline of the journal's users: a packet that reaches encrypt_and_protect_packet recorded a frame or "
               "record_trivial; c07_tx_unique derives it for the two writers of qconnection/src/tx.rs as modelled (callers finish the packet "
               "iff assemble_packet returned Ok, as every call site does)",
               "guards are serialised by the journal's mutex (each guard life is one atomic step of the history)",
               "the receiver's expected number lies between the sender's largest_acked and the packet itself (property premise)"]

MANIFEST = {
    "text": "Machine-checked Coq theorems (Properties/C07.v): over every history of started / completed / abandoned NewPacketGuard lives "
            "interleaved with acknowledgement processing, the packet numbers of built packets are strictly increasing (under the tx.rs "
            "guard discipline; without it a counterexample is proved); for all pn, largest_acked < 2^62 with pn - largest_acked < 2^31 and "
            "every expected in [largest_acked, pn], PacketNumber::encode does not panic and decoding what is written on the wire gives pn "
            "(also for delayed packets within 2^15), and so does decoding the in-memory value returned by encode (full strength since the "
            "fix of F31, U24 payload reduced to 24 bits); the bound 2^31 is exact. Models tied to the Rust by streams `pn` (exhaustive around width boundaries, "
            "random triples up to 2^62, arbitrary decode inputs), `journal`, and `txpn`: the real tx::PacketWriter and "
            "tx::TrivialPacketWriter interleaved over one ArcSentJournal per space (exhaustive short move sequences per packet type, buffer-size "
            "sweeps, random histories), for which c07_tx_discipline / c07_tx_unique prove the discipline and the strict increase without hypothesis; "
            "the oracle reads the packet number back from the wire bytes and the AEAD nonce.",
    "note": "Trusted: Coq kernel, extraction, OCaml driver, Rust harness, Python generators/oracle. The tx.rs discipline is a hypothesis, "
            "not derived from the Package implementations. Nonce uniqueness follows from number uniqueness only per key; key handling is C06.",
    "technique": "Coq proof (lia over div/mod for the codec, bit lemma lor/ldiff = div/mod, monotonicity invariant over event histories) "
                 "+ differential correspondence model/implementation",
}

U62 = 2**62


def ints(line):
    return [int(x) for x in line.split()]


def pn_oracle(case, obs):
    if len(obs) != len(case.ops):
        return "length: %d observations for %d ops (%s)" % (len(obs), len(case.ops), obs[-1] if obs else "")
    for k, ((tag, args), line) in enumerate(zip(case.ops, obs)):
        if line.startswith("!"):
            return "abnormal: op %d -> %s" % (k, line)
        v = ints(line)
        if tag == 0:
            pn, la, exp = args
            guard = 0 <= la < U62 and la <= exp <= pn and pn - la < 2**31
            if not guard:
                continue
            if v[0] != 0:
                return "encpanic: op %d encode(%d, %d) panicked inside the guard" % (k, pn, la)
            w, x, xw = v[1], v[2], v[3]
            if (w, xw) != J.rfc_encode(pn, la):
                return "encwidth: op %d encode(%d, %d) wrote (%d, %d), expected %s" % (k, pn, la, w, xw, J.rfc_encode(pn, la))
            rest = v[4:]
            direct = rest[1] if rest[0] == 0 else None
            rest = rest[2:] if rest[0] == 0 else rest[1:]
            wire = rest[1] if rest[0] == 0 else None
            if wire != pn:
                return "decode: op %d pn %d (largest_acked %d) written as (%d, %d) decodes to %s at expected %d" % (k, pn, la, w, xw, wire, exp)
            if pn < U62 and J.rfc_decode(w, xw, exp) != pn:
                return "rfcdecode: op %d RFC A.3 reference decodes (%d,%d) at %d to %d, not %d" % (k, w, xw, exp, J.rfc_decode(w, xw, exp), pn)
            if direct != pn:
                return "direct: op %d decode of the in-memory value U%d(%d) at expected %d gives %s, pn is %d" % (k, 8 * w, x, exp, direct, pn)
        elif tag == 1:
            w, x, exp = args
            if exp < U62 - 2**33 and x < 2**(8 * w):
                if v[0] != 0:
                    return "decpanic: op %d decode U%d(%d) at %d panicked" % (k, 8 * w, x, exp)
                if v[1] != J.rfc_decode(w, x, exp):
                    return "decref: op %d decode U%d(%d) at %d = %d, RFC A.3 gives %d" % (k, 8 * w, x, exp, v[1], J.rfc_decode(w, x, exp))
    return None


BOUNDS = [2**15, 2**23, 2**31]


def pn_nontrivial(case):
    for t, a in case.ops:
        if t == 0:
            pn, la, exp = a
            d = pn - la
            if any(abs(d - b) <= 3 for b in BOUNDS):
                return True
            enc = J.rfc_encode(pn, la) if 0 <= d < 2**31 else None
            if enc:
                hwin = 1 << (8 * enc[0] - 1)
                if abs(pn - (exp + hwin)) <= 3 or abs(pn - (exp - hwin)) <= 3 or abs(exp - la) <= 1:
                    return True
        else:
            w, x, exp = a
            hwin = 1 << (8 * w - 1)
            cand = (exp & ~((1 << (8 * w)) - 1)) | (x % (1 << (8 * w)))
            if abs(cand - (exp + hwin)) <= 3 or abs(cand - (exp - hwin)) <= 3:
                return True
    return False


def pn_hist(case):
    lab = []
    for t, a in case.ops:
        if t == 0:
            pn, la, exp = a
            d = pn - la
            lab.append("op:encdec")
            lab.append("dist:%s" % ("neg" if d < 0 else "<2^15" if d < 2**15 else "<2^23" if d < 2**23 else "<2^31" if d < 2**31 else ">=2^31"))
            lab.append("la:%s" % ("0" if la == 0 else "<2^32" if la < 2**32 else "<2^61" if la < 2**61 else "near2^62"))
            lab.append("exp:%s" % ("<la" if exp < la else "=la" if exp == la else "=pn" if exp == pn else "in" if exp < pn else ">pn"))
        else:
            lab.append("op:dec%d" % a[0])
    return lab


def pn_gen(rng, tier):
    triples = []
    las = [0, 1, 2, 255, 256, 65535, 65536, 2**24 - 1, 2**24, 3 * 2**24 + 5, 2**32 - 1, 2**32, 2**40 + 12345,
           U62 - 2**31 - 4, U62 - 2**31, U62 - 2**24, U62 - 40000, U62 - 5, U62 - 1]
    ds = []
    for b in [0, 128, 2**15, 2**16, 2**23, 2**24, 2**31]:
        ds += [b + i for i in range(-3, 4)]
    ds = sorted(set(d for d in ds if d >= -2))
    for la in las:
        for la2 in (la - 1, la, la + 1):
            if la2 < 0:
                continue
            for d in ds:
                pn = la2 + d
                if pn < 0:
                    continue
                enc = J.rfc_encode(pn, la2) if 0 <= d < 2**31 else None
                hwin = (1 << (8 * enc[0] - 1)) if enc else 2**15
                exps = {la2, la2 + 1, pn, pn - 1, (la2 + pn) // 2, pn + 1, pn + hwin - 1, pn + hwin, pn + hwin + 1, max(0, pn - hwin), max(0, pn - hwin + 1)}
                for e in exps:
                    if e >= 0:
                        triples.append((pn, la2, e))
    n_rand = 20000 if tier == "quick" else 1000000
    for _ in range(n_rand):
        r = rng.random()
        la = (rng.randrange(0, 2**16) if r < 0.2 else rng.randrange(0, 2**34) if r < 0.5 else rng.randrange(0, U62) if r < 0.8
              else U62 - 1 - rng.randrange(0, 2**33))
        r2 = rng.random()
        d = (rng.randrange(0, 2**15 + 8) if r2 < 0.3 else rng.randrange(0, 2**23 + 8) if r2 < 0.6 else rng.randrange(0, 2**31) if r2 < 0.95
             else rng.randrange(2**31, 2**33))
        pn = la + d
        r3 = rng.random()
        e = rng.randint(la, pn) if r3 < 0.7 else rng.choice([la, la + 1 if la + 1 <= pn else la, pn]) if r3 < 0.9 else rng.randint(max(0, la - 5), pn + 2**16)
        triples.append((pn, la, e))
    cases = [Case("t%d" % i, [(0, list(t))]) for i, t in enumerate(triples)]
    # malformed / boundary stream for decode alone: any payload, any expectation (also near u64::MAX)
    n_dec = 5000 if tier == "quick" else 200000
    for i in range(n_dec):
        w = rng.randint(1, 4)
        x = rng.randrange(0, 2**(8 * w)) if rng.random() < 0.8 else rng.choice([0, 1, 2**(8 * w) - 1, 2**(8 * w - 1), 2**(8 * w - 1) - 1])
        if w == 3 and rng.random() < 0.2:
            x = rng.randrange(2**24, 2**32)              # un-normalised U24 (what encode returns)
        r = rng.random()
        exp = (rng.randrange(0, 2**(8 * w + 1)) if r < 0.5 else rng.randrange(0, U62) if r < 0.85 else 2**64 - 1 - rng.randrange(0, 2**33) if r < 0.9
               else rng.choice([0, 2**(8 * w - 1), 2**(8 * w), 2**(8 * w) + 2**(8 * w - 1)]) + rng.randint(-2, 2))
        cases.append(Case("d%d" % i, [(1, [w, x, max(0, exp)])]))
    return cases


def pn_mutate(rng, case, j):
    t, a = case.ops[0]
    a = list(a)
    i = rng.randrange(len(a))
    a[i] = max(0, a[i] + rng.choice([-2**31, -2**15, -3, -1, 1, 3, 2**15, 2**23]))
    if t == 1:
        a[0] = min(4, max(1, a[0]))
        a[1] = a[1] % (2**32)
    return Case("mu%d" % j, [(t, a)])


def journal_oracle(case, obs):
    return J.oracle(case, obs, want=("C07",))



# --------------------------------------------------------------------------------------
# stream txpn: the real packet writers of qconnection/src/tx.rs over one sent journal per space
# --------------------------------------------------------------------------------------
TX_PANIC = -77
# frame kinds of the harness vocabulary
K_MAXDATA, K_PING, K_PADDING, K_CLOSE, K_PUNCH, K_ACK, K_CRYPTO = 1, 2, 3, 4, 5, 6, 7
TY_INITIAL, TY_HANDSHAKE, TY_0RTT, TY_1RTT = 0, 1, 2, 3
TX_HDR = {0: 26, 1: 25, 2: 25, 3: 9}


def tx_ty(ty):
    return ty if ty in (0, 1, 2) else 3


def tx_space(ty):
    return min(tx_ty(ty), 2)


def tx_allowed(ty, k):
    """RFC 9000 table 3 (+ the punch extension: application packets only): may frame k travel in packet type ty"""
    ty = tx_ty(ty)
    if k in (K_PING, K_PADDING, K_CLOSE):
        return True
    if k in (K_MAXDATA, K_PUNCH):
        return ty in (TY_0RTT, TY_1RTT)
    return ty != TY_0RTT                      # ACK, CRYPTO


def tx_non_eliciting(k):
    return k in (K_PADDING, K_CLOSE, K_PUNCH, K_ACK)


def tx_frames(op):
    tag, a = op
    fr = a[5:] if tag == 1 else a[3:]
    return [(fr[i], fr[i + 1]) for i in range(0, len(fr) - 1, 2)]


def tx_kind(k):
    return k if 1 <= k <= 6 else K_CRYPTO


def tx_legal(op):
    """the writer is used as its callers use it: every frame may travel in the packet type, and the trivial
    writer is only given frames that are not ack-eliciting (anything else is a debug assertion of the code)"""
    tag, a = op
    for k, _ in tx_frames(op):
        k = tx_kind(k)
        if not tx_allowed(a[0], k):
            return False
        if tag == 2 and not tx_non_eliciting(k):
            return False
    return True


def tx_offered(op):
    """frames of the op that the journal has to feed back (reliable in the space of the packet)"""
    sp = tx_space(op[1][0])
    out = []
    for k, v in tx_frames(op):
        k = tx_kind(k)
        if k == K_CRYPTO or (k == K_MAXDATA and sp == 2):
            out.append(v)
    return out


def is_subseq(xs, ys):
    it = iter(ys)
    return all(any(x == y for y in it) for x in xs)


def txpn_oracle(case, obs):
    """C07 on what the real writers put on the wire, per packet-number space: strictly increasing packet numbers
    in the order of sending, the AEAD nonce is that number, the truncated field on the wire decodes to it for every
    receiver position the property allows, every number that left is booked in the journal (the next number handed
    out is larger), abandoned assemblies send nothing, and no panic under legal use."""
    if len(obs) != len(case.ops):
        return "length: %d observations for %d ops (%s)" % (len(obs), len(case.ops), obs[-1] if obs else "")
    sent = {0: [], 1: [], 2: []}          # numbers that left, in order
    offered = {0: {}, 1: {}, 2: {}}       # pn -> reliable frames offered to that packet
    nxt = {0: 0, 1: 0, 2: 0}
    la = {0: 0, 1: 0, 2: 0}
    dead = {0: False, 1: False, 2: False}  # a panic under ILLEGAL use poisons the journal: nothing is required afterwards
    for k, ((tag, a), line) in enumerate(zip(case.ops, obs)):
        if line.startswith("!"):
            return "abnormal: op %d -> %s" % (k, line)
        v = ints(line)
        if tag == 0:
            continue
        sp = tx_space(a[0]) if tag in (1, 2) else (a[0] if a[0] in (0, 1) else 2)
        if dead[sp]:
            continue
        if v == [TX_PANIC]:
            if tag in (1, 2) and not tx_legal((tag, a)):
                dead[sp] = True
                continue
            if tag in (1, 2) and a[2] == 0:
                # the caller did not add PadTo20: encrypt_and_protect_packet asserts that the packet can be sampled.
                # No packet left; the guard was built before, so the number may be consumed (journal not poisoned)
                nxt[sp] = None
                continue
            return "panic: op %d (%s) panicked although the writer was used legally" % (k, {1: "PacketWriter", 2: "TrivialPacketWriter", 3: "SentRotateGuard", 4: "dump"}.get(tag, tag))
        if tag in (1, 2):
            who = "PacketWriter" if tag == 1 else "TrivialPacketWriter"
            if v[0] == 0:
                _, pn, w, trunc, nonce, n2 = v
                if sent[sp] and pn <= sent[sp][-1]:
                    return ("reuse: op %d %s sent packet number %d in space %d after %s: the numbers that left are not strictly increasing"
                            % (k, who, pn, sp, sent[sp]))
                if nonce != pn:
                    return "nonce: op %d %s protected packet %d with nonce %d" % (k, who, pn, nonce)
                if nxt[sp] is not None and pn < nxt[sp]:
                    return "stale: op %d %s used packet number %d, the journal had already moved on to %d" % (k, who, pn, nxt[sp])
                if (w, trunc) != J.rfc_encode(pn, la[sp]):
                    return "encwidth: op %d packet %d (largest_acked %d) written as (%d, %d), expected %s" % (k, pn, la[sp], w, trunc, J.rfc_encode(pn, la[sp]))
                exps = {pn, sent[sp][-1] + 1 if sent[sp] else 0}
                if la[sp] + 1 <= pn:
                    exps.add(la[sp] + 1)
                for e in sorted(exps):
                    if J.rfc_decode(w, trunc, e) != pn:
                        return "decode: op %d packet %d written as (%d, %d) decodes to %d at expected %d" % (k, pn, w, trunc, J.rfc_decode(w, trunc, e), e)
                if n2 <= pn:
                    return ("unrecorded: op %d %s sent packet number %d but the journal did not book it: the next number handed out is %d"
                            % (k, who, pn, n2))
                sent[sp].append(pn)
                offered[sp][pn] = tx_offered((tag, a))
                nxt[sp] = n2
            elif v[0] in (1, 2):
                n2 = v[-1]
                if (nxt[sp] is not None and n2 < nxt[sp]) or (sent[sp] and n2 <= sent[sp][-1]):
                    return "rewind: op %d abandoned assembly left the next number at %d (was %d, sent %s)" % (k, n2, nxt[sp], sent[sp][-3:])
                nxt[sp] = n2
            else:
                return "shape: op %d -> %s" % (k, line)
        elif tag == 3:
            i = 0
            subs = [(a[j], a[j + 1]) for j in range(1, len(a) - 1, 2)]
            for kk, p in subs:
                if i >= len(v):
                    return "shape: op %d rotate output too short: %s" % (k, line)
                if kk in (0, 1, 2):
                    n = v[i]
                    got = v[i + 1:i + 1 + n]
                    i += 1 + n
                    if kk in (0, 1):
                        want = offered[sp].get(p, [])
                        if not is_subseq(got, want):
                            return ("feedback: op %d %s(%d) in space %d returned frames %s, packet %d carried %s"
                                    % (k, "on_packet_acked" if kk == 0 else "may_loss_packet", p, sp, got, p, want))
                        if kk == 0:
                            offered[sp][p] = []
                else:
                    ok = v[i] == 0
                    i += 1
                    if ok and nxt[sp] is not None and p >= nxt[sp]:
                        return "ackunsent: op %d update_largest(%d) accepted, the largest packet sent in space %d is %s" % (k, p, sp, sent[sp][-1:] or None)
                    if ok:
                        la[sp] = max(la[sp], p)
        elif tag == 4:
            if len(v) < 4:
                return "shape: op %d -> %s" % (k, line)
            if nxt[sp] is not None and v[0] + v[1] != nxt[sp]:
                return "dumpnext: op %d journal of space %d holds numbers up to %d, the next number handed out was %d" % (k, sp, v[0] + v[1], nxt[sp])
            if sent[sp] and v[0] + v[1] <= sent[sp][-1]:
                return "unrecorded: op %d packet %d left but the journal of space %d ends at %d" % (k, sent[sp][-1], sp, v[0] + v[1])
    return None


def tx_reg(ty, bufsz, frames, pad=1, retran=100, expire=300):
    return (1, [ty, bufsz, pad, retran, expire] + [x for f in frames for x in f])


def tx_triv(ty, bufsz, frames, pad=1):
    return (2, [ty, bufsz, pad] + [x for f in frames for x in f])


def tx_alphabet(ty, fid):
    """the moves of a live space: regular packets (reliable / ack-only / ping), an abandoned assembly, the second
    writer (CONNECTION_CLOSE of the closing state, punch packets in the Data space), acknowledgement of the latest"""
    rel = (K_MAXDATA, fid) if tx_space(ty) == 2 else (K_CRYPTO, fid)
    moves = [("R", tx_reg(ty, 1200, [rel])), ("P", tx_reg(ty, 1200, [(K_PING, 0)])), ("A", tx_reg(ty, 1200, [])),
             ("C", tx_triv(ty, 1200, [(K_CLOSE, 0)]))]
    if tx_ty(ty) != TY_0RTT:
        moves.append(("K", tx_reg(ty, 1200, [(K_ACK, 0)])))
    if tx_space(ty) == 2:
        moves.append(("H", tx_triv(ty, 1200, [(K_PUNCH, 0)])))
    return moves


def txpn_gen(rng, tier):
    cases = []
    # 1. exhaustive small scope: every sequence of <= 4 moves of one space (<= 3 for the long-header spaces),
    #    followed by a regular packet and a dump
    import itertools
    for ty, depth in ((TY_1RTT, 4), (TY_0RTT, 3), (TY_INITIAL, 3), (TY_HANDSHAKE, 3)):
        moves = tx_alphabet(ty, 7)
        for n in range(1, depth + 1):
            for seq in itertools.product(range(len(moves)), repeat=n):
                ops = []
                for i, m in enumerate(seq):
                    tag, a = moves[m][1]
                    a = list(a)
                    if moves[m][0] == "R":
                        a[-1] = 10 + i
                    ops.append((tag, a))
                ops.append(tx_reg(ty, 1200, [(K_PING, 0)]))
                ops.append((4, [tx_space(ty)]))
                cases.append(Case("x%d_%s" % (ty, "".join(moves[m][0] for m in seq)), ops))
    # 2. buffer-size sweep: the writer cannot be created / nothing fits / only some frames fit
    for ty in (0, 1, 2, 3):
        rel = (K_MAXDATA, 70000) if ty >= 2 else (K_CRYPTO, 70000)
        for tag in (1, 2):
            for d in range(-2, 12):
                bufsz = TX_HDR[ty] + 18 + d
                fr = [rel, (K_PING, 0)] if tag == 1 else [(K_PUNCH, 0) if ty >= 2 else (K_ACK, 0), (K_CLOSE, 0)]
                mk = (lambda b, f: tx_reg(ty, b, f)) if tag == 1 else (lambda b, f: tx_triv(ty, b, f))
                ops = [tx_reg(ty, 1200, [(K_PING, 0)]), mk(bufsz, fr), mk(bufsz, fr[::-1]), tx_reg(ty, 1200, [rel]), mk(bufsz, fr[:1]),
                       tx_triv(ty, 1200, [(K_CLOSE, 0)]), (4, [tx_space(ty)])]
                cases.append(Case("b%d_%d_%d" % (ty, tag, d), ops))
    # 3. random histories over the three spaces: both writers, abandoned assemblies, acknowledgements, loss, time
    n_rand = 1500 if tier == "quick" else 60000
    for ci in range(n_rand):
        ops = []
        sent = {0: [], 1: [], 2: []}
        cnt = {0: 0, 1: 0, 2: 0}
        fid = 1000
        illegal = rng.random() < 0.04
        long_run = rng.random() < 0.05
        for _ in range(rng.randint(3, 60 if long_run else 14)):
            r = rng.random()
            ty = rng.choice([3, 3, 3, 2, 1, 0]) if rng.random() < 0.8 else rng.choice([0, 1, 2, 3])
            sp = tx_space(ty)
            if r < 0.40:
                nf = rng.choice([0, 1, 1, 1, 2, 3])
                fr = []
                for _f in range(nf):
                    kinds = [K_MAXDATA, K_MAXDATA, K_PING, K_PADDING, K_ACK, K_CRYPTO, K_CLOSE] if sp == 2 else [K_CRYPTO, K_CRYPTO, K_PING, K_PADDING, K_ACK, K_CLOSE]
                    kd = rng.choice(kinds)
                    if not illegal and not tx_allowed(ty, kd):
                        kd = K_PING
                    fid += 1
                    fr.append((kd, rng.choice([fid, fid, 70000 + fid, 2**31 + fid])))
                bufsz = 1200 if rng.random() < 0.75 else rng.randint(0, TX_HDR[ty] + 40)
                ops.append(tx_reg(ty, bufsz, fr, pad=rng.randint(0, 1), retran=rng.choice([5, 100]), expire=rng.choice([20, 300])))
                if bufsz == 1200 and fr:
                    sent[sp].append(cnt[sp]); cnt[sp] += 1
            elif r < 0.62:
                kinds = [K_CLOSE, K_PUNCH, K_PUNCH, K_PADDING, K_ACK] if sp == 2 else [K_CLOSE, K_CLOSE, K_PADDING, K_ACK]
                fr = []
                for _f in range(rng.choice([1, 1, 1, 2, 0])):
                    kd = rng.choice(kinds)
                    if illegal and rng.random() < 0.3:
                        kd = rng.choice([K_PING, K_MAXDATA, K_CRYPTO])
                    elif not tx_allowed(ty, kd):
                        kd = K_CLOSE
                    fr.append((kd, 5))
                bufsz = 1200 if rng.random() < 0.8 else rng.randint(0, TX_HDR[ty] + 40)
                ops.append(tx_triv(ty, bufsz, fr, pad=rng.randint(0, 1)))
                if bufsz == 1200 and fr:
                    sent[sp].append(cnt[sp]); cnt[sp] += 1
            elif r < 0.84:
                sub = []
                for _s in range(rng.randint(1, 3)):
                    p = rng.choice(sent[sp]) if sent[sp] and rng.random() < 0.85 else rng.randint(0, cnt[sp] + 2)
                    kk = rng.choice([0, 0, 1, 2, 3, 3])
                    if kk == 0:
                        sub += [3, p, 0, p]
                    else:
                        sub += [kk, p]
                ops.append((3, [sp] + sub))
            elif r < 0.93:
                ops.append((0, [rng.choice([1, 10, 50, 400])]))
            else:
                ops.append((4, [sp]))
        for sp in (0, 1, 2):
            if cnt[sp]:
                ops.append((4, [sp]))
        cases.append(Case("r%d" % ci, ops))
    return cases


def txpn_nontrivial(case):
    """both writers used in one space with a packet from the other writer (or an abandoned assembly) in between"""
    seen = {}
    for tag, a in case.ops:
        if tag in (1, 2):
            seen.setdefault(tx_space(a[0]), []).append(tag if tx_frames((tag, a)) else 0)
    for seq in seen.values():
        s = "".join(str(x) for x in seq)
        if ("21" in s or "22" in s or "201" in s) and "1" in s:
            return True
        if "01" in s or "02" in s:
            return True
    return False


def txpn_hist(case):
    lab = []
    for tag, a in case.ops:
        if tag in (1, 2):
            w = "reg" if tag == 1 else "triv"
            fr = tx_frames((tag, a))
            lab.append("op:%s" % w)
            lab.append("ty:%d" % tx_ty(a[0]))
            lab.append("%s:nframes=%d" % (w, min(len(fr), 3)))
            lab.append("buf:%s" % ("full" if a[1] >= 1200 else "<hdr+20" if a[1] < TX_HDR[tx_ty(a[0])] + 20 else "tight"))
            for k, _ in fr:
                lab.append("kind:%d" % tx_kind(k))
            if not tx_legal((tag, a)):
                lab.append("illegal-use")
        else:
            lab.append("op:%s" % {0: "tick", 3: "rotate", 4: "dump"}.get(tag, "?"))
    return lab


def txpn_mutate(rng, case, j):
    ops = [(t, list(a)) for t, a in case.ops]
    i = rng.randrange(len(ops))
    r = rng.random()
    if r < 0.4:
        ops.insert(i, rng.choice([tx_triv(3, 1200, [(K_PUNCH, 0)]), tx_triv(rng.choice([0, 1, 2, 3]), 1200, [(K_CLOSE, 0)]),
                                  tx_reg(3, 1200, [(K_MAXDATA, 99)]), tx_reg(rng.choice([0, 1, 3]), 1200, [(K_CRYPTO, 98)]), tx_reg(3, 20, [(K_PING, 0)])]))
    elif r < 0.6 and len(ops) > 1:
        ops.pop(i)
    elif r < 0.8:
        ops.insert(i, ops[i])
    else:
        t, a = ops[i]
        if t in (1, 2):
            a[1] = max(0, a[1] + rng.choice([-1200, -1150, -3, -1, 1, 3]))
    return Case("mu%d" % j, ops)


STREAMS = [
    {"name": "pn", "pkg": "hb", "bin": "impl_pn",
     "gen": pn_gen, "oracle": pn_oracle, "nontrivial": pn_nontrivial, "hist": pn_hist, "mutate": pn_mutate,
     "profiles": ("debug",), "profiles_thorough": ("debug",), "rule": RULE},
    {"name": "journal", "pkg": "hr", "bin": "impl_journal",
     "gen": J.gen, "oracle": journal_oracle, "nontrivial": J.nontrivial, "hist": J.hist, "mutate": J.mutate,
     "profiles": ("debug",), "profiles_thorough": ("debug",), "rule": RULE},
    {"name": "txpn", "pkg": "hq", "bin": "impl_txpn",
     "gen": txpn_gen, "oracle": txpn_oracle, "nontrivial": txpn_nontrivial, "hist": txpn_hist, "mutate": txpn_mutate,
     "profiles": ("debug",), "profiles_thorough": ("debug",), "rule": RULE},
]
