(* Lemmas about Model/LocalCid.v and the lemmas p_c14_local_* / p_c14_retire_unissued_rejected.
   Everything is for an arbitrary ISSUED environment (E, gen, ret); between two operations of the
   connection the environment may change arbitrarily (other connections share the router). *)
From Coq Require Import List NArith ZArith Bool Lia.
From GQ Require Import Lib.Base Model.Router Model.LocalCid Model.RemoteCid.
Import ListNotations.
Local Open Scope N_scope.

Fixpoint somes {A} (l : list (option A)) : list A :=
  match l with
  | [] => []
  | Some x :: r => x :: somes r
  | None :: r => somes r
  end.

Lemma count_somes : forall A (l : list (option A)), count_some l = length (somes l).
Proof. induction l as [|[x|] r IH]; cbn; congruence. Qed.

Lemma somes_app : forall A (a b : list (option A)), somes (a ++ b) = somes a ++ somes b.
Proof. induction a as [|[x|] r IH]; intros; cbn; rewrite ?IH; reflexivity. Qed.

Lemma somes_skip_leading : forall A (l : list (option A)), somes (skipn (leading_none l) l) = somes l.
Proof. induction l as [|[x|] r IH]; cbn; auto. Qed.

Lemma length_skip_leading : forall A (l : list (option A)),
  (length (skipn (leading_none l) l) + leading_none l = length l)%nat.
Proof. induction l as [|[x|] r IH]; cbn; lia. Qed.

Lemma length_set_nth : forall A p (l : list A) v, length (set_nth p l v) = length l.
Proof. induction p; destruct l; intros; cbn; auto. Qed.

Lemma somes_set_nth : forall A p (l : list (option A)) c,
  nth_error l p = Some (Some c) ->
  exists a1 a2, somes l = a1 ++ c :: a2 /\ somes (set_nth p l None) = a1 ++ a2.
Proof.
  induction p; destruct l as [|[x|] r]; intros c H; cbn in H; try discriminate.
  - inversion H; subst. exists [], (somes r). split; reflexivity.
  - apply IHp in H. destruct H as [a1 [a2 [H1 H2]]]. exists (x :: a1), a2. cbn. rewrite H1, H2. split; reflexivity.
  - apply IHp in H. destruct H as [a1 [a2 [H1 H2]]]. exists a1, a2. cbn. split; assumption.
Qed.

Lemma nth_error_skipn' : forall A n (l : list A) k, nth_error (skipn n l) k = nth_error l (n + k).
Proof. induction n; destruct l; intros; cbn; auto. destruct k; reflexivity. Qed.

Lemma in_somes : forall A (l : list (option A)) x, In x (somes l) <-> In (Some x) l.
Proof.
  induction l as [|[y|] r IH]; intros x; cbn; [tauto| |].
  - rewrite IH. split; intros [H|H]; auto; left; congruence.
  - rewrite IH. split; [auto|]. intros [H|H]; [discriminate|assumption].
Qed.

Lemma nseq_snoc : forall n a, nseq a (S n) = nseq a n ++ [a + N.of_nat n].
Proof.
  induction n; intros a.
  - cbn. rewrite N.add_0_r. reflexivity.
  - change (nseq a (S (S n))) with (a :: nseq (a + 1) (S n)). rewrite IHn. cbn [nseq app].
    f_equal. f_equal. f_equal. lia.
Qed.

Lemma nseq_length : forall n a, length (nseq a n) = n.
Proof. induction n; intros; cbn; auto. Qed.

Lemma in_nseq : forall n a x, In x (nseq a n) <-> a <= x < a + N.of_nat n.
Proof.
  induction n; intros a x; cbn [nseq In].
  - lia.
  - rewrite IHn. lia.
Qed.

Definition fseq (f : lframe) : N := match f with LNew s _ _ => s end.
Definition frpt (f : lframe) : N := match f with LNew _ r _ => r end.

Inductive lop := LSet (n : N) | LRet (seq : N) | LClr.

Section Local.
  Variable E : Type.
  Variable gen : E -> option (E * cid).
  Variable ret : E -> cid -> E.

  Definition lstep (e : E) (l : lcids) (o : lop) : option (E * lcids * list lframe * lres) :=
    match o with
    | LSet n => l_set_limit E gen e l n
    | LRet seq => l_recv_retire E gen ret e l seq
    | LClr => let '(e', l') := l_clear E ret e l in Some (e', l', [], LOk)
    end.

  (* histories of one connection: creation, then any operations, each in an arbitrary environment *)
  Inductive lreach : lcids -> list lframe -> Prop :=
  | lr_new e scid e1 l1 fs : l_new E gen e scid = Some (e1, l1, fs) -> lreach l1 fs
  | lr_step e l fs o e' l' fs' r :
      lreach l fs -> lstep e l o = Some (e', l', fs', r) -> lreach l' (fs ++ fs').

  Lemma issue_spec : forall e l e' l' f,
    issue E gen e l = Some (e', l', f) ->
    exists c, gen e = Some (e', c) /\
      l' = mkL (l_off l) (l_cells l ++ [Some c]) (l_limit l) /\ f = LNew (l_largest l) (l_off l) c.
  Proof.
    intros e l e' l' f H. unfold issue in H. destruct (gen e) as [[e1 c]|]; [|discriminate].
    inversion H; subst. exists c. auto.
  Qed.

  (* numbering facts *)
  Definition Cons (l : lcids) (fs : list lframe) : Prop :=
    map fseq fs = nseq 1 (length fs) /\ l_largest l = 1 + lenN fs /\
    Forall (fun f => frpt f <= fseq f) fs.

  Lemma largest_snoc : forall off cells lim (c : option cid),
    l_largest (mkL off (cells ++ [c]) lim) = l_largest (mkL off cells lim) + 1.
  Proof. intros. unfold l_largest, lenN. cbn [l_off l_cells]. rewrite app_length. cbn [length]. lia. Qed.

  Lemma active_snoc : forall off cells lim (c : cid),
    l_active (mkL off (cells ++ [Some c]) lim) = l_active (mkL off cells lim) + 1.
  Proof.
    intros. unfold l_active. cbn [l_cells]. rewrite !count_somes, somes_app, app_length. cbn [somes length]. lia.
  Qed.

  Lemma off_le_largest : forall l, l_off l <= l_largest l.
  Proof. intros. unfold l_largest. lia. Qed.

  Lemma Cons_issue : forall e l fs e' l' f,
    Cons l fs -> issue E gen e l = Some (e', l', f) -> Cons l' (fs ++ [f]).
  Proof.
    intros e l fs e' l' f [H1 [H2 H3]] H. apply issue_spec in H. destruct H as [c [_ [-> ->]]].
    destruct l as [off cells lim]. split; [|split].
    - rewrite map_app, app_length. cbn [map length fseq]. rewrite Nat.add_1_r, nseq_snoc, H1.
      f_equal. f_equal. rewrite H2. unfold lenN. reflexivity.
    - rewrite largest_snoc. cbn [l_off l_cells l_limit]. rewrite H2. unfold lenN. rewrite app_length. cbn [length]. lia.
    - apply Forall_app. split; [assumption|]. constructor; [|constructor]. cbn [frpt fseq].
      apply off_le_largest.
  Qed.

  Lemma issue_n_spec : forall n e l fs e' l' fs',
    Cons l fs -> issue_n E gen n e l = Some (e', l', fs') ->
    Cons l' (fs ++ fs') /\ l_active l' = l_active l + N.of_nat n /\
    l_largest l' = l_largest l + N.of_nat n /\ l_limit l' = l_limit l /\ length fs' = n.
  Proof.
    induction n as [|n IH]; intros e l fs e' l' fs' HC H; cbn [issue_n] in H.
    - inversion H; subst. rewrite app_nil_r. split; [assumption|]. cbn [N.of_nat length]. split; [lia|split; [lia|split; reflexivity]].
    - destruct (issue E gen e l) as [[[e1 l1] f]|] eqn:E1; [|discriminate].
      destruct (issue_n E gen n e1 l1) as [[[e2 l2] fs2]|] eqn:E2; [|discriminate].
      inversion H; subst. pose proof (Cons_issue _ _ _ _ _ _ HC E1) as HC1.
      specialize (IH _ _ _ _ _ _ HC1 E2). destruct IH as [Ha [Hb [Hc [Hd He]]]].
      apply issue_spec in E1. destruct E1 as [c [_ [-> _]]]. destruct l as [off cells lim].
      rewrite active_snoc in Hb. rewrite largest_snoc in Hc. cbn [l_limit] in Hd.
      cbn [l_off l_cells l_limit] in *.
      split; [rewrite <- app_assoc in Ha; exact Ha|]. cbn [length]. split; [lia|split; [lia|split; [assumption|lia]]].
  Qed.

  Definition Count (l : lcids) : Prop :=
    match l_limit l with
    | Some n => 2 <= n /\ l_active l <= n
    | None => l_active l <= 2
    end.

  Lemma active_le_largest : forall l, l_active l <= l_largest l.
  Proof.
    intros [off cells lim]. unfold l_active, l_largest, lenN. cbn [l_cells l_off].
    rewrite count_somes. assert (length (somes cells) <= length cells)%nat; [|lia].
    induction cells as [|[x|] r IH]; cbn; lia.
  Qed.

  Lemma l_get_some : forall l seq c,
    l_get l seq = Some c -> l_off l <= seq < l_largest l /\
    nth_error (l_cells l) (N.to_nat (seq - l_off l)) = Some c.
  Proof.
    intros l seq c H. unfold l_get in H. destruct (seq <? l_off l) eqn:Elt; [discriminate|].
    apply N.ltb_ge in Elt. split; [|exact H].
    assert (N.to_nat (seq - l_off l) < length (l_cells l))%nat by (apply nth_error_Some; congruence).
    unfold l_largest, lenN. lia.
  Qed.

  (* retirement of an active ID: one replacement, one retire_cid, same number of active IDs *)
  Lemma retire_active : forall e l seq c,
    l_get l seq = Some (Some c) ->
    l_recv_retire E gen ret e l seq = None \/
    exists e1 c' l',
      l_recv_retire E gen ret e l seq = Some (ret e1 c, l', [LNew (l_largest l) (l_off l') c'], LOk) /\
      l_active l' = l_active l /\ l_largest l' = l_largest l + 1 /\ l_limit l' = l_limit l /\
      l_off l <= l_off l' <= l_largest l /\
      (exists a1 a2, somes (l_cells l) = a1 ++ c :: a2 /\ somes (l_cells l') = a1 ++ a2 ++ [c']) /\
      (l_get l' seq = None \/ l_get l' seq = Some None).
  Proof.
    intros e l seq c H. pose proof (l_get_some _ _ _ H) as [[Hlo Hhi] Hn].
    unfold l_recv_retire. replace (l_largest l <=? seq) with false by (symmetry; apply N.leb_gt; lia).
    rewrite H.
    set (p := N.to_nat (seq - l_off l)) in *.
    set (cells1 := set_nth p (l_cells l) None).
    set (n := leading_none cells1).
    set (l1 := mkL (l_off l + N.of_nat n) (skipn n cells1) (l_limit l)).
    destruct (issue E gen e l1) as [[[e1 l2] f]|] eqn:E1; [right|left; reflexivity].
    apply issue_spec in E1. destruct E1 as [c' [_ [-> ->]]].
    destruct (somes_set_nth _ _ _ _ Hn) as [a1 [a2 [Hs1 Hs2]]]. fold cells1 in Hs2.
    assert (Hlen : (length (skipn n cells1) + n = length (l_cells l))%nat).
    { unfold n. rewrite length_skip_leading. unfold cells1. apply length_set_nth. }
    assert (Hlarge : l_largest l1 = l_largest l).
    { unfold l_largest, lenN, l1. cbn [l_off l_cells]. lia. }
    exists e1, c', (mkL (l_off l1) (l_cells l1 ++ [Some c']) (l_limit l1)).
    rewrite Hlarge. split; [reflexivity|].
    split; [|split; [|split; [|split; [|split]]]].
    - unfold l_active. cbn [l_cells l1]. rewrite !count_somes, somes_app.
      unfold n. rewrite somes_skip_leading, Hs2, Hs1, !app_length. cbn [somes length]. lia.
    - rewrite largest_snoc. replace (mkL (l_off l1) (l_cells l1) (l_limit l1)) with l1 by reflexivity. lia.
    - reflexivity.
    - cbn [l_off l1]. unfold l_largest, lenN. lia.
    - exists a1, a2. split; [assumption|]. cbn [l_cells l1]. rewrite somes_app. unfold n.
      rewrite somes_skip_leading, Hs2. cbn [somes]. rewrite app_assoc. reflexivity.
    - unfold l_get. cbn [l_off l_cells l1].
      destruct (seq <? l_off l + N.of_nat n) eqn:E2; [left; reflexivity|right].
      apply N.ltb_ge in E2.
      assert (Hp : (n <= p)%nat) by (unfold p; lia).
      replace (N.to_nat (seq - (l_off l + N.of_nat n))) with (p - n)%nat by (unfold p; lia).
      rewrite nth_error_app1.
      2:{ assert (p < length (l_cells l))%nat by (apply nth_error_Some; congruence). lia. }
      rewrite nth_error_skipn'. replace (n + (p - n))%nat with p by lia.
      unfold cells1. clear - Hn. revert Hn. generalize (l_cells l) as cs. generalize p as q.
      induction q; destruct cs; cbn; intros; try discriminate; auto.
  Qed.

  Lemma retire_inactive : forall e l seq,
    seq < l_largest l -> (forall c, l_get l seq <> Some (Some c)) ->
    l_recv_retire E gen ret e l seq = Some (e, l, [], LOk).
  Proof.
    intros e l seq Hlt Hn. unfold l_recv_retire.
    replace (l_largest l <=? seq) with false by (symmetry; apply N.leb_gt; lia).
    destruct (l_get l seq) as [[c|]|] eqn:EG0; [exfalso; eapply Hn; reflexivity| |]; reflexivity.
  Qed.

  Lemma retire_unissued : forall e l seq,
    l_largest l <= seq -> l_recv_retire E gen ret e l seq = Some (e, l, [], LErrLimit).
  Proof.
    intros. unfold l_recv_retire. replace (l_largest l <=? seq) with true by (symmetry; apply N.leb_le; lia).
    reflexivity.
  Qed.

  Lemma retire_issued_ok : forall e l seq x,
    seq < l_largest l -> l_recv_retire E gen ret e l seq = Some x -> snd x = LOk.
  Proof.
    intros e l seq x Hlt H. destruct (l_get l seq) as [[c|]|] eqn:EG0.
    - destruct (retire_active e l seq c EG0) as [H1|[e1 [c' [l' [H1 _]]]]]; rewrite H1 in H; [discriminate|].
      inversion H; reflexivity.
    - rewrite retire_inactive in H; auto; [inversion H; reflexivity|]. intros c; congruence.
    - rewrite retire_inactive in H; auto; [inversion H; reflexivity|]. intros c; congruence.
  Qed.

  Definition LInv (l : lcids) (fs : list lframe) : Prop := Cons l fs /\ Count l.

  Lemma lreach_inv : forall l fs, lreach l fs -> LInv l fs.
  Proof.
    induction 1 as [e scid e1 l1 fs H | e l fs o e' l' fs' r Hr IH H].
    - unfold l_new in H. destruct (issue E gen e (mkL 0 [Some scid] None)) as [[[e2 l2] f]|] eqn:E1; [|discriminate].
      inversion H; subst.
      assert (HC0 : Cons (mkL 0 [Some scid] None) []).
      { split; [reflexivity|split; [reflexivity|constructor]]. }
      pose proof (Cons_issue _ _ _ _ _ _ HC0 E1) as HC. split; [exact HC|].
      apply issue_spec in E1. destruct E1 as [c [_ [-> _]]]. unfold Count. cbn. lia.
    - destruct IH as [HC HK]. destruct o as [n|seq|]; cbn [lstep] in H.
      + (* set_limit *)
        unfold l_set_limit in H. destruct (l_limit l) as [n0|] eqn:EL.
        * inversion H; subst. rewrite app_nil_r. split; assumption.
        * destruct (n <? 2) eqn:E2.
          { inversion H; subst. rewrite app_nil_r. split; assumption. }
          apply N.ltb_ge in E2.
          destruct (issue_n E gen (N.to_nat (n - l_largest l)) e l) as [[[e1 l1] fs1]|] eqn:E1; [|discriminate].
          inversion H; subst.
          destruct (issue_n_spec _ _ _ _ _ _ _ HC E1) as [Ha [Hb [Hc [Hd He]]]].
          split.
          { destruct Ha as [A1 [A2 A3]]. split; [exact A1|split; [|exact A3]]. exact A2. }
          unfold Count in *. rewrite EL in HK. cbn [l_limit]. split; [assumption|].
          change (l_active (mkL (l_off l1) (l_cells l1) (Some n))) with (l_active l1).
          pose proof (active_le_largest l). rewrite Hb. lia.
      + (* recv_retire *)
        destruct (N.leb_spec (l_largest l) seq) as [Hge|Hlt].
        * rewrite retire_unissued in H by assumption. inversion H; subst. rewrite app_nil_r. split; assumption.
        * destruct (l_get l seq) as [[c|]|] eqn:EG.
          -- destruct (retire_active e l seq c EG) as [H1|[e1 [c' [l2 [H1 [Ha [Hb [Hc [Hd _]]]]]]]]];
               rewrite H1 in H; [discriminate|]. inversion H; subst.
             split.
             ++ destruct HC as [A1 [A2 A3]]. split; [|split].
                ** rewrite map_app, app_length. cbn [map length fseq]. rewrite Nat.add_1_r, nseq_snoc, A1.
                   f_equal. f_equal. rewrite A2. unfold lenN. reflexivity.
                ** rewrite Hb, A2. unfold lenN. rewrite app_length. cbn [length]. lia.
                ** apply Forall_app. split; [assumption|]. constructor; [|constructor]. cbn [frpt fseq].
                   lia.
             ++ unfold Count in *. rewrite Hc. destruct (l_limit l); rewrite Ha; assumption.
          -- rewrite retire_inactive in H; auto; [|intros c; congruence]. inversion H; subst.
             rewrite app_nil_r. split; assumption.
          -- rewrite retire_inactive in H; auto; [|intros c; congruence]. inversion H; subst.
             rewrite app_nil_r. split; assumption.
      + (* clear *)
        unfold l_clear in H. inversion H; subst. rewrite app_nil_r. split.
        * destruct HC as [A1 [A2 A3]]. split; [exact A1|split; [|exact A3]].
          unfold l_largest, lenN in *. cbn [l_off l_cells length]. lia.
        * unfold Count in *. cbn [l_limit]. unfold l_active. cbn [l_cells count_some].
          destruct (l_limit l); lia.
  Qed.

  (* ---- the property statements ---- *)

  Lemma p_c14_local_count : forall l fs, lreach l fs ->
    forall n, l_limit l = Some n -> l_active l <= n.
  Proof.
    intros l fs H n Hn. apply lreach_inv in H. destruct H as [_ HK]. unfold Count in HK.
    rewrite Hn in HK. tauto.
  Qed.

  Lemma p_c14_local_count_unset : forall l fs, lreach l fs -> l_limit l = None -> l_active l <= 2.
  Proof.
    intros l fs H Hn. apply lreach_inv in H. destruct H as [_ HK]. unfold Count in HK.
    rewrite Hn in HK. assumption.
  Qed.

  Lemma p_c14_local_consecutive : forall l fs, lreach l fs ->
    map fseq fs = nseq 1 (length fs) /\ l_largest l = 1 + lenN fs /\
    Forall (fun f => frpt f <= fseq f) fs.
  Proof. intros l fs H. apply lreach_inv in H. destruct H as [HC _]. exact HC. Qed.

  Lemma p_c14_local_replace : forall e l seq,
    seq < l_largest l ->
    match l_get l seq with
    | Some (Some c) =>
        l_recv_retire E gen ret e l seq = None \/
        exists e1 c' l',
          l_recv_retire E gen ret e l seq = Some (ret e1 c, l', [LNew (l_largest l) (l_off l') c'], LOk) /\
          l_active l' = l_active l /\ l_largest l' = l_largest l + 1 /\
          (l_get l' seq = None \/ l_get l' seq = Some None)
    | _ => l_recv_retire E gen ret e l seq = Some (e, l, [], LOk)
    end.
  Proof.
    intros e l seq Hlt. destruct (l_get l seq) as [[c|]|] eqn:EG.
    - destruct (retire_active e l seq c EG) as [H1|[e1 [c' [l2 [H1 [Ha [Hb [_ [_ [_ Hg]]]]]]]]]]; [left; exact H1|].
      right. exists e1, c', l2. auto.
    - apply retire_inactive; auto. intros c; congruence.
    - apply retire_inactive; auto. intros c; congruence.
  Qed.

  Lemma p_c14_retire_unissued_rejected : forall l fs, lreach l fs -> forall e seq,
    (* the numbers issued so far are 0 (the initial ID) and those of the frames sent *)
    ((seq = 0 \/ In seq (map fseq fs)) <-> seq < l_largest l) /\
    (l_largest l <= seq -> l_recv_retire E gen ret e l seq = Some (e, l, [], LErrLimit)) /\
    (seq < l_largest l -> forall x, l_recv_retire E gen ret e l seq = Some x -> snd x = LOk).
  Proof.
    intros l fs H e seq. apply lreach_inv in H. destruct H as [[A1 [A2 _]] _]. split; [|split].
    - rewrite A1, in_nseq, A2. unfold lenN. lia.
    - apply retire_unissued.
    - intros Hlt x. apply retire_issued_ok. exact Hlt.
  Qed.
End Local.
