(* Parser / printer primitives shared by the codec models (definitions only).
   Bytes are Z in [0,256); a parser returns one of four outcomes mirroring nom:
   Ok v rest | Incomplete (nom::Err::Incomplete) | Bad kind (nom::Err::Error) | Panic site
   (a Rust panic: unreachable!/assert!/expect/index) — reachability of Panic is a proof obligation. *)
From Coq Require Import List ZArith NArith Bool.
Import ListNotations.
Local Open Scope Z_scope.

Inductive res (A : Type) : Type :=
| Ok (v : A) (rest : list Z)
| Incomplete
| Bad (k : N)
| Panic (site : N).
Arguments Ok {A} v rest.
Arguments Incomplete {A}.
Arguments Bad {A} k.
Arguments Panic {A} site.

(* nom::error::ErrorKind codes used by the code base *)
Definition EK_TooLarge : N := 1%N.
Definition EK_Verify : N := 2%N.
Definition EK_Alt : N := 3%N.
Definition EK_Eof : N := 4%N.
Definition EK_Tag : N := 5%N.

Definition parser (A : Type) := list Z -> res A.

Definition bind {A B} (p : parser A) (f : A -> parser B) : parser B :=
  fun bs => match p bs with
            | Ok v rest => f v rest
            | Incomplete => Incomplete
            | Bad k => Bad k
            | Panic s => Panic s
            end.
Definition ret {A} (v : A) : parser A := fun bs => Ok v bs.
Definition pmap {A B} (f : A -> B) (p : parser A) : parser B := bind p (fun v => ret (f v)).

Notation "x <- p ;; q" := (bind p (fun x => q)) (at level 61, p at next level, right associativity).

(* big-endian unsigned integers *)
Fixpoint put_be (n : nat) (v : Z) : list Z :=
  match n with
  | O => []
  | S k => (v / 256 ^ Z.of_nat k) mod 256 :: put_be k v
  end.

Fixpoint get_be (n : nat) (acc : Z) (bs : list Z) : option (Z * list Z) :=
  match n with
  | O => Some (acc, bs)
  | S k => match bs with
           | [] => None
           | b :: r => get_be k (acc * 256 + b) r
           end
  end.

(* nom::number::streaming::be_uN *)
Definition be_uint_s (n : nat) : parser Z :=
  fun bs => match get_be n 0 bs with Some (v, r) => Ok v r | None => Incomplete end.
(* nom::number::complete::be_uN *)
Definition be_uint_c (n : nat) : parser Z :=
  fun bs => match get_be n 0 bs with Some (v, r) => Ok v r | None => Bad EK_Eof end.

(* nom::bytes::{streaming,complete}::take *)
Definition zlen {A} (l : list A) : Z := Z.of_nat (length l).

(* the length is compared as an integer first: an attacker-chosen 2^62 never becomes a unary nat *)
Definition take_s (n : Z) : parser (list Z) :=
  fun bs => if zlen bs <? n then Incomplete else Ok (firstn (Z.to_nat n) bs) (skipn (Z.to_nat n) bs).
Definition take_c (n : Z) : parser (list Z) :=
  fun bs => if zlen bs <? n then Bad EK_Eof else Ok (firstn (Z.to_nat n) bs) (skipn (Z.to_nat n) bs).

(* every element is a byte *)
Definition bytes_ok (l : list Z) : Prop := Forall (fun b => 0 <= b < 256) l.
Definition is_byte (b : Z) : bool := (0 <=? b) && (b <? 256).
