(* Model of qbase/src/time.rs: IdleConfig (negotiate_max_idle_timeout, the heartbeat interval) and
   IdleTimer::{on_sent, on_rcvd, health}.  Integer time (one unit = 1 microsecond, so that
   max_idle / 2 is exact for the millisecond inputs of the stream).  Definitions only. *)
From Coq Require Import List ZArith Bool.
From GQ Require Export Lib.Base.
Import ListNotations.
Local Open Scope Z_scope.

Definition SEC : Z := 1000000.

Record cfg := mkcfg { max_idle : Z; defer : Z; hb_interval : Z }.

(* IdleConfig::suitable_heartbeat_interval *)
Definition suitable_hb (m : Z) : Z :=
  if m =? 0 then 30 * SEC else Z.min (Z.max (m / 2) SEC) (30 * SEC).

Definition cfg_new (m d : Z) : cfg := mkcfg m d (suitable_hb m).

(* IdleConfig::negotiate_max_idle_timeout *)
Definition negotiate (c : cfg) (remote : Z) : cfg :=
  let m := if remote =? 0 then max_idle c
           else if max_idle c =? 0 then remote
           else Z.min (max_idle c) remote in
  mkcfg m (defer c) (suitable_hb m).

(* sent_since: an effective (ack-eliciting payload) packet has been sent since the last packet was
   received (RFC 9000 10.1; the repair of F65) *)
Record timer := mktm { hb_times : Z; last_eff : option Z; idle_begin : option Z; sent_since : bool }.
Definition timer_new : timer := mktm 0 None None false.

Inductive content := NonAckEliciting | JustPing | EffectivePayload.
Definition effective (c : content) : bool := match c with EffectivePayload => true | _ => false end.

(* only the FIRST effective packet sent after a receive restarts the idle period *)
Definition on_sent (t : timer) (c : content) (now : Z) : timer :=
  if effective c && negb (sent_since t) then mktm 0 (Some now) None true else t.

(* the rule before the repair of F65: EVERY effective packet sent restarts the idle period, so an
   endpoint retransmitting into a dead network never times out (kept for the regression Example) *)
Definition on_sent_f65 (t : timer) (c : content) (now : Z) : timer :=
  if effective c then mktm 0 (Some now) None (sent_since t) else t.

Definition on_rcvd (t : timer) (c : content) (now : Z) : timer :=
  let t1 := if effective c then mktm 0 (Some now) None false
            else mktm (hb_times t) (last_eff t) (idle_begin t) false in
  match idle_begin t1 with
  | Some _ => mktm (hb_times t1) (last_eff t1) (Some now) false
  | None => t1
  end.

Inductive outcome := HNone | HPing | HTimeout.

(* ArcIdleConfig::timeout_after *)
Definition timeout_after (c : cfg) (idle_at now : Z) : bool :=
  negb (max_idle c =? 0) && (max_idle c <? now - idle_at).

Definition health_tail (c : cfg) (t : timer) (now : Z) : timer * outcome :=
  match idle_begin t with
  | Some tb => if timeout_after c tb now then (t, HTimeout) else (t, HNone)
  | None => (t, HNone)
  end.

Definition health (c : cfg) (t : timer) (now : Z) : timer * outcome :=
  match last_eff t with
  | Some t0 =>
    let elapsed := now - t0 in
    if defer c <? elapsed then
      match idle_begin t with
      | None => (mktm (hb_times t) (last_eff t) (Some now) (sent_since t), HPing)   (* heartbeat for the last time *)
      | Some _ => health_tail c t now
      end
    else if hb_interval c * (hb_times t + 1) <? elapsed then
      (mktm (hb_times t + 1) (last_eff t) (idle_begin t) (sent_since t), HPing)
    else health_tail c t now
  | None => health_tail c t now
  end.

(* ---------------------------------------------------------------- histories *)
Inductive ev := EAdv (dt : Z) | ESent (c : content) | ERcvd (c : content) | EHealth | ENegotiate (remote : Z).

Record st := mkst { s_now : Z; s_cfg : cfg; s_tm : timer }.

Definition ev_step (s : st) (e : ev) : st * option outcome :=
  match e with
  | EAdv dt => (mkst (s_now s + Z.max dt 0) (s_cfg s) (s_tm s), None)
  | ESent c => (mkst (s_now s) (s_cfg s) (on_sent (s_tm s) c (s_now s)), None)
  | ERcvd c => (mkst (s_now s) (s_cfg s) (on_rcvd (s_tm s) c (s_now s)), None)
  | EHealth => let '(t, o) := health (s_cfg s) (s_tm s) (s_now s) in (mkst (s_now s) (s_cfg s) t, Some o)
  | ENegotiate r => (mkst (s_now s) (negotiate (s_cfg s) (Z.max r 0)) (s_tm s), None)
  end.

Definition ev_exec (s : st) (evs : list ev) : st := fold_left (fun s e => fst (ev_step s e)) evs s.

Definition st_init (m d : Z) : st := mkst 0 (cfg_new m d) timer_new.

(* specification-side bookkeeping, independent of the timer (RFC 9000 10.1): the idle period is
   restarted by a received packet with effective payload and by the FIRST effective packet sent
   after a receive; besides, when was the last packet of any kind received *)
Record ghost := mkgh { g_last_eff : option Z; g_last_rcvd : option Z; g_sent : bool }.
Definition ghost_init : ghost := mkgh None None false.
Definition ghost_step (now : Z) (g : ghost) (e : ev) : ghost :=
  match e with
  | ESent c => if effective c && negb (g_sent g) then mkgh (Some now) (g_last_rcvd g) true else g
  | ERcvd c => mkgh (if effective c then Some now else g_last_eff g) (Some now) false
  | _ => g
  end.
Fixpoint ghost_run (s : st) (g : ghost) (evs : list ev) : ghost :=
  match evs with
  | [] => g
  | e :: r => ghost_run (fst (ev_step s e)) (ghost_step (s_now s) g e) r
  end.

(* nothing is received and nothing is renegotiated: health checks, clock advances and packets WE send,
   whatever they carry (retransmissions included) *)
Definition quiet_ev (e : ev) : bool :=
  match e with
  | EAdv _ | EHealth | ESent _ => true
  | _ => false
  end.
Definition not_eff_send (e : ev) : bool :=
  match e with ESent c => negb (effective c) | _ => true end.

(* the history of F65 under the rule before the repair *)
Definition ev_step_f65 (s : st) (e : ev) : st :=
  match e with
  | ESent c => mkst (s_now s) (s_cfg s) (on_sent_f65 (s_tm s) c (s_now s))
  | _ => fst (ev_step s e)
  end.
Definition ev_exec_f65 (s : st) (evs : list ev) : st := fold_left ev_step_f65 evs s.

(* ---------------------------------------------------------------- the stream *)
Definition content_of (z : Z) : content :=
  if z =? 0 then NonAckEliciting else if z =? 1 then JustPing else EffectivePayload.
Definition MS : Z := 1000.

Definition idle_obs (s : st) (tag : N) (a : list Z) : st * list Z :=
  match tag, a with
  | 1%N, [dt] => let s' := fst (ev_step s (EAdv (dt * MS))) in (s', [s_now s' / MS])
  | 2%N, [c] => (fst (ev_step s (ESent (content_of c))), [0])
  | 3%N, [c] => (fst (ev_step s (ERcvd (content_of c))), [0])
  | 4%N, [] =>
    let '(s', o) := ev_step s EHealth in
    (s', [match o with Some HPing => 1 | Some HTimeout => 2 | _ => 0 end])
  | 5%N, [r] => (fst (ev_step s (ENegotiate (r * MS))), [0])
  | _, _ => (s, [-99])
  end.

Fixpoint idle_run (s : st) (ops : list (N * list Z)) : list (list Z) :=
  match ops with
  | [] => []
  | (t, a) :: r => let '(s', o) := idle_obs s t a in o :: idle_run s' r
  end.

Definition run_idle (cfg : list Z) (ops : list (N * list Z)) : list (list Z) :=
  match cfg with
  | m :: d :: _ => idle_run (st_init (Z.max m 0 * MS) (Z.max d 0 * MS)) ops
  | _ => []
  end.
