(* The loss rule of RFC 9002 6.1 on the repaired code (finding F15 fixed): a packet is reported lost
   only if it is numbered below the largest acknowledged number of its space, and is either at
   least kPacketThreshold = 3 packet NUMBERS below it or older than the time threshold.  The coded
   packet threshold compares deque positions; on a deque whose packet numbers strictly increase
   (an invariant of every history: InvS) three positions are at least three numbers. *)
From Coq Require Import List ZArith Bool Lia Sorted.
From GQ Require Import Model.NewReno Model.LossDetect Model.Pto Proofs.NewReno Proofs.LossDetect Proofs.Pto
  Proofs.CcSteps.
Import ListNotations.
Local Open Scope Z_scope.

(* ------------------------------------------------------------------ *)
(* packet numbers of a deque: strictly increasing, bounded by the last number handed out *)

Definition pn_inv (ps : list pkt) (last : Z) : Prop :=
  StronglySorted Z.lt (map p_pn ps) /\ Forall (fun n => n <= last) (map p_pn ps).

Lemma pn_inv_nil last : pn_inv [] last.
Proof. split; constructor. Qed.

Lemma pn_inv_same ps ps' last : map p_pn ps' = map p_pn ps -> pn_inv ps last -> pn_inv ps' last.
Proof. unfold pn_inv. intros ->. auto. Qed.

Lemma pn_inv_tail a ps last : pn_inv (a :: ps) last -> pn_inv ps last.
Proof.
  intros (A & B). cbn [map] in *. apply StronglySorted_inv in A. inversion B; subst. split; [apply A|assumption].
Qed.

Lemma pn_inv_pop_front ps last : pn_inv ps last -> pn_inv (pop_front ps) last.
Proof.
  induction ps as [|a rest IH]; cbn [pop_front]; [auto|].
  intro H. destruct (is_inflight a); [exact H|]. apply IH. now apply (pn_inv_tail a).
Qed.

Lemma sorted_snoc l n : StronglySorted Z.lt l -> Forall (fun x => x < n) l -> StronglySorted Z.lt (l ++ [n]).
Proof.
  induction l as [|a rest IH]; cbn [app]; intros A B.
  - constructor; constructor.
  - apply StronglySorted_inv in A. destruct A as (A1 & A2). inversion B; subst.
    constructor; [now apply IH|]. apply Forall_app. split; [exact A2|constructor; [assumption|constructor]].
Qed.

Lemma pn_inv_snoc ps last p : pn_inv ps last -> last < p_pn p -> pn_inv (ps ++ [p]) (p_pn p).
Proof.
  intros (A & B) H. unfold pn_inv. rewrite map_app. cbn [map]. split.
  - apply sorted_snoc; [exact A|]. eapply Forall_impl; [|exact B]. cbn. intros; lia.
  - apply Forall_app. split; [eapply Forall_impl; [|exact B]; cbn; intros; lia|constructor; [lia|constructor]].
Qed.

(* positions and numbers on a sorted deque *)
Lemma nth_gap ps : StronglySorted Z.lt (map p_pn ps) ->
  forall i j p q, nth_error ps i = Some p -> nth_error ps j = Some q -> (i <= j)%nat ->
  p_pn p + Z.of_nat (j - i) <= p_pn q.
Proof.
  induction ps as [|a rest IH]; intros Hs i j p q Hi Hj Hle; [destruct i; discriminate|].
  cbn [map] in Hs. apply StronglySorted_inv in Hs. destruct Hs as (S1 & S2).
  destruct i as [|i], j as [|j]; cbn [nth_error] in *.
  - inversion Hi; inversion Hj; subst. cbn. lia.
  - inversion Hi; subst a. destruct rest as [|r0 rest']; [destruct j; discriminate|].
    pose proof (IH S1 0%nat j r0 q eq_refl Hj ltac:(lia)) as G.
    cbn [map] in S2. inversion S2; subst. lia.
  - lia.
  - pose proof (IH S1 i j p q Hi Hj ltac:(lia)) as G. replace (S j - S i)%nat with (j - i)%nat by lia. exact G.
Qed.

Lemma filter_below_none x a rest :
  Forall (Z.lt a) (map p_pn rest) -> x <= a -> filter (fun p => p_pn p <? x) rest = [].
Proof.
  induction rest as [|b rest IH]; cbn [map filter]; [reflexivity|].
  intros H Hx. inversion H; subst. destruct (p_pn b <? x) eqn:E; [apply Z.ltb_lt in E; lia|now apply IH].
Qed.

Lemma below_prefix x ps : StronglySorted Z.lt (map p_pn ps) ->
  forall j, (j < length (filter (fun p => (p_pn p <? x)%Z) ps))%nat ->
  exists q, nth_error ps j = Some q /\ p_pn q < x.
Proof.
  induction ps as [|a rest IH]; intros Hs j Hj; cbn [filter] in Hj; [cbn in Hj; lia|].
  cbn [map] in Hs. apply StronglySorted_inv in Hs. destruct Hs as (S1 & S2).
  destruct (p_pn a <? x) eqn:E.
  - apply Z.ltb_lt in E. destruct j as [|j]; [exists a; split; [reflexivity|exact E]|].
    cbn [length] in Hj. destruct (IH S1 j ltac:(lia)) as (q & Q1 & Q2). exists q. split; assumption.
  - apply Z.ltb_ge in E. rewrite (filter_below_none x (p_pn a) rest S2 E) in Hj. cbn in Hj. lia.
Qed.

(* three deque positions below the position of the largest acknowledged number = at least three
   packet numbers below that number *)
Lemma index_threshold_pn ps x i p :
  StronglySorted Z.lt (map p_pn ps) -> nth_error ps (Z.to_nat i) = Some p -> 0 <= i ->
  i + PACKET_THRESHOLD <= bsearch_idx ps x -> p_pn p + PACKET_THRESHOLD <= x.
Proof.
  unfold bsearch_idx, count_below, PACKET_THRESHOLD. intros Hs Hn Hi Hle.
  set (k := length (filter (fun p0 => p_pn p0 <? x) ps)) in *.
  assert (Hk : i + 3 <= Z.of_nat k) by (destruct (existsb _ ps); lia).
  destruct (below_prefix x ps Hs (k - 1)%nat ltac:(lia)) as (q & Q1 & Q2).
  pose proof (nth_gap ps Hs (Z.to_nat i) (k - 1)%nat p q Hn Q1 ltac:(lia)) as G.
  destruct (existsb _ ps); lia.
Qed.

(* ------------------------------------------------------------------ *)
(* the rule at the detection pass *)

(* repaired code: a reported packet is numbered below the largest acknowledged number recorded in
   the space (there is one), was Inflight, and is older than loss_delay + max_ack_delay or sits at
   least 3 deque positions below the position of that number *)
Lemma p_c13_loss_rule s r ld now s' r' lost pers pn :
  detect_lost true s r ld now = (s', r', lost, pers) -> In pn lost ->
  exists la i p, s_la s = Some la /\ pn < la /\
    nth_error (s_sent s) (Z.to_nat i) = Some p /\ 0 <= i /\ p_pn p = pn /\ is_inflight p = true /\
    (p_time p < now - ld - s_mad s \/ i + PACKET_THRESHOLD <= bsearch_idx (s_sent s) la).
Proof.
  intros Hd Hin. destruct (detect_lost_rule s r ld now s' r' lost pers pn Hd Hin)
    as (la & i & p & L & N & I0 & P & I & R & B).
  exists la, i, p. unfold la_of in L. destruct (s_la s) as [n|]; [subst la|destruct L; discriminate].
  repeat split; auto.
Qed.

(* the code as it was: the same two thresholds, but no comparison with the largest acknowledged
   number for the age disjunct (and 0 standing in for a missing one) *)
Lemma p_c13_loss_rule_asis s r ld now s' r' lost pers pn :
  detect_lost false s r ld now = (s', r', lost, pers) -> In pn lost ->
  exists i p, nth_error (s_sent s) (Z.to_nat i) = Some p /\ 0 <= i /\ p_pn p = pn /\ is_inflight p = true /\
    (p_time p < now - ld - s_mad s \/
     i + PACKET_THRESHOLD <= bsearch_idx (s_sent s) (match s_la s with Some n => n | None => 0 end)).
Proof.
  intros Hd Hin. destruct (detect_lost_rule s r ld now s' r' lost pers pn Hd Hin)
    as (la & i & p & L & N & I0 & P & I & R & B).
  exists i, p. unfold la_of in L.
  assert (la = match s_la s with Some n => n | None => 0 end) by (destruct (s_la s); [exact L|apply L]).
  subst la. repeat split; auto.
Qed.

(* on a deque with strictly increasing numbers: the RFC form *)
Lemma detect_lost_rfc s r ld now s' r' lost pers pn :
  StronglySorted Z.lt (map p_pn (s_sent s)) ->
  detect_lost true s r ld now = (s', r', lost, pers) -> In pn lost ->
  exists la p, s_la s = Some la /\ In p (s_sent s) /\ p_pn p = pn /\ is_inflight p = true /\ pn < la /\
    (pn + PACKET_THRESHOLD <= la \/ p_time p + ld + s_mad s < now).
Proof.
  intros Hs Hd Hin. destruct (p_c13_loss_rule s r ld now s' r' lost pers pn Hd Hin)
    as (la & i & p & L & B & N & I0 & P & I & R).
  exists la, p. split; [exact L|]. split; [now apply nth_error_In in N|]. split; [exact P|]. split; [exact I|].
  split; [exact B|]. destruct R as [R|R]; [right; lia|left].
  subst pn. now apply (index_threshold_pn (s_sent s) la i p).
Qed.

(* ------------------------------------------------------------------ *)
(* Invariant S over histories (both variants) *)

Definition InvS (c : cc) : Prop := forall e, pn_inv (s_sent (c_sp c e)) (c_lastpn c e).

Lemma detect_walk_pns fx la lst ld li ps : forall idx ps' lost lt,
  detect_walk fx la ps idx lst ld li = (ps', lost, lt) -> map p_pn ps' = map p_pn ps.
Proof.
  induction ps as [|p rest IH]; intros idx ps' lost lt Hw; cbn [detect_walk] in Hw.
  - now inversion Hw.
  - destruct (detect_walk fx la rest (idx + 1) lst ld li) as [[rest' lost0] lt0] eqn:Hrec.
    pose proof (IH _ _ _ _ Hrec) as E.
    destruct (is_inflight p && _); [destruct (_ || _)|]; inversion Hw; subst; cbn [map set_st p_pn]; now rewrite E.
Qed.

Section Fx.
Context {fx : bool}.
Local Notation on_packet_sent_core := (@GQ.Proofs.Pto.on_packet_sent_core fx).

Lemma detect_lost_pns s r ld now s' r' lost pers :
  detect_lost fx s r ld now = (s', r', lost, pers) -> map p_pn (s_sent s') = map p_pn (s_sent s).
Proof.
  intros Hd.
  destruct (detect_lost_cases (fx:=fx) s r ld now) as [(la & E & Hla)|(_ & _ & E)]; rewrite E in Hd;
    [|inversion Hd; subst; reflexivity].
  unfold detect_pass in Hd.
  destruct (detect_walk fx la (s_sent s) 0 (now - ld - s_mad s) ld _) as [[ps lost0] lt] eqn:Hw.
  inversion Hd; subst; clear Hd. ccbn. now apply (detect_walk_pns _ _ _ _ _ _ _ _ _ _ Hw).
Qed.

Lemma space_on_ack_pns s r rs s1 r1 res last :
  space_on_ack s r rs = (s1, r1, res) -> pn_inv (s_sent s) last -> pn_inv (s_sent s1) last.
Proof.
  unfold space_on_ack. intros Hd H.
  destruct (s_sent s) as [|p0 ps0] eqn:Es.
  - inversion Hd; subst. now rewrite Es.
  - rewrite <- Es in *. clear Es p0 ps0.
    destruct (ack_walk r (s_sent s) rs) as [[[r0 ps] el] lg] eqn:Ew.
    destruct (ack_walk_states rs _ _ _ _ _ _ Ew) as (_ & _ & _ & A4 & _).
    assert (G : pn_inv (pop_front ps) last) by (apply pn_inv_pop_front; now apply (pn_inv_same (s_sent s))).
    destruct lg; inversion Hd; subst; ccbn; exact G.
Qed.

Lemma cc_on_ack_pns c e largest cev rs ri :
  let c1 := fst (fst (cc_on_ack fx c ri e largest cev rs)) in
  c_lastpn c1 = c_lastpn c /\
  forall x last, pn_inv (s_sent (c_sp c x)) last -> pn_inv (s_sent (c_sp c1 x)) last.
Proof.
  cbn zeta. unfold cc_on_ack.
  assert (Hu : s_sent (update_la (c_sp c e) largest) = s_sent (c_sp c e)) by reflexivity.
  destruct (space_on_ack (update_la (c_sp c e) largest) (c_reno c) rs) as [[s1 r1] res] eqn:Ea.
  assert (N : forall last, pn_inv (s_sent (c_sp c e)) last -> pn_inv (s_sent s1) last).
  { intros last H. apply (space_on_ack_pns _ _ _ _ _ _ last Ea). now rewrite Hu. }
  destruct res as [[el [ln lt]]|].
  - destruct (detect_lost fx s1 _ (i_ld ri) (c_now c)) as [[[s2 r3] lost] pers] eqn:Ed. cbn [fst].
    match goal with |- context [set_loss_detection_timer ?x ri] =>
      destruct (sldt_same x ri) as (A & B & C & D & E & _) end.
    rewrite E.
    assert (B' : c_sp (set_loss_detection_timer
                  (if peer_completed (with_reno_sp c r3 e s2) then with_pto_count (with_reno_sp c r3 e s2) 0
                   else with_reno_sp c r3 e s2) ri) = fset (c_sp c) e s2)
      by (rewrite B; destruct (peer_completed _); reflexivity).
    rewrite B'. split; [destruct (peer_completed _); reflexivity|].
    intros x last. unfold fset. destruct (x =? e) eqn:Ex; [|auto]. apply Z.eqb_eq in Ex; subst x.
    intro H. apply (pn_inv_same (s_sent s1)); [now apply (detect_lost_pns _ _ _ _ _ _ _ _ Ed)|now apply N].
  - cbn [fst]. ccbn. split; [reflexivity|]. intros x last. unfold fset.
    destruct (x =? e) eqn:Ex; [|auto]. apply Z.eqb_eq in Ex; subst x. apply N.
Qed.

Lemma timeout_pns c ri :
  let c1 := fst (fst (on_loss_detection_timeout fx c ri)) in
  c_lastpn c1 = c_lastpn c /\
  forall x last, pn_inv (s_sent (c_sp c x)) last -> pn_inv (s_sent (c_sp c1 x)) last.
Proof.
  cbn zeta. unfold on_loss_detection_timeout.
  destruct (get_loss_time_and_epoch c) as [[t e]|].
  - destruct (detect_lost fx (c_sp c e) (c_reno c) (i_ld ri) (c_now c)) as [[[s r] lost] pers] eqn:Ed. cbn [fst].
    match goal with |- context [set_loss_detection_timer ?x ri] =>
      destruct (sldt_same x ri) as (A & B & C & D & E & _) end.
    rewrite B, E. ccbn. split; [reflexivity|]. intros x last. unfold fset.
    destruct (x =? e) eqn:Ex; [|auto]. apply Z.eqb_eq in Ex; subst x.
    apply pn_inv_same. now apply (detect_lost_pns _ _ _ _ _ _ _ _ Ed).
  - cbn [fst].
    match goal with |- context [set_loss_detection_timer ?x ri] =>
      destruct (sldt_same x ri) as (A & B & C & D & E & _) end.
    rewrite B, E. destruct (all_no_elic c); [ccbn; split; [reflexivity|auto]|].
    destruct (get_pto_time_and_epoch c ri) as (r, p). destruct r as [[t e]|]; ccbn; split; auto.
Qed.

Lemma InvS_discard c ri e : InvS c -> InvS (discard_epoch c ri e).
Proof.
  intros H x. destruct (discard_epoch_core c ri e) as (_ & B & _ & _ & L & _). rewrite B, L.
  unfold fset. destruct (x =? e); [apply pn_inv_nil|apply H].
Qed.

Lemma InvS_step c ri o : InvS c -> InvS (fst (cc_step fx c ri o)).
Proof.
  intros H. destruct o; cbn [cc_step].
  - destruct (sent_ok c e pn elic infl bytes) eqn:Es; [|exact H]. cbn [fst].
    assert (Hpn : c_lastpn c e < pn).
    { unfold sent_ok in Es. apply andb_true_iff in Es. destruct Es as (Es & _).
      apply andb_true_iff in Es. destruct Es as (Es & _). apply andb_true_iff in Es. destruct Es as (Es & _).
      now apply Z.ltb_lt in Es. }
    destruct (on_packet_sent_core (with_lastpn c e pn) ri e pn elic infl bytes) as (_ & B & C & _ & _ & _ & L & _).
    set (c1 := on_packet_sent fx (with_lastpn c e pn) ri e pn elic infl bytes) in *.
    assert (H1 : InvS c1).
    { intro x. rewrite L. ccbn. unfold fset. destruct (x =? e) eqn:Ex.
      - apply Z.eqb_eq in Ex; subst x. rewrite C. ccbn.
        apply (pn_inv_snoc _ (c_lastpn c e) (mkpkt pn (c_now c) elic infl bytes Inflight)); [apply H|exact Hpn].
      - rewrite (B x Ex). ccbn. apply H. }
    destruct ((e =? 1) && negb (c_server c1)); [now apply InvS_discard|exact H1].
  - destruct (ack_ok rs); [|exact H].
    destruct (cc_on_ack_pns c e (fst (hd (0, 0) rs)) cev rs ri) as (L & P).
    destruct (cc_on_ack fx c ri e (fst (hd (0, 0) rs)) cev rs) as [[c1 lost] pers]. cbn [fst] in *.
    assert (H1 : InvS c1) by (intro x; rewrite L; apply P; apply H).
    destruct ((e =? 1) && c_server c1); [now apply InvS_discard|exact H1].
  - exact H.
  - destruct (timeout_pns c ri) as (L & P).
    destruct (match c_timer c with Some t => t <=? c_now c | None => false end).
    + destruct (on_loss_detection_timeout fx c ri) as [[c1 lost] pers]. cbn [fst] in *.
      assert (H1 : InvS c1) by (intro x; rewrite L; apply P; apply H).
      cbn [andb]. destruct (6 <? c_pto_count c1); [exact H1|].
      destruct (c_pending_burst c1); [|exact H1].
      unfold cc_send_quota. destruct (pacer_schedule _ _ _ _ _) as (p, q). cbn [fst].
      destruct (c_mtu _ <=? _); exact H1.
    + cbn [andb]. destruct (c_pending_burst c); [|exact H].
      unfold cc_send_quota. destruct (pacer_schedule _ _ _ _ _) as (p, q). cbn [fst].
      destruct (c_mtu _ <=? _); exact H.
  - destruct (which =? 0); [|destruct (which =? 1)]; exact H.
  - destruct ((0 <=? e) && (e <=? 1)); [|exact H]. cbn [fst]. now apply InvS_discard.
  - unfold cc_send_quota. destruct (pacer_schedule _ _ _ _ _) as (p, q).
    destruct (c_mtu _ <=? _); exact H.
  - exact H.
  - exact H.
Qed.

Theorem reach_InvS c : reach fx c -> InvS c.
Proof.
  induction 1; [|now apply InvS_step].
  intro e. unfold cc_new. ccbn. destruct (e =? 2); apply pn_inv_nil.
Qed.

End Fx.

(* ------------------------------------------------------------------ *)
(* the rule over histories of the repaired code *)

Lemma detect_lost_la fx s r ld now s' r' lost pers :
  detect_lost fx s r ld now = (s', r', lost, pers) -> s_la s' = s_la s /\ s_mad s' = s_mad s.
Proof.
  intros Hd.
  destruct (detect_lost_cases (fx:=fx) s r ld now) as [(la & E & Hla)|(_ & _ & E)]; rewrite E in Hd;
    [|inversion Hd; subst; split; reflexivity].
  unfold detect_pass in Hd.
  destruct (detect_walk fx la (s_sent s) 0 (now - ld - s_mad s) ld _) as [[ps lost0] lt].
  inversion Hd; subst. split; reflexivity.
Qed.

Lemma space_on_ack_fields s r rs s1 r1 res :
  space_on_ack s r rs = (s1, r1, res) ->
  s_la s1 = s_la s /\ s_mad s1 = s_mad s /\
  (forall q, In q (s_sent s1) -> is_inflight q = true -> In q (s_sent s)).
Proof.
  unfold space_on_ack. intro Hd.
  destruct (s_sent s) as [|p0 ps0] eqn:Es.
  - inversion Hd; subst. rewrite Es. repeat split; auto.
  - rewrite <- Es in *. clear Es p0 ps0.
    destruct (ack_walk r (s_sent s) rs) as [[[r0 ps] el] lg] eqn:Ew.
    destruct (ack_walk_states rs _ _ _ _ _ _ Ew) as (_ & _ & A3 & _).
    assert (G : forall q, In q (pop_front ps) -> is_inflight q = true -> In q (s_sent s))
      by (intros q Hq Hi; apply A3; [now apply pop_front_incl|exact Hi]).
    destruct lg; inversion Hd; subst; ccbn; repeat split; auto.
Qed.

(* what one report of a detection pass means, in terms of the space before the operation *)
Definition rfc_lost (s : space) (la : option Z) (ld now pn : Z) : Prop :=
  exists n p, la = Some n /\ pn < n /\ In p (s_sent s) /\ p_pn p = pn /\ is_inflight p = true /\
    (pn + PACKET_THRESHOLD <= n \/ p_time p + ld + s_mad s < now).

Lemma cc_on_ack_rfc c ri e largest cev rs : InvS c ->
  let '(c1, lost, pers) := cc_on_ack true c ri e largest cev rs in
  forall pn, In pn lost -> rfc_lost (c_sp c e) (s_la (c_sp c1 e)) (i_ld ri) (c_now c) pn.
Proof.
  intro HS. unfold cc_on_ack.
  assert (Hu : s_sent (update_la (c_sp c e) largest) = s_sent (c_sp c e)) by reflexivity.
  assert (Hm : s_mad (update_la (c_sp c e) largest) = s_mad (c_sp c e)) by reflexivity.
  destruct (space_on_ack (update_la (c_sp c e) largest) (c_reno c) rs) as [[s1 r1] res] eqn:Ea.
  destruct (space_on_ack_fields _ _ _ _ _ _ Ea) as (F1 & F2 & F3). rewrite Hu in F3. rewrite Hm in F2.
  destruct res as [[el [ln lt]]|]; [|intros pn []].
  destruct (detect_lost true s1 _ (i_ld ri) (c_now c)) as [[[s2 r3] lost] pers] eqn:Ed.
  destruct (detect_lost_la _ _ _ _ _ _ _ _ _ Ed) as (L1 & L2).
  match goal with |- context [set_loss_detection_timer ?x ri] =>
    destruct (sldt_same x ri) as (A & B & _) end.
  assert (B' : c_sp (set_loss_detection_timer
                (if peer_completed (with_reno_sp c r3 e s2) then with_pto_count (with_reno_sp c r3 e s2) 0
                 else with_reno_sp c r3 e s2) ri) = fset (c_sp c) e s2)
    by (rewrite B; destruct (peer_completed _); reflexivity).
  rewrite B'. unfold fset. rewrite Z.eqb_refl. rewrite L1.
  intros pn Hin.
  assert (Hs1 : StronglySorted Z.lt (map p_pn (s_sent s1))).
  { apply (space_on_ack_pns _ _ _ _ _ _ (c_lastpn c e) Ea). rewrite Hu. apply HS. }
  destruct (detect_lost_rfc _ _ _ _ _ _ _ _ pn Hs1 Ed Hin) as (la & p & G1 & G2 & G3 & G4 & G5 & G6).
  exists la, p. rewrite <- F2. repeat split; auto.
Qed.

Lemma timeout_rfc c ri : InvS c ->
  let '(c1, lost, pers) := on_loss_detection_timeout true c ri in
  forall e pn, In (e, pn) lost -> rfc_lost (c_sp c e) (s_la (c_sp c1 e)) (i_ld ri) (c_now c) pn.
Proof.
  intro HS. unfold on_loss_detection_timeout.
  destruct (get_loss_time_and_epoch c) as [[t e]|].
  - destruct (detect_lost true (c_sp c e) (c_reno c) (i_ld ri) (c_now c)) as [[[s r] lost] pers] eqn:Ed.
    destruct (detect_lost_la _ _ _ _ _ _ _ _ _ Ed) as (L1 & L2).
    match goal with |- context [set_loss_detection_timer ?x ri] =>
      destruct (sldt_same x ri) as (A & B & _) end.
    rewrite B. ccbn. intros e0 pn Hin. apply in_map_iff in Hin. destruct Hin as (pn0 & Hq & Hin).
    inversion Hq; subst. unfold fset. rewrite Z.eqb_refl. rewrite L1.
    destruct (detect_lost_rfc _ _ _ _ _ _ _ _ pn (proj1 (HS e0)) Ed Hin) as (la & p & G).
    destruct G as (G1 & G2 & G3 & G4 & G5 & G6). exists la, p. repeat split; auto.
  - intros e pn [].
Qed.

(* c13_loss_needs_later_ack: whatever the history, the operation and the RTT inputs, every packet
   the repaired controller reports lost (the argument of Feedback::may_loss) was Inflight in its
   space, is numbered below the largest acknowledged number [n] of that space — so a later packet
   HAS been acknowledged — and is at least three packet numbers below [n] or was sent more than
   loss_delay + max_ack_delay ago *)
Lemma p_c13_loss_needs_later_ack c ri o e pn : reach true c ->
  In (e, pn) (o_lost (snd (cc_step true c ri o))) ->
  rfc_lost (c_sp c e) (s_la (c_sp (fst (cc_step true c ri o)) e)) (i_ld ri) (c_now c) pn.
Proof.
  intros Hr Hin. pose proof (reach_InvS c Hr) as HS. destruct o; cbn [cc_step] in *.
  - destruct (sent_ok _ _ _ _ _ _); destruct Hin.
  - destruct (ack_ok rs); [|destruct Hin].
    pose proof (cc_on_ack_rfc c ri e0 (fst (hd (0, 0) rs)) cev rs HS) as X.
    destruct (cc_on_ack true c ri e0 (fst (hd (0, 0) rs)) cev rs) as [[c1 lost] pers].
    cbn [fst snd o_lost] in *.
    apply in_map_iff in Hin. destruct Hin as (pn0 & Hq & Hin). inversion Hq; subst.
    specialize (X pn Hin).
    destruct ((e =? 1) && c_server c1) eqn:Ec; [|exact X].
    apply andb_true_iff in Ec. destruct Ec as (Ec & _). apply Z.eqb_eq in Ec. subst e.
    destruct (discard_epoch_core c1 ri 0) as (_ & B & _). rewrite B. unfold fset. cbn [Z.eqb]. exact X.
  - destruct Hin.
  - pose proof (timeout_rfc c ri HS) as X.
    destruct (match c_timer c with Some t => t <=? c_now c | None => false end).
    + destruct (on_loss_detection_timeout true c ri) as [[c1 lost] pers]. cbn [andb] in *.
      destruct (6 <? c_pto_count c1); [cbn [fst snd o_lost] in *; ccbn; now apply X|].
      destruct (c_pending_burst c1); [|cbn [fst snd o_lost] in *; now apply X].
      unfold cc_send_quota in *. destruct (pacer_schedule _ _ _ _ _) as (p, q). cbn [fst snd o_lost] in *.
      destruct (c_mtu _ <=? _); cbn [fst snd o_lost] in *; ccbn; now apply X.
    + cbn [andb] in *. destruct (c_pending_burst c); [|destruct Hin].
      destruct (cc_send_quota c ri) as (c2, q). destruct (c_mtu c2 <=? q); destruct Hin.
  - destruct Hin.
  - destruct (_ && _); destruct Hin.
  - destruct (cc_send_quota c ri) as (c1, q). destruct (c_mtu c1 <=? q); destruct Hin.
  - destruct Hin.
  - destruct Hin.
Qed.
