"""C17 — closing or failing a connection ends every pending operation."""
import itertools
import json
import os

import extract_state
from vlib import Case, ROOT

PROP_FILE = "Properties/C17.v"
RULE = ("connstate: every sequential order (= every schedule at method granularity) of update/enter_handshaked/enter_closing/"
        "enter_draining calls with distinct error ids, observed through current()/terminated()/handshaked(); exhaustive to length 3 "
        "(quick) / 5 (thorough) plus random longer ones; non-trivial = two or more closers race or an update tries to move backwards. "
        "connerr: histories over streams (open/accept/write/flush/shutdown/read), datagrams, parameters and flow control with "
        "operations of every kind left pending, the connection error injected at EVERY position of the history (also twice with "
        "different errors = closes racing from both sides), followed by one later operation of every kind; the error also RACING a poll of open/accept (op 24: the poll is "
        "stalled inside its critical section on a second thread while the fan-out runs on a third - the one schedule of poll vs close that no "
        "sequential history expresses), exhaustively over role x 0-RTT memory x handshake x stream limit used up or not x kind of poll, and in place "
        "of the plain error in a share of the histories; non-trivial = at least two "
        "different kinds of operation pending when the error strikes. idle: effective payload, then health checks every 10 ms and at "
        "defer / defer+max_idle -1, +0, +1 ms, with non-effective packets in between and renegotiated max_idle; non-trivial = a health "
        "check within 1 ms of a boundary. connend: REAL client and server endpoints (dquic over the in-memory network, paused time); "
        "operations of nine kinds (open_bi/uni, accept_bi/uni, datagram recv, datagram_writer, handshaked, terminated, stream read) "
        "started in every subset position (before the handshake, after it, after the end) on both endpoints; the connection ended by the "
        "server refusing the client at the ClientHello, by a local close during the handshake, by either application closing an "
        "established connection (short or long after the operations started), by both closing at once, or not at all; then one later "
        "operation of every kind on both endpoints; non-trivial = the connection is ended with at least two kinds of operation started "
        "before on one endpoint. Distinct by hash of cfg + op list.")
TRUSTED_BASE = ["coq/Generated/StateTable.v (state codes, enter_* targets, the update comparison) is regenerated from "
                "qconnection/src/state.rs and events.rs by tools/extract_state.py on every run (fail closed)",
                "the connerr harness plays the executor: a parked task is re-polled only after its own counting waker fired",
                "connerr op 24 (a poll racing the close) uses two OS threads and forces ONE schedule: the poll is stalled on the "
                "ArcParameters lock the harness holds, the fan-out runs until its thread sleeps in the kernel (state S in "
                "/proc/<pid>/task/<tid>/stat = blocked on a guard) or finishes, then the lock is released; other schedules of the two "
                "threads are covered by the sequential histories (poll first / close first) and by the proof at lock granularity",
                "connend: the stack between the two applications (TLS, packets, timers, tokio) is exercised, not modelled; the model "
                "predicts only which application operation completes at which observation point and how; the generator keeps every "
                "observation either < 5 ms (nothing crossed the 5 ms link) or >= 500 ms (everything settled) after an event"]
MODELLED = ("qconnection/src/state.rs ArcConnState (atomic granularity, any number of racing callers); qbase/src/time.rs IdleConfig/"
            "IdleTimer; the poisoning pattern of qrecovery DataStreams (output/input/listener, Outgoing/Incoming/Writer/Reader, "
            "LocalStreamIds wakers), qdatagram DatagramFlow, qbase ArcParameters and FlowController with every waker slot explicit. "
            "qconnection::Components::enter_closing / enter_draining end to end at the level of application-visible completions "
            "(Model/ConnEnd.v; driven through the real dquic client and server, TLS handshake object's on_conn_error included). "
            "NOT modelled (level partial): tokio::spawn of the closing/draining timers and of send_ccf_packets, Terminator, "
            "RcvdPacketQueue::close_all, path teardown, real sockets; try_entry_attempted is modelled "
            "but not driven (it needs a full Components); FlowController::on_conn_error is modelled and driven although nothing in "
            "qconnection calls it")
ASSUMPTIONS = ["Event::Terminated is emitted only by the timer spawned in Components::enter_closing/enter_draining, i.e. after the "
               "state word reached the closing code (guard of CTerminated)",
               "apart from Event::Terminated the code base never calls ArcConnState::update directly with a closing-or-later state",
               "one task per single-waker slot (a Writer/Reader/accept future is polled by one task at a time, as &mut self enforces)",
               "SetOnce::set, AtomicU8 load/compare_exchange and each Mutex-protected section are atomic steps"]
MANIFEST = {
    "text": "Machine-checked Coq theorems (Properties/C17.v). c17_monotone: in the atomic-granularity model of ArcConnState (load / compare_exchange / SetOnce::set are single steps, any number of racing update / enter_handshaked / enter_closing / enter_draining / Terminated callers, every schedule) the state word never decreases, and the codes regenerated from state.rs are ordered attempted < handshake_confirmed < closing < draining < closed. c17_error_once: under every schedule no expect()/unreachable!() fires, the terminating error never changes once set, it is set only at/after the closing code and is set whenever the word reached the closing code and no step is pending. c17_release: after on_conn_error e every task registered in any waker slot (senders' write/flush/shutdown, receivers' read, listener bi/uni, stream-id waiters, parameter waiters, datagram reader) has a pending wake and no slot keeps a sleeper; in every later state every open/accept/datagram/parameter operation returns e, every stream read/write/flush/shutdown returns e or the stream half's own terminal result, none is Pending, no write or datagram is accepted, nothing is emitted and no receive buffer grows. c17_idle_not_before / c17_idle_after (RFC 9000 10.1 terms, repaired IdleTimer): health() answers TimeOut only if the last restart of the idle period (a received effective packet, or the FIRST effective packet sent after a receive) is older than defer+max_idle and no packet at all arrived for max_idle, and always answers TimeOut once a health check has seen defer exceeded and more than max_idle passed with nothing received - whatever is sent meanwhile (retransmission does not postpone the timeout; c17_idle_retransmit_regression keeps the pre-F65 rule as a refuted example). c17_update_public: update() of every public state constant (CLOSED included, F40 repaired) is total and a forward move. c17_flag_constant: no operation writes the model's fix flag; c17_pending_registers: a Pending poll leaves its task in a waker slot. c17_release_all lifts this to whole histories: any error-free history, then the error, then any further history of any operations (a second racing error included) leaves the connection poisoned with the first error. c17_race_release: the close racing a poll of open/accept that is already inside its critical section (lock-section granularity; everything the fan-out does to the stream tables, the listener and the stream-id waiters is under the guards the poll holds): the poll answers against the healthy state, and if it parked, the close wakes it; the harness forces this schedule on the real DataStreams with two threads. c17_end_all / c17_end_codes (Model/ConnEnd.v, both endpoints end to end): after any history, at every observation point no operation is left pending on an endpoint whose terminated() has resolved, completions there carry the terminating error, and the endpoint stays terminated; the REAL dquic client and server are driven with the same histories (server refusing the client during the handshake, local close during the handshake, either side closing an established connection, both at once) and must answer as the model. The as-is tree's F23 (pending open_bi/open_uni not woken) is kept as c17_release_refuted + the conditional theorem; the default workspace verifies the repaired tree. Models and the real ArcConnState / DataStreams+DatagramFlow+FlowController+ArcParameters / IdleTimer / dquic endpoints are driven with the same histories every run, the connection error at every position.",
    "note": "Level partial by design: task spawning (tokio::spawn of the closing/draining timers, send_ccf_packets), the Terminator, RcvdPacketQueue::close_all, path teardown and real sockets are runtime behaviour the model does not exhibit (the connend stream exercises them on real endpoints but proves nothing about them). ArcConnState is driven at method granularity only (atomic interleavings are covered by the proof, not by execution). Trusted: Coq kernel, table translator, extraction, harness (which plays the executor), Python oracle.",
    "technique": "Coq proof (inductive invariant over all interleavings of a small-step atomic model; structural lemmas over the poisoned components; invariant over timer histories) tied by a regenerated state table + differential correspondence on four streams (one of them on real client/server endpoints, one with a forced two-thread schedule)",
    "level": "partial",
}


def regen():
    extract_state.regen()


# ======================================================================================== connstate
CODES = [1, 2, 3, 4, 5, 6, 7, 8, 9, 9]  # index -> code as the harness orders the states; index 9 = the CLOSED constant (= closed)


def cs_ops_alphabet():
    return [(1, [0]), (1, [5]), (1, [6]), (1, [8]), (1, [9]), (2, []), (3, [5]), (3, [101]), (4, [6]), (4, [102]), (5, []), (6, []), (7, [])]


def cs_probe():
    return [(5, []), (6, []), (7, [])]


def gen_connstate(rng, tier):
    cases = []
    alpha = cs_ops_alphabet()
    maxlen = 3 if tier == "quick" else 4
    mut = [a for a in alpha if a[0] in (1, 2, 3, 4)]
    n = 0
    for L in range(1, maxlen + 1):
        for seq in itertools.product(mut, repeat=L):
            ops = []
            for o in seq:
                ops.append(o)
                ops += cs_probe()
            cases.append(Case("x%d" % n, ops))
            n += 1
    nrand = 1500 if tier == "quick" else 30000
    for i in range(nrand):
        L = rng.randint(2, 12)
        ops = []
        eid = rng.randint(1, 60)
        for _ in range(L):
            r = rng.random()
            if r < 0.25:
                ops.append((1, [rng.choice([0, 1, 2, 3, 4, 5, 6, 7, 8, 8, 9])]))
            elif r < 0.35:
                ops.append((2, []))
            elif r < 0.5:
                eid += 1
                ops.append((3, [eid if rng.random() < 0.5 else 100 + eid]))
            elif r < 0.65:
                eid += 1
                ops.append((4, [eid if rng.random() < 0.5 else 100 + eid]))
            else:
                ops.append(rng.choice(cs_probe()))
        ops += cs_probe()
        cases.append(Case("r%d" % i, ops))
    return cases


def ints(line):
    return [int(x) for x in line.split()]


def oracle_connstate(case, obs):
    if len(obs) != len(case.ops):
        return "length: %d observations for %d ops (%s)" % (len(obs), len(case.ops), obs[-1] if obs else "")
    for k, line in enumerate(obs):
        if line.startswith("!"):
            return "abnormal: op %d -> %s" % (k, line)
    cur_lo = 0            # a lower bound of the state code known from what the implementation answered
    term = None           # error id that must be the terminating error
    hs = False
    for k, ((tag, args), line) in enumerate(zip(case.ops, obs)):
        v = ints(line)
        if tag in (1, 2, 3, 4):
            if v == [-9]:
                return "panic: op %d (%s %s) panicked" % (k, tag, args)
            if v[0] != -1:
                old = v[0]
                if old < cur_lo and not (cur_lo == 0):
                    return "backwards: op %d reports previous state %d after state %d was reached" % (k, old, cur_lo)
                new = {1: CODES[min(args[0], 9)] if tag == 1 else None, 2: 6, 3: 7, 4: 8}[tag]
                if new is None or new <= old and not (old == 1 and cur_lo == 0):
                    return "backwards: op %d moved the state from %s to %s" % (k, old, new)
                if new < cur_lo:
                    return "backwards: op %d moved the state to %d below %d" % (k, new, cur_lo)
                cur_lo = new
                if tag == 2:
                    hs = True
                if tag in (3, 4) and term is None and not (tag == 4 and old == 7):
                    term = args[0]
                if tag == 1 and new >= 7 and term is None:
                    term = "unset"      # bare update() past closing: the error is never set (outside the real call set)
        elif tag == 5:
            if v[0] < cur_lo:
                return "backwards: current() = %d after %d was reached" % (v[0], cur_lo)
            cur_lo = v[0]
        elif tag == 6:
            if term in (None, "unset"):
                if v != [0]:
                    return "error-early: terminated() resolved (%s) although no close happened" % v
            elif v != [1, term]:
                return "error-once: terminated() = %s, the terminating error must be %s" % (v, term)
        elif tag == 7:
            t = None if term in (None, "unset") else term
            want = [0] if (not hs and t is None) else [1] if (hs and t is None) else [2, t] if not hs else [3, t]
            if v != want:
                return "handshaked: %s, expected %s" % (v, want)
    return None


def nontrivial_connstate(case):
    closers = sum(1 for t, a in case.ops if t in (3, 4))
    ups = [CODES[min(a[0], 9)] for t, a in case.ops if t == 1]
    backwards = any(ups[i] >= ups[j] for i in range(len(ups)) for j in range(i + 1, len(ups)))
    return closers >= 2 or backwards or (closers >= 1 and any(t == 1 for t, _ in case.ops))


def hist_connstate(case):
    names = {1: "update", 2: "handshaked", 3: "closing", 4: "draining", 5: "current", 6: "terminated", 7: "handshaked?"}
    out = [names[t] for t, _ in case.ops if t in (1, 2, 3, 4)]
    out.append("closers:%d" % min(3, sum(1 for t, _ in case.ops if t in (3, 4))))
    return out


def mutate_connstate(rng, case, j):
    ops = list(case.ops)
    if ops and rng.random() < 0.7:
        i = rng.randrange(len(ops))
        ops.insert(i, rng.choice(cs_ops_alphabet()))
    else:
        ops.append(rng.choice(cs_ops_alphabet()))
    return Case("m%d" % j, ops + cs_probe())


# ======================================================================================== idle
def neg(local, remote):
    if remote == 0:
        return local
    if local == 0:
        return remote
    return min(local, remote)


def gen_idle(rng, tier):
    cases = []
    n = 0
    cfgs = [(100, 50), (100, 0), (30, 20), (0, 40), (2000, 1000), (65, 7)]
    for (m, d) in cfgs:
        for delta1 in (-1, 0, 1, 2):
            for delta2 in (-1, 0, 1, 2):
                for noise in (0, 1, 2, 3):
                    ops = [(2, [2]), (4, [])]
                    ops += [(1, [max(0, d + delta1)]), (4, []), (1, [1]), (4, []), (1, [1]), (4, [])]
                    if noise == 1:
                        ops += [(2, [0])]
                    elif noise == 2:
                        ops += [(3, [0])]
                    elif noise == 3:
                        ops += [(5, [max(1, m // 2)])]
                    ops += [(1, [max(0, m + delta2 - 2)]), (4, []), (1, [1]), (4, []), (1, [1]), (4, []), (1, [1]), (4, []), (1, [1]), (4, [])]
                    cases.append(Case("b%d" % n, ops, cfg=[m, d]))
                    n += 1
    # retransmission into a dead network (F65): effective packets every `gap` ms, nothing received,
    # health checks every 10 ms and at the boundary -1 / +0 / +1 ms; optionally one receive in the middle
    for (m, d) in [(20, 0), (100, 50), (30, 20), (250, 10)]:
        for gap in (1, 3, 5, 9):
            for rcv in (None, 0, 2):
                for delta in (-1, 0, 1, 2):
                    ops = [(2, [2]), (1, [d + 1]), (4, [])]          # first send, defer seen exceeded
                    t = 0
                    while t + gap < m + delta:
                        ops += [(1, [gap]), (2, [2])]
                        t += gap
                        if t % 10 < gap:
                            ops.append((4, []))
                        if rcv is not None and m // 2 <= t < m // 2 + gap:
                            ops.append((3, [rcv]))
                    ops += [(1, [max(0, m + delta - t)]), (4, []), (1, [1]), (2, [2]), (4, []), (1, [1]), (4, [])]
                    cases.append(Case("t%d" % n, ops, cfg=[m, d]))
                    n += 1
    nrand = 1500 if tier == "quick" else 40000
    for i in range(nrand):
        m = rng.choice([0, 20, 30, 100, 101, 250, 2000, 4000])
        d = rng.choice([0, 10, 15, 50, 1000])
        ops = []
        for _ in range(rng.randint(5, 40)):
            r = rng.random()
            if r < 0.4:
                ops.append((1, [rng.choice([1, 1, 2, 5, 9, 10, 10, 10, 11, 30, 100, d, m, d + m, d + 1, m + 1, max(0, m - 1), 500, 1000])]))
                ops.append((4, []))
            elif r < 0.55:
                ops.append((2, [rng.choice([0, 1, 2, 2])]))
            elif r < 0.7:
                ops.append((3, [rng.choice([0, 1, 2])]))
            elif r < 0.75:
                ops.append((5, [rng.choice([0, 10, 40, 100, 3000])]))
            else:
                ops.append((4, []))
        cases.append(Case("r%d" % i, ops, cfg=[m, d]))
    return cases


def idle_walk(case):
    """replays the history on the SPECIFICATION side (RFC 9000 10.1 with the defer extension of the code):
    the idle period is restarted by a received packet carrying effective payload and by the FIRST effective
    packet sent after a receive; later sends (retransmissions into a dead network) do not restart it.
    yields (k, tag, args, now, t0 = last restart, last_rcvd, max_idle, defer, armed_at)"""
    m, d = int(case.cfg[0]), int(case.cfg[1])
    now, t0, lr, armed, sent_since_rcvd = 0, None, None, None, False
    for k, (tag, args) in enumerate(case.ops):
        if tag == 1:
            now += args[0]
        elif tag == 2:
            if args[0] >= 2 and not sent_since_rcvd:
                sent_since_rcvd = True
                t0, armed = now, None
        elif tag == 3:
            lr = now
            sent_since_rcvd = False
            armed = None            # any received packet may restart the idle period
            if args[0] >= 2:
                t0 = now
        elif tag == 5:
            m = neg(m, args[0])
            armed = None            # the bound changed: start counting again at the next health check
        yield k, tag, args, now, t0, lr, m, d, armed
        if tag == 4 and t0 is not None and now - t0 > d and armed is None:
            armed = now             # a health check has seen defer exceeded; nothing received from here on
    return


def oracle_idle(case, obs):
    if len(obs) != len(case.ops):
        return "length: %d observations for %d ops (%s)" % (len(obs), len(case.ops), obs[-1] if obs else "")
    for k, line in enumerate(obs):
        if line.startswith("!"):
            return "abnormal: op %d -> %s" % (k, line)
    for (k, tag, args, now, t0, lr, m, d, armed) in idle_walk(case):
        v = ints(obs[k])
        if tag == 1 and v != [now]:
            return "clock: op %d reports %s ms, expected %d" % (k, v, now)
        if tag == 4:
            if v == [2]:
                if m == 0:
                    return "early: op %d TimeOut although idle timeout is disabled" % k
                if t0 is None or not (now - t0 > d + m):
                    return "early: op %d TimeOut at %d ms, idle period last restarted at %s, defer %d + max_idle %d" % (k, now, t0, d, m)
                if lr is not None and not (now - lr > m):
                    return "early: op %d TimeOut at %d ms although a packet was received at %d (max_idle %d)" % (k, now, lr, m)
            elif armed is not None and m != 0 and now - armed > m:
                return "late: op %d at %d ms answers %s: defer was seen exceeded at %d ms and max_idle %d has passed with nothing received (sending does not postpone the timeout)" % (k, now, v, armed, m)
    return None


def nontrivial_idle(case):
    eff_since_rcvd = 0
    for tag, args in case.ops:
        if tag == 3:
            eff_since_rcvd = 0
        elif tag == 2 and args[0] >= 2:
            eff_since_rcvd += 1
            if eff_since_rcvd >= 3 and any(t == 4 for t, _ in case.ops):
                return True
    for (k, tag, args, now, t0, lr, m, d, armed) in idle_walk(case):
        if tag == 4 and t0 is not None:
            if abs(now - t0 - d) <= 1:
                return True
            if armed is not None and abs(now - armed - m) <= 1:
                return True
    return False


def hist_idle(case):
    names = {1: "adv", 2: "sent", 3: "rcvd", 4: "health", 5: "negotiate"}
    out = sorted(set(names[t] for t, _ in case.ops))
    out.append("max_idle:%s" % ("0" if int(case.cfg[0]) == 0 else "set"))
    return out


def mutate_idle(rng, case, j):
    ops = list(case.ops)
    i = rng.randrange(len(ops) + 1)
    ops.insert(i, rng.choice([(1, [1]), (4, []), (3, [0]), (2, [1]), (1, [rng.randint(1, 120)])]))
    return Case("m%d" % j, ops + [(1, [1]), (4, [])], cfg=case.cfg)


# ======================================================================================== connerr
TASK_TAGS = (1, 2, 3, 4, 5, 6, 7, 10)
NAMES = {0: "handshake", 1: "open", 2: "accept", 3: "write", 4: "flush", 5: "shutdown", 6: "read", 7: "dgrecv", 8: "dgsend",
         10: "pready", 24: "RACE", 11: "peeropen", 12: "data", 13: "fingap", 14: "preset", 15: "pstop", 16: "maxsd", 17: "maxstreams",
         18: "load", 19: "ack", 20: "dgram", 21: "CONNERR", 22: "FLOWERR", 23: "credit"}


def sids_for(role):
    ours = [0 + role, 4 + role, 2 + role, 6 + role]            # bi0 bi1 uni0 uni1
    peer = [0 + (1 - role), 4 + (1 - role), 2 + (1 - role)]     # bi0 bi1 uni0
    return ours, peer


def probe_suite(role):
    ours, peer = sids_for(role)
    return [(1, [0]), (1, [1]), (2, [0]), (2, [1]), (3, [ours[0], 3]), (4, [ours[0]]), (5, [ours[0]]), (6, [ours[0], 8]),
            (3, [peer[0], 2]), (6, [peer[0], 8]), (6, [peer[2], 8]), (3, [ours[2], 1]), (7, []), (8, [5]), (10, []),
            (12, [ours[0], 4, 0]), (12, [peer[0], 4, 0]), (20, [6]), (18, []), (23, [50]), (17, [0, 9]), (17, [1, 9]),
            (6, [ours[0], 8]), (6, [peer[0], 8]), (18, [])]


def history_alphabet(role):
    ours, peer = sids_for(role)
    return [(0, []), (1, [0]), (1, [1]), (2, [0]), (2, [1]), (3, [ours[0], 12]), (4, [ours[0]]), (5, [ours[0]]),
            (6, [ours[0], 8]), (6, [peer[0], 8]), (7, []), (10, []), (11, [0]), (11, [1]), (12, [ours[0], 5, 0]),
            (12, [peer[0], 5, 1]), (18, []), (19, [ours[0]]), (16, [ours[0], 40]), (17, [0, 2]), (15, [ours[0]]), (14, [ours[0]]),
            (13, [peer[0], 3]), (8, [7]), (20, [9]), (3, [ours[2], 12]), (6, [peer[2], 4]),
            (8, [1197]), (8, [1198]), (8, [63]), (8, [64])]


RACE_KINDS = [(1, 0), (1, 1), (2, 0), (2, 1)]        # (task tag, dir): open bi/uni, accept bi/uni


def with_error_at(ops, pos, role, eid, second=None, flowerr=False, race=None):
    """race = (task tag, dir): the error strikes while that poll is inside its critical section (op 24)"""
    out = list(ops[:pos]) + [(21, [eid]) if race is None else (24, [eid, race[0], race[1]])]
    if flowerr:
        out.append((22, [eid + 1]))
    rest = list(ops[pos:])
    if second is not None:
        rest.insert(min(len(rest), 1), (21, [second]))
    return out + rest + probe_suite(role)


def gen_connerr(rng, tier):
    cases = []
    n = 0
    # exhaustive short histories, the error at every position
    for role in (0, 1):
        alpha = history_alphabet(role)
        # quick: 9 operations, length 2; thorough: 15 operations, every sequence of length 3 (exhaustive at that size)
        small = [alpha[i] for i in ((1, 2, 3, 5, 8, 10, 11, 12, 17) if tier == "quick" else
                                    (1, 2, 3, 5, 6, 7, 8, 9, 10, 11, 12, 15, 16, 19, 20))]
        L = 2 if tier == "quick" else 3
        for mem in ((0, 1) if role == 0 else (0,)):
            for pre_hs in (True, False):
                for seq in itertools.product(small, repeat=L):
                    base = ([(0, [])] if pre_hs else []) + list(seq)
                    for pos in range(len(base) + 1):
                        if tier == "quick" and (n % 3 != 0) and pos not in (len(base),):
                            n += 1
                            continue
                        cases.append(Case("x%d" % n, with_error_at(base, pos, role, 7 + pos), cfg=[role, mem, 1, 1, 10]))
                        n += 1
    # the close racing a poll: role x memory x (before/after the handshake) x (stream limit 0 / used up / free) x
    # what else is parked x the kind of the racing poll; the race at the end of the prefix and, for short prefixes,
    # at every position
    for role in (0, 1):
        ours, peer = sids_for(role)
        for mem in ((0, 1) if role == 0 else (0,)):
            for lim in (0, 1, 2):
                for pre_hs in (True, False):
                    for others in ([], [(2, [0]), (2, [1])], [(1, [0]), (1, [1])], [(10, []), (7, [])],
                                   [(1, [0]), (3, [ours[0], 12]), (6, [ours[0], 8])], [(11, [0]), (11, [1])]):
                        base = ([(0, [])] if pre_hs else []) + [(1, [0])] * min(lim, 1) + [(1, [1])] * min(lim, 1) + others
                        for rk in RACE_KINDS:
                            for pos in (range(len(base) + 1) if len(base) <= 3 else (len(base),)):
                                cases.append(Case("k%d" % n, with_error_at(base, pos, role, 11 + pos, race=rk),
                                                  cfg=[role, mem, lim, lim, 10]))
                                n += 1
    nrand = 1200 if tier == "quick" else 25000
    for i in range(nrand):
        role = rng.randint(0, 1)
        mem = rng.randint(0, 1) if role == 0 else 0
        cfg = [role, mem, rng.choice([0, 1, 1, 2, 3]), rng.choice([0, 1, 2]), rng.choice([5, 10, 10, 100])]
        alpha = history_alphabet(role)
        ours, peer = sids_for(role)
        ops = []
        if rng.random() < 0.75:
            ops.append((0, []))
        for _ in range(rng.randint(3, 22)):
            o = rng.choice(alpha)
            if o[0] in (3, 4, 5, 6, 12, 13, 14, 15, 16, 19) and rng.random() < 0.5:
                sid = rng.choice(ours + peer)
                o = (o[0], [sid] + list(o[1][1:]))
            ops.append(o)
        if rng.random() < 0.3 and (0, []) not in ops:
            ops.insert(rng.randrange(len(ops) + 1), (0, []))
        pos = rng.randrange(len(ops) + 1)
        eid = rng.choice([3, 7, 41, 101, 102, 203])
        second = rng.choice([None, None, eid + 1, 150])
        race = rng.choice(RACE_KINDS) if rng.random() < 0.3 else None
        ops = with_error_at(ops, pos, role, eid, second, rng.random() < 0.3, race)
        if rng.random() < 0.15:
            # a poll racing a (second) close of a connection that may have failed already
            ops.insert(rng.randrange(pos + 1, len(ops) + 1), (24, [eid + 2] + list(rng.choice(RACE_KINDS))))
        cases.append(Case("r%d" % i, ops, cfg=cfg))
    return cases


def parse_connerr(line):
    """-> (result words, woken tids, [(tid, code, val)])"""
    v = ints(line)
    if -1 not in v:
        return v, [], []
    i = v.index(-1)
    # the marker -1 may also be a result word (`-1 9`): the real marker is followed by a count and later by -2
    cands = [j for j, x in enumerate(v) if x == -1 and j + 1 < len(v) and v[j + 1] >= 0 and j + 2 + v[j + 1] < len(v) and v[j + 2 + v[j + 1]] == -2]
    i = cands[-1] if cands else i
    res = v[:i]
    nw = v[i + 1]
    wok = v[i + 2:i + 2 + nw]
    j = i + 2 + nw
    nc = v[j + 1]
    comp = [tuple(v[j + 2 + 3 * q:j + 5 + 3 * q]) for q in range(nc)]
    return res, wok, comp


def oracle_connerr(case, obs):
    if len(obs) != len(case.ops):
        return "length: %d observations for %d ops (%s)" % (len(obs), len(case.ops), obs[-1] if obs else "")
    for k, line in enumerate(obs):
        if line.startswith("!"):
            return "abnormal: op %d -> %s" % (k, line)
    parked = {}                 # tid -> (tag, args)
    err = None                  # the connection error (first CONNERR)
    ferr = None
    err_at = None
    arrived = {}                # sid -> bytes the peer delivered before the error
    readn = {}                  # sid -> bytes read so far
    send_terminal = set()       # sids whose sending half may be terminal before the error
    recv_terminal = set()
    shut, loaded_after_shut = set(), set()
    for k, ((tag, args), line) in enumerate(zip(case.ops, obs)):
        res, wok, comp = parse_connerr(line)
        if tag == 24 and err is None and len(args) == 3 and res and res[0] == 0:
            parked[k] = (args[1], args[2:])    # the racing poll parked while the close was under way: the close must complete it
        for (t, code, val) in comp:
            if t not in parked:
                return "executor: op %d completes task %d which is not parked" % (k, t)
        # ---------------- the clauses
        if tag == 24:
            # a poll of open / accept racing the connection error: the operation answers with the poll's own result
            if not res or res[0] == -77:
                return "abnormal: op %d: the racing schedule could not be set up (%s)" % (k, res)
            if len(args) != 3 or args[1] not in (1, 2):
                return "abnormal: op %d: malformed race" % k
            ttag, targs = args[1], args[2:]
            if err is None:
                code, val = res[0], res[1]
                if code == 2 and val != args[0]:
                    return "wrong-error: op %d racing %s answers error %d, the connection error is %d" % (k, NAMES[ttag], val, args[0])
        if (tag == 21 or tag == 24) and err is None:
            err, err_at = args[0], k
            done = {t: (c, v) for (t, c, v) in comp}
            for t, (ptag, pargs) in sorted(parked.items()):
                if t not in done:
                    what = "hang-open" if ptag == 1 else "hang"
                    return "%s: %s task %d (%s %s) is still pending after the connection error at op %d (woken=%s)" % (
                        what, NAMES[ptag], t, ptag, pargs, k, t in wok)
                if done[t] != (2, err):
                    return "wrong-error: pending %s task %d completed with %s after connection error %d" % (NAMES[ptag], t, done[t], err)
        elif err is not None:
            if tag in TASK_TAGS or tag == 24:
                if tag == 24:
                    tag, args = args[1], args[2:]      # later on it is judged as the task operation it carries
                code, val = res[0], res[1]
                if code == 0:
                    return "blocks: op %d (%s %s) is Pending after the connection error" % (k, NAMES[tag], args)
                if code == 8:
                    return "executor: op %d refused, a task of an earlier op is still parked after the error" % k
                if code == 2 and val != err:
                    return "wrong-error: op %d (%s) answers error %d, the connection error is %d" % (k, NAMES[tag], val, err)
                if code != 2:
                    sid = args[0] if args else None
                    ok = (code == 9) or (tag in (3, 4, 5) and sid in send_terminal and code in (1, 3)) or \
                         (tag == 6 and sid in recv_terminal and code in (1, 3))
                    if tag == 3 and code == 1:
                        ok = False
                    if not ok:
                        return "accepted: op %d (%s %s) answers %s after connection error %d" % (k, NAMES[tag], args, res[:2], err)
                    if tag == 6 and code == 1:
                        readn[sid] = readn.get(sid, 0) + val
                        if readn[sid] > arrived.get(sid, 0):
                            return "accepted: op %d read %d bytes of stream %d, only %d had arrived before the error" % (
                                k, readn[sid], sid, arrived.get(sid, 0))
            elif tag == 8 and res[:2] != [2, err]:
                return "accepted: op %d datagram send answers %s after connection error %d" % (k, res[:2], err)
            elif tag == 18 and res != [0, 0, 0]:
                return "emitted: op %d loaded %s (stream bytes, fins, datagrams) after connection error %d" % (k, res, err)
            elif tag == 20 and res[:2] != [2, err]:
                return "accepted: op %d incoming datagram answers %s after connection error %d" % (k, res, err)
            if comp or wok:
                # only F23-style late completions are possible here; they must carry the error
                for (t, code, val) in comp:
                    if (code, val) != (2, err):
                        return "wrong-error: task %d completed late with %s" % (t, (code, val))
        if tag == 22 and ferr is None:
            ferr = args[0]
        if tag == 23 and ferr is not None and res[:2] != [2, ferr]:
            return "flow: op %d credit answers %s after the flow controller was failed with %d" % (k, res, ferr)
        # ---------------- bookkeeping
        for (t, code, val) in comp:
            ptag, pargs = parked.pop(t)
            if ptag == 6 and code == 1:
                readn[pargs[0]] = readn.get(pargs[0], 0) + val
        if tag in TASK_TAGS and res and res[0] == 0 and k not in parked:
            parked[k] = (tag, args)
        if tag == 6 and res and res[0] == 1 and err is None:
            readn[args[0]] = readn.get(args[0], 0) + res[1]
        if err is None:
            if tag == 12 and res and res[0] >= 0:
                arrived[args[0]] = arrived.get(args[0], 0) + res[0]
                if args[2]:
                    recv_terminal.add(args[0])
            if tag in (13, 14):
                recv_terminal.add(args[0])
            if tag == 15:
                send_terminal.add(args[0])
            if tag == 5:
                shut.add(args[0])
            if tag == 18:
                loaded_after_shut |= shut
            if tag == 19 and args[0] in loaded_after_shut:
                send_terminal.add(args[0])
    return None


def known_open(fid):
    try:
        data = json.load(open(os.path.join(ROOT, "known_findings.json")))
    except OSError:
        return False
    return any(e.get("id") == fid and e.get("property") == "C17" and e.get("status", "open") == "open" for e in data.get("findings", []))


def classify_connerr(case, msg, obs):
    # F23 is classified only while it is listed as OPEN; once fixed a reappearance is a violation
    if msg.startswith("hang-open:") and known_open("F23"):
        return "F23"
    return None


def nontrivial_connerr(case):
    kinds = set()
    for tag, args in case.ops:
        if tag == 21:
            break
        if tag == 24:
            kinds.add(args[1])
            break
        if tag in TASK_TAGS:
            kinds.add(tag)
    return len(kinds) >= 2


def hist_connerr(case):
    out = []
    pos = next((i for i, (t, _) in enumerate(case.ops) if t in (21, 24)), None)
    out.append("err-at:%s" % ("none" if pos is None else "0" if pos == 0 else "1-3" if pos <= 3 else "4-9" if pos <= 9 else "10+"))
    out.append("errors:%d" % sum(1 for t, _ in case.ops if t in (21, 24)))
    for t, a in case.ops:
        if t == 24:
            out.append("race:%s%s%s" % (NAMES.get(a[1], "?"), "-bi" if a[2] == 0 else "-uni", "" if case.ops[pos] == (t, a) else "-late"))
    before = case.ops[:pos] if pos is not None else case.ops
    out += sorted(set("pre:" + NAMES.get(t, str(t)) for t, _ in before))
    out.append("role:%s mem:%s" % (case.cfg[0], case.cfg[1]))
    return out


def mutate_connerr(rng, case, j):
    role = int(case.cfg[0])
    ops = [o for o in case.ops]
    pos = next((i for i, (t, _) in enumerate(ops) if t in (21, 24)), 0)
    ins = rng.choice(history_alphabet(role))
    ops.insert(rng.randrange(pos + 1), ins)
    return Case("m%d" % j, ops, cfg=case.cfg)


# ======================================================================================== connend
# REAL dquic endpoints over the in-memory network (harness/hx impl_connend): operations of every kind pending on
# both endpoints while the connection is ended through the real Components::enter_closing / enter_draining
KINDS_E = {1: "open_bi", 2: "open_uni", 3: "accept_bi", 4: "accept_uni", 5: "dgram_recv", 6: "dgram_writer",
           7: "handshaked", 8: "terminated", 9: "stream_read"}
SIDES_E = {0: "client", 1: "server"}
SHORT, LONG = 1, 1000


def ce_starts(side, kinds):
    return [(1, [side, k]) for k in kinds]


def gen_connend(rng, tier):
    cases = []
    n = [0]
    allk = list(range(1, 10))

    def add(prefix, refuse, ops):
        # every case ends with one later operation of every kind on both endpoints and a last observation point
        ops = list(ops) + ce_starts(0, allk) + ce_starts(1, allk) + [(2, [LONG]), (2, [LONG])]
        cases.append(Case("%s%d" % (prefix, n[0]), ops, cfg=[refuse]))
        n[0] += 1

    subsets = [[k] for k in allk] + [allk, [3, 6], [1, 3, 4, 5], [9, 3, 7]]
    nsub = len(subsets) if tier != "quick" else 0
    pick = subsets if tier != "quick" else [allk, [3], [6], [3, 6], [1, 3, 4, 5], [9, 7, 8, 2]]
    # R: the server refuses the client during the handshake (peer CONNECTION_CLOSE before the peer's parameters)
    for ks in pick:
        add("R", 1, ce_starts(0, ks) + [(2, [LONG])])
        add("R", 1, ce_starts(0, ks) + [(2, [SHORT])] + ce_starts(0, [k for k in allk if k not in ks][:3]) + [(2, [LONG])])
    # L: local close during the handshake
    for ks in pick:
        add("L", 0, ce_starts(0, ks) + [(2, [SHORT]), (3, [0, 7]), (2, [SHORT])])
        add("L", 0, ce_starts(0, ks) + [(3, [0, 7]), (2, [LONG])])
    # E: established, then either application closes (local close on one endpoint = peer close on the other)
    for ks in pick:
        for closer in (0, 1):
            for gap in (SHORT, LONG):
                add("E", 0, ce_starts(0, ks[:2]) + [(2, [LONG])] + ce_starts(0, ks) + ce_starts(1, ks) +
                    [(2, [gap]), (3, [closer, 3]), (2, [LONG])])
    # both applications close at the same instant (closes racing from both sides)
    for ks in pick[:3]:
        add("B", 0, [(2, [LONG])] + ce_starts(0, ks) + ce_starts(1, ks) + [(3, [0, 1]), (3, [1, 2]), (2, [SHORT])])
    # N: nobody closes
    add("N", 0, ce_starts(0, allk) + [(2, [SHORT]), (2, [LONG])] + ce_starts(1, allk) + [(2, [LONG])])
    nrand = 12 if tier == "quick" else 400
    for i in range(nrand):
        refuse = 1 if rng.random() < 0.3 else 0
        ops = []
        shorts = 0
        for _ in range(rng.randint(2, 7)):
            r = rng.random()
            if r < 0.5:
                ops += ce_starts(rng.randint(0, 1), rng.sample(allk, rng.randint(1, 4)))
            elif r < 0.8:
                if shorts < 2 and rng.random() < 0.4:
                    shorts += 1
                    ops.append((2, [SHORT]))
                else:
                    ops.append((2, [LONG]))
            else:
                ops.append((3, [rng.randint(0, 1), rng.randint(0, 9)]))
        add("r", refuse, ops)
    return cases


def parse_adv(v):
    n = v[1]
    comp = [(v[2 + 2 * i], v[3 + 2 * i]) for i in range(n)]
    return v[0], comp, v[2 + 2 * n], v[3 + 2 * n]


def oracle_connend(case, obs):
    """C17 stated directly on what the applications of the two real endpoints observed: once terminated() has
    resolved on an endpoint, every operation that was pending there has completed by that observation point and
    every operation started later completes by the next one, all of them with the terminating error."""
    if len(obs) != len(case.ops):
        return "length: %d observations for %d ops (%s)" % (len(obs), len(case.ops), obs[-1] if obs else "")
    for k, line in enumerate(obs):
        if line.startswith("!"):
            return "abnormal: op %d -> %s" % (k, line)
    pending = {}              # tid -> (side, kind, started at op)
    term_seen = [None, None]  # op index of the first observation point at which terminated() had resolved
    now = 0
    for k, ((tag, args), line) in enumerate(zip(case.ops, obs)):
        v = ints(line)
        if v == [-99]:
            continue
        if tag == 1:
            if v[0] >= 0:
                if v[0] != k:
                    return "harness: op %d task id %d" % (k, v[0])
                pending[k] = (min(args[0], 1), args[1], k)
        elif tag == 2:
            t, comp, tc, ts = parse_adv(v)
            if t < now:
                return "clock: op %d reports %d ms after %d ms" % (k, t, now)
            now = t
            flags = [tc, ts]
            for side in (0, 1):
                if term_seen[side] is not None and not flags[side]:
                    return "revived: op %d: terminated() of the %s had resolved at op %d and is unresolved now" % (
                        k, SIDES_E[side], term_seen[side])
            first = [flags[s] and term_seen[s] is None for s in (0, 1)]
            for s in (0, 1):
                if first[s]:
                    term_seen[s] = k
            for (tid, code) in comp:
                if tid not in pending:
                    return "harness: op %d completes task %d which is not pending" % (k, tid)
                side, kind, at = pending.pop(tid)
                what = "%s of the %s (task %d)" % (KINDS_E.get(kind, kind), SIDES_E[side], tid)
                if code == 4:
                    return "wrong-error: op %d: %s failed with a connection error that is not the terminating error" % (k, what)
                if code == 5:
                    return "spurious-error: op %d: %s failed with a connection error although the connection has not terminated" % (k, what)
                if term_seen[side] is not None and term_seen[side] < k and code != 2:
                    return "accepted: op %d: %s completed with code %d after terminated() had resolved at op %d" % (
                        k, what, code, term_seen[side])
                if kind == 8 and code != 2:
                    return "harness: terminated() answered code %d" % code
            for tid, (side, kind, at) in sorted(pending.items()):
                if term_seen[side] is not None:
                    return "hang: op %d at %d ms: %s of the %s (task %d, started at op %d) is still pending although terminated() of " \
                           "that endpoint resolved (first seen at op %d)" % (k, now, KINDS_E.get(kind, kind), SIDES_E[side], tid, at, term_seen[side])
        elif tag == 3:
            pass
    return None


def nontrivial_connend(case):
    # some way of ending the connection, with at least two kinds of operation started before it on one endpoint
    kinds = [set(), set()]
    for tag, args in case.ops:
        if tag == 1:
            kinds[min(args[0], 1)].add(args[1])
        elif tag == 3 or (tag == 2 and int(case.cfg[0]) == 1 and args[0] >= LONG):
            return max(len(kinds[0]), len(kinds[1])) >= 2
    return False


def hist_connend(case):
    out = ["refuse:%s" % case.cfg[0]]
    adv = 0
    for tag, args in case.ops:
        if tag == 2:
            adv += args[0]
        elif tag == 3:
            out.append("close:%s-%s" % (SIDES_E[min(args[0], 1)], "handshaking" if adv < 500 else "established"))
            break
    else:
        out.append("close:none")
    out += sorted(set("start:%s" % KINDS_E.get(a[1], "?") for t, a in case.ops if t == 1))
    return out


def mutate_connend(rng, case, j):
    ops = list(case.ops)
    i = rng.randrange(len(ops) + 1)
    ops.insert(i, rng.choice([(1, [rng.randint(0, 1), rng.randint(1, 9)]), (3, [rng.randint(0, 1), 5]), (2, [LONG])]))
    return Case("m%d" % j, ops, cfg=case.cfg)


STREAMS = [
    {"name": "connstate", "pkg": "hq", "bin": "impl_connstate",
     "gen": gen_connstate, "oracle": oracle_connstate, "nontrivial": nontrivial_connstate, "hist": hist_connstate,
     "mutate": mutate_connstate,
     "profiles": ("debug",), "profiles_thorough": ("debug",), "rule": RULE},
    {"name": "connerr", "pkg": "hr", "bin": "impl_connerr",
     "gen": gen_connerr, "oracle": oracle_connerr, "nontrivial": nontrivial_connerr, "hist": hist_connerr,
     "mutate": mutate_connerr, "classify": classify_connerr,
     "profiles": ("debug",), "profiles_thorough": ("debug", "release"), "rule": RULE},
    {"name": "idle", "pkg": "hb", "bin": "impl_idle",
     "gen": gen_idle, "oracle": oracle_idle, "nontrivial": nontrivial_idle, "hist": hist_idle,
     "mutate": mutate_idle,
     "profiles": ("debug",), "profiles_thorough": ("debug", "release"), "rule": RULE},
    {"name": "connend", "pkg": "hx", "bin": "impl_connend",
     "gen": gen_connend, "oracle": oracle_connend, "nontrivial": nontrivial_connend, "hist": hist_connend,
     "mutate": mutate_connend,
     "profiles": ("debug",), "profiles_thorough": ("debug",), "rule": RULE},
]
