(* C06: packet protection round trip and rejection of modified packets (layout proved, crypto assumed). *)
From Coq Require Import List ZArith NArith Bool Lia.
From GQ Require Import Lib.Wire Model.Varint Model.Frames Model.Packets Model.Pn Model.Protect
                       Proofs.Wire Proofs.Frames Proofs.FramesTotal Proofs.Packets Proofs.Pn.
Import ListNotations.
Local Open Scope Z_scope.

(* ------------------------------------------------------------------ list helpers *)

Lemma zlen_firstn {A} (l : list A) n : 0 <= n <= zlen l -> zlen (firstn (Z.to_nat n) l) = n.
Proof. intro H. unfold zlen in *. rewrite firstn_length. lia. Qed.

Lemma zlen_skipn {A} (l : list A) n : 0 <= n <= zlen l -> zlen (skipn (Z.to_nat n) l) = zlen l - n.
Proof. intro H. unfold zlen in *. rewrite skipn_length. lia. Qed.

Lemma zlen_sub l off len : 0 <= off -> 0 <= len -> off + len <= zlen l -> zlen (sub l off len) = len.
Proof. intros. unfold sub. rewrite zlen_firstn; [reflexivity|]. rewrite zlen_skipn; lia. Qed.

Lemma firstn_exact {A} (a r : list A) n : zlen a = n -> firstn (Z.to_nat n) (a ++ r) = a.
Proof. intros <-. apply firstn_zlen_app. Qed.
Lemma skipn_exact {A} (a r : list A) n : zlen a = n -> skipn (Z.to_nat n) (a ++ r) = r.
Proof. intros <-. apply skipn_zlen_app. Qed.

Lemma skipn_add {A} (l : list A) : forall m n, skipn (n + m) l = skipn n (skipn m l).
Proof.
  induction l as [|x l IH]; intros m n; [now rewrite !skipn_nil|].
  destruct m as [|m]; [now rewrite Nat.add_0_r|]. rewrite Nat.add_succ_r. cbn [skipn]. apply IH.
Qed.

Lemma xor_prefix_length l m : length (xor_prefix l m) = length l.
Proof. revert m. induction l as [|x l IH]; intros [|y m]; cbn; auto. Qed.

Lemma zlen_xor_prefix l m : zlen (xor_prefix l m) = zlen l.
Proof. unfold zlen. now rewrite xor_prefix_length. Qed.

Lemma xor_prefix_invol l m : xor_prefix (xor_prefix l m) m = l.
Proof.
  revert m. induction l as [|x l IH]; intros [|y m]; cbn; auto.
  rewrite IH, Z.lxor_assoc, Z.lxor_nilpotent, Z.lxor_0_r. reflexivity.
Qed.

(* a packet with the packet number at [off]: first byte, the rest of the header, the payload *)
Lemma split_packet pkt off : 1 <= off <= zlen pkt ->
  pkt = hd 0 pkt :: sub pkt 1 (off - 1) ++ skipn (Z.to_nat off) pkt /\ zlen (sub pkt 1 (off - 1)) = off - 1.
Proof.
  intro H. destruct pkt as [|b r]; [cbn in H; lia|]. rewrite zlen_cons in H. split.
  - cbn [hd]. f_equal. unfold sub. change (Z.to_nat 1) with 1%nat. cbn [skipn].
    replace (Z.to_nat off) with (S (Z.to_nat (off - 1))) by lia. cbn [skipn].
    now rewrite firstn_skipn.
  - apply zlen_sub; rewrite ?zlen_cons; lia.
Qed.

Lemma split_payload (p : list Z) n : 0 <= n <= zlen p ->
  p = sub p 0 n ++ skipn (Z.to_nat n) p /\ zlen (sub p 0 n) = n.
Proof.
  intro H. split.
  - unfold sub. cbn [Z.to_nat skipn]. now rewrite firstn_skipn.
  - apply zlen_sub; lia.
Qed.

(* the sample does not depend on the (at most 4) packet-number bytes in front of it *)
Lemma sample_indep (x y r : list Z) : zlen x = zlen y -> zlen x <= 4 ->
  sub (x ++ r) 4 SAMPLE_LEN = sub (y ++ r) 4 SAMPLE_LEN.
Proof.
  intros He Hl. unfold sub. f_equal. rewrite !skipn_app.
  assert (Hx : skipn (Z.to_nat 4) x = []) by (apply skipn_all2; unfold zlen in *; lia).
  assert (Hy : skipn (Z.to_nat 4) y = []) by (apply skipn_all2; unfold zlen in *; lia).
  rewrite Hx, Hy. cbn [app]. f_equal. unfold zlen in He. lia.
Qed.

(* ------------------------------------------------------------------ bits of the first byte *)

Lemma bit_set_testbit b n : 0 <= n -> bit_set b (2 ^ n) = Z.testbit b n.
Proof.
  intro Hn. unfold bit_set. pose proof (Z.testbit_spec' b n Hn) as H.
  destruct (Z.testbit b n); cbn [Z.b2z] in H; rewrite <- H; reflexivity.
Qed.

Lemma land_small_bit m c n : 0 <= c < 2 ^ n -> 0 <= n -> Z.testbit (Z.land m c) n = false.
Proof.
  intros Hc Hn. rewrite Z.land_spec.
  replace (Z.testbit c n) with false; [apply andb_false_r|].
  symmetry. destruct (Z.eq_dec c 0) as [->|Hne]; [apply Z.testbit_0_l|].
  apply Z.bits_above_log2; [lia|]. apply Z.log2_lt_pow2; lia.
Qed.

Lemma hp_bits_range b : 0 <= hp_bits b < 2 ^ 7.
Proof. unfold hp_bits. destruct (bit_set b 128); lia. Qed.

(* masking never touches the form bit, so the set of protected bits is the same before and after *)
Lemma hp_bits_masked b m : hp_bits (Z.lxor b (Z.land m (hp_bits b))) = hp_bits b.
Proof.
  unfold hp_bits at 1 3. change 128 with (2 ^ 7). rewrite !bit_set_testbit by lia.
  rewrite Z.lxor_spec, land_small_bit; [now rewrite xorb_false_r|apply hp_bits_range|lia].
Qed.

Lemma unmask_mask b m : let x := Z.lxor b (Z.land m (hp_bits b)) in Z.lxor x (Z.land m (hp_bits x)) = b.
Proof.
  cbv zeta. rewrite hp_bits_masked, Z.lxor_assoc, Z.lxor_nilpotent, Z.lxor_0_r. reflexivity.
Qed.

(* ------------------------------------------------------------------ header protection is a bijection *)

Section HP.
  Variable hkey : Type.
  Variable mask : hkey -> list Z -> list Z.

  (* removing the protection and putting it back gives the received bytes *)
  Lemma unprotect_inv hk pkt off U n v :
    unprotect hkey mask hk pkt off = UOk U n v -> 1 <= off <= zlen pkt ->
    hp_protect hkey mask hk U off n = Some pkt /\ zlen U = zlen pkt /\ 1 <= n <= 4 /\
    n = Z.land (hd 0 U) 3 + 1 /\
    skipn (Z.to_nat (off + n)) U = skipn (Z.to_nat (off + n)) pkt /\ off + 20 <= zlen pkt.
  Proof.
    unfold unprotect. intros H Hoff.
    set (payload := skipn (Z.to_nat off) pkt) in *.
    destruct (Z.ltb_spec (zlen payload) (4 + SAMPLE_LEN)) as [|Hlen]; [discriminate|].
    set (m := mask hk (sub payload 4 SAMPLE_LEN)) in *.
    set (b0 := hd 0 pkt) in *.
    set (b0' := Z.lxor b0 (Z.land (hd 0 m) (hp_bits b0))) in *.
    set (n' := Z.land b0' 3 + 1) in *.
    injection H as HU Hn _. subst n.
    assert (Hn4 : 1 <= n' <= 4).
    { unfold n'. assert (0 <= Z.land b0' 3 < 4); [|lia].
      change 3 with (Z.ones 2). rewrite Z.land_ones by lia. apply Z.mod_pos_bound. lia. }
    unfold SAMPLE_LEN in Hlen.
    destruct (split_packet pkt off Hoff) as [Hp Hm]. fold payload b0 in Hp.
    destruct (split_payload payload n' ltac:(lia)) as [Hpl Hpn].
    set (pnb := xor_prefix (sub payload 0 n') (tl m)) in *.
    assert (Hpnb : zlen pnb = n') by (unfold pnb; now rewrite zlen_xor_prefix).
    assert (HlenU : zlen U = zlen pkt).
    { rewrite <- HU. rewrite Hp at 2. rewrite !zlen_cons, !zlen_app. rewrite Hpl at 2. rewrite zlen_app, Hpnb, Hpn. lia. }
    assert (HskU : skipn (Z.to_nat off) U = pnb ++ skipn (Z.to_nat n') payload).
    { rewrite <- HU. replace (Z.to_nat off) with (S (Z.to_nat (off - 1))) by lia.
      cbn [skipn]. now rewrite (skipn_exact _ _ _ Hm). }
    assert (HhdU : hd 0 U = b0') by (rewrite <- HU; reflexivity).
    assert (Hpay : zlen payload = zlen pkt - off) by (apply zlen_skipn; lia).
    split; [|split; [exact HlenU|split; [exact Hn4|split; [now rewrite HhdU|split; [|lia]]]]].
    - unfold hp_protect. rewrite HskU. rewrite zlen_app, Hpnb.
      assert (Hrest : zlen (skipn (Z.to_nat n') payload) = zlen payload - n') by (apply zlen_skipn; lia).
      rewrite Hrest. destruct (Z.ltb_spec (n' + (zlen payload - n')) (4 + SAMPLE_LEN)) as [Hc|_]; [unfold SAMPLE_LEN in Hc; lia|].
      assert (Hs : sub (pnb ++ skipn (Z.to_nat n') payload) 4 SAMPLE_LEN = sub payload 4 SAMPLE_LEN).
      { rewrite Hpl at 2. apply sample_indep; lia. }
      rewrite Hs. fold m. rewrite HhdU. fold n'. rewrite Z.min_id.
      unfold b0' at 1 2. rewrite unmask_mask. f_equal.
      rewrite Hp at 1. f_equal.
      rewrite <- HU. unfold sub at 1. change (Z.to_nat 1) with 1%nat. cbn [skipn].
      rewrite (firstn_exact _ _ _ Hm). f_equal.
      assert (E1 : sub (pnb ++ skipn (Z.to_nat n') payload) 0 n' = pnb).
      { unfold sub. cbn [Z.to_nat skipn]. apply firstn_exact, Hpnb. }
      rewrite E1. rewrite (skipn_exact _ _ _ Hpnb). unfold pnb. rewrite xor_prefix_invol.
      symmetry. exact Hpl.
    - replace (Z.to_nat (off + n')) with (Z.to_nat n' + Z.to_nat off)%nat by lia.
      rewrite !skipn_add. rewrite HskU. fold payload.
      now rewrite (skipn_exact _ _ _ Hpnb).
  Qed.

  (* protecting and then removing the protection gives the packet back (pn-length bits = n - 1) *)
  Lemma protect_unprotect hk U off n P :
    hp_protect hkey mask hk U off n = Some P -> 1 <= off <= zlen U -> 1 <= n <= 4 ->
    n = Z.land (hd 0 U) 3 + 1 ->
    exists v, unprotect hkey mask hk P off = UOk U n v /\ zlen P = zlen U /\
              v = match get_be (Z.to_nat n) 0 (sub (skipn (Z.to_nat off) U) 0 n) with Some (x, _) => x | None => 0 end.
  Proof.
    unfold hp_protect. intros H Hoff Hn Hbits.
    set (payload := skipn (Z.to_nat off) U) in *.
    destruct (Z.ltb_spec (zlen payload) (4 + SAMPLE_LEN)) as [|Hlen]; [discriminate|].
    set (m := mask hk (sub payload 4 SAMPLE_LEN)) in *.
    rewrite <- Hbits, Z.min_id in H. injection H as HP.
    unfold SAMPLE_LEN in Hlen.
    destruct (split_packet U off Hoff) as [Hp Hm]. fold payload in Hp.
    destruct (split_payload payload n ltac:(lia)) as [Hpl Hpn].
    set (b0 := hd 0 U) in *.
    set (pnx := xor_prefix (sub payload 0 n) (tl m)) in *.
    assert (Hpnx : zlen pnx = n) by (unfold pnx; now rewrite zlen_xor_prefix).
    assert (HlenP : zlen P = zlen U).
    { rewrite <- HP. rewrite Hp at 2. rewrite !zlen_cons, !zlen_app. rewrite Hpl at 2. rewrite zlen_app, Hpnx, Hpn. lia. }
    assert (HskP : skipn (Z.to_nat off) P = pnx ++ skipn (Z.to_nat n) payload).
    { rewrite <- HP. replace (Z.to_nat off) with (S (Z.to_nat (off - 1))) by lia.
      cbn [skipn]. now rewrite (skipn_exact _ _ _ Hm). }
    eexists. split; [|split; [exact HlenP|reflexivity]].
    unfold unprotect. rewrite HskP, zlen_app, Hpnx.
    assert (Hrest : zlen (skipn (Z.to_nat n) payload) = zlen payload - n) by (apply zlen_skipn; lia).
    rewrite Hrest. destruct (Z.ltb_spec (n + (zlen payload - n)) (4 + SAMPLE_LEN)) as [Hc|_]; [unfold SAMPLE_LEN in Hc; lia|].
    assert (Hs : sub (pnx ++ skipn (Z.to_nat n) payload) 4 SAMPLE_LEN = sub payload 4 SAMPLE_LEN).
    { rewrite Hpl at 2. apply sample_indep; lia. }
    rewrite Hs. fold m.
    assert (HhdP : hd 0 P = Z.lxor b0 (Z.land (hd 0 m) (hp_bits b0))) by (rewrite <- HP; reflexivity).
    rewrite HhdP, unmask_mask. fold b0 in Hbits. rewrite <- Hbits.
    assert (E1 : sub (pnx ++ skipn (Z.to_nat n) payload) 0 n = pnx).
    { unfold sub. cbn [Z.to_nat skipn]. apply firstn_exact, Hpnx. }
    rewrite E1. rewrite (skipn_exact _ _ _ Hpnx). unfold pnx at 1 2. rewrite xor_prefix_invol. f_equal.
    rewrite Hp at 1. f_equal.
    rewrite <- HP. unfold sub at 1. change (Z.to_nat 1) with 1%nat. cbn [skipn].
    rewrite (firstn_exact _ _ _ Hm). f_equal. symmetry. exact Hpl.
  Qed.
End HP.

(* ------------------------------------------------------------------ the toy cipher meets the round-trip hypotheses *)

Lemma toy_xor_length k n : forall l i, length (toy_xor k n i l) = length l.
Proof. induction l as [|b r IH]; intro i; cbn; auto. Qed.

Lemma toy_xor_invol k n : forall l i, toy_xor k n i (toy_xor k n i l) = l.
Proof.
  induction l as [|b r IH]; intro i; cbn [toy_xor]; [reflexivity|].
  rewrite IH, Z.lxor_assoc, Z.lxor_nilpotent, Z.lxor_0_r. reflexivity.
Qed.

Lemma list_eqb_refl l : list_eqb l l = true.
Proof. induction l as [|x l IH]; cbn; [reflexivity|]. now rewrite Z.eqb_refl, IH. Qed.

Lemma list_eqb_eq : forall a b, list_eqb a b = true -> a = b.
Proof.
  induction a as [|x a IH]; intros [|y b] H; cbn in H; try discriminate; [reflexivity|].
  apply andb_prop in H. destruct H as [H1 H2]. apply Z.eqb_eq in H1. subst y. f_equal. auto.
Qed.

Lemma toy_tag_length k n a b : zlen (toy_tag k n a b) = 16.
Proof. reflexivity. Qed.

Lemma p_c06_toy_enc_len k n a p : zlen (toy_enc k n a p) = zlen p + TAG_LEN.
Proof. unfold toy_enc. rewrite zlen_app, toy_tag_length. unfold zlen. rewrite toy_xor_length. reflexivity. Qed.

Lemma p_c06_toy_enc_dec k n a p : toy_dec k n a (toy_enc k n a p) = Some p.
Proof.
  unfold toy_dec. pose proof (p_c06_toy_enc_len k n a p) as HL. pose proof (zlen_nonneg p) as Hp.
  unfold TAG_LEN in HL. destruct (Z.ltb_spec (zlen (toy_enc k n a p)) 16) as [|_]; [lia|].
  rewrite HL. replace (zlen p + 16 - 16) with (zlen (toy_xor k n 0 p)) by (unfold zlen; rewrite toy_xor_length; lia).
  unfold toy_enc. rewrite firstn_zlen_app, skipn_zlen_app, list_eqb_refl, toy_xor_invol. reflexivity.
Qed.

(* dec accepts only what enc produces (true of any deterministic encrypt-then-check scheme, also of the toy) *)
Lemma p_c06_toy_dec_enc k n a c p : toy_dec k n a c = Some p -> c = toy_enc k n a p.
Proof.
  unfold toy_dec. destruct (Z.ltb_spec (zlen c) 16) as [|Hl]; [discriminate|].
  set (m := Z.to_nat (zlen c - 16)).
  destruct (list_eqb (toy_tag k n a (firstn m c)) (skipn m c)) eqn:E; [|discriminate].
  intro H. injection H as <-. apply list_eqb_eq in E.
  unfold toy_enc. rewrite toy_xor_invol, E. symmetry. apply firstn_skipn.
Qed.

(* ------------------------------------------------------------------ be_packet: where the packet number lies *)

(* the pn offset is past the first byte, and a data packet has at least 20 bytes from there (sampling) *)
Lemma packet_off_pos n dg h total off : be_packet n dg = POk h total off ->
  1 <= off /\ (is_data h = true -> off + 20 <= total).
Proof.
  unfold be_packet. destruct (be_packet_type dg) as [t remain|e] eqn:Et; [|discriminate].
  pose proof (be_packet_type_shrinks _ _ _ Et) as Hs.
  destruct (safe_be_header t n remain) as [_ H2].
  destruct (be_header t n remain) as [h' remain'| | |st] eqn:Eh; try discriminate.
  specialize (H2 _ _ eq_refl). pose proof (zlen_nonneg remain') as Hr. pose proof (zlen_nonneg remain) as Hr0.
  assert (Long : forall (X : pres -> Prop),
     (match length_data remain' with
      | Ok payload rest => if zlen payload <? 20 then PErr (PEUnderSampling (zlen payload))
                           else let total := zlen dg - zlen rest in POk h' total (total - zlen payload)
      | Incomplete => PErr PEIncompleteHeader | Bad _ => PErr PEIncompleteHeader | Panic s => PPanic s end) = POk h total off ->
     1 <= off /\ (is_data h = true -> off + 20 <= total)).
  { intros _. destruct (safe_length_data remain') as [_ L2].
    destruct (length_data remain') as [payload rest| | |st] eqn:El; try discriminate.
    destruct (Z.ltb_spec (zlen payload) 20) as [Hlt|Hge]; [discriminate|]. intro Heq. injection Heq as _ <- <-.
    specialize (L2 _ _ eq_refl). pose proof (zlen_nonneg rest).
    unfold length_data, bind in El. destruct (be_varint remain') as [len r1| | |] eqn:Ev; try discriminate.
    pose proof (strict_be_varint _ _ _ Ev). unfold take_s in El.
    destruct (zlen r1 <? len) eqn:Elt; [discriminate|]. injection El as <- <-.
    apply Z.ltb_ge in Elt. unfold zlen in *. rewrite firstn_length, skipn_length in *. lia. }
  destruct h'; try (apply (Long (fun _ => True))).
  - intro H. injection H as <- <- <-. split; [lia|discriminate].
  - intro H. injection H as <- <- <-. split; [lia|discriminate].
  - destruct (Z.ltb_spec (zlen remain') 20) as [Hlt|Hge]; [discriminate|]. intro Heq. injection Heq as _ <- <-. lia.
Qed.

(* the header form found by the parser is the form bit of the first byte *)
Lemma be_header_type t n bs h r : be_header t n bs = Ok h r -> header_type h = t.
Proof.
  destruct t as [|v|spin]; [|destruct v|]; unfold be_header, bind, ret;
    repeat match goal with
           | |- context [match ?x with _ => _ end] => destruct x eqn:?; try discriminate
           end;
    intro H; injection H as <- <-; reflexivity.
Qed.

Lemma be_packet_form n dg h total off : be_packet n dg = POk h total off ->
  is_short h = negb (bit_set (hd 0 dg) 128).
Proof.
  unfold be_packet. destruct (be_packet_type dg) as [t remain|e] eqn:Et; [|discriminate].
  destruct (be_header t n remain) as [h' remain'| | |st] eqn:Eh; try discriminate.
  apply be_header_type in Eh.
  assert (Hh : h = h' -> is_short h = negb (bit_set (hd 0 dg) 128)).
  { intros ->. unfold be_packet_type in Et. destruct dg as [|ty r]; [discriminate|]. cbn [hd].
    destruct (bit_set ty 128) eqn:Eb; cbn [negb] in *.
    - destruct (get_be 4 0 r) as [[ver r']|]; [|discriminate].
      destruct (ver =? 0); [injection Et as <- _; destruct h'; try discriminate; reflexivity|].
      destruct (ver =? 1); [|discriminate]. destruct (negb (bit_set ty 64)); [discriminate|].
      injection Et as <- _. destruct h'; try discriminate; reflexivity.
    - injection Et as <- _. destruct h'; try discriminate; reflexivity. }
  destruct h'; cbn [is_short].
  1,2: intro H; injection H as <- _ _; apply Hh; reflexivity.
  1,2,3: destruct (length_data remain') as [payload rest| | |]; try discriminate;
         destruct (zlen payload <? 20); [discriminate|]; intro H; injection H as <- _ _; apply Hh; reflexivity.
  destruct (zlen remain' <? 20); [discriminate|]. intro H; injection H as <- _ _; apply Hh; reflexivity.
Qed.

(* ------------------------------------------------------------------ rejection of anything but the packet sent *)

Definition dropped (r : rx) : Prop :=
  match r with RxParse _ | RxInvalidPn | RxDecrypt | RxNotData _ => True | _ => False end.

Section Tamper.
  Variables key hkey : Type.
  Variable enc : key -> Z -> list Z -> list Z -> list Z.
  Variable dec : key -> Z -> list Z -> list Z -> option (list Z).
  Variable mask : hkey -> list Z -> list Z.
  (* dec accepts only what enc produces under the same key, nonce and associated data *)
  Hypothesis auth : forall k n a c p, dec k n a c = Some p -> c = enc k n a p.

  (* the cryptographic assumption proper (unforgeability), as a premise on the datagram the adversary
     hands to the receiver: no segment of it is an AEAD output for inputs other than the honest ones
     (k, pn, aad, body).  Every key of type [key] is a key the adversary does not know. *)
  Definition no_forgery (k : key) (pn : Z) (aad body dg : list Z) : Prop :=
    forall k' n' a' p' l r, dg = l ++ enc k' n' a' p' ++ r -> k' = k /\ n' = pn /\ a' = aad /\ p' = body.

  (* the receive path either drops the datagram, or it found a packet whose AEAD check SUCCEEDED and then
     answers by the reserved bits of that authenticated packet: connection error or delivery *)
  Lemma recv1_cases k hk dl exp dg : (forall n v, decode (mk_pnum n v) exp <> DecOverflow) ->
    let r := recv1 key hkey dec mask k hk dl exp dg in
    dropped r \/
    exists h total off U n v pn body, be_packet dl dg = POk h total off /\ is_data h = true /\
      unprotect hkey mask hk (firstn (Z.to_nat total) dg) off = UOk U n v /\
      dec k pn (firstn (Z.to_nat (off + n)) U) (skipn (Z.to_nat (off + n)) U) = Some body /\
      0 <= exp /\ decode (mk_pnum n v) exp = DecOk pn /\
      r = if negb (Z.land (hd 0 U) (reserved_mask (is_short h)) =? 0) then RxConnErr
          else RxAccept h total pn (is_short h && bit_set (hd 0 U) 4) body.
  Proof.
    intros Hov. cbv zeta. unfold recv1, recv.
    destruct (be_packet dl dg) as [h total off|e|s] eqn:Ebe; cbn [fst];
      [|left; exact I|exfalso; exact (p_c03_packet_no_panic _ _ _ Ebe)].
    destruct (packet_off_pos _ _ _ _ _ Ebe) as [Ho1 Ho20]. pose proof (p_c03_packet_bounds _ _ _ _ _ Ebe) as [Ht Ho].
    assert (Hdata : is_data h = true ->
      let pkt := firstn (Z.to_nat total) dg in
      forall sh : bool, sh = is_short h ->
      (let X := match unprotect hkey mask hk pkt off with
        | UOk pkt' pnlen v =>
            if exp <? 0 then (RxInvalidPn, tt)
            else match decode (mk_pnum pnlen v) exp with
                 | DecOk pn =>
                     let '(ko, s') := if sh then (Some k, tt) else (Some k, tt) in
                     match ko with
                     | Some k0 =>
                         match dec k0 pn (firstn (Z.to_nat (off + pnlen)) pkt') (skipn (Z.to_nat (off + pnlen)) pkt') with
                         | Some body => if negb (Z.land (hd 0 pkt') (reserved_mask sh) =? 0) then (RxConnErr, s')
                                        else (RxAccept h total pn (sh && bit_set (hd 0 pkt') 4) body, s')
                         | None => (RxDecrypt, s')
                         end
                     | None => (RxPanic 3, s')
                     end
                 | DecOverflow => (RxPanic 2, tt)
                 end
        | UPanic => (RxPanic 1, tt)
        end in
       dropped (fst X) \/
       exists U n v pn body, unprotect hkey mask hk pkt off = UOk U n v /\
         dec k pn (firstn (Z.to_nat (off + n)) U) (skipn (Z.to_nat (off + n)) U) = Some body /\
         0 <= exp /\ decode (mk_pnum n v) exp = DecOk pn /\
         fst X = if negb (Z.land (hd 0 U) (reserved_mask sh) =? 0) then RxConnErr
                 else RxAccept h total pn (sh && bit_set (hd 0 U) 4) body)).
    { intros Hd pkt sh Hsh. cbv zeta.
      assert (Hlp : zlen pkt = total) by (apply zlen_firstn; lia). specialize (Ho20 Hd).
      destruct (unprotect hkey mask hk pkt off) as [U n v|] eqn:EU.
      2:{ exfalso. unfold unprotect in EU. rewrite zlen_skipn in EU by lia. unfold SAMPLE_LEN in EU.
          destruct (Z.ltb_spec (zlen pkt - off) (4 + 16)); [lia|discriminate]. }
      destruct (Z.ltb_spec exp 0) as [|Hexp]; [left; exact I|].
      destruct (decode (mk_pnum n v) exp) as [pn|] eqn:Ed; [|exfalso; exact (Hov _ _ Ed)].
      assert (Hsel : (if sh then (Some k, tt) else (Some k, tt)) = (Some k, tt)) by (destruct sh; reflexivity).
      rewrite Hsel.
      destruct (dec k pn (firstn (Z.to_nat (off + n)) U) (skipn (Z.to_nat (off + n)) U)) as [body|] eqn:Edec; [|left; exact I].
      right. exists U, n, v, pn, body. repeat split; auto.
      destruct (negb (Z.land (hd 0 U) (reserved_mask sh) =? 0)); reflexivity. }
    destruct h as [d s vs|d s tok integ|d s tok|d s|d s|spin d]; cbn [fst]; try (left; exact I).
    all: destruct (Hdata eq_refl _ eq_refl) as [Hdrop|(U & n & v & pn & body & HU & Hdec & Hexp & Hd & Hr)];
      [left; exact Hdrop|right].
    all: eexists _, total, off, U, n, v, pn, body; repeat split; auto.
  Qed.

  (* MAIN LEMMA.  [U0 = aad ++ enc k pn aad body] is the packet before header protection, [P] the
     packet on the wire.  Whatever datagram is handed to a receiver holding ANY packet key k' and
     header key hk', decoding packet numbers against ANY expectation: if a packet in it passes the AEAD check
     then the receiver used the sender's key, decoded the sender's packet number, obtained the sender's
     body, the unprotected packet is the sender's — and, when header protection was removed with the
     sender's header key, the packet is bit for bit the packet sent. *)
  Lemma p_c06_authentic k hk pn aad body off0 w P k' hk' dl dg h total off U n v pn' body' :
    hp_protect hkey mask hk (aad ++ enc k pn aad body) off0 w = Some P ->
    zlen aad = off0 + w -> w = Z.land (hd 0 aad) 3 + 1 -> aad <> [] ->
    no_forgery k pn aad body dg ->
    be_packet dl dg = POk h total off ->
    unprotect hkey mask hk' (firstn (Z.to_nat total) dg) off = UOk U n v ->
    dec k' pn' (firstn (Z.to_nat (off + n)) U) (skipn (Z.to_nat (off + n)) U) = Some body' ->
    k' = k /\ pn' = pn /\ body' = body /\ U = aad ++ enc k pn aad body /\
    (hk' = hk -> firstn (Z.to_nat total) dg = P).
  Proof.
    intros HP Hla Hw Hne Hnf Hbe HU Hdec.
    pose proof (p_c03_packet_bounds _ _ _ _ _ Hbe) as [Ht Ho]. destruct (packet_off_pos _ _ _ _ _ Hbe) as [Ho1 _].
    set (pkt := firstn (Z.to_nat total) dg) in *.
    assert (Hlp : zlen pkt = total) by (apply zlen_firstn; lia).
    destruct (unprotect_inv hkey mask hk' pkt off U n v HU ltac:(lia))
      as (Hprot & HlU & Hn4 & Hn & Hsk & H20).
    apply auth in Hdec.
    (* the datagram contains the accepted ciphertext as a segment *)
    assert (Hdg : dg = firstn (Z.to_nat (off + n)) pkt ++ enc k' pn' (firstn (Z.to_nat (off + n)) U) body' ++ skipn (Z.to_nat total) dg).
    { rewrite <- Hdec, Hsk, app_assoc, firstn_skipn. unfold pkt. now rewrite firstn_skipn. }
    destruct (Hnf _ _ _ _ _ _ Hdg) as (-> & -> & Ha & ->).
    assert (HUeq : U = aad ++ enc k pn aad body).
    { rewrite <- (firstn_skipn (Z.to_nat (off + n)) U). rewrite Hdec, Ha. reflexivity. }
    split; [reflexivity|split; [reflexivity|split; [reflexivity|split; [exact HUeq|]]]].
    intros ->.
    assert (Hla' : zlen aad = off + n).
    { rewrite <- Ha. apply zlen_firstn. lia. }
    assert (Hhd : hd 0 U = hd 0 aad) by (rewrite HUeq; destruct aad; [contradiction|reflexivity]).
    assert (Hnw : n = w) by (rewrite Hn, Hw, Hhd; reflexivity). clear Hn. subst n.
    assert (off = off0) by lia. subst off.
    rewrite HUeq in Hprot. rewrite HP in Hprot. injection Hprot as <-. reflexivity.
  Qed.
End Tamper.

(* ------------------------------------------------------------------ what build produces *)

Definition build_hdr (rsv : Z) (h : header) (phase : bool) (w blen : Z) : list Z :=
  Z.lor (hd 0 (put_header h)) ((w - 1) + (if is_short h && phase then 4 else 0) + rsv)
    :: tl (put_header h) ++ (if is_short h then [] else put_be 2 (2 ^ 14 + (w + blen + TAG_LEN))).
Definition build_aad_r (rsv : Z) (h : header) (phase : bool) (e : pnum) (blen : Z) : list Z :=
  build_hdr rsv h phase (width e) blen ++ pn_bytes e.
Definition build_aad := build_aad_r 0.
Definition pn_off (h : header) : Z := header_size h + (if is_short h then 0 else 2).

(* values of the two reserved bits of the first byte *)
Definition rsv_values (short : bool) : list Z := if short then [0; 8; 16; 24] else [0; 4; 8; 12].

Lemma width_range e : 1 <= width e <= 4.
Proof. destruct e; cbn; lia. Qed.

Lemma zlen_pn_bytes e : zlen (pn_bytes e) = width e.
Proof. unfold pn_bytes. rewrite put_be_zlen. pose proof (width_range e). lia. Qed.

(* first byte written by encode_{long,short}_first_byte: pn-length bits, key-phase bit, reserved bits *)
Lemma first_byte_facts rsv h phase e blen : is_data h = true -> In rsv (rsv_values (is_short h)) ->
  let b0 := hd 0 (build_aad_r rsv h phase e blen) in
  width e = Z.land b0 3 + 1 /\ Z.land b0 (reserved_mask (is_short h)) = rsv /\
  (is_short h && bit_set b0 4) = (is_short h && phase) /\ is_short h = negb (bit_set b0 128).
Proof.
  intros Hd Hin. unfold build_aad_r, build_hdr. cbn [app hd].
  destruct h as [d s vs|d s tok integ|d s tok|d s|d s|spin d]; try discriminate;
    unfold put_header; cbn [header_type put_packet_type v1_bits app hd is_short andb reserved_mask rsv_values] in *;
    destruct Hin as [<-|[<-|[<-|[<-|[]]]]];
    try destruct spin; destruct phase; destruct e; cbn [width]; vm_compute; repeat split; reflexivity.
Qed.

Lemma zlen_build_aad rsv h phase e blen : wf_header h -> is_data h = true ->
  zlen (build_aad_r rsv h phase e blen) = pn_off h + width e /\ build_aad_r rsv h phase e blen <> [] /\
  zlen (build_hdr rsv h phase (width e) blen) = pn_off h.
Proof.
  intros Hwf Hd. pose proof (p_c05_header_size h Hwf) as Hs.
  assert (Hh : zlen (build_hdr rsv h phase (width e) blen) = pn_off h).
  { unfold build_hdr, pn_off. rewrite zlen_cons, zlen_app.
    assert (Hne : put_header h <> []) by (unfold put_header; destruct h; cbn; try destruct spin; discriminate).
    destruct (put_header h) as [|b r] eqn:Eh; [contradiction|]. cbn [tl]. rewrite zlen_cons in Hs.
    destruct h; try discriminate; cbn [is_short]; rewrite ?put_be_zlen, ?zlen_nil; lia. }
  split; [|split; [|exact Hh]].
  - unfold build_aad_r. rewrite zlen_app, zlen_pn_bytes, Hh. reflexivity.
  - unfold build_aad_r, build_hdr. discriminate.
Qed.

Section Build.
  Variables key hkey : Type.
  Variable enc : key -> Z -> list Z -> list Z -> list Z.
  Variable dec : key -> Z -> list Z -> list Z -> option (list Z).
  Variable mask : hkey -> list Z -> list Z.

  Lemma build_spec rsv h phase pn e body bufsz k hk P :
    build_r key hkey enc mask rsv h phase pn e body bufsz k hk = BOk P ->
    let aad := build_aad_r rsv h phase e (zlen body) in
    is_data h = true /\
    hp_protect hkey mask hk (aad ++ enc k pn aad body) (pn_off h) (width e) = Some P /\
    20 <= width e + zlen body + TAG_LEN /\ pn_off h + 20 <= bufsz /\
    (is_short h = false -> width e + zlen body + TAG_LEN < 2 ^ 14).
  Proof.
    unfold build_r. destruct (is_data h) eqn:Ed; cbn [negb]; [|discriminate].
    destruct (Z.ltb_spec bufsz (header_size h + (if is_short h then 0 else 2) + 20)) as [|Hb]; [discriminate|].
    destruct (Z.ltb_spec (bufsz - TAG_LEN - (header_size h + (if is_short h then 0 else 2) + width e)) (zlen body)) as [|Hf]; [discriminate|].
    destruct (Z.ltb_spec (width e + zlen body + TAG_LEN) 20) as [|H20]; [discriminate|].
    destruct (negb (is_short h) && (2 ^ 14 <=? width e + zlen body + TAG_LEN)) eqn:E14; [discriminate|].
    match goal with |- context [hp_protect _ _ ?a ?b ?c ?d] => destruct (hp_protect hkey mask a b c d) as [p|] eqn:EP end; [|discriminate].
    intro H. injection H as <-. cbv zeta. split; [reflexivity|]. split; [|split; [lia|split; [unfold pn_off; lia|]]].
    - unfold build_aad_r, build_hdr, pn_off. exact EP.
    - intro Hs. rewrite Hs in E14. cbn [negb andb] in E14. apply Z.leb_gt in E14. exact E14.
  Qed.

  (* ROUND TRIP (rsv = 0) and the answer to an AUTHENTIC packet with reserved bits set (rsv <> 0).
     The one step not proved in general is that be_packet finds the header in the protected bytes
     ([Hparse]: the masked low bits of the first byte and the 2-byte length field do not disturb the
     header parser); it is discharged by computation on instances in Properties/C06.v and checked on every
     generated packet by the correspondence stream. *)
  Hypothesis enc_dec : forall k n a p, dec k n a (enc k n a p) = Some p.
  Hypothesis enc_len : forall k n a p, zlen (enc k n a p) = zlen p + TAG_LEN.

  Lemma p_c06_roundtrip_r rsv h phase pn e body bufsz k hk P dl exp :
    build_r key hkey enc mask rsv h phase pn e body bufsz k hk = BOk P -> wf_header h ->
    In rsv (rsv_values (is_short h)) ->
    be_packet dl P = POk h (zlen P) (pn_off h) ->
    0 <= exp -> decode (wire e) exp = DecOk pn -> 0 <= payload e < 2 ^ (8 * width e) ->
    recv1 key hkey dec mask k hk dl exp P =
      if rsv =? 0 then RxAccept h (zlen P) pn (is_short h && phase) body else RxConnErr.
  Proof.
    intros HB Hwf Hrsv Hparse Hexp Hdecode Hpay.
    destruct (build_spec _ _ _ _ _ _ _ _ _ _ HB) as (Hd & HP & H20 & _ & _).
    set (aad := build_aad_r rsv h phase e (zlen body)) in *.
    destruct (zlen_build_aad rsv h phase e (zlen body) Hwf Hd) as (Hla & Hne & Hlh). fold aad in Hla, Hne.
    destruct (first_byte_facts rsv h phase e (zlen body) Hd Hrsv) as (Hw & Hres & Hph & _). fold aad in Hw, Hres, Hph.
    pose proof (width_range e) as Hwr. pose proof (zlen_nonneg body) as Hb0.
    set (U0 := aad ++ enc k pn aad body) in *.
    assert (HhdU : hd 0 U0 = hd 0 aad) by (unfold U0; destruct aad; [contradiction|reflexivity]).
    assert (HlU : zlen U0 = pn_off h + width e + (zlen body + TAG_LEN)) by (unfold U0; rewrite zlen_app, enc_len, Hla; lia).
    assert (Hoff : 1 <= pn_off h) by (apply (packet_off_pos _ _ _ _ _ Hparse)).
    destruct (protect_unprotect hkey mask hk U0 (pn_off h) (width e) P HP ltac:(lia) Hwr
                ltac:(rewrite HhdU; exact Hw)) as (v & HU & HlP & Hv).
    unfold recv1, recv. rewrite Hparse.
    assert (Hfull : firstn (Z.to_nat (zlen P)) P = P) by apply firstn_zlen.
    (* the undecoded packet number read back is the one written *)
    assert (Hsk : skipn (Z.to_nat (pn_off h)) U0 = pn_bytes e ++ enc k pn aad body).
    { unfold U0, aad, build_aad_r. rewrite <- app_assoc. apply skipn_exact. exact Hlh. }
    assert (Hvv : mk_pnum (width e) v = wire e).
    { rewrite Hv, Hsk. unfold sub. cbn [Z.to_nat skipn]. rewrite (firstn_exact _ _ _ (zlen_pn_bytes e)).
      unfold pn_bytes. rewrite <- (app_nil_r (put_be _ _)).
      destruct e as [x|x|x|x]; cbn [width payload wire mk_pnum Z.eqb] in *.
      - rewrite get_be_put_be_exact by (change (256 ^ Z.of_nat (Z.to_nat 1)) with (2 ^ (8 * 1)); lia). reflexivity.
      - rewrite get_be_put_be_exact by (change (256 ^ Z.of_nat (Z.to_nat 2)) with (2 ^ (8 * 2)); lia). reflexivity.
      - rewrite get_be_put_be_exact by (change (256 ^ Z.of_nat (Z.to_nat 3)) with (2 ^ (8 * 3)); lia).
        cbn [Z.eqb]. f_equal. change (8 * 3) with 24 in Hpay.
        assert (E : (x / 2 ^ 16) mod 2 ^ 8 * 2 ^ 16 + x mod 2 ^ 16 = x); [|now rewrite E].
        Zify.zify. lia.
      - rewrite get_be_put_be_exact by (change (256 ^ Z.of_nat (Z.to_nat 4)) with (2 ^ (8 * 4)); lia). reflexivity. }
    assert (Hacc : forall hh, hh = h ->
      (let '(ko, s') := if is_short hh then (Some k, tt) else (Some k, tt) in
       match ko with
       | None => (RxPanic 3, s')
       | Some k0 => match dec k0 pn (firstn (Z.to_nat (pn_off h + width e)) U0) (skipn (Z.to_nat (pn_off h + width e)) U0) with
                    | Some body0 => if negb (Z.land (hd 0 U0) (reserved_mask (is_short hh)) =? 0) then (RxConnErr, s')
                                    else (RxAccept hh (zlen P) pn (is_short hh && bit_set (hd 0 U0) 4) body0, s')
                    | None => (RxDecrypt, s') end end) =
      (if rsv =? 0 then RxAccept h (zlen P) pn (is_short h && phase) body else RxConnErr, tt)).
    { intros hh ->. rewrite <- Hla. rewrite HhdU, Hres. destruct (is_short h) eqn:Es; cbn [andb] in Hph |- *;
        unfold U0; rewrite firstn_zlen_app, skipn_zlen_app, enc_dec; rewrite ?Hph;
        destruct (rsv =? 0); reflexivity. }
    destruct h as [d s vs|d s tok integ|d s tok|d s|d s|spin d]; try discriminate;
      rewrite Hfull; cbn [is_short] in *; rewrite HU; (destruct (Z.ltb_spec exp 0); [lia|]);
      rewrite Hvv, Hdecode; cbn [fst snd].
    all: pose proof (Hacc _ eq_refl) as HA; cbn [is_short] in HA; rewrite HA; reflexivity.
  Qed.

  Lemma p_c06_roundtrip h phase pn e body bufsz k hk P dl exp :
    build key hkey enc mask h phase pn e body bufsz k hk = BOk P -> wf_header h ->
    be_packet dl P = POk h (zlen P) (pn_off h) ->
    0 <= exp -> decode (wire e) exp = DecOk pn -> 0 <= payload e < 2 ^ (8 * width e) ->
    recv1 key hkey dec mask k hk dl exp P = RxAccept h (zlen P) pn (is_short h && phase) body.
  Proof.
    intros HB Hwf Hp He Hd Hpay.
    refine (p_c06_roundtrip_r 0 h phase pn e body bufsz k hk P dl exp HB Hwf _ Hp He Hd Hpay).
    destruct (is_short h); left; reflexivity.
  Qed.

  (* an AUTHENTIC packet whose reserved bits are set is answered with the connection error *)
  Lemma p_c06_authentic_reserved rsv h phase pn e body bufsz k hk P dl exp :
    build_r key hkey enc mask rsv h phase pn e body bufsz k hk = BOk P -> wf_header h ->
    In rsv (rsv_values (is_short h)) -> rsv <> 0 ->
    be_packet dl P = POk h (zlen P) (pn_off h) ->
    0 <= exp -> decode (wire e) exp = DecOk pn -> 0 <= payload e < 2 ^ (8 * width e) ->
    recv1 key hkey dec mask k hk dl exp P = RxConnErr.
  Proof.
    intros HB Hwf Hin Hne Hp He Hd Hpay.
    rewrite (p_c06_roundtrip_r rsv h phase pn e body bufsz k hk P dl exp HB Hwf Hin Hp He Hd Hpay).
    destruct (Z.eqb_spec rsv 0); [contradiction|reflexivity].
  Qed.
End Build.

(* ------------------------------------------------------------------ the property statements *)

Section Statements.
  Variables key hkey : Type.
  Variable enc : key -> Z -> list Z -> list Z -> list Z.
  Variable dec : key -> Z -> list Z -> list Z -> option (list Z).
  Variable mask : hkey -> list Z -> list Z.
  Hypothesis auth : forall k n a c p, dec k n a c = Some p -> c = enc k n a p.

  (* DISCARDED.  The honest sender built P (reserved bits 0, as the writer always does).  Whatever datagram
     reaches a receiver holding any packet key, any header key and any packet-number expectation, the receive
     path either DROPS it, or it delivers exactly the sender's packet (sender's key, packet number and body;
     bit for bit the bytes sent when header protection was removed with the sender's header key).
     It never answers with a connection error. *)
  Lemma p_c06_tamper_discarded h phase pn e body bufsz k hk P :
    build key hkey enc mask h phase pn e body bufsz k hk = BOk P -> wf_header h ->
    forall k' hk' dl exp dg,
      no_forgery key enc k pn (build_aad h phase e (zlen body)) body dg ->
      (forall n v, decode (mk_pnum n v) exp <> DecOverflow) ->
      let r := recv1 key hkey dec mask k' hk' dl exp dg in
      dropped r \/
      exists h' total ph, r = RxAccept h' total pn ph body /\ k' = k /\ is_short h' = is_short h /\
                          (hk' = hk -> firstn (Z.to_nat total) dg = P).
  Proof.
    intros HB Hwf k' hk' dl exp dg Hnf Hov. cbv zeta.
    destruct (build_spec _ _ enc dec mask _ _ _ _ _ _ _ _ _ _ HB) as (Hd & HP & _).
    destruct (zlen_build_aad 0 h phase e (zlen body) Hwf Hd) as (Hla & Hne & _).
    assert (Hin : In 0 (rsv_values (is_short h))) by (destruct (is_short h); left; reflexivity).
    destruct (first_byte_facts 0 h phase e (zlen body) Hd Hin) as (Hw & Hres & _ & Hform).
    destruct (recv1_cases key hkey enc dec mask auth k' hk' dl exp dg Hov) as [Hdrop|(h' & total & off & U & n & v & pn' & body' & Hbe & Hd' & HU & Hdec & _ & _ & Hr)];
      [left; exact Hdrop|].
    destruct (p_c06_authentic key hkey enc dec mask auth k hk pn _ body _ _ P k' hk' dl dg h' total off U n v pn' body'
                HP Hla Hw Hne Hnf Hbe HU Hdec) as (-> & -> & -> & HUeq & HPeq).
    (* the parsed header has the sender's form, so the reserved mask applied is the sender's: the bits are 0 *)
    assert (HhdU : hd 0 U = hd 0 (build_aad_r 0 h phase e (zlen body))).
    { rewrite HUeq. revert Hne. generalize (build_aad_r 0 h phase e (zlen body)).
      intros [|x l] Hne; [contradiction|reflexivity]. }
    assert (Hsh : is_short h' = is_short h).
    { rewrite (be_packet_form _ _ _ _ _ Hbe), Hform, <- HhdU.
      (* first byte of dg: unmasking does not touch the form bit *)
      pose proof (p_c03_packet_bounds _ _ _ _ _ Hbe) as [Ht _].
      assert (Hhd : hd 0 dg = hd 0 (firstn (Z.to_nat total) dg)).
      { destruct dg; [cbn in Ht; lia|]. replace (Z.to_nat total) with (S (Z.to_nat (total - 1))) by lia. reflexivity. }
      unfold unprotect in HU. destruct (zlen (skipn (Z.to_nat off) (firstn (Z.to_nat total) dg)) <? 4 + SAMPLE_LEN); [discriminate|].
      injection HU as HU _ _. rewrite <- HU. cbn [hd]. rewrite Hhd.
      change 128 with (2 ^ 7). rewrite !bit_set_testbit by lia.
      rewrite Z.lxor_spec, land_small_bit; [now rewrite xorb_false_r|apply hp_bits_range|lia]. }
    rewrite Hsh, HhdU, Hres in Hr. cbn [Z.eqb negb] in Hr.
    right. exists h', total, (is_short h && bit_set (hd 0 (build_aad_r 0 h phase e (zlen body))) 4).
    split; [exact Hr|split; [reflexivity|split; [exact Hsh|exact HPeq]]].
  Qed.

  Lemma p_c06_tamper_rejected h phase pn e body bufsz k hk P :
    build key hkey enc mask h phase pn e body bufsz k hk = BOk P -> wf_header h ->
    forall k' hk' dl exp dg h' total pn' ph body',
      no_forgery key enc k pn (build_aad h phase e (zlen body)) body dg ->
      recv1 key hkey dec mask k' hk' dl exp dg = RxAccept h' total pn' ph body' ->
      k' = k /\ pn' = pn /\ body' = body /\ (hk' = hk -> firstn (Z.to_nat total) dg = P).
  Proof.
    intros HB Hwf k' hk' dl exp dg h' total pn' ph body' Hnf Hacc.
    destruct (build_spec _ _ enc dec mask _ _ _ _ _ _ _ _ _ _ HB) as (Hd & HP & _).
    destruct (zlen_build_aad 0 h phase e (zlen body) Hwf Hd) as (Hla & Hne & _).
    assert (Hin : In 0 (rsv_values (is_short h))) by (destruct (is_short h); left; reflexivity).
    destruct (first_byte_facts 0 h phase e (zlen body) Hd Hin) as (Hw & _).
    (* read the successful AEAD check off the accepting run *)
    unfold recv1, recv in Hacc. destruct (be_packet dl dg) as [h1 total1 off|e1|s1] eqn:Hbe; cbn [fst] in Hacc; try discriminate.
    assert (X : exists U n v, unprotect hkey mask hk' (firstn (Z.to_nat total1) dg) off = UOk U n v /\
                  dec k' pn' (firstn (Z.to_nat (off + n)) U) (skipn (Z.to_nat (off + n)) U) = Some body' /\ total1 = total).
    { destruct h1 as [d s vs|d s tok integ|d s tok|d s|d s|spin d]; cbn [fst] in Hacc; try discriminate.
      all: destruct (unprotect hkey mask hk' (firstn (Z.to_nat total1) dg) off) as [U n v|] eqn:EU; cbn [fst] in Hacc; try discriminate.
      all: destruct (exp <? 0); cbn [fst] in Hacc; try discriminate.
      all: destruct (decode (mk_pnum n v) exp) as [pn1|]; cbn [fst] in Hacc; try discriminate.
      all: cbn [is_short fst snd andb] in Hacc.
      all: destruct (dec k' pn1 (firstn (Z.to_nat (off + n)) U) (skipn (Z.to_nat (off + n)) U)) as [b|] eqn:Edec; cbn [fst] in Hacc; try discriminate.
      all: match type of Hacc with context [if ?c then _ else _] => destruct c end; cbn [fst] in Hacc; try discriminate.
      all: injection Hacc as <- <- <- <- <-; exists U, n, v; auto. }
    destruct X as (U & n & v & HU & Hdec & <-).
    destruct (p_c06_authentic key hkey enc dec mask auth k hk pn _ body _ _ P k' hk' dl dg h1 total1 off U n v pn' body'
                HP Hla Hw Hne Hnf Hbe HU Hdec) as (H1 & H2 & H3 & _ & H5). auto.
  Qed.

  (* any datagram of the same length that differs from the packet sent — in particular every single-bit
     flip — is DROPPED by a receiver that removes header protection with the sender's header key *)
  Lemma p_c06_modified_dropped h phase pn e body bufsz k hk P :
    build key hkey enc mask h phase pn e body bufsz k hk = BOk P -> wf_header h ->
    forall k' dl exp dg, zlen dg = zlen P -> dg <> P ->
      no_forgery key enc k pn (build_aad h phase e (zlen body)) body dg ->
      (forall n v, decode (mk_pnum n v) exp <> DecOverflow) ->
      dropped (recv1 key hkey dec mask k' hk dl exp dg).
  Proof.
    intros HB Hwf k' dl exp dg Hlen Hne Hnf Hov.
    destruct (p_c06_tamper_discarded _ _ _ _ _ _ _ _ _ HB Hwf k' hk dl exp dg Hnf Hov) as [H|(h' & total & ph & Hr & _ & _ & HPeq)];
      [exact H|exfalso].
    specialize (HPeq eq_refl).
    unfold recv1, recv in Hr. destruct (be_packet dl dg) as [h1 total1 off|e1|s1] eqn:Hbe; cbn [fst] in Hr; try discriminate.
    pose proof (p_c03_packet_bounds _ _ _ _ _ Hbe) as [Ht _].
    assert (total1 = total).
    { destruct h1; cbn [fst] in Hr; try discriminate.
      all: destruct (unprotect hkey mask hk (firstn (Z.to_nat total1) dg) off) as [U n v|]; cbn [fst] in Hr; try discriminate.
      all: destruct (exp <? 0); cbn [fst] in Hr; try discriminate.
      all: destruct (decode (mk_pnum n v) exp) as [pn1|]; cbn [fst] in Hr; try discriminate.
      all: cbn [is_short fst snd andb] in Hr.
      all: match type of Hr with context [dec ?a ?b ?c ?d] => destruct (dec a b c d) end; cbn [fst] in Hr; try discriminate.
      all: match type of Hr with context [if ?c then _ else _] => destruct c end; cbn [fst] in Hr; try discriminate.
      all: injection Hr as _ H _ _ _; exact H. }
    subst total1.
    assert (Hl : zlen P = total) by (rewrite <- HPeq; apply zlen_firstn; lia).
    apply Hne. rewrite <- HPeq, <- Hl, <- Hlen. symmetry. apply firstn_zlen.
  Qed.

  (* presentation of the SAME packet under another key or decoded to another packet number *)
  Lemma p_c06_other_key_or_pn h phase pn e body bufsz k hk P :
    build key hkey enc mask h phase pn e body bufsz k hk = BOk P -> wf_header h ->
    no_forgery key enc k pn (build_aad h phase e (zlen body)) body P ->
    forall k' hk' dl exp h' total pn' ph body',
      recv1 key hkey dec mask k' hk' dl exp P = RxAccept h' total pn' ph body' -> k' = k /\ pn' = pn.
  Proof.
    intros HB Hwf Hnf k' hk' dl exp h' total pn' ph body' Hacc.
    destruct (p_c06_tamper_rejected _ _ _ _ _ _ _ _ _ HB Hwf _ _ _ _ _ _ _ _ _ _ Hnf Hacc) as (H1 & H2 & _). auto.
  Qed.
End Statements.
