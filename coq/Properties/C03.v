(* C03 — decoding untrusted bytes never panics, hangs or mis-frames.
   Only the property theorems live here; proofs are in Proofs/FramesTotal.v. *)
From Coq Require Import List ZArith NArith.
From GQ Require Import Lib.Wire Model.Varint Model.Frames Model.Packets Model.Params Proofs.FramesTotal Proofs.Packets.
Import ListNotations.
Local Open Scope Z_scope.

(* for every packet type and every byte string, decoding one frame never reaches a panic site … *)
Theorem c03_frame_no_panic : forall p bs s, be_frame p bs <> FPanic s.
Proof. exact p_c03_frame_no_panic. Qed.

(* … and a decoded frame consumed at least one byte and no more than the buffer holds *)
Theorem c03_frame_consumed : forall p bs c f t, be_frame p bs = FOk c f t -> 0 < c <= zlen bs.
Proof. exact p_c03_frame_consumed. Qed.

(* a frame is delivered only in a packet type that admits its type *)
Theorem c03_frame_type_checked : forall p bs c f t, be_frame p bs = FOk c f t -> belongs t p = true.
Proof. exact p_c03_frame_type_checked. Qed.

(* iterating over a whole payload: total consumption stays inside the payload, no result is a panic,
   and |payload|+1 iterations always suffice (the reader cannot loop without consuming input) *)
Theorem c03_frames_of : forall p bs,
  total_consumed (frames_of p bs) <= zlen bs /\
  (forall r, In r (frames_of p bs) -> forall s, r <> FPanic s) /\
  (forall extra, read_frames (extra + S (length bs)) p bs = frames_of p bs).
Proof. exact p_c03_frames_of. Qed.

(* every frame decoding error is the connection error the protocol prescribes
   (table regenerated from frame/error.rs and error.rs on every run) *)
Theorem c03_error_mapping : forall e,
  quic_error_of e = (match e with ENoFrames => EK_PROTOCOL_VIOLATION | _ => EK_FRAME_ENCODING end).
Proof. exact p_c03_error_mapping. Qed.

(* the first look at a datagram: for every dcid length and every byte string be_packet never panics
   (this is the repaired behaviour: a connection-id length above 20 used to hit unreachable!) … *)
Theorem c03_packet_no_panic : forall n dg s, be_packet n dg <> PPanic s.
Proof. exact p_c03_packet_no_panic. Qed.

(* … a parsed packet lies inside the datagram … *)
Theorem c03_packet_bounds : forall n dg h total off,
  be_packet n dg = POk h total off -> 0 < total <= zlen dg /\ 0 <= off <= total.
Proof. exact p_c03_packet_bounds. Qed.

(* … and splitting a datagram into coalesced packets terminates, stays inside it and stops at the first error *)
Theorem c03_packets_of : forall n dg,
  sum_totals (packets_of n dg) <= zlen dg /\
  (forall r, In r (packets_of n dg) -> forall s, r <> PPanic s) /\
  (forall extra, read_packets (extra + S (length dg)) n dg = packets_of n dg).
Proof. exact p_c03_packets_of. Qed.

(* transport parameters of either role: never a panic, the loop terminates within |blob|+1 rounds,
   and every failure is the TRANSPORT_PARAMETER_ERROR connection error *)
Theorem c03_params_no_panic : forall r buf s, parse_params r buf <> PaPanic s.
Proof. exact p_c03_params_no_panic. Qed.

Theorem c03_params_fuel : forall r fuel m buf, (length buf < fuel)%nat ->
  parse_loop (S fuel) r m buf = parse_loop fuel r m buf.
Proof. exact parse_loop_fuel. Qed.

Theorem c03_param_error_kind : param_error_kind = EK_TRANSPORT_PARAMETER.
Proof. exact p_c03_param_error_kind. Qed.

Example c03_nonvacuous :
  be_frame PInitial [6; 0; 5; 1] = FErr EIncompleteFrame /\
  be_frame PInitial [8; 0] = FErr EWrongType /\
  be_frame POneRtt [31] = FErr EInvalidType /\
  frames_of POneRtt [1; 0; 0; 1] = [FOk 1 Ping TPing; FOk 1 Padding TPadding; FOk 1 Padding TPadding; FOk 1 Ping TPing].
Proof. vm_compute. repeat split. Qed.

Print Assumptions c03_frame_no_panic.
Print Assumptions c03_frame_consumed.
Print Assumptions c03_frame_type_checked.
Print Assumptions c03_frames_of.
Print Assumptions c03_error_mapping.
Print Assumptions c03_packet_no_panic.
Print Assumptions c03_packet_bounds.
Print Assumptions c03_packets_of.
Print Assumptions c03_params_no_panic.
Print Assumptions c03_params_fuel.
Print Assumptions c03_param_error_kind.
Print Assumptions c03_nonvacuous.
