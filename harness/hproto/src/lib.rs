//! Line protocol shared by every `impl_*` harness binary and the extracted model driver.
//!
//! input:   `CASE <name>` / `<tag> <arg> <arg> …` / `END`
//!          an argument is a decimal integer or `x<hex>` (expanded to one integer per byte)
//! output:  `CASE <name>` / one line `= v v v …` per operation / `END`
//!          a caught panic prints `! panic <op index>` and skips the rest of the case.
use std::io::{BufRead, Write};
use std::panic::{AssertUnwindSafe, catch_unwind};
use std::sync::atomic::{AtomicU64, Ordering};
use std::sync::{Arc, Mutex};

#[derive(Debug, Clone)]
pub struct Op {
    pub tag: u64,
    pub args: Vec<i128>,
}

impl Op {
    pub fn u(&self, i: usize) -> u64 {
        self.args[i] as u64
    }
    pub fn bytes_from(&self, i: usize) -> Vec<u8> {
        self.args[i..].iter().map(|v| *v as u8).collect()
    }
}

pub fn parse_op(line: &str) -> Option<Op> {
    let mut it = line.split_ascii_whitespace();
    let tag: u64 = it.next()?.parse().ok()?;
    let mut args = Vec::new();
    for tok in it {
        if let Some(hex) = tok.strip_prefix('x') {
            let b = hex.as_bytes();
            let mut i = 0;
            while i + 1 < b.len() {
                let s = std::str::from_utf8(&b[i..i + 2]).ok()?;
                args.push(u8::from_str_radix(s, 16).ok()? as i128);
                i += 2;
            }
        } else {
            // values in [2^127, 2^128) (IPv6 addresses) are kept as their two's-complement i128
            match tok.parse::<i128>() {
                Ok(v) => args.push(v),
                Err(_) => args.push(tok.parse::<u128>().ok()? as i128),
            }
        }
    }
    Some(Op { tag, args })
}

/// Observation of one operation.
#[derive(Default)]
pub struct Obs(pub Vec<i128>, pub Vec<usize>);
impl Obs {
    pub fn new() -> Self {
        Obs(Vec::new(), Vec::new())
    }
    /// an unsigned 128-bit value (printed as unsigned even above i128::MAX)
    pub fn push_u128(&mut self, v: u128) -> &mut Self {
        self.1.push(self.0.len());
        self.0.push(v as i128);
        self
    }
    pub fn push<T: Into<i128>>(&mut self, v: T) -> &mut Self {
        self.0.push(v.into());
        self
    }
    pub fn push_usize(&mut self, v: usize) -> &mut Self {
        self.0.push(v as i128);
        self
    }
    pub fn push_bool(&mut self, v: bool) -> &mut Self {
        self.0.push(v as i128);
        self
    }
    pub fn push_bytes(&mut self, b: &[u8]) -> &mut Self {
        self.0.extend(b.iter().map(|x| *x as i128));
        self
    }
}

/// Position-derived stream content; `content` in coq/Lib/Base.v is the same formula.
pub fn content(i: u64) -> u8 {
    let i = i as u128;
    ((i * 131 + (i / 256) * 17 + 7) % 256) as u8
}
pub fn content_slice(off: u64, len: u64) -> Vec<u8> {
    (0..len).map(|k| content(off + k)).collect()
}

/// Runs the protocol loop. `new_case` builds a fresh state from the CASE line's extra
/// words; `step` performs one operation.  Panics are caught per case (debug and release).
pub fn run<S>(
    mut new_case: impl FnMut(&[&str]) -> S,
    mut step: impl FnMut(&mut S, &Op, usize) -> Obs,
) {
    std::panic::set_hook(Box::new(|_| {}));
    let progress = Arc::new(AtomicU64::new(0));
    let limit_ms: u64 = std::env::var("VERIF_CASE_TIMEOUT_MS")
        .ok()
        .and_then(|s| s.parse().ok())
        .unwrap_or(20_000);
    // all output goes through one mutex-protected buffer that the main thread never holds while an operation
    // runs, so that the watchdog can flush what was written so far and report the hang
    let out = Arc::new(Mutex::new(std::io::BufWriter::new(std::io::stdout())));
    {
        // watchdog: a case that makes no progress for `limit_ms` is reported as a hang
        let progress = progress.clone();
        let out = out.clone();
        std::thread::spawn(move || {
            let mut last = 0u64;
            let mut since = std::time::Instant::now();
            loop {
                std::thread::sleep(std::time::Duration::from_millis(100));
                let cur = progress.load(Ordering::Relaxed);
                if cur != last {
                    last = cur;
                    since = std::time::Instant::now();
                } else if cur % 2 == 1 && since.elapsed().as_millis() as u64 > limit_ms {
                    // odd = inside an operation
                    let mut out = out.lock().unwrap_or_else(|e| e.into_inner());
                    let _ = writeln!(out, "! hang");
                    let _ = writeln!(out, "END");
                    let _ = out.flush();
                    std::process::exit(3);
                }
            }
        });
    }
    let stdin = std::io::stdin();
    let mut state: Option<S> = None;
    let mut dead = false;
    let mut idx = 0usize;
    for line in stdin.lock().lines() {
        let line = line.unwrap();
        let line = line.trim();
        if line.is_empty() || line.starts_with('#') {
            continue;
        }
        if let Some(rest) = line.strip_prefix("CASE") {
            let words: Vec<&str> = rest.split_ascii_whitespace().collect();
            writeln!(out.lock().unwrap(), "CASE {}", words.first().copied().unwrap_or("")).unwrap();
            out.lock().unwrap().flush().unwrap();
            let extra = if words.is_empty() { &words[..] } else { &words[1..] };
            dead = false;
            idx = 0;
            match catch_unwind(AssertUnwindSafe(|| new_case(extra))) {
                Ok(s) => state = Some(s),
                Err(_) => {
                    writeln!(out.lock().unwrap(), "! panic init").unwrap();
                    dead = true;
                    state = None;
                }
            }
            continue;
        }
        if line == "END" {
            state = None;
            writeln!(out.lock().unwrap(), "END").unwrap();
            continue;
        }
        if dead {
            continue;
        }
        let Some(op) = parse_op(line) else {
            writeln!(out.lock().unwrap(), "! badline").unwrap();
            continue;
        };
        let Some(st) = state.as_mut() else { continue };
        progress.fetch_add(1, Ordering::Relaxed);
        let r = catch_unwind(AssertUnwindSafe(|| step(st, &op, idx)));
        progress.fetch_add(1, Ordering::Relaxed);
        match r {
            Ok(obs) => {
                let mut s = String::with_capacity(2 + obs.0.len() * 4);
                s.push('=');
                for (k, v) in obs.0.iter().enumerate() {
                    s.push(' ');
                    if obs.1.contains(&k) {
                        s.push_str(&(*v as u128).to_string());
                    } else {
                        s.push_str(&v.to_string());
                    }
                }
                writeln!(out.lock().unwrap(), "{s}").unwrap();
            }
            Err(_) => {
                writeln!(out.lock().unwrap(), "! panic {idx}").unwrap();
                dead = true;
            }
        }
        idx += 1;
    }
    out.lock().unwrap().flush().unwrap();
}
