"""C15 — an unvalidated address never receives more than 3x what it sent."""
import itertools
import os
import sys

from vlib import Case

sys.path.insert(0, os.path.dirname(os.path.dirname(os.path.abspath(__file__))))
import extract_sources  # noqa: E402

PROP_FILE = "Properties/C15.v"
W = 2 ** 64
MAXU = W - 1
RULE = ("cases = op lists over RCVD n, BALANCE, ONSENT n, GRANT, ABORT, BURST mtu rsv (quota wi wo)*, POLLWAIT, BURSTP mtu rsv "
        "(quota (want in_flight)x4)* (the four packet requests of load_spaces with their in-flight flags), RACE callA callB "
        "schedule (two real calls on two threads, one atomic operation at a time; all schedules up to 6 bits enumerated for "
        "the directed families), STRESS narr amt (support: bounded real two-thread run) with CASE cfg (minpkt); non-trivial = at least 2 bursts that hand bytes to IO before any grant/abort, one of them Initial-bearing "
        "(wi > 0), and at least one arrival between them; distinct by hash of cfg+ops")
TRUSTED_BASE = [
    "model coq/Model/AntiAmp.v transcribes qconnection/src/path/aa.rs one atomic operation per definition (fetch_add "
    "written as mod 2^64, the debit saturating) plus the CREDIT bit of qbase SendWaker; coq/Model/Burst.v transcribes Constraints and the control "
    "structure of Burst::load_spaces / Burst::burst / Path::send_packets; equality with the Rust primitives is checked by "
    "stream `aa`, not proved",
    "LEVEL: Burst::burst is reachable only through a complete Components (TLS, spaces, cc, interface); the harness "
    "transliterates its control structure around the real AntiAmplifier/Constraints, and tools/extract_sources.py re-extracts "
    "the three shape facts the transliteration relies on (coq/Generated/Sources.v burst_shape_*, pinned by c15_glue_shape)",
    "the interleaving theorems (c15_resume, c15_ratio_interleaved) are about the small-step system of Model/AntiAmp.v; the "
    "correspondence stream exercises the same atomic pieces in sequential composition and, for pairs of calls, under "
    "enumerated two-thread schedules (op RACE: the real methods run on two threads and are handed the turn one atomic "
    "operation of `credit`/`state` at a time through the cfg(gmquic_verif) instrumented atomics of aa.rs, "
    "`verif_atomic`); longer concurrent histories are covered by the theorems only",
    "op STRESS (real parallelism, bounded, no schedule control) is support only: it can only ever report a failure, "
    "its passing proves nothing; the model states the conservation law it checks (sent = credit + 3 x arrivals)",
]
MODELLED = ("AntiAmplifier::{new,on_rcvd,balance,on_sent,grant,abort}; SendWaker::{poll_wait_for,wake_by} projected on CREDIT; "
            "Constraints::{new,constrain,commit(len, in_flight)}; load_spaces (Initial packet first, then the packet requests of the "
            "other spaces in order, each with its in-flight flag, through ONE Constraints; pad-to-full); pairs of calls at "
            "atomic-operation granularity under explicit two-thread schedules (race); "
            "burst (per-segment assembler, try_fold, reserved forward header), send_packets (one debit of the sum). NOT "
            "modelled: what the spaces actually write (input `want`), load_ping/load_heartbeat (bounded by the same "
            "constrain), cc.send_quota (input), PathStatus flags, usize other than 64 bit")
ASSUMPTIONS = ["fewer than 2^64/3 bytes are received from one unvalidated address (the credit counter itself does not overflow)",
               "only one task sends on a path at a time (the doc comment of AntiAmplifier::balance)"]

MANIFEST = {
    "text": "Machine-checked Coq theorems (Properties/C15.v) over an executable model of the repaired AntiAmplifier "
            "(atomic-operation granularity, saturating debit), Constraints and the burst/send_packets control structure. "
            "Full strength: in EVERY history the credit of an unvalidated path is at most 3 x the bytes received (it cannot "
            "underflow into an unlimited allowance), unreachable!() is unreachable, and for every interleaving of the atomic "
            "steps no wake-up of the parked sender is lost on on_rcvd/grant/abort and single-segment in-budget sends keep "
            "bytes handed to IO <= 3 x bytes received. The running ratio over bursts is REFUTED on the faithful model (F19, "
            "open): a burst with more than one segment assembles every segment against the same undebited balance, an "
            "Initial-bearing datagram is padded to the whole buffer regardless of credit, the reserved forward header is "
            "added outside the constrained buffer (witnesses by vm_compute, replayed on the real AntiAmplifier/Constraints); "
            "it is proved, with credit = 3R - H exactly, for every history without an op of that class. One datagram of any "
            "number of coalesced packets (in flight or ACK-only) stays within the credit its assembler read "
            "(c15_segment_within_credit); an arrival racing with a debit is linearizable for every schedule of their atomic "
            "operations, so neither the deposit nor the debit is lost (c15_race_rcvd_sent_linearizable, c15_race_conserves); "
            "the correspondence stream runs the real methods on two threads under every schedule of 6 steps.",
    "note": "Trusted: Coq kernel, extraction, OCaml driver, Rust harness, Python generators/oracle, regex shape extractor. "
            "F19 is confirmed on the real primitives through a transliterated burst loop (the real Burst needs a whole "
            "connection). F19w (wrapping fetch_sub in on_sent) is repaired by a `fix:` commit; its witness is a regression "
            "case and the oracle reports any credit above 3R as a violation.",
    "technique": "Coq proof (invariants over op lists; inductive invariant over a small-step interleaving system) + regenerated "
                 "shape table + differential correspondence model/implementation + direct oracle",
}


def regen():
    extract_sources.regen()


# ------------------------------------------------------------------------------------------------
# reference bookkeeping used by the oracle and the generator (NOT the Coq model: only R, H and the
# validation state, which are what the property talks about)
# ------------------------------------------------------------------------------------------------

def known_class(op, credit, state):
    """Appendix B class of F19, evaluated on the op and the credit the property allows (3R - H)"""
    t, a = op
    if state != 0:
        return False
    if t == 2:
        return a[0] > credit
    if t == 8:
        # two racing calls: debits that together exceed the credit there was before the race (an over-debit saturates)
        return sum(a[2 * i + 1] for i in (0, 1) if a[2 * i] == 2) > credit
    if t == 7:
        mtu, rsv = a[0], a[1]
        segs = _psegs(a)
        if len(segs) > 1 or rsv > 0:
            return True
        return any(s[1] > 0 for s in segs) and credit < mtu - rsv
    if t == 5:
        mtu, rsv = a[0], a[1]
        segs = [a[i:i + 3] for i in range(2, len(a) - 2, 3)]
        if len(segs) > 1 or rsv > 0:
            return True
        return any(s[1] > 0 for s in segs) and credit < mtu - rsv
    return False


def oracle(case, obs):
    """direct statement of C15 on the implementation's observations"""
    if len(obs) != len(case.ops):
        return "length: %d observations for %d ops (%s)" % (len(obs), len(case.ops), obs[-1] if obs else "")
    R = 0
    H = 0
    state = 0            # 0 unvalidated, 1 granted, 2 aborted
    klass = None         # first op of the known class seen (index)
    pending_poll = False
    notified = False
    last_wakes = 0
    for k, ((tag, args), line) in enumerate(zip(case.ops, obs)):
        if line.startswith("!"):
            return "abnormal: op %d -> %s" % (k, line)
        v = [int(x) for x in line.split()]
        bal = v[-2:]
        body = v[:-2]
        allowed = max(0, 3 * R - H)
        if klass is None and known_class((tag, args), allowed, state):
            klass = k
        mark = "" if klass is None else " [class F19: op %d is a multi-segment / reserved-header / Initial-padded burst or an over-debit]" % klass
        if tag == 0:
            R += args[0]
            if state == 0:
                notified = True
        elif tag == 2:
            if state != 2:
                H += args[0]
        elif tag == 3:
            if state == 0:
                state = 1
                notified = True
        elif tag == 4:
            if state == 0:
                state = 2
                notified = True
        elif tag in (5, 7):
            mtu, rsv = args[0], args[1]
            status, nseg = body[0], body[1]
            lens = body[2:2 + nseg]
            total = body[2 + nseg]
            if total != sum(lens):
                return "burst: op %d sum %d of %s" % (k, total, lens)
            if any(l > mtu for l in lens):
                return "burst: op %d a segment exceeds the MTU: %s" % (k, lens)
            if state == 2 and (status != 2 or total != 0):
                return "abort: op %d bytes handed to IO on an aborted path: %s" % (k, body)
            if state == 0 and allowed == 0 and klass is None and total != 0:
                return "ratio: op %d sent %d bytes with no credit" % (k, total)
            # one datagram (however many packets are coalesced into it, in flight or ACK-only) is assembled against the
            # credit read once: without Initial padding / reserved header it cannot exceed what the path may still send
            if state == 0 and klass is None and nseg == 1 and total > allowed:
                return "ratio: op %d a datagram of %d bytes (headers, ACK-only packets and padding included) was handed to IO with %d bytes of credit (received %d, handed to IO before %d)" % (
                    k, total, allowed, R, H)
            H += total
        elif tag == 8:
            # two calls racing on two threads: whatever the schedule, what was received and what was reported as sent is
            # the same as for the two calls one after the other
            sa, sb = body[0], body[1]
            res = [body[2:4], body[4:6]]
            if sa > 3 or sb > 3:
                return "race: op %d a call performed %d/%d atomic operations" % (k, sa, sb)
            calls = [(args[0], args[1]), (args[2], args[3])]
            kinds = [c[0] for c in calls]
            for (ck, cn), r in zip(calls, res):
                if r[0] == -7:
                    return "abnormal: op %d a racing call panicked" % k
                if ck == 0:
                    R += cn
                    if state == 0:
                        notified = True
            for (ck, cn), r in zip(calls, res):
                if ck == 2 and state != 2 and not (3 in kinds or 4 in kinds):
                    H += cn
                if ck == 1 and state == 0 and r[0] == 1 and r[1] != MAXU and r[1] > 3 * R:
                    return "underflow: op %d a racing balance() granted %d although only %d bytes were received" % (k, r[1], R)
            if state == 0 and (3 in kinds or 4 in kinds):
                # grant racing with abort: the first compare_exchange in the schedule wins; read it off the balance
                state = 1 if bal == [1, MAXU] and 3 in kinds else 2 if bal[0] == 2 and 4 in kinds else (1 if 3 in kinds else 2)
                notified = True
        elif tag == 9:
            if state == 0:
                narr, amt = min(args[0], 200000), min(args[1], 65535)
                R += narr * amt
                if narr > 0:
                    notified = True
                H += body[0]
            elif body[0] != 0:
                return "stress: op %d bytes counted on a validated / aborted path" % k
        elif tag == 6:
            ready, wk = body
            if pending_poll and notified and (ready != 1 or wk <= last_wakes):
                return "resume: op %d a receive/grant/abort happened since the sender parked but the wait is not woken (ready %d, wakes %d -> %d)" % (
                    k, ready, last_wakes, wk)
            pending_poll = (ready == 0)
            notified = False
            last_wakes = wk
        # ---- the credit never exceeds 3 x received (no wrap into an unlimited allowance): every history, every op
        if state == 0 and bal[0] == 1 and bal[1] > 3 * R:
            return "underflow: after op %d the credit is %d although only %d bytes were received" % (k, bal[1], R)
        # ---- the running inequality, at every prefix before grant
        if state != 1 and H > 3 * R:
            return "ratio: after op %d bytes handed to IO %d > 3 x bytes received %d%s" % (k, H, R, mark)
        # ---- the credit the implementation reports
        if state == 1:
            if bal != [1, MAXU]:
                return "grant: op %d balance after grant is %s" % (k, bal)
        elif state == 2:
            if bal != [2, 0]:
                return "abort: op %d balance after abort is %s" % (k, bal)
        else:
            exp = 3 * R - H
            if klass is None and bal != ([1, exp] if exp > 0 else [0, 0]):
                return "credit: after op %d balance %s, required 3*%d-%d" % (k, bal, R, H)
            if tag == 0 and args[0] > 0 and bal[0] == 0:
                return "resume: op %d sending does not resume after %d bytes arrived" % (k, args[0])
    return None


def classify(case, msg, obs):
    # the only open finding of C15 is the burst-level excess (F19); a credit above 3R ("underflow", F19w repaired)
    # or any failure without an op of the class is a violation
    if "[class F19:" in msg and msg.split(":")[0] in ("ratio", "credit"):
        return "F19"
    return None


def _segs(a):
    return [a[i:i + 3] for i in range(2, len(a) - 2, 3)]


def _psegs(a):
    """BURSTP segments as (quota, w_initial, [(want, in_flight)] of the other three packets)"""
    out = []
    i = 2
    while i + 8 < len(a):
        out.append((a[i], a[i + 1], [(a[i + 3 + 2 * j], a[i + 4 + 2 * j]) for j in range(3)]))
        i += 9
    return out


def _allsegs(t, a):
    return _segs(a) if t == 5 else _psegs(a)


def nontrivial(case):
    bursts = 0
    initial = False
    arrival_between = False
    seen_burst = False
    for t, a in case.ops:
        if t in (3, 4):
            break
        if t == 0 and a[0] > 0 and seen_burst:
            arrival_between = True
        if t in (5, 7) and _allsegs(t, a):
            bursts += 1
            seen_burst = True
            if any(s[1] > 0 for s in _allsegs(t, a)):
                initial = True
    return bursts >= 2 and initial and arrival_between


def hist(case):
    lab = []
    names = ("rcvd", "balance", "onsent", "grant", "abort", "burst", "pollwait", "burstp", "race", "stress")
    calln = ("rcvd", "balance", "onsent", "grant", "abort")
    R = H = 0
    state = 0
    for t, a in case.ops:
        lab.append("op:%s" % names[t])
        if t == 0:
            R += a[0]
            lab.append("rcvd:%s" % ("0" if a[0] == 0 else "<40" if a[0] < 40 else "<1200" if a[0] < 1200 else ">=1200"))
        elif t == 7:
            s = _psegs(a)
            lab.append("segs:%d" % min(len(s), 4))
            if a[1] > 0:
                lab.append("burst:reserved-header")
            if any(x[1] > 0 for x in s):
                lab.append("burst:initial")
            for x in s:
                pk = [(x[1], 1)] + x[2]
                live = [f for (w, f) in pk if w > 0]
                lab.append("burstp:packets%d" % len(live))
                if any(f == 0 for f in live):
                    lab.append("burstp:ack-only-packet")
                if len(live) > 1 and live[0] == 0:
                    lab.append("burstp:ack-only-then-more")
            if known_class((t, a), max(0, 3 * R - H), state):
                lab.append("burst:known-class")
            lab.append("burst:state%d" % state)
        elif t == 8:
            ka, kb = a[0], a[2]
            lab.append("race:%s|%s" % (calln[ka] if ka < 5 else "nop", calln[kb] if kb < 5 else "nop"))
            lab.append("race:sched%d" % min(len(a) - 4, 7))
            lab.append("race:state%d" % state)
            for i in (0, 2):
                if a[i] == 0:
                    R += a[i + 1]
                elif a[i] == 2:
                    H += a[i + 1]
            if state == 0 and (3 in (ka, kb) or 4 in (ka, kb)):
                state = 1 if 3 in (ka, kb) else 2
        elif t == 9:
            lab.append("stress:%s" % ("small" if a[0] < 1000 else "large"))
            if state == 0:
                R += min(a[0], 200000) * min(a[1], 65535)
                H = 3 * R
        elif t == 5:
            s = _segs(a)
            lab.append("segs:%d" % min(len(s), 4))
            if a[1] > 0:
                lab.append("burst:reserved-header")
            if any(x[1] > 0 for x in s):
                lab.append("burst:initial")
            if known_class((t, a), max(0, 3 * R - H), state):
                lab.append("burst:known-class")
            lab.append("burst:state%d" % state)
        elif t == 2:
            lab.append("onsent:%s" % ("over" if known_class((t, a), max(0, 3 * R - H), state) else "within"))
            H += a[0]
        elif t == 3 and state == 0:
            state = 1
        elif t == 4 and state == 0:
            state = 2
    return lab


# ------------------------------------------------------------------------------------------------
# generators
# ------------------------------------------------------------------------------------------------

def ref_burst(credit, state, minpkt, a):
    """bytes a CLEAN (not known-class) burst hands to IO, used only to keep the generator's credit estimate"""
    mtu, rsv = a[0], a[1]
    s = _segs(a)
    if state == 1:
        credit = MAXU
    if state == 2 or not s or credit == 0:
        return 0
    q, wi, wo = s[0]
    buf = mtu - rsv
    room = min(buf, credit, q)
    s1 = min(wi, room) if (wi > 0 and room >= minpkt) else 0
    if s1 > 0:
        return buf + rsv
    room2 = min(buf - s1, credit - s1, q - s1)
    s2 = min(wo, room2) if (wo > 0 and room2 >= minpkt) else 0
    return (s1 + s2 + rsv) if s1 + s2 > 0 else 0


def ref_segment(credit, minpkt, buf, quota, pkts):
    """bytes one CLEAN datagram takes: the packet requests (want, in_flight), Initial first, through one credit/quota pair
    (generator bookkeeping only)"""
    cl, sq, total, first = credit, quota, 0, 0
    for j, (w, f) in enumerate(pkts):
        room = min(buf - total, cl, sq)
        sz = min(w, room) if (w > 0 and room >= minpkt) else 0
        if sz > 0:
            cl -= sz
            if f:
                sq -= sz
        total += sz
        if j == 0:
            first = sz
    return buf if first > 0 else total


def ref_burstp(credit, state, minpkt, a):
    s = _psegs(a)
    if state == 1:
        credit = MAXU
    if state == 2 or not s or credit == 0:
        return 0
    q, w0, rest = s[0]
    n = ref_segment(credit, minpkt, a[0] - a[1], q, [(w0, 1)] + rest)
    return n + a[1] if n > 0 else 0


CALLS_SAFE = [(0, 0), (0, 1), (0, 14), (0, 400), (1, 0)]


def gen_random(rng, n, prefix):
    cases = []
    for i in range(n):
        minpkt = rng.choice([40, 40, 40, 10, 60])
        dirty = rng.random() < 0.35
        R = H = 0
        state = 0
        ops = []
        for _ in range(rng.randint(2, 14)):
            credit = max(0, 3 * R - H) if state == 0 else (MAXU if state == 1 else 0)
            r = rng.random()
            if r < 0.04:
                # two racing calls under a random schedule; debits stay within the credit unless the case is dirty
                def pick():
                    q = rng.random()
                    if q < 0.4:
                        return [0, rng.choice([0, 1, 14, 100, 1200])]
                    if q < 0.7:
                        return [2, (credit + rng.randint(1, 50)) if (dirty and rng.random() < 0.3) else rng.randint(0, min(credit // 2, 3000))]
                    if q < 0.9:
                        return [1, 0]
                    return [rng.choice([3, 4]), 0]
                ca, cb = pick(), pick()
                if {ca[0], cb[0]} & {3, 4} and 2 in (ca[0], cb[0]):
                    cb = [1, 0]
                ops.append((8, ca + cb + [rng.randint(0, 1) for _ in range(rng.randint(0, 7))]))
                for c in (ca, cb):
                    if c[0] == 0:
                        R += c[1]
                    elif c[0] == 2 and state != 2:
                        H += c[1]
                if state == 0 and 3 in (ca[0], cb[0]) and 4 not in (ca[0], cb[0]):
                    state = 1
                elif state == 0 and 4 in (ca[0], cb[0]) and 3 not in (ca[0], cb[0]):
                    state = 2
                elif state == 0 and 3 in (ca[0], cb[0]):
                    break            # grant racing with abort: the schedule decides; end the case here
            elif r < 0.3:
                m = rng.random()
                nrx = (rng.choice([0, 1, 13, 14, 40, 100, 400, 1199, 1200, 1201, 1452]) if m < 0.7 else rng.randint(0, 65535))
                ops.append((0, [nrx]))
                R += nrx
            elif r < 0.72:
                mtu = rng.choice([1200, 1200, 1452, 200, 100, 9000])
                rsv = 0
                nseg = 1
                if dirty and rng.random() < 0.5:
                    nseg = rng.randint(2, 5)
                if dirty and rng.random() < 0.15:
                    rsv = rng.choice([8, 20, 38])
                segs = []
                for _s in range(nseg):
                    q = rng.choice([10 ** 9, 10 ** 9, rng.randint(0, 3000)])
                    wi = 0
                    if rng.random() < 0.3:
                        if dirty or credit >= mtu - rsv:
                            wi = rng.choice([minpkt, 100, 300, mtu, mtu + 50])
                    wo = rng.choice([0, minpkt, rng.randint(1, mtu), mtu - rsv, mtu * 2])
                    segs += [q, wi, wo]
                a = [mtu, rsv] + segs
                tag5 = 5
                if rng.random() < 0.35:
                    # the four packet requests of load_spaces with in-flight flags (ACK-only packets are not in flight)
                    tag5 = 7
                    a = [mtu, rsv]
                    for _s in range(nseg):
                        q, wi, wo = segs[3 * _s: 3 * _s + 3]
                        a += [q, wi, rng.choice([1, 1, 0])]
                        for _k in range(3):
                            w = rng.choice([0, 0, minpkt, 45, rng.randint(1, mtu), wo, mtu])
                            a += [w, rng.choice([1, 1, 0]) if w > 60 else rng.choice([0, 0, 1])]
                ops.append((tag5, a))
                if tag5 == 7 and not known_class((7, a), credit, state):
                    H += ref_burstp(credit, state, minpkt, a)
                elif tag5 == 7:
                    dirty = True
                elif not known_class((5, a), credit, state):
                    H += ref_burst(credit, state, minpkt, a)
                else:
                    H += 0   # estimate lost: the rest of the case is `dirty` anyway
                    dirty = True
            elif r < 0.78:
                ops.append((1, []))
            elif r < 0.84:
                if dirty and rng.random() < 0.5:
                    nn = credit + rng.randint(1, 500)
                else:
                    nn = rng.randint(0, min(credit, 5000)) if state == 0 else rng.randint(0, 5000)
                ops.append((2, [nn]))
                if state != 2:
                    H += nn
            elif r < 0.92:
                ops.append((6, []))
            elif r < 0.96:
                ops.append((3, []))
                if state == 0:
                    state = 1
            else:
                ops.append((4, []))
                if state == 0:
                    state = 2
        cases.append(Case("%s%d" % (prefix, i), ops, cfg=[minpkt]))
    return cases


ALPHABET = [
    (0, [0]), (0, [1]), (0, [14]),
    (5, [50, 0, 1000, 0, 50]),                      # one segment
    (5, [50, 0, 1000, 0, 50, 1000, 0, 50]),         # two segments
    (5, [50, 0, 1000, 20, 0]),                      # Initial-bearing
    (5, [50, 4, 1000, 0, 30]),                      # reserved forward header
    (2, [1]), (2, [50]),
    (3, []), (4, []), (6, []),
    (7, [50, 0, 1000, 0, 1, 0, 1, 12, 0, 50, 1]),    # an ACK-only (not in flight) packet followed by an in-flight one
    (8, [0, 1, 2, 1, 0, 0, 1, 1]),                   # on_rcvd(1) racing with on_sent(1), schedule A A B B
]


def gen_exhaustive(length, prefix, sample=None, rng=None):
    cases = []
    n = 0
    for seq in itertools.product(range(len(ALPHABET)), repeat=length):
        if sample is not None and rng.random() > sample:
            continue
        ops = [(ALPHABET[j][0], list(ALPHABET[j][1])) for j in seq]
        cases.append(Case("%s%d" % (prefix, n), ops, cfg=[10]))
        n += 1
    return cases


def gen_coalesce(rng, prefix, full):
    """directed: ONE datagram of several coalesced packets near the end of the budget - every in-flight mask of the three
    non-Initial packet requests, credit below / around / above what they want, quota binding or not"""
    cases = []
    n = 0
    wants = [(45, 1200, 0), (21, 21, 21), (0, 45, 300), (100, 0, 100)] if full else [(45, 1200, 0), (21, 21, 21), (0, 45, 300)]
    for rcvd in ([1, 7, 14, 50, 100, 400] if full else [1, 14, 50, 400]):
        for quota in (10 ** 6, 100, 30):
            for wset in wants:
                for mask in range(8):
                    fl = [(mask >> j) & 1 for j in range(3)]
                    pk = []
                    for w, f in zip(wset, fl):
                        pk += [w, f]
                    a = [1200, 0, quota, 0, 1] + pk
                    ops = [(0, [rcvd]), (7, a), (1, []), (7, list(a)), (0, [rng.choice([1, 14, 100])]), (7, list(a)), (6, [])]
                    cases.append(Case("%s%d" % (prefix, n), ops, cfg=[rng.choice([10, 20])]))
                    n += 1
    return cases


RACE_PAIRS = [
    ((0, 50), (2, 3600)), ((2, 3600), (0, 50)), ((0, 1), (2, 1)), ((0, 7), (0, 9)), ((2, 100), (2, 200)),
    ((0, 14), (1, 0)), ((1, 0), (0, 14)), ((2, 3600), (1, 0)), ((1, 0), (3, 0)), ((1, 0), (4, 0)), ((3, 0), (4, 0)),
    ((0, 5), (3, 0)), ((4, 0), (0, 5)), ((1, 0), (1, 0)),
]


def gen_race(rng, prefix, full):
    """directed: two calls racing, EVERY schedule (each call performs at most 3 atomic operations, so the 64 schedules of
    6 bits are all interleavings), from a path with credit and from an exhausted path with a parked sender"""
    cases = []
    n = 0
    pres = [[(0, [1200])], [(6, [])], [(0, [1200]), (2, [3600]), (6, [])]]
    for pre in pres:
        for (ca, cb) in RACE_PAIRS:
            has_credit = pre[0][0] == 0 and len(pre) == 1
            if not has_credit and (ca[0] == 2 and ca[1] > 1 or cb[0] == 2 and cb[1] > 1):
                continue
            scheds = itertools.product((0, 1), repeat=6) if (full or has_credit) else [tuple(rng.randint(0, 1) for _ in range(6)) for _ in range(12)]
            for sc in scheds:
                ops = [(t, list(a)) for t, a in pre] + [(8, [ca[0], ca[1], cb[0], cb[1]] + list(sc)), (6, []), (1, []),
                                                      (5, [1200, 0, 10 ** 6, 0, 1200]), (0, [10]), (6, [])]
                cases.append(Case("%s%d" % (prefix, n), ops, cfg=[40]))
                n += 1
    return cases


def gen_stress(rng, prefix, count):
    """SUPPORT: real two-thread runs (bounded); a disciplined sender against a stream of small arrivals"""
    cases = []
    for i in range(count):
        ops = [(0, [rng.choice([0, 100, 1200])]), (9, [rng.choice([20000, 50000]), rng.randint(1, 7)]), (1, []),
               (0, [50]), (5, [1200, 0, 10 ** 6, 0, 1200])]
        cases.append(Case("%s%d" % (prefix, i), ops, cfg=[40]))
    return cases


def gen(rng, tier):
    if tier == "quick":
        return (gen_exhaustive(3, "ex3-") + gen_exhaustive(4, "ex4s-", 0.08, rng) + gen_coalesce(rng, "co-", False) +
                gen_race(rng, "race-", False) + gen_stress(rng, "stress-", 6) + gen_random(rng, 3000, "r"))
    return (gen_exhaustive(4, "ex4-") + gen_exhaustive(5, "ex5s-", 0.2, rng) + gen_coalesce(rng, "co-", True) +
            gen_race(rng, "race-", True) + gen_stress(rng, "stress-", 40) + gen_random(rng, 100000, "r"))


def mutate(rng, case, j):
    ops = [(t, list(a)) for t, a in case.ops]
    for _ in range(rng.randint(1, 3)):
        r = rng.random()
        if r < 0.4 and ops:
            k = rng.randrange(len(ops))
            t, a = ops[k]
            if t in (0, 2):
                a[0] = max(0, a[0] + rng.randint(-3, 3))
            elif t == 5 and len(a) >= 5:
                kk = rng.randrange(2, len(a))
                a[kk] = max(0, a[kk] + rng.randint(-3, 3))
        elif r < 0.55:
            ops.insert(rng.randint(0, len(ops)), (8, [0, rng.choice([1, 14, 100]), 2, rng.choice([0, 1, 3]), ] + [rng.randint(0, 1) for _ in range(6)]))
        elif r < 0.62:
            ops.insert(rng.randint(0, len(ops)), (7, [rng.choice([50, 1200]), 0, 10 ** 6, 0, 1, 0, 1, rng.randint(10, 60), 0, rng.randint(0, 1300), 1]))
        elif r < 0.7:
            ops.insert(rng.randint(0, len(ops)), (0, [rng.choice([0, 1, 14, 100])]))
        else:
            ops.insert(rng.randint(0, len(ops)), (5, [rng.choice([50, 1200]), 0, 10 ** 6, 0, rng.randint(0, 1300)]))
    ops.append((1, []))
    return Case("m%d" % j, ops, cfg=list(case.cfg))


STREAMS = [{
    "name": "aa", "pkg": "hq", "bin": "impl_aa",
    "gen": gen, "oracle": oracle, "nontrivial": nontrivial, "hist": hist, "mutate": mutate, "classify": classify,
    "profiles": ("debug",), "profiles_thorough": ("debug", "release"),
    "rule": RULE,
}]
