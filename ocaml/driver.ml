(* Generic driver for the extracted models: same line protocol as harness/hproto.
   usage: driver <stream>  (stdin -> stdout) *)
open Model

(* ---- conversions between decimal strings and Coq's binary Z ---- *)
let rec pos_of_int (n : int) : positive =
  if n = 1 then XH
  else if n land 1 = 0 then XO (pos_of_int (n lsr 1))
  else XI (pos_of_int (n lsr 1))

let z_of_int (n : int) : z =
  if n = 0 then Z0 else if n > 0 then Zpos (pos_of_int n) else Zneg (pos_of_int (- n))

let z10 = z_of_int 10

let z_of_string (s : string) : z =
  let neg = String.length s > 0 && s.[0] = '-' in
  let s' = if neg then String.sub s 1 (String.length s - 1) else s in
  let v =
    if String.length s' <= 18 then z_of_int (int_of_string s')
    else begin
      let acc = ref Z0 in
      String.iter (fun c -> acc := Z.add (Z.mul !acc z10) (z_of_int (Char.code c - 48))) s';
      !acc
    end in
  if neg then Z.opp v else v

(* value of a positive when it fits in 61 bits *)
let rec pos_to_int_opt (p : positive) (depth : int) : int option =
  if depth > 60 then None else
  match p with
  | XH -> Some 1
  | XO q -> (match pos_to_int_opt q (depth + 1) with Some v -> Some (2 * v) | None -> None)
  | XI q -> (match pos_to_int_opt q (depth + 1) with Some v -> Some (2 * v + 1) | None -> None)

let rec big_pos_to_string (v : z) : string =
  (* v > 0, slow path *)
  match v with
  | Z0 -> ""
  | _ ->
    let (q, r) = Z.div_eucl v z10 in
    let d = (match r with Z0 -> 0 | Zpos p -> (match pos_to_int_opt p 0 with Some x -> x | None -> 0) | Zneg _ -> 0) in
    big_pos_to_string q ^ string_of_int d

let z_to_string (v : z) : string =
  match v with
  | Z0 -> "0"
  | Zpos p -> (match pos_to_int_opt p 0 with Some x -> string_of_int x | None -> big_pos_to_string v)
  | Zneg p -> "-" ^ (match pos_to_int_opt p 0 with Some x -> string_of_int x | None -> big_pos_to_string (Zpos p))

let n_of_int (n : int) : n = if n = 0 then N0 else Npos (pos_of_int n)

(* ---- protocol ---- *)
let split_ws (s : string) : string list =
  List.filter (fun x -> x <> "") (String.split_on_char ' ' s)

let hexval c =
  match c with
  | '0'..'9' -> Char.code c - 48
  | 'a'..'f' -> Char.code c - 87
  | 'A'..'F' -> Char.code c - 55
  | _ -> 0

let parse_args (toks : string list) : z list =
  List.concat_map (fun t ->
    if String.length t > 0 && t.[0] = 'x' then begin
      let n = (String.length t - 1) / 2 in
      List.init n (fun i -> z_of_int (16 * hexval t.[1 + 2*i] + hexval t.[2 + 2*i]))
    end else [z_of_string t]) toks

(* Streams.table is generated from streams/*.json by tools/vlib.py *)
let runner (stream : string) : (z list -> (n * z list) list -> z list list) =
  try List.assoc stream Streams.table
  with Not_found -> failwith ("unknown stream " ^ stream)

let () =
  let stream = Sys.argv.(1) in
  let run = runner stream in
  let ops = ref [] in
  let cfg = ref [] in
  let buf = Buffer.create 65536 in
  (try
    while true do
      let line = String.trim (input_line stdin) in
      if line = "" || line.[0] = '#' then ()
      else if String.length line >= 4 && String.sub line 0 4 = "CASE" then begin
        let words = split_ws (String.sub line 4 (String.length line - 4)) in
        Buffer.add_string buf ("CASE " ^ (match words with w :: _ -> w | [] -> "") ^ "\n");
        cfg := (match words with _ :: r -> parse_args r | [] -> []);
        ops := []
      end else if line = "END" then begin
        let obs = run !cfg (List.rev !ops) in
        List.iter (fun o ->
          Buffer.add_char buf '=';
          List.iter (fun v -> Buffer.add_char buf ' '; Buffer.add_string buf (z_to_string v)) o;
          Buffer.add_char buf '\n') obs;
        Buffer.add_string buf "END\n";
        print_string (Buffer.contents buf); Buffer.clear buf;
        ops := []
      end else begin
        match split_ws line with
        | t :: args -> ops := (n_of_int (int_of_string t), parse_args args) :: !ops
        | [] -> ()
      end
    done
  with End_of_file -> ());
  print_string (Buffer.contents buf)
