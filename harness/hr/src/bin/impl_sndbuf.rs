//! Correspondence stream `sndbuf` (C09): drives the real `qrecovery::send::SendBuf`.
//! CASE <name> <capacity>            = SendBuf::with_capacity(capacity)
//! ops: 0 len            write(content[written..written+len])
//!      1 max            extend(max)
//!      2 cap flow blk   pick_up(|off| if off < blk { Some(cap) } else { None }, flow)
//!      3 s e            on_data_acked(s..e)
//!      4 s e            may_loss_data(s..e)
//!      5                resend_flighting()
//!      6                forget_sent_state()
//! observation: `-1` when a debug assertion / overflow check of the Rust fires (the case is dead
//! from then on: every later op reports `-1` too), else
//!   result  = `0` | `1 start end fresh len bytes…` | `2 signal-bits`
//!   state   = written sent is_all_rcvd remaining_mut offset size retained max_data nruns (off colour)*
//! The colour list is the RAW boundary deque (hook `SendBuf::verif_colours`).
use std::panic::{AssertUnwindSafe, catch_unwind};

use bytes::Bytes;
use hproto::{Obs, Op, content_slice};
use qrecovery::send::SendBuf;

struct St {
    buf: SendBuf,
    dead: bool,
}

fn state(b: &SendBuf, o: &mut Obs) {
    let (runs, size, offset) = b.verif_colours();
    o.push(b.written())
        .push(b.sent())
        .push_bool(b.is_all_rcvd())
        .push(b.remaining_mut())
        .push(offset)
        .push(size)
        .push(b.verif_retained())
        .push(b.max_data())
        .push_usize(runs.len());
    for (off, c) in runs {
        o.push(off).push(c);
    }
}

fn clamp_usize(v: i128) -> usize {
    if v < 0 {
        0
    } else if v > usize::MAX as i128 {
        usize::MAX
    } else {
        v as usize
    }
}

fn exec(b: &mut SendBuf, op: &Op) -> Option<Obs> {
    let mut o = Obs::new();
    match op.tag {
        0 => {
            let len = op.u(0);
            if len == 0 {
                b.write(Bytes::new());
            } else {
                let at = b.written();
                b.write(Bytes::from(content_slice(at, len)));
            }
            o.push(0u8);
        }
        1 => {
            b.extend(op.u(0));
            o.push(0u8);
        }
        2 => {
            let cap = clamp_usize(op.args[0]);
            let flow = clamp_usize(op.args[1]);
            let blk = op.args[2];
            if cap == 0 {
                // no caller's predicate returns Some(0); the model reports the same outcome
                return None;
            }
            let r = b.pick_up(|off| if (off as i128) < blk { Some(cap) } else { None }, flow);
            match r {
                Ok((range, fresh, data)) => {
                    let bytes: Vec<u8> = data.iter().flat_map(|d| d.iter().copied()).collect();
                    o.push(1u8).push(range.start).push(range.end).push_bool(fresh).push_usize(bytes.len());
                    o.push_bytes(&bytes);
                }
                Err(sig) => {
                    o.push(2u8).push(sig.bits());
                }
            }
        }
        3 | 4 => {
            let (s, e) = (op.u(0), op.u(1));
            if op.tag == 3 {
                b.on_data_acked(&(s..e));
            } else {
                b.may_loss_data(&(s..e));
            }
            o.push(0u8);
        }
        5 => {
            b.resend_flighting();
            o.push(0u8);
        }
        6 => {
            b.forget_sent_state();
            o.push(0u8);
        }
        _ => {
            o.push(-99i32);
            return Some(o);
        }
    }
    state(b, &mut o);
    Some(o)
}

fn step(st: &mut St, op: &Op, _i: usize) -> Obs {
    if !st.dead {
        let buf = &mut st.buf;
        match catch_unwind(AssertUnwindSafe(|| exec(buf, op))) {
            Ok(Some(o)) => return o,
            _ => st.dead = true,
        }
    }
    let mut o = Obs::new();
    o.push(-1i32);
    o
}

fn main() {
    hproto::run(
        |cfg| {
            let cap: u64 = cfg.first().and_then(|s| s.parse().ok()).unwrap_or(0);
            St { buf: SendBuf::with_capacity(cap), dead: false }
        },
        step,
    );
}
