(* Closure: once poisoned with e, the connection stays poisoned with e under EVERY operation of the
   stream (application, transport, a second error, the executor), so the per-operation statements of
   Proofs/ConnError.v hold at every later point of every history. *)
From Coq Require Import List NArith ZArith Bool Lia.
From GQ Require Import Model.ConnError Proofs.ConnError.
Import ListNotations.
Local Open Scope N_scope.

(* Poisoned looks at six fields only *)
Definition same6 (m m' : cm) : Prop :=
  c_out_err m' = c_out_err m /\ c_dgin_err m' = c_dgin_err m /\ c_dgout_err m' = c_dgout_err m /\
  c_perr m' = c_perr m /\ c_snd m' = c_snd m /\ c_rcv m' = c_rcv m.

Lemma same6_refl : forall m, same6 m m.
Proof. intros. repeat split. Qed.
Lemma same6_trans : forall a b c, same6 a b -> same6 b c -> same6 a c.
Proof. intros a b c (A1&A2&A3&A4&A5&A6) (B1&B2&B3&B4&B5&B6). repeat split; congruence. Qed.
Lemma same6_poisoned : forall e m m', same6 m m' -> Poisoned e m -> Poisoned e m'.
Proof.
  intros e m m' (A1&A2&A3&A4&A5&A6) (P1&P2&P3&P4&P5&P6). unfold Poisoned.
  rewrite A1, A2, A3, A4, A5, A6. repeat split; assumption.
Qed.

Lemma same6_set_exec : forall m t w, same6 m (set_exec m t w). Proof. intros. repeat split. Qed.
Lemma same6_set_sid : forall m a b c, same6 m (set_sid m a b c). Proof. intros. repeat split. Qed.
Lemma same6_set_flow : forall m a b c, same6 m (set_flow m a b c). Proof. intros. repeat split. Qed.
Lemma same6_set_listener : forall m a b c, same6 m (set_listener m a b c). Proof. intros. repeat split. Qed.
Lemma same6_wake_list : forall m l, same6 m (wake_list m l). Proof. intros. repeat split. Qed.
Lemma same6_wake_opt : forall m o, same6 m (wake_opt m o). Proof. intros. destruct o; repeat split. Qed.
Lemma same6_set_misc : forall m h pn, same6 m (set_misc m h (c_out_err m) pn). Proof. intros. repeat split. Qed.

Lemma same6_sid_increase : forall m d v, same6 m (sid_increase m d v).
Proof.
  intros. unfold sid_increase. destruct (_ <? _); [|apply same6_refl].
  eapply same6_trans; [apply same6_set_sid|apply same6_wake_list].
Qed.

Lemma Forall_app_one : forall A (P : A -> Prop) l x, Forall P l -> P x -> Forall P (l ++ [x]).
Proof. intros. apply Forall_app. split; [assumption|constructor; [assumption|constructor]]. Qed.

Section Later.
  Variable e : err.

  Lemma p_handshake : forall m, Poisoned e m -> Poisoned e (fst (handshake m)).
  Proof.
    intros m HP. pose proof HP as (Ho & Hi & Hg & Hp & _ & _). unfold handshake.
    destruct (c_hs m); [exact HP|].
    set (m0 := set_misc m true (c_out_err m) (c_peer_next m)).
    assert (S0 : same6 m m0) by apply same6_set_misc.
    assert (E1 : c_perr m0 = Some e) by (destruct S0 as (_&_&_&X&_); congruence).
    assert (E2 : c_out_err m0 = Some e) by (destruct S0 as (X&_); congruence).
    rewrite E1, E2. destruct (c_ferr m0); cbn [fst].
    - eapply same6_poisoned; [exact S0|exact HP].
    - eapply same6_poisoned; [eapply same6_trans; [exact S0|apply same6_set_flow]|exact HP].
  Qed.

  Lemma p_start_task : forall m t k, Poisoned e m -> Poisoned e (fst (start_task m t k)).
  Proof.
    intros m t k HP. unfold start_task. destruct (slot_busy m k); [exact HP|].
    pose proof (poisoned_poll e m t k HP) as Q. cbv zeta in Q. destruct Q as (_ & _ & _ & Q & _).
    destruct (poll m t k) as [m1 [code val]]. cbn [fst snd] in *.
    destruct (code =? 0)%Z; cbn [fst]; [|exact Q].
    eapply same6_poisoned; [apply same6_set_exec|exact Q].
  Qed.

  Lemma p_peer_open : forall m d, Poisoned e m -> Poisoned e (fst (peer_open m d)).
  Proof.
    intros m d HP. pose proof HP as (Ho & Hi & Hg & Hp & Hs & Hr). unfold peer_open.
    set (m0 := set_misc m (c_hs m) (c_out_err m) (pset (c_peer_next m) d (pget (c_peer_next m) d + 1))).
    assert (S0 : same6 m m0) by apply same6_set_misc.
    assert (E2 : c_out_err m0 = Some e) by (destruct S0 as (X&_); congruence).
    rewrite E2. cbn [fst]. unfold Poisoned. cbn. repeat split; auto.
    apply Forall_app_one; [exact Hr|]. unfold rcv_ok. cbn. split; [reflexivity|]. intros e' X. inversion X. reflexivity.
  Qed.

  Lemma rcv_ok_tk : forall r a b c, rcv_ok e r -> rcv_ok e (with_tk r a b c).
  Proof. intros r a b c H. exact H. Qed.

  Lemma p_upd_tk : forall m sid r a b c, Poisoned e m -> alookup (c_rcv m) sid = Some r ->
    Poisoned e (upd_rcv m sid (with_tk r a b c)).
  Proof.
    intros m sid r a b c (Ho & Hi & Hg & Hp & Hs & Hr) LK. unfold Poisoned, upd_rcv. cbn. repeat split; auto.
    apply Forall_aupdate; [exact Hr|]. apply rcv_ok_tk.
    destruct (alookup_In _ _ _ _ LK) as [k' Hin]. rewrite Forall_forall in Hr. apply (Hr _ Hin).
  Qed.

  Lemma p_peer_fingap : forall m sid g, Poisoned e m -> Poisoned e (fst (peer_fingap m sid g)).
  Proof.
    intros m sid g HP. pose proof HP as (Ho & _). unfold peer_fingap.
    destruct (peer_may_send m sid) as [r|] eqn:E; [|exact HP].
    destruct (tk_fin r); [exact HP|]. unfold live_in_set. rewrite Ho. cbn [fst].
    apply p_upd_tk; [exact HP|apply alookup_known; exact E].
  Qed.

  Lemma p_peer_reset : forall m sid, Poisoned e m -> Poisoned e (fst (peer_reset m sid)).
  Proof.
    intros m sid HP. pose proof HP as (Ho & _). unfold peer_reset.
    destruct (peer_may_send m sid) as [r|] eqn:E; [|exact HP].
    unfold live_in_set. rewrite Ho. cbn [fst].
    apply p_upd_tk; [exact HP|apply alookup_known; exact E].
  Qed.

  Lemma sender_in_set_none : forall m sid, Poisoned e m -> sender_in_set m sid = None.
  Proof. intros m sid (Ho & _). unfold sender_in_set. rewrite Ho. reflexivity. Qed.

  Lemma p_peer_stop : forall m sid, Poisoned e m -> fst (peer_stop m sid) = m.
  Proof.
    intros m sid HP. unfold peer_stop. rewrite (sender_in_set_none m sid HP). destruct (peer_may_ctl m sid); reflexivity.
  Qed.
  Lemma p_peer_maxsd : forall m sid v, Poisoned e m -> fst (peer_maxsd m sid v) = m.
  Proof.
    intros m sid v HP. unfold peer_maxsd. rewrite (sender_in_set_none m sid HP). destruct (peer_may_ctl m sid); reflexivity.
  Qed.
  Lemma p_ack : forall m sid, Poisoned e m -> fst (ack m sid) = m.
  Proof. intros m sid HP. unfold ack. rewrite (sender_in_set_none m sid HP). reflexivity. Qed.
  Lemma p_credit : forall m n, fst (credit m n) = m.
  Proof. intros. unfold credit. destruct (c_ferr m); reflexivity. Qed.
  Lemma p_flow_err : forall m e2, Poisoned e m -> Poisoned e (flow_conn_error e2 m).
  Proof.
    intros m e2 HP. unfold flow_conn_error. destruct (c_ferr m); [exact HP|].
    eapply same6_poisoned; [apply same6_set_flow|exact HP].
  Qed.

  (* a poll racing a second close of an already failed connection *)
  Lemma p_race : forall m idx e2 t a, Poisoned e m -> Poisoned e (fst (race m idx e2 t a)).
  Proof.
    intros m idx e2 t a HP. unfold race. destruct (race_kind t a) as [k|]; [|exact HP].
    pose proof (p_start_task m idx k HP) as Q. destruct (start_task m idx k) as [m1 o]. cbn [fst] in *.
    rewrite (conn_error_again e) by exact Q. exact Q.
  Qed.

  Lemma p_cm_op : forall m idx tag a, Poisoned e m -> Poisoned e (fst (cm_op m idx tag a)).
  Proof.
    intros m idx tag a HP. unfold cm_op.
    repeat (match goal with
            | |- context[match ?x with _ => _ end] =>
              match type of x with
              | N => destruct x
              | positive => destruct x
              | list Z => destruct x
              end
            end); cbn [fst]; try exact HP;
      try (apply p_handshake; exact HP);
      try (apply p_start_task; exact HP);
      try (rewrite (poisoned_dgram_send e) by exact HP; exact HP);
      try (apply p_peer_open; exact HP);
      try (apply poisoned_peer_data; exact HP);
      try (apply p_peer_fingap; exact HP);
      try (apply p_peer_reset; exact HP);
      try (rewrite p_peer_stop by exact HP; exact HP);
      try (rewrite p_peer_maxsd by exact HP; exact HP);
      try (eapply same6_poisoned; [apply same6_sid_increase|exact HP]);
      try (rewrite (poisoned_load e) by exact HP; exact HP);
      try (rewrite p_ack by exact HP; exact HP);
      try (rewrite (poisoned_dgram_in e) by exact HP; exact HP);
      try (rewrite (conn_error_again e) by exact HP; exact HP);
      try (apply p_flow_err; exact HP);
      try (apply p_race; exact HP);
      try (rewrite p_credit; exact HP).
  Qed.

  Lemma p_repoll : forall todo m, Poisoned e m -> Poisoned e (fst (fst (repoll m todo))).
  Proof.
    induction todo as [|[t k] rest IH]; intros m HP; [exact HP|]. cbn [repoll].
    pose proof (poisoned_poll e m t k HP) as Q. cbv zeta in Q. destruct Q as (_ & _ & _ & Q & _).
    destruct (poll m t k) as [m1 [code val]]. cbn [fst snd] in *.
    set (m2 := if (code =? 0)%Z then m1 else set_exec m1 (filter (fun tk => negb (fst tk =? t)) (c_tasks m1)) (c_woken m1)).
    assert (P2 : Poisoned e m2).
    { subst m2. destruct (code =? 0)%Z; [exact Q|]. eapply same6_poisoned; [apply same6_set_exec|exact Q]. }
    specialize (IH m2 P2). destruct (repoll m2 rest) as [[m3 w] n]. cbn [fst] in *.
    destruct (code =? 0)%Z; cbn [fst]; exact IH.
  Qed.

  Lemma p_settle : forall m self, Poisoned e m -> Poisoned e (fst (settle m self)).
  Proof.
    intros m self HP. unfold settle.
    set (ready := filter (fun tk => mem_tid (fst tk) (c_woken m)) (c_tasks m)).
    assert (P0 : Poisoned e (set_exec m (c_tasks m) [])) by (eapply same6_poisoned; [apply same6_set_exec|exact HP]).
    pose proof (p_repoll ready _ P0) as Q.
    destruct (repoll (set_exec m (c_tasks m) []) ready) as [[m1 w] n]. cbn [fst] in *.
    eapply same6_poisoned; [apply same6_set_exec|exact Q].
  Qed.

  (* every operation of the stream keeps a poisoned connection poisoned with the same error *)
  Lemma p_cm_step : forall m idx tag a, Poisoned e m -> Poisoned e (fst (cm_step m idx tag a)).
  Proof.
    intros m idx tag a HP. unfold cm_step. pose proof (p_cm_op m idx tag a HP) as Q.
    destruct (cm_op m idx tag a) as [m1 o]. cbn [fst] in Q.
    assert (X : forall o', Poisoned e (fst (let '(m2, w) := settle m1 idx in (m2, o' ++ w)))).
    { intros o'. pose proof (p_settle m1 idx Q) as S. destruct (settle m1 idx) as [m2 w]. exact S. }
    destruct o as [|z o1]; [apply X|].
    destruct z; try apply X. destruct p; try apply X. destruct p; try apply X. destruct p; try apply X.
    destruct p; try apply X. destruct p; try apply X. destruct p; try apply X. destruct p; try apply X.
    destruct o1; [exact Q|apply X].
  Qed.

  Lemma p_cm_exec : forall ops m idx, Poisoned e m -> Poisoned e (cm_exec m idx ops).
  Proof.
    induction ops as [|[t a] r IH]; intros m idx HP; [exact HP|]. cbn [cm_exec]. apply IH. apply p_cm_step. exact HP.
  Qed.
End Later.

(* the whole statement over histories: whatever happened before (as long as the state is clean), after
   the connection error e and ANY further history of operations of any kind, the connection is poisoned
   with e — so every clause of c17_release / c17_release_no_data applies to the next operation *)
Lemma p_c17_release_history : forall e m idx ops idx',
  Clean m -> Poisoned e (cm_exec (conn_error e m) idx ops) /\
  forall t k, let r := poll (cm_exec (conn_error e m) idx' ops) t k in
              fst (snd r) <> 0%Z /\ (fst (snd r) = 2%Z -> snd (snd r) = Z.of_N e).
Proof.
  intros e m idx ops idx' C. split.
  - apply p_cm_exec. apply conn_error_poisoned. exact C.
  - intros t k. cbv zeta.
    pose proof (poisoned_poll e _ t k (p_cm_exec e ops _ idx' (conn_error_poisoned e m C))) as Q.
    cbv zeta in Q. destruct Q as (A & B & _). split; assumption.
Qed.

(* the initial state of every case is clean *)
Lemma p_c17_init_clean : forall fix23 cfg m, cm_init fix23 cfg = Some m -> Clean m.
Proof.
  intros fix23 cfg m H. unfold cm_init in H.
  destruct cfg as [|a [|b [|c [|d [|f [|g r]]]]]]; try discriminate. inversion H; subst.
  unfold Clean. cbn. repeat split; constructor.
Qed.
