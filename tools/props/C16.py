"""C16 — no wake-up is ever lost.

One correspondence stream per harness crate (`wakers` = qbase objects in hb, `wakers_r` = qrecovery in hr,
`wakers_d` = qdatagram in hd, `wakers_q` = qconnection in hq); the CASE cfg selects the protocol:
`CASE name <protocol id>`.  For a protocol with a recorded defect the model of the code as it is is compared
while the finding is `open` in known_findings.json, the model of the repaired code once it is `fixed`
(coq/Generated/C16Variant.v is regenerated from that file by `regen()` on every run).

ops:  0 w [arg]  POLL by waiter w      1 args…  NOTIFY      2 [k]  CLOSE      3 w  DROPW (task drops its future)
      (combine: POLL w k with k = 1, 2, 3 runs a notifier's step INSIDE the inner poll, after its registration)
obs:  code c0 c1 c2   (result code of the op; cumulative wake counts of waiters 0..2)
"""
import itertools
import json
import os
import re

from vlib import Case, ROOT, COQ, write_if_changed

PROP_FILE = "Properties/C16.v"
SKIP = -9

RULE = ("cases = op lists over POLL w [arg] / NOTIFY args / CLOSE / DROPW w for one protocol (selected in the CASE cfg); "
        "non-trivial = some waiter polls and, before it polls again or drops, a NOTIFY or CLOSE runs (a notifier meets a "
        "possibly registered sleeper), and the case also contains the opposite order (a NOTIFY/CLOSE before a POLL) or a "
        "re-poll after the notification (a POLL whose inner poll embeds a notifier's step -- combine_with kinds 1..3 -- "
        "counts as both); distinct by hash of cfg + op list")

TRUSTED_BASE = [
    "models coq/Model/Wakers.v are hand transcriptions of the Rust methods (one label = one lock-protected call, "
    "one atomic operation for AntiAmplifier); equality with the Rust is checked by the `wakers*` correspondence "
    "streams at METHOD granularity only (a single-threaded harness cannot interleave inside a method)",
    "the abstract condition of each protocol (queue non-empty or closed, keys set, limit raised, ...) is restated in "
    "Coq (`*_cond`) and, independently, in the Python oracle",
]
MODELLED = ("qbase: net/tx.rs SendWaker::{poll_wait_for,wake_by}; util/async_deque.rs AsyncDeque::{poll_pop,push_back,"
            "push_front,extend,close}; lib.rs + frame/io.rs Receiving::{poll,recv_frame,reset}; util/wakers.rs "
            "WakerVec::{register,wake_all,drop} and Wakers::{combine_with,to_waker,wake_all} over a mock event source (readiness "
            "counter, one edge-triggered registration slot; inner polls that are throttled, or raced by an arriving datagram / "
            "by poll_close between their registration and their return); param.rs Parameters::{poll_ready,recv_remote_params,"
            "initial_scid_from_peer_need_equal} + ArcParameters::{remote_ready,on_conn_error}; cid/remote_cid.rs "
            "CidCell::{borrow_cid,assign,retire}; packet/keys.rs KeysState::{poll,set,invalid}; sid/local_sid.rs "
            "LocalStreamIds::{poll_alloc_sid,increase_limit}. qrecovery: streams/raw.rs poll_open_bi_stream/on_conn_error; "
            "send/sender.rs + writer.rs + outgoing.rs (poll_ready/write/poll_flush/poll_shutdown, update_window, pick_up, "
            "on_data_acked, be_stopped, on_conn_error, abstract byte counts instead of SendBuf); recv/recver.rs + incoming.rs "
            "+ reader.rs + streams/raw.rs (frames in order with at most one frame lost and retransmitted -- SizeKnown as a "
            "resting state --, FIN, RESET_STREAM with a consistent / an illegal final size, on_conn_error); crypto.rs send (poll_write, poll_flush, "
            "on_data_acked) and recv (poll_read, recv). qdatagram: reader.rs poll_recv/recv_datagram/on_conn_error. "
            "qconnection: path/aa.rs AntiAmplifier (every atomic step), path/util.rs SendBuffer::{write,try_load_frames_into} "
            "(both locked steps) and RecvBuffer. NOT modelled: SendWakers::wake_all_by rotation over paths (each element "
            "is a SendWaker::wake_by), ArcOneRttKeys/ArcZeroRttKeys (same code shape as KeysState), the stream listener's "
            "wakers, more than one hole in a stream's received data, memory ordering of atomics; combine_with is interleaved "
            "with its notifiers at the steps a single thread can reach (before the call, inside the inner poll after its "
            "registration, after the call) -- the window between the inner poll's return and a LATER statement of "
            "combine_with is the same point in the order of lock-protected steps as the end of the inner poll")
ASSUMPTIONS = [
    "std::sync::Mutex gives mutual exclusion; atomics are sequentially consistent (memory ordering not modelled)",
    "an object with one Waker slot is used by one task (the code panics or overwrites otherwise); such protocols are "
    "checked with one waiter",
    "a task whose Waker was invoked is polled again by the executor (tokio's contract)",
]

MANIFEST = {
    "text": "Machine-checked Coq theorems (Properties/C16.v): for each hand-written waiter/notifier protocol a small-step "
            "system at the granularity of one lock-protected call is transcribed from the Rust, and an inductive invariant "
            "proves for EVERY reachable state (any number of steps, any interleaving of waiter polls, re-polls, drops and "
            "notifier/closer calls) that a task whose last poll returned Pending and whose condition holds (or whose object "
            "was closed) has a pending wake, and that a poll made while the condition holds does not park. Where the code "
            "violates this (ArcReceiving F1, LocalStreamIds on connection error F23, crypto-stream flush F24) the "
            "refutation is a concrete reachable witness replayed on the real code, with the conditional theorem for the "
            "rest and the full-strength theorem for the repaired code. Models are tied to the Rust by running the "
            "extracted model and the real objects (counting wakers) on the same op sequences every run; the property is "
            "also evaluated directly on the implementation's observations.",
    "note": "Trusted: Coq kernel, extraction, OCaml driver, Rust harness, Python generators/oracle. The harness drives the "
            "real objects single-threaded at METHOD granularity: for protocols whose methods are one lock-protected call "
            "each, sequential op orders are all schedules; protocols with finer steps (AntiAmplifier::balance — separate "
            "atomic loads; SendBuffer::write — two locks) are proved at the fine granularity in Coq but can only be "
            "compared with the code at method granularity. Memory ordering of atomics is not modelled (SC assumed).",
    "technique": "Coq proof (inductive invariant over all interleavings of a small-step system; generic waiter/notifier "
                 "discipline lemma) + differential correspondence model/implementation + direct oracle",
}


# --------------------------------------------------------------------------------------
# known findings -> which variant of the model a protocol is compared against

def _ids(status):
    try:
        data = json.load(open(os.path.join(ROOT, "known_findings.json")))
    except OSError:
        return set()
    return {e["id"] for e in data.get("findings", []) if e.get("property") == "C16" and e.get("status", "open") == status}


FIXED = _ids("fixed")     # repaired by a `fix:` commit: compare with the model of the repaired code, full-strength oracle
OPEN = _ids("open")       # recorded defect: compare with the model of the code as it is, oracle hits are KNOWN-FINDING


FINDINGS = ("F1", "F23", "F24", "F36")


def variant_text():
    return ("(* GENERATED by tools/props/C16.py from known_findings.json: which C16 findings are recorded as\n"
            "   fixed (the `fix:` commit is in the tree) -- selects the model variant compared by run_wakers *)\n"
            + "".join("Definition %s_fixed : bool := %s.\n" % (f.lower(), "true" if f in FIXED else "false") for f in FINDINGS))


def regen():
    """called by ./check before the Coq build"""
    write_if_changed(os.path.join(COQ, "Generated", "C16Variant.v"), variant_text())


# --------------------------------------------------------------------------------------
# protocol specifications for generators and the oracle.
#
# The oracle is a DIRECT statement of the property on the implementation's observations; the only
# protocol knowledge it uses is the abstract condition (what the waiter waits for), never where
# wakers are stored.  `Abs` objects track that condition from the ops and the observed results.

class Abs:
    """abstract condition tracker of one protocol instance"""
    finding = None          # finding id that a violation on this protocol maps to (None = none known)

    def cond(self, w, arg):
        """does the condition awaited by waiter w (who polled with arg) hold now?"""
        raise NotImplementedError

    def on_poll(self, w, arg, code):
        """a poll returned `code` (not skipped)"""

    def on_op(self, tag, args, code):
        """NOTIFY / CLOSE happened (not skipped)"""


class AbsSendWaker(Abs):
    # condition of a waiter that polled with `mask`: a signal of `mask` was raised since its last poll
    def __init__(self):
        self.raised = 0

    def cond(self, w, arg):
        return (self.raised & arg & 0xffff) != 0

    def on_poll(self, w, arg, code):
        self.raised = 0

    def on_op(self, tag, args, code):
        if tag == 1:
            self.raised |= args[0] & 0xffff


class AbsDeque(Abs):
    def __init__(self):
        self.q = []
        self.closed = False

    def cond(self, w, arg):
        return self.closed or len(self.q) > 0

    def on_poll(self, w, arg, code):
        if code >= 100 and self.q:
            self.q.pop(0)

    def on_op(self, tag, args, code):
        if tag == 2:
            self.closed = True
            self.q = []
        elif not self.closed:
            if args[0] == 0:
                self.q.append(args[1])
            elif args[0] == 1:
                self.q.insert(0, args[1])
            elif args[0] == 2:
                self.q.extend(args[1:])


class AbsReceiving(Abs):
    # a frame was delivered (and not yet read), or it was read already, or the slot was reset
    finding = "F1"

    def __init__(self):
        self.have = False
        self.done = False
        self.reset = False

    def cond(self, w, arg):
        return self.have or self.done or self.reset

    def on_poll(self, w, arg, code):
        if code >= 100:
            self.have = False
            self.done = True

    def on_op(self, tag, args, code):
        if tag == 1 and not (self.have or self.done or self.reset):
            self.have = True
        elif tag == 1:
            # a second frame: the slot is single-use, whatever was there must stay observable
            pass
        elif tag == 2:
            self.reset = True


class AbsWakerVec(Abs):
    def __init__(self):
        self.flag = False
        self.closed = False

    def cond(self, w, arg):
        return self.flag or self.closed

    def on_op(self, tag, args, code):
        if tag == 2:
            self.closed = True
        elif tag == 1 and args[0] == 0 and not self.closed:
            self.flag = True


class AbsParams(Abs):
    # remote parameters received AND authenticated against the peer's source connection id, or connection error
    def __init__(self):
        self.got = None      # None / "good" / "bad"
        self.scid = False
        self.err = False

    def cond(self, w, arg):
        return self.err or (self.got == "good" and self.scid)

    def on_op(self, tag, args, code):
        if tag == 2:
            self.err = True
        elif args[0] == 0:
            self.got = "good"
        elif args[0] == 2:
            self.got = "bad"
        elif args[0] == 1:
            self.scid = True


class AbsCid(Abs):
    # a connection id has been assigned to the cell, or the cell was retired
    def __init__(self):
        self.alloc = False
        self.retired = False

    def cond(self, w, arg):
        return self.alloc or self.retired

    def on_op(self, tag, args, code):
        if tag == 2:
            self.retired = True
        elif tag == 1 and not self.retired:
            self.alloc = True


class AbsSid(Abs):
    # a stream id is available (fewer opened than the peer's limit) or the connection has failed
    finding = "F23"

    def __init__(self, m0=0):
        self.max = m0
        self.opened = 0
        self.closed = False

    def cond(self, w, arg):
        return self.closed or self.opened < self.max

    def on_poll(self, w, arg, code):
        if code >= 100:
            self.opened += 1

    def on_op(self, tag, args, code):
        if tag == 2:
            self.closed = True
        elif tag == 1:
            self.max = max(self.max, args[0])


class AbsCryptoSend(Abs):
    # flush: everything written has been acknowledged.  write: never blocks
    finding = "F24"

    def __init__(self):
        self.w = 0
        self.s = 0
        self.a = 0

    def cond(self, w, arg):
        return arg == 0 or self.a == self.w

    def on_poll(self, w, arg, code):
        if arg == 0 and code == 1:
            self.w += 8

    def on_op(self, tag, args, code):
        if tag == 1:
            if args[0] in (0, 1):
                self.s = self.w
            if args[0] in (0, 2):
                self.a = self.s


class AbsCryptoRecv(Abs):
    def __init__(self):
        self.avail = 0

    def cond(self, w, arg):
        return self.avail > 0

    def on_poll(self, w, arg, code):
        if code >= 100:
            self.avail = 0

    def on_op(self, tag, args, code):
        if tag == 1:
            self.avail += args[0]


class AbsRecver(Abs):
    # stream data readable, or the stream is finished / reset / the connection failed.
    # One frame may be lost on the way (NOTIFY 2 len) and retransmitted later (NOTIFY 3): what arrives behind the
    # hole is not readable, and a FIN behind the hole does not finish the stream before the hole is filled.
    def __init__(self):
        self.avail = 0
        self.ended = False
        self.hole = 0
        self.beyond = 0
        self.fin = False

    def cond(self, w, arg):
        return self.ended or self.avail > 0

    def on_poll(self, w, arg, code):
        if code >= 100:
            self.avail = 0

    def on_op(self, tag, args, code):
        if self.ended:
            return
        if tag == 2:
            if args[0] in (0, 1):
                self.ended = True
            # args[0] == 2: a RESET_STREAM that is a protocol violation changes nothing for the reader by itself
            # (the connection error that follows is CLOSE 0)
        elif tag == 1 and code == 0:
            if args[0] in (0, 1):
                if self.hole:
                    self.beyond += args[1]
                else:
                    self.avail += args[1]
                if args[0] == 1:
                    self.fin = True
                    if not self.hole:
                        self.ended = True
            elif args[0] == 2:
                self.hole = args[1]
            elif args[0] == 3:
                self.avail += self.hole + self.beyond
                self.hole = self.beyond = 0
                if self.fin:
                    self.ended = True


class AbsKeys(Abs):
    def __init__(self):
        self.done = False

    def cond(self, w, arg):
        return self.done

    def on_op(self, tag, args, code):
        self.done = True


class AbsDatagram(Abs):
    def __init__(self):
        self.q = 0
        self.err = False

    def cond(self, w, arg):
        return self.err or self.q > 0

    def on_poll(self, w, arg, code):
        if code >= 100 and self.q > 0:
            self.q -= 1

    def on_op(self, tag, args, code):
        if tag == 2:
            self.err = True
        elif tag == 1 and not self.err:
            self.q += 1


class AbsSender(Abs):
    # write: room in the window, or shutdown requested, or the stream is over; flush: everything written is
    # acknowledged (after FIN: the stream is complete); shutdown: the stream is complete; any: stopped / conn error
    def __init__(self):
        self.w = 0
        self.m = 16
        self.s = 0
        self.a = 0
        self.shutdown = False
        self.fin_sent = False
        self.complete = False
        self.dead = False

    def over(self):
        return self.dead or self.complete

    def cond(self, w, arg):
        if self.over():
            return True
        if arg == 0:
            return self.shutdown or self.fin_sent or self.w < self.m
        if arg == 1:
            return (not self.fin_sent) and self.a == self.w
        return False

    def on_poll(self, w, arg, code):
        if self.over():
            return
        if arg == 0 and code == 1:
            self.w += 8
        if arg == 2 and code == 0:
            self.shutdown = True

    def on_op(self, tag, args, code):
        if self.over():
            return
        if tag == 2 or (tag == 1 and args[0] == 3):
            self.dead = True
        elif tag == 1 and args[0] == 0:
            if not self.fin_sent:
                self.m = max(self.m, args[1])
        elif tag == 1 and args[0] == 1:
            if not self.fin_sent:
                self.s = max(self.s, min(self.w, self.m))
                if self.shutdown and self.s == self.w:
                    self.fin_sent = True
        elif tag == 1 and args[0] == 2:
            self.a = self.s
            if self.fin_sent:
                self.complete = True


class AbsAa(Abs):
    # anti-amplification credit is positive, or the path was granted / aborted
    def __init__(self):
        self.credit = 0
        self.state = 0

    def cond(self, w, arg):
        return self.state != 0 or self.credit > 0

    def on_poll(self, w, arg, code):
        if code >= 100:
            self.credit = 0         # the harness reports on_sent(all)

    def on_op(self, tag, args, code):
        if self.state != 0:
            return
        if tag == 1:
            self.credit += 3 * args[0]
        elif tag == 2:
            self.state = 1 + args[0]


class AbsSb(Abs):
    # a frame is in the send buffer
    finding = "F36"

    def __init__(self):
        self.item = False

    def cond(self, w, arg):
        return self.item

    def on_poll(self, w, arg, code):
        if code == 1:
            self.item = False

    def on_op(self, tag, args, code):
        if tag == 1:
            self.item = True

    def expand(self, tag, args, code):
        # NOTIFY 1 = write() with the sending task running between the two locked steps of write:
        # wake_by | task | store in the code as it is, store | task | wake_by once F36 is fixed
        if tag == 1 and args == [1]:
            if "F36" in FIXED:
                return [(1, [0], 0), (0, [0], code)]
            return [(0, [0], code), (1, [0], 0)]
        return [(tag, args, code)]


class AbsCombine(Abs):
    # Wakers::combine_with over a shared event source: the source is ready (a datagram is queued) or the socket was
    # closed; for a task whose inner poll was throttled (it woke the waker it was given and returned Pending without
    # looking at the source): the source asked to be polled again
    nested = {1: "throttled", 2: "arrival", 3: "close"}     # POLL kinds whose inner poll embeds a notifier's step
    poll_wake_counts = True     # a Waker invoked during the poll itself is a pending wake of the polling task

    def __init__(self):
        self.ready = 0
        self.closed = False
        self.again = set()

    def cond(self, w, arg):
        if self.closed:
            return True
        if arg == 1:
            return w in self.again
        return self.ready > 0

    def pre_poll(self, w, arg):
        self.again.discard(w)

    def on_poll(self, w, arg, code):
        if self.closed:
            return
        if code == 1:
            self.ready -= 1
        elif code == 0 and arg == 1:
            self.again.add(w)
        elif code == 0 and arg == 2:
            self.ready += 1
        elif code == 0 and arg == 3:
            self.closed = True

    def on_op(self, tag, args, code):
        if self.closed:
            return
        if tag == 2:
            self.closed = True
        elif tag == 1 and args[0] == 0:
            self.ready += 1


def _polls(ws, args=(None,)):
    out = []
    for w in ws:
        for a in args:
            out.append((0, [w] if a is None else [w, a]))
    return out


PROTOS = {
    # id: dict(name, stream, abs, alphabet for exhaustive enumeration, richer alphabet for random)
    1: dict(name="sendwaker", stream="wakers", abs=AbsSendWaker, single=True,
            core=[(0, [0, 1]), (1, [1]), (1, [2]), (3, [0])],
            alpha=[(0, [0, 1]), (0, [0, 3]), (1, [1]), (1, [2]), (3, [0])],
            rich=[(0, [0, 1]), (0, [0, 2]), (0, [0, 3]), (0, [0, 0]), (0, [0, 0x3ff]), (0, [0, 0xffff]), (0, [1, 1]),
                  (1, [1]), (1, [2]), (1, [3]), (1, [4]), (1, [0]), (1, [0x8000]), (3, [0])]),
    2: dict(name="asyncdeque", stream="wakers", abs=AbsDeque, single=True,
            core=[(0, [0]), (1, [0, 5]), (2, []), (3, [0])],
            alpha=[(0, [0]), (1, [0, 5]), (1, [2]), (2, []), (3, [0])],
            rich=[(0, [0]), (0, [1]), (1, [0, 5]), (1, [0, 6]), (1, [1, 7]), (1, [2]), (1, [2, 8, 9]), (2, []), (3, [0])]),
    3: dict(name="receiving", stream="wakers", abs=AbsReceiving, single=True, finding="F1",
            core=[(0, [0]), (1, [5]), (2, []), (3, [0])],
            alpha=[(0, [0]), (1, [5]), (1, [6]), (2, []), (3, [0])],
            rich=[(0, [0]), (0, [2]), (1, [5]), (1, [6]), (2, []), (3, [0])]),
    4: dict(name="wakervec", stream="wakers", abs=AbsWakerVec,
            core=[(0, [0]), (0, [1]), (1, [0]), (2, [])],
            alpha=[(0, [0]), (0, [1]), (1, [0]), (1, [1]), (2, []), (3, [0])],
            rich=[(0, [0]), (0, [1]), (0, [2]), (1, [0]), (1, [1]), (2, []), (3, [0]), (3, [1])]),
    5: dict(name="params", stream="wakers", abs=AbsParams,
            core=[(0, [0]), (0, [1]), (1, [0]), (1, [1]), (2, [])],
            alpha=[(0, [0]), (0, [1]), (1, [0]), (1, [1]), (2, []), (3, [0])],
            rich=[(0, [0]), (0, [1]), (0, [2]), (1, [0]), (1, [1]), (1, [2]), (2, []), (3, [0]), (3, [1])]),
    6: dict(name="cidcell", stream="wakers", abs=AbsCid, single=True,
            core=[(0, [0]), (1, []), (2, []), (3, [0])],
            alpha=[(0, [0]), (1, []), (2, []), (3, [0])],
            rich=[(0, [0]), (0, [1]), (1, []), (2, []), (3, [0])]),
    8: dict(name="sid", stream="wakers_r", abs=AbsSid, finding="F23", params=[0, 1],
            core=[(0, [0]), (0, [1]), (1, [1]), (2, [])],
            alpha=[(0, [0]), (0, [1]), (1, [1]), (1, [2]), (2, []), (3, [0])],
            rich=[(0, [0]), (0, [1]), (0, [2]), (1, [1]), (1, [2]), (1, [3]), (1, [0]), (2, []), (3, [0]), (3, [1])]),
    10: dict(name="recver", stream="wakers_r", abs=AbsRecver, single=True,
             core=[(0, [0]), (1, [0, 3]), (1, [1, 2]), (2, [0])],
            alpha=[(0, [0]), (1, [0, 3]), (1, [1, 2]), (2, [0]), (2, [1]), (2, [2]), (3, [0])],
             # a frame is lost and retransmitted: SizeKnown (FIN behind the hole) as a resting state
             hole=[(0, [0]), (1, [0, 3]), (1, [1, 2]), (1, [2, 2]), (1, [3]), (2, [0]), (2, [1]), (2, [2])],
             rich=[(0, [0]), (0, [1]), (1, [0, 3]), (1, [0, 0]), (1, [1, 2]), (1, [1, 0]), (1, [2, 2]), (1, [2, 5]), (1, [2, 0]),
                   (1, [3]), (2, [0]), (2, [1]), (2, [2]), (3, [0])]),
    11: dict(name="crypto_send", stream="wakers_r", abs=AbsCryptoSend, single=True, finding="F24",
             core=[(0, [0, 0]), (0, [0, 1]), (1, [1]), (1, [2])],
            alpha=[(0, [0, 0]), (0, [0, 1]), (1, [0]), (1, [1]), (1, [2]), (3, [0])],
             rich=[(0, [0, 0]), (0, [0, 1]), (0, [1, 1]), (1, [0]), (1, [1]), (1, [2]), (3, [0])]),
    12: dict(name="crypto_recv", stream="wakers_r", abs=AbsCryptoRecv, single=True,
             core=[(0, [0]), (1, [5]), (1, [0]), (3, [0])],
            alpha=[(0, [0]), (1, [5]), (1, [0]), (3, [0])],
             rich=[(0, [0]), (0, [1]), (1, [5]), (1, [0]), (1, [1]), (3, [0])]),
    9: dict(name="sender", stream="wakers_r", abs=AbsSender, single=True,
            core=[(0, [0, 0]), (0, [0, 1]), (0, [0, 2]), (1, [1]), (1, [2])],
            alpha=[(0, [0, 0]), (0, [0, 1]), (0, [0, 2]), (1, [0, 32]), (1, [1]), (1, [2]), (2, [])],
            rich=[(0, [0, 0]), (0, [0, 1]), (0, [0, 2]), (0, [1, 0]), (1, [0, 32]), (1, [0, 24]), (1, [0, 8]), (1, [1]), (1, [2]),
                  (1, [3]), (2, []), (3, [0])]),
    7: dict(name="keys", stream="wakers_q", abs=AbsKeys, single=True,
            core=[(0, [0]), (1, []), (2, []), (3, [0])],
            alpha=[(0, [0]), (1, []), (2, []), (3, [0])],
            rich=[(0, [0]), (0, [1]), (1, []), (2, []), (3, [0])]),
    13: dict(name="datagram", stream="wakers_d", abs=AbsDatagram, single=True,
             core=[(0, [0]), (1, [5]), (2, []), (3, [0])],
            alpha=[(0, [0]), (1, [5]), (2, []), (3, [0])],
             rich=[(0, [0]), (0, [1]), (1, [5]), (1, [6]), (2, []), (3, [0])]),
    14: dict(name="aa", stream="wakers_q", abs=AbsAa, single=True,
             core=[(0, [0]), (1, [1]), (2, [0]), (3, [0])],
            alpha=[(0, [0]), (1, [1]), (1, [0]), (2, [0]), (2, [1]), (3, [0])],
             rich=[(0, [0]), (0, [1]), (1, [1]), (1, [2]), (1, [0]), (2, [0]), (2, [1]), (3, [0])]),
    15: dict(name="sendbuffer", stream="wakers_q", abs=AbsSb, single=True, finding="F36",
             core=[(0, [0]), (1, [0]), (1, [1]), (3, [0])],
            alpha=[(0, [0]), (1, [0]), (1, [1]), (3, [0])],
             rich=[(0, [0]), (0, [1]), (1, [0]), (1, [1]), (3, [0])]),
    17: dict(name="combine", stream="wakers", abs=AbsCombine, xlen=4, clen=7,
             core=[(0, [0, 0]), (0, [1, 0]), (0, [0, 1]), (0, [0, 2]), (1, [0]), (2, [])],
            alpha=[(0, [0, 0]), (0, [1, 0]), (0, [0, 1]), (0, [1, 1]), (0, [0, 2]), (0, [1, 2]), (0, [0, 3]), (1, [0]), (1, [1]),
                   (2, []), (3, [0])],
             rich=[(0, [0, 0]), (0, [1, 0]), (0, [2, 0]), (0, [0, 1]), (0, [1, 1]), (0, [2, 1]), (0, [0, 2]), (0, [1, 2]),
                   (0, [0, 3]), (0, [1, 3]), (0, [3, 0]), (0, [0, 4]), (1, [0]), (1, [1]), (1, [2]), (2, []), (3, [0]), (3, [1])]),
    16: dict(name="recvbuffer", stream="wakers_q", abs=AbsDeque, single=True,
             core=[(0, [0]), (1, [0, 5]), (2, []), (3, [0])],
            alpha=[(0, [0]), (1, [0, 5]), (2, []), (3, [0])],
             rich=[(0, [0]), (0, [1]), (1, [0, 5]), (1, [0, 6]), (2, []), (3, [0])]),
}


def mk_case(name, pid, ops, par=None):
    cfg = [pid] if par is None else [pid, par]
    return Case(name, [(t, list(a)) for t, a in ops], cfg=cfg)


# --------------------------------------------------------------------------------------
# oracle

def parse_obs(line):
    return [int(x) for x in line.split()]


def oracle(case, obs):
    pid = int(case.cfg[0]) if case.cfg else 0
    spec = PROTOS.get(pid)
    if spec is None:
        return "config: unknown protocol %s" % pid
    if len(obs) != len(case.ops):
        return "length: %d observations for %d ops (%s)" % (len(obs), len(case.ops), obs[-1] if obs else "")
    ab = spec["abs"](int(case.cfg[1])) if "params" in spec and len(case.cfg) > 1 else spec["abs"]()
    name = spec["name"]
    sleeping = {}       # w -> (op index, wake count when it parked, arg)
    counts = [0, 0, 0]
    for k, ((tag, args), line) in enumerate(zip(case.ops, obs)):
        if line.startswith("!"):
            return "abnormal[%s]: op %d -> %s" % (name, k, line)
        v = parse_obs(line)
        if len(v) != 4:
            return "shape[%s]: op %d observation %s" % (name, k, line)
        code, newc = v[0], v[1:]
        for w in range(3):
            if newc[w] < counts[w]:
                return "count[%s]: wake count of waiter %d decreased at op %d" % (name, w, k)
        if code == SKIP:
            if newc != counts:
                return "skip[%s]: skipped op %d changed wake counts" % (name, k)
            continue
        before = counts
        counts = newc
        parts = ab.expand(tag, args, code) if hasattr(ab, "expand") else [(tag, args, code)]
        for (ptag, pargs, pcode) in parts:
            if ptag == 0:
                w = pargs[0]
                arg = pargs[1] if len(pargs) > 1 else None
                if hasattr(ab, "pre_poll"):
                    ab.pre_poll(w, arg)
                held = ab.cond(w, arg)
                if held and pcode == 0:
                    return "unobserved[%s]: op %d waiter %d polled while its condition held and got Pending" % (name, k, w)
                ab.on_poll(w, arg, pcode)
                if pcode == 0:
                    # where the poll itself may hand the task's Waker to a notifier that runs before the poll returns
                    # (combine_with), an invocation during the poll is a pending wake: count from before the poll
                    sleeping[w] = (k, before[w] if getattr(ab, "poll_wake_counts", False) else newc[w], arg)
                else:
                    sleeping.pop(w, None)
            elif ptag == 3:
                sleeping.pop(pargs[0], None)
            else:
                ab.on_op(ptag, pargs, pcode)
        # the property: whoever sleeps on a condition that holds now must have been woken since it parked
        for w, (i, c0, arg) in sleeping.items():
            if ab.cond(w, arg) and counts[w] <= c0:
                what = "closed" if tag == 2 else "made true"
                return ("lost-wakeup[%s]: waiter %d parked at op %d (wake count %d); its condition was %s by op %d "
                        "and its wake count is still %d" % (name, w, i, c0, what, k, counts[w]))
    return None


def classify(case, msg, obs):
    """maps an oracle failure to a known finding id -- only while that finding is listed as open, and only
    when the failure is inside the finding's class (anything else on the same protocol is a new violation)"""
    pid = int(case.cfg[0]) if case.cfg else 0
    spec = PROTOS.get(pid, {})
    f = spec.get("finding")
    if f is None or f not in OPEN:
        return None
    name = spec["name"]
    lost = msg.startswith("lost-wakeup[%s]" % name)
    if f == "F1":        # the slot never registers a waker and recv_frame erases: every sleeper / overwritten frame
        return f if lost or msg.startswith("unobserved[%s]" % name) else None
    if f == "F23":       # only the connection error (CLOSE) misses the parked tasks
        return f if lost and " was closed by op " in msg else None
    if f == "F24":       # a task parked in poll_flush
        return f if lost else None
    if f == "F36":       # the task parked inside a NOTIFY 1 (between the two locked steps of write)
        if lost:
            m = re.search(r"parked at op (\d+) ", msg)
            if m and int(m.group(1)) < len(case.ops) and tuple(case.ops[int(m.group(1))][1]) == (1,) and case.ops[int(m.group(1))][0] == 1:
                return f
        return None
    return None


def classify_diff(case, io, mo):
    return None


# --------------------------------------------------------------------------------------
# non-triviality, histogram

def nontrivial(case):
    ops = case.ops
    if len(ops) < 3:
        return False
    met = False        # a NOTIFY/CLOSE runs while some waiter's last action is a POLL
    other = False      # NOTIFY/CLOSE before a POLL of a waiter that is not parked, or a re-poll after a notification
    parked = set()
    notified_since = set()
    seen_notify = False
    nested = getattr(PROTOS.get(int(case.cfg[0]) if case.cfg else 0, {}).get("abs"), "nested", {})
    for tag, args in ops:
        if tag == 0:
            w = args[0]
            if w in notified_since or (seen_notify and w not in parked):
                other = True
            parked.add(w)
            notified_since.discard(w)
            if len(args) > 1 and args[1] in nested:
                # the inner poll embeds a notifier's step: it meets every registered sleeper, this one included
                seen_notify = True
                met = True
                notified_since |= parked
        elif tag == 3:
            parked.discard(args[0])
            notified_since.discard(args[0])
        else:
            seen_notify = True
            if parked:
                met = True
                notified_since |= parked
    return met and other


def hist(case):
    pid = int(case.cfg[0]) if case.cfg else 0
    name = PROTOS.get(pid, {}).get("name", "?")
    f = PROTOS.get(pid, {}).get("finding")
    lab = ["proto:%s" % name, "model:%s" % ("as-is" if f is None else "repaired(%s)" % f if f in FIXED else "as-is(%s open)" % f),
           "len:%s" % ("1-3" if len(case.ops) <= 3 else "4-8" if len(case.ops) <= 8 else "9+")]
    nested = getattr(PROTOS.get(pid, {}).get("abs"), "nested", {})
    for t, a in case.ops:
        lab.append("op:%s:%s" % (name, ("poll", "notify", "close", "dropw")[t] if t < 4 else "?"))
        if t == 0 and len(a) > 1 and a[1] in nested:
            lab.append("op:%s:poll+%s-inside" % (name, nested[a[1]]))
        if name == "recver" and t == 1 and a and a[0] in (2, 3):
            lab.append("op:recver:%s" % ("frame-lost" if a[0] == 2 else "retransmit"))
    if name == "recver":
        lab.append("recver:%s" % _recver_shape(case.ops))
    return lab


def _recver_shape(ops):
    """which resting states of the receiver a case visits with a parked reader (generator visibility)"""
    hole = fin = parked = False
    seen = set()
    for t, a in ops:
        if t == 1 and a and a[0] == 2 and len(a) > 1 and a[1] > 0 and not hole and not fin:
            hole = True
        elif t == 1 and a and a[0] == 3:
            hole = False
        elif t == 1 and a and a[0] == 1:
            fin = True
        elif t == 0:
            parked = True
            if hole and fin:
                seen.add("sizeknown")
        elif t == 3:
            parked = False
        elif t == 2 and parked and hole and fin and "sizeknown" in seen:
            seen.add("ended-in-sizeknown")
    return "+".join(sorted(seen)) or "in-order"


# --------------------------------------------------------------------------------------
# generators

def gen_exhaustive(pid, maxlen, prefix, key="alpha", minlen=1):
    spec = PROTOS[pid]
    cases = []
    n = 0
    for par in spec.get("params", [None]):
        for L in range(minlen, maxlen + 1):
            for seq in itertools.product(spec[key], repeat=L):
                cases.append(mk_case("%s%s-%d" % (prefix, spec["name"], n), pid, seq, par))
                n += 1
    return cases


def gen_directed(pid, maxlen, prefix):
    """directed family `hole` (stream receiver): every op sequence over the alphabet with a lost / retransmitted frame
    that does lose a frame -- the histories in which the receiver RESTS in a state that in-order delivery only passes
    through (SizeKnown: FIN behind a hole), met there by every notifier (data, retransmission, RESET_STREAM, connection
    error) with the reader parked or not"""
    spec = PROTOS[pid]
    if "hole" not in spec:
        return []
    lose = [op for op in spec["hole"] if op[0] == 1 and op[1][0] == 2]
    cases = []
    n = 0
    for L in range(2, maxlen + 1):
        for seq in itertools.product(spec["hole"], repeat=L):
            if any(op in lose for op in seq[:-1]):
                cases.append(mk_case("%s%s-%d" % (prefix, spec["name"], n), pid, seq))
                n += 1
    # the resting state as a START state: [lose; FIN] (SizeKnown), also with unread / read data in front of the hole,
    # followed by every sequence one shorter
    fin = [op for op in spec["hole"] if op[0] == 1 and op[1][0] == 1][:1]
    data = [op for op in spec["hole"] if op[0] == 1 and op[1][0] == 0][:1]
    poll = [op for op in spec["hole"] if op[0] == 0][:1]
    for pre in ([lose[0]] + fin, data + [lose[0]] + fin, data + poll + [lose[0]] + fin):
        for L in range(1, maxlen):
            for seq in itertools.product(spec["hole"], repeat=L):
                cases.append(mk_case("%s%s-%d" % (prefix, spec["name"], n), pid, list(pre) + list(seq)))
                n += 1
    return cases


def gen_random(rng, pid, count, prefix):
    spec = PROTOS[pid]
    cases = []
    for i in range(count):
        L = rng.choice([3, 4, 5, 6, 8, 10, 12, 16, 24])
        pool = spec["rich"] if rng.random() < 0.8 else spec["alpha"]
        ops = [rng.choice(pool) for _ in range(L)]
        par = rng.choice(spec["params"]) if "params" in spec else None
        cases.append(mk_case("%s%s-%d" % (prefix, spec["name"], i), pid, ops, par))
    return cases


def gen_for(stream):
    def gen(rng, tier):
        cases = []
        only = os.environ.get("VERIF_C16_ONLY")          # debugging aid: comma-separated protocol ids
        only = {int(x) for x in only.split(",")} if only else None
        for pid, spec in sorted(PROTOS.items()):
            if spec["stream"] != stream or (only is not None and pid not in only):
                continue
            xlen = spec.get("xlen", 5)
            if tier == "quick":
                cases += gen_exhaustive(pid, xlen, "x") + gen_random(rng, pid, 400, "r")
                cases += gen_directed(pid, 5, "h")
            else:
                # every op sequence up to length 8 over the protocol's core alphabet (4-5 symbols), every sequence
                # up to length 6 over the wider alphabet, and long random sequences over the widest one
                cases += (gen_exhaustive(pid, spec.get("clen", 8), "c", key="core") + gen_exhaustive(pid, xlen + 1, "x")
                          + gen_random(rng, pid, 6000, "r"))
                cases += gen_directed(pid, 6, "h")
        return cases
    return gen


def mutate(rng, case, j):
    pid = int(case.cfg[0]) if case.cfg else 1
    spec = PROTOS.get(pid, PROTOS[1])
    ops = [(t, list(a)) for t, a in case.ops]
    for _ in range(rng.randint(1, 3)):
        r = rng.random()
        if r < 0.3 and ops:
            del ops[rng.randrange(len(ops))]
        elif r < 0.7:
            ops.insert(rng.randint(0, len(ops)), rng.choice(spec["rich"]))
        elif ops:
            a, b = rng.randrange(len(ops)), rng.randrange(len(ops))
            ops[a], ops[b] = ops[b], ops[a]
    ops.append(rng.choice(spec["alpha"]))
    return mk_case("m%d" % j, pid, ops, int(case.cfg[1]) if len(case.cfg) > 1 else None)


def _stream(name, pkg, binname):
    return {"name": name, "pkg": pkg, "bin": binname, "gen": gen_for(name), "oracle": oracle,
            "nontrivial": nontrivial, "hist": hist, "mutate": mutate, "classify": classify,
            "classify_diff": classify_diff, "profiles": ("debug",), "rule": RULE}


STREAMS = [
    _stream("wakers", "hb", "impl_wakers"),
    _stream("wakers_r", "hr", "impl_wakers_r"),
    _stream("wakers_d", "hd", "impl_wakers_d"),
    _stream("wakers_q", "hq", "impl_wakers_q"),
]
