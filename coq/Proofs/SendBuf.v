(* Proofs about Model/SendBuf.v (property C09). *)
From Coq Require Import List NArith ZArith Bool Lia.
From GQ Require Import Lib.Base Lib.Slice Model.SendBuf.
Import ListNotations.
Local Open Scope N_scope.

Arguments N.add : simpl never.
Arguments N.sub : simpl never.
Arguments N.min : simpl never.
Arguments N.max : simpl never.

(* ------------------------------------------------------------------ *)
(* colours *)

Lemma colour_eqb_eq a b : colour_eqb a b = true <-> a = b.
Proof. destruct a, b; cbn; split; intro H; try reflexivity; try discriminate. Qed.

Lemma colour_eqb_neq a b : colour_eqb a b = false <-> a <> b.
Proof. destruct a, b; cbn; split; intro H; try reflexivity; try discriminate; try congruence. Qed.

Lemma colour_eqb_refl a : colour_eqb a a = true.
Proof. destruct a; reflexivity. Qed.

(* ------------------------------------------------------------------ *)
(* well-formed boundary lists: offsets strictly increasing from [lo], below [sz],
   a Pending run can only be the last one *)

Fixpoint wfl (lo sz : N) (l : list run) : Prop :=
  match l with
  | [] => True
  | (o, k) :: r => lo <= o /\ o < sz /\ (k = Pending -> r = []) /\ wfl (o + 1) sz r
  end.

Definition nop (l : list run) : Prop := Forall (fun x : run => snd x <> Pending) l.
Definition offs_lt (m : N) (l : list run) : Prop := Forall (fun x : run => fst x < m) l.

Lemma wfl_weaken lo lo' sz l : lo' <= lo -> wfl lo sz l -> wfl lo' sz l.
Proof. destruct l as [|[o k] r]; cbn [wfl]; [trivial|]. intros H (A & B & C & D). repeat split; auto; lia. Qed.

Lemma wfl_app_intro lo sz a m t :
  wfl lo sz a -> nop a -> offs_lt m a -> lo <= m -> wfl m sz t -> wfl lo sz (a ++ t).
Proof.
  revert lo; induction a as [|[o k] r IH]; intros lo Ha Hn Ho Hlo Ht; cbn [app].
  - eapply wfl_weaken; eauto.
  - cbn [wfl] in *. destruct Ha as (A & B & C & D).
    inversion Hn as [|? ? Hk Hn']; subst. inversion Ho as [|? ? Hm Ho']; subst. cbn [fst snd] in *.
    split; [exact A|]. split; [exact B|]. split; [intro; congruence|].
    apply IH; auto. lia.
Qed.

Lemma wfl_app_l lo sz a t : wfl lo sz (a ++ t) -> wfl lo sz a.
Proof.
  revert lo; induction a as [|[o k] r IH]; intros lo H; cbn [app wfl] in *; [trivial|].
  destruct H as (A & B & C & D). repeat split; auto.
  intro Hk. specialize (C Hk). destruct r; [reflexivity|discriminate].
Qed.

Lemma wfl_app_r lo sz a t : wfl lo sz (a ++ t) -> wfl lo sz t.
Proof.
  revert lo; induction a as [|[o k] r IH]; intros lo H; cbn [app wfl] in *; [exact H|].
  destruct H as (A & B & C & D). apply IH in D. eapply wfl_weaken; [|exact D]. lia.
Qed.

Lemma wfl_nop_prefix lo sz a x t : wfl lo sz (a ++ x :: t) -> nop a.
Proof.
  revert lo; induction a as [|[o k] r IH]; intros lo H; [constructor|].
  cbn [app wfl] in H. destruct H as (A & B & C & D). constructor.
  - cbn [snd]. intro Hk. specialize (C Hk). destruct r; discriminate.
  - eapply IH; eauto.
Qed.

Lemma wfl_offs_ge lo sz l : wfl lo sz l -> Forall (fun x : run => lo <= fst x /\ fst x < sz) l.
Proof.
  revert lo; induction l as [|[o k] r IH]; intros lo H; [constructor|].
  cbn [wfl] in H. destruct H as (A & B & C & D). constructor; [cbn; lia|].
  apply IH in D. eapply Forall_impl; [|exact D]. cbn. intros; lia.
Qed.

(* ------------------------------------------------------------------ *)
(* col_from *)

Lemma col_from_lt cur lo sz l i : wfl lo sz l -> i < lo -> col_from cur l i = cur.
Proof.
  destruct l as [|[o k] r]; cbn [col_from wfl]; [reflexivity|]. intros (A & _) Hi.
  destruct (N.ltb_spec i o); [reflexivity|lia].
Qed.

Lemma col_from_app_ge cur a t i :
  Forall (fun x : run => fst x <= i) a -> col_from cur (a ++ t) i = col_from (last_colour cur a) t i.
Proof.
  revert cur; induction a as [|[o k] r IH]; intros cur H; cbn [app col_from last_colour]; [reflexivity|].
  inversion H as [|? ? Ho Hr]; subst. cbn [fst] in Ho.
  destruct (N.ltb_spec i o); [lia|]. apply IH; assumption.
Qed.

Lemma col_from_app_lt cur a lo sz t i :
  wfl lo sz t -> i < lo -> col_from cur (a ++ t) i = col_from cur a i.
Proof.
  revert cur; induction a as [|[o k] r IH]; intros cur Ht Hi; cbn [app col_from].
  - eapply col_from_lt; eauto.
  - destruct (N.ltb_spec i o); [reflexivity|]. apply IH; assumption.
Qed.

(* past the first boundary the incoming colour is irrelevant *)
Lemma col_from_ge_hd c1 c2 o k r i : o <= i -> col_from c1 ((o, k) :: r) i = col_from c2 ((o, k) :: r) i.
Proof. intro H. cbn [col_from]. destruct (N.ltb_spec i o); [lia|reflexivity]. Qed.

Lemma col_from_drop_while c lo sz l i : wfl lo sz l -> col_from c (drop_while c l) i = col_from c l i.
Proof.
  revert lo; induction l as [|[o k] r IH]; intros lo H; cbn [drop_while]; [reflexivity|].
  destruct (colour_eqb k c) eqn:E; [|reflexivity].
  apply colour_eqb_eq in E; subst k. cbn [wfl] in H. destruct H as (A & B & C & D).
  cbn [col_from]. rewrite (IH _ D). destruct (N.ltb_spec i o); [|reflexivity].
  eapply col_from_lt; [exact D|lia].
Qed.

Lemma wfl_drop_while c lo sz l : wfl lo sz l -> wfl lo sz (drop_while c l).
Proof.
  revert lo; induction l as [|[o k] r IH]; intros lo H; cbn [drop_while]; [trivial|].
  destruct (colour_eqb k c); [|exact H]. cbn [wfl] in H. destruct H as (A & B & C & D).
  eapply wfl_weaken; [|apply IH; exact D]. lia.
Qed.

(* ------------------------------------------------------------------ *)
(* split_lt *)

Lemma split_lt_spec s lo sz l pfx rest :
  wfl lo sz l -> split_lt s l = (pfx, rest) ->
  l = pfx ++ rest /\ offs_lt s pfx /\ wfl (N.max lo s) sz rest.
Proof.
  revert lo pfx rest; induction l as [|[o k] r IH]; intros lo pfx rest H E; cbn [split_lt] in E.
  - injection E as <- <-. repeat split; constructor.
  - cbn [wfl] in H. destruct H as (A & B & C & D).
    destruct (N.ltb_spec o s).
    + destruct (split_lt s r) as [a b] eqn:Er. injection E as <- <-.
      destruct (IH _ _ _ D eq_refl) as (E1 & E2 & E3). subst r.
      split; [reflexivity|]. split; [constructor; [cbn; lia|exact E2]|].
      eapply wfl_weaken; [|exact E3]. lia.
    + injection E as <- <-. split; [reflexivity|]. split; [constructor|].
      cbn [wfl]. repeat split; auto; lia.
Qed.

(* ------------------------------------------------------------------ *)
(* back_merge *)

Lemma all_colour_last c d l : all_colour c l = true -> l <> [] -> last_colour d l = c.
Proof.
  revert d; induction l as [|[o k] r IH]; intros d H Hne; [congruence|].
  cbn [all_colour] in H. apply andb_true_iff in H. destruct H as [Hk Hr]. apply colour_eqb_eq in Hk. subst k.
  cbn [last_colour]. destruct r as [|x r']; [reflexivity|]. apply IH; [exact Hr|discriminate].
Qed.

Lemma col_from_all_colour c l i : all_colour c l = true -> col_from c l i = c.
Proof.
  intros H. induction l as [|[o k] r IH]; cbn [col_from]; [reflexivity|].
  cbn [all_colour] in H. apply andb_true_iff in H. destruct H as [Hk Hr]. apply colour_eqb_eq in Hk. subst k.
  destruct (i <? o); [reflexivity|]. apply IH; exact Hr.
Qed.

Lemma back_merge_col c s cur l i : col_from cur (back_merge c s l) i = col_from cur (l ++ [(s, c)]) i.
Proof.
  revert cur; induction l as [|[o k] r IH]; intros cur; cbn [back_merge app]; [reflexivity|].
  destruct (colour_eqb k c && all_colour c r) eqn:E.
  - apply andb_true_iff in E. destruct E as [Hk Hr]. apply colour_eqb_eq in Hk. subst k.
    cbn [col_from]. destruct (i <? o); [reflexivity|].
    symmetry. apply col_from_all_colour. clear IH.
    induction r as [|[o' k'] r' IH']; cbn [app all_colour]; [now rewrite colour_eqb_refl|].
    cbn [all_colour] in Hr. apply andb_true_iff in Hr. destruct Hr as [H1 H2]. rewrite H1. cbn. apply IH'; exact H2.
  - cbn [col_from]. destruct (i <? o); [reflexivity|]. apply IH.
Qed.

Lemma back_merge_last c s d l : last_colour d (back_merge c s l) = c.
Proof.
  revert d; induction l as [|[o k] r IH]; intros d; cbn [back_merge]; [reflexivity|].
  destruct (colour_eqb k c && all_colour c r) eqn:E.
  - apply andb_true_iff in E. destruct E as [Hk _]. apply colour_eqb_eq in Hk. subst k. reflexivity.
  - cbn [last_colour]. apply IH.
Qed.

Lemma back_merge_wfl c s lo sz l :
  wfl lo sz l -> nop l -> offs_lt s l -> lo <= s -> s < sz -> c <> Pending ->
  wfl lo sz (back_merge c s l) /\ offs_lt (s + 1) (back_merge c s l) /\ nop (back_merge c s l).
Proof.
  revert lo; induction l as [|[o k] r IH]; intros lo H Hn Ho Hlo Hs Hc; cbn [back_merge].
  - split; [cbn [wfl]; repeat split; auto; intro; congruence|].
    split; [constructor; [cbn; lia|constructor]|]. constructor; [exact Hc|constructor].
  - cbn [wfl] in H. destruct H as (A & B & C & D).
    inversion Ho as [|? ? Ho1 Ho2]; subst. cbn [fst] in Ho1.
    inversion Hn as [|? ? Hn1 Hn2]; subst. cbn [snd] in Hn1.
    destruct (colour_eqb k c && all_colour c r) eqn:E.
    + apply andb_true_iff in E. destruct E as [Hk _]. apply colour_eqb_eq in Hk. subst k.
      split; [cbn [wfl]; repeat split; auto|].
      split; [constructor; [cbn; lia|constructor]|]. constructor; [exact Hc|constructor].
    + destruct (IH (o + 1) D Hn2 Ho2 ltac:(lia) Hs Hc) as (I1 & I2 & I3).
      split; [|split].
      * cbn [wfl]. split; [exact A|]. split; [exact B|]. split; [intro; congruence|exact I1].
      * constructor; [cbn; lia|exact I2].
      * constructor; assumption.
Qed.

(* ------------------------------------------------------------------ *)
(* gluing a kept prefix and a rebuilt tail *)

Lemma offs_lt_le m l i : offs_lt m l -> m <= i + 1 -> Forall (fun x : run => fst x <= i) l.
Proof. intros H Hm. eapply Forall_impl; [|exact H]. cbn. intros; lia. Qed.

Lemma assemble kept t m sz :
  wfl 0 sz kept -> nop kept -> offs_lt m kept -> wfl m sz t ->
  wfl 0 sz (kept ++ t) /\
  (forall i, i < m -> col_from Recved (kept ++ t) i = col_from Recved kept i) /\
  (forall i, m <= i + 1 -> col_from Recved (kept ++ t) i = col_from (last_colour Recved kept) t i).
Proof.
  intros Hk Hn Ho Ht. split; [|split].
  - eapply wfl_app_intro; eauto. lia.
  - intros i Hi. eapply col_from_app_lt; eauto.
  - intros i Hi. apply col_from_app_ge. eapply offs_lt_le; eauto.
Qed.

Lemma wfl_cons_lo lo lo' sz o k r : wfl lo sz ((o, k) :: r) -> lo' <= o -> wfl lo' sz ((o, k) :: r).
Proof. cbn [wfl]. intros (A & B & C & D) H. repeat split; auto. Qed.

Lemma last_colour_app d a x : last_colour d (a ++ [x]) = snd x.
Proof. revert d; induction a as [|[o k] r IH]; intros d; destruct x; cbn [app last_colour snd]; [reflexivity|apply IH]. Qed.

Lemma nop_app a b : nop a -> nop b -> nop (a ++ b).
Proof. apply Forall_app_intro || (intros; apply Forall_app; split; assumption). Qed.

Lemma offs_lt_app m a b : offs_lt m a -> offs_lt m b -> offs_lt m (a ++ b).
Proof. intros; apply Forall_app; split; assumption. Qed.

Lemma offs_lt_mono m m' l : offs_lt m l -> m <= m' -> offs_lt m' l.
Proof. intros H Hm. eapply Forall_impl; [|exact H]. cbn; intros; lia. Qed.

(* a prefix whose offsets are < s, followed by one more boundary at s *)
Lemma wfl_snoc sz pfx s c :
  wfl 0 sz pfx -> nop pfx -> offs_lt s pfx -> s < sz -> c <> Pending ->
  wfl 0 sz (pfx ++ [(s, c)]) /\ nop (pfx ++ [(s, c)]) /\ offs_lt (s + 1) (pfx ++ [(s, c)]).
Proof.
  intros H Hn Ho Hs Hc. split; [|split].
  - apply wfl_app_intro with (m := s); [assumption|assumption|assumption|lia|].
    cbn [wfl]. repeat split; auto; try lia; intro; congruence.
  - apply nop_app; [assumption|]. constructor; [exact Hc|constructor].
  - apply offs_lt_app; [eapply offs_lt_mono; eauto; lia|]. constructor; [cbn; lia|constructor].
Qed.

(* ------------------------------------------------------------------ *)
(* ack_rcvd *)

Lemma ack_go_spec sz e : forall l lo pre t,
  wfl lo sz l -> pre <> Pending -> ack_go sz e pre l = Some t ->
  e <= sz /\ wfl e sz t /\
  (forall i, e <= i < sz -> col_from Recved t i = col_from pre l i) /\
  (forall i, i < e -> col_from pre l i <> Pending).
Proof.
  induction l as [|[o k] r IH]; intros lo pre t Hw Hp E; cbn [ack_go] in E.
  - destruct (N.ltb_spec sz e); [discriminate|]. injection E as <-.
    split; [lia|]. split; [|split].
    + destruct ((e <? sz) && negb (colour_eqb pre Recved)) eqn:C; [|exact I].
      apply andb_true_iff in C. destruct C as [C1 _]. apply N.ltb_lt in C1.
      cbn [wfl]. repeat split; auto; try lia; intro; congruence.
    + intros i Hi. cbn [col_from].
      destruct (N.ltb_spec e sz); [|lia]. cbn [andb].
      destruct (colour_eqb pre Recved) eqn:C; cbn [negb col_from].
      * apply colour_eqb_eq in C. now subst.
      * destruct (N.ltb_spec i e); [lia|reflexivity].
    + intros i _. exact Hp.
  - cbn [wfl] in Hw. destruct Hw as (A & B & C & D).
    destruct (N.ltb_spec o e) as [Hoe|Hoe].
    + assert (Hk : k <> Pending) by (intro; subst k; discriminate).
      assert (E' : ack_go sz e k r = Some t) by (destruct k; [congruence|exact E..]).
      destruct (IH _ _ _ D Hk E') as (I1 & I2 & I3 & I4).
      split; [exact I1|]. split; [exact I2|]. split.
      * intros i Hi. rewrite (I3 i Hi). cbn [col_from]. destruct (N.ltb_spec i o); [lia|reflexivity].
      * intros i Hi. cbn [col_from]. destruct (N.ltb_spec i o); [exact Hp|]. apply I4; exact Hi.
    + destruct (N.eqb_spec o e) as [Heq|Hne].
      * injection E as <-. subst o. split; [lia|]. split; [|split].
        -- apply (wfl_drop_while Recved e sz ((e, k) :: r)). cbn [wfl]. repeat split; auto; lia.
        -- intros i Hi. rewrite (col_from_drop_while Recved e sz ((e, k) :: r)) by (cbn [wfl]; repeat split; auto; lia).
           apply col_from_ge_hd. lia.
        -- intros i Hi. cbn [col_from]. destruct (N.ltb_spec i e); [exact Hp|lia].
      * assert (He : e < o) by lia. split; [lia|]. split; [|split].
        -- injection E as <-. destruct (colour_eqb pre Recved).
           ++ cbn [wfl]. repeat split; auto; lia.
           ++ cbn [wfl]. split; [lia|]. split; [lia|]. split; [intro; congruence|].
              repeat split; auto; lia.
        -- intros i Hi. injection E as <-. destruct (colour_eqb pre Recved) eqn:Cp.
           ++ apply colour_eqb_eq in Cp. now subst pre.
           ++ cbn [col_from]. destruct (N.ltb_spec i e); [lia|]. reflexivity.
        -- intros i Hi. cbn [col_from]. destruct (N.ltb_spec i o); [exact Hp|lia].
Qed.

Definition WF (m : bufmap) : Prop := wfl 0 (size m) (runs m).

(* colour of byte i in the raw list *)
Definition colr (m : bufmap) (i : N) : colour := col_from Recved (runs m) i.

Lemma colour_at_colr m i : colour_at m i = if i <? size m then Some (colr m i) else None.
Proof. reflexivity. Qed.

Definition ack_post (m : bufmap) (s e : N) (l' : list run) : Prop :=
  e <= size m /\ wfl 0 (size m) l' /\
  (forall i, i < size m -> col_from Recved l' i = if (s <=? i) && (i <? e) then Recved else colr m i) /\
  (forall i, s <= i < e -> colr m i <> Pending).

Lemma wfl_nop_last lo sz d l : wfl lo sz l -> last_colour d l <> Pending -> nop l.
Proof.
  revert lo d; induction l as [|[o k] r IH]; intros lo d H Hl; [constructor|].
  cbn [wfl] in H. destruct H as (A & B & C & D). cbn [last_colour] in Hl.
  constructor.
  - cbn [snd]. intro Hk. specialize (C Hk). subst r k. cbn [last_colour] in Hl. congruence.
  - eapply IH; eauto.
Qed.

Lemma col_from_all_le cur l i : Forall (fun x : run => fst x <= i) l -> col_from cur l i = last_colour cur l.
Proof. intro H. rewrite <- (app_nil_r l) at 1. rewrite col_from_app_ge by assumption. reflexivity. Qed.

Lemma ack_finish m s e kept t :
  s < e -> e <= size m ->
  wfl 0 (size m) kept -> nop kept -> offs_lt (s + 1) kept -> last_colour Recved kept = Recved ->
  (forall i, i < s -> col_from Recved kept i = colr m i) ->
  wfl e (size m) t -> (forall i, e <= i < size m -> col_from Recved t i = colr m i) ->
  (forall i, s <= i < e -> colr m i <> Pending) ->
  ack_post m s e (kept ++ t).
Proof.
  intros Hse He Hk Hn Ho Hl Hlow Ht Hhigh Hnp.
  assert (Ht' : wfl (s + 1) (size m) t) by (eapply wfl_weaken; [|exact Ht]; lia).
  destruct (assemble kept t (s + 1) (size m) Hk Hn Ho Ht') as (A1 & A2 & A3).
  unfold ack_post. split; [exact He|]. split; [exact A1|]. split; [|exact Hnp].
  intros i Hi. destruct (N.leb_spec s i); destruct (N.ltb_spec i e); cbn [andb].
  - destruct (N.eq_dec i s) as [->|Hne].
    + rewrite A2 by lia. rewrite col_from_all_le; [exact Hl|]. eapply offs_lt_le; eauto. lia.
    + rewrite A3 by lia. rewrite Hl. apply (col_from_lt _ e (size m)); [exact Ht|lia].
  - rewrite A3 by lia. rewrite Hl. apply Hhigh. lia.
  - rewrite A2 by lia. apply Hlow. lia.
  - rewrite A2 by lia. apply Hlow. lia.
Qed.

Lemma ack_err_spec m s e pfx rest l' :
  WF m -> s < e -> runs m = pfx ++ rest -> offs_lt s pfx -> wfl (s + 1) (size m) rest ->
  ack_err (size m) s e pfx rest = Some l' -> ack_post m s e l'.
Proof.
  intros Hwf Hse Hr Ho Hrest E. unfold WF in Hwf. rewrite Hr in Hwf.
  assert (Hpfx : wfl 0 (size m) pfx) by (eapply wfl_app_l; eauto).
  unfold ack_err in E.
  assert (Orig : forall i, s <= i -> colr m i = col_from (last_colour Recved pfx) rest i).
  { intros i Hi. unfold colr. rewrite Hr. apply col_from_app_ge. eapply offs_lt_le; eauto. lia. }
  assert (Orig2 : forall i, i < s -> colr m i = col_from Recved pfx i).
  { intros i Hi. unfold colr. rewrite Hr. eapply col_from_app_lt; eauto. lia. }
  assert (Fin : forall pre t, last_colour Recved pfx = pre -> pre <> Pending ->
            ack_go (size m) e pre rest = Some t ->
            e <= size m /\ wfl e (size m) t /\ (forall i, e <= i < size m -> col_from Recved t i = colr m i) /\
            (forall i, s <= i < e -> colr m i <> Pending)).
  { intros pre t Hpre Hnp Eg. destruct (ack_go_spec _ _ _ _ _ _ Hrest Hnp Eg) as (G1 & G2 & G3 & G4).
    split; [exact G1|]. split; [exact G2|]. split.
    - intros i Hi. rewrite G3 by lia. rewrite Orig by lia. now rewrite Hpre.
    - intros i Hi. rewrite Orig by lia. rewrite Hpre. apply G4. lia. }
  destruct pfx as [|p0 pfx0] eqn:Epfx.
  - destruct (Fin Recved l' eq_refl ltac:(discriminate) E) as (F1 & F2 & F3 & F4).
    change l' with ([] ++ l'). apply ack_finish; auto; try constructor.
    intros i Hi. rewrite Orig2 by lia. reflexivity.
  - rewrite <- Epfx in *. clear Epfx p0 pfx0.
    destruct (last_colour Recved pfx) eqn:Elc; [discriminate| | |].
    + destruct (ack_go (size m) e Flighting rest) as [t|] eqn:Eg; [|discriminate]. cbn [option_map] in E. injection E as <-.
      destruct (Fin Flighting t eq_refl ltac:(discriminate) Eg) as (F1 & F2 & F3 & F4).
      assert (Hn : nop pfx) by (eapply wfl_nop_last; [exact Hpfx|rewrite Elc; discriminate]).
      destruct (wfl_snoc (size m) pfx s Recved Hpfx Hn Ho ltac:(lia) ltac:(discriminate)) as (S1 & S2 & S3).
      apply ack_finish; auto.
      * apply last_colour_app.
      * intros i Hi. rewrite Orig2 by lia. eapply col_from_app_lt with (lo := s) (sz := size m); [|lia].
        cbn [wfl]. repeat split; auto; try lia; intro; congruence.
    + destruct (ack_go (size m) e Lost rest) as [t|] eqn:Eg; [|discriminate]. cbn [option_map] in E. injection E as <-.
      destruct (Fin Lost t eq_refl ltac:(discriminate) Eg) as (F1 & F2 & F3 & F4).
      assert (Hn : nop pfx) by (eapply wfl_nop_last; [exact Hpfx|rewrite Elc; discriminate]).
      destruct (wfl_snoc (size m) pfx s Recved Hpfx Hn Ho ltac:(lia) ltac:(discriminate)) as (S1 & S2 & S3).
      apply ack_finish; auto.
      * apply last_colour_app.
      * intros i Hi. rewrite Orig2 by lia. eapply col_from_app_lt with (lo := s) (sz := size m); [|lia].
        cbn [wfl]. repeat split; auto; try lia; intro; congruence.
    + destruct (ack_go (size m) e Recved rest) as [t|] eqn:Eg; [|discriminate]. cbn [option_map] in E. injection E as <-.
      destruct (Fin Recved t eq_refl ltac:(discriminate) Eg) as (F1 & F2 & F3 & F4).
      assert (Hn : nop pfx) by (eapply wfl_nop_last; [exact Hpfx|rewrite Elc; discriminate]).
      apply ack_finish; auto.
      * eapply offs_lt_mono; eauto. lia.
      * intros i Hi. now rewrite Orig2 by lia.
Qed.

Lemma ack_rcvd_spec m s e m' :
  WF m -> s < e -> ack_rcvd m s e = Some m' ->
  size m' = size m /\ ack_post m s e (runs m').
Proof.
  intros Hwf Hse E. unfold ack_rcvd in E.
  destruct (split_lt s (runs m)) as [pfx rest] eqn:Es.
  destruct (split_lt_spec _ _ _ _ _ _ Hwf Es) as (Hr & Ho & Hrest).
  replace (N.max 0 s) with s in Hrest by lia.
  match type of E with option_map _ ?r = _ => destruct r as [l'|] eqn:Er; [|discriminate] end.
  cbn [option_map] in E. injection E as <-. cbn [size runs]. split; [reflexivity|].
  destruct rest as [|[o k] rest'].
  - eapply ack_err_spec; eauto.
  - destruct (N.eqb_spec o s) as [->|Hne].
    + (* a boundary exactly at s *)
      cbn [wfl] in Hrest. destruct Hrest as (R1 & R2 & R3 & R4).
      assert (Hk : k <> Pending) by (intro; subst k; discriminate).
      assert (Er' : option_map (app (back_merge Recved s pfx)) (ack_go (size m) e k rest') = Some l')
        by (destruct k; [congruence|exact Er..]).
      destruct (ack_go (size m) e k rest') as [t|] eqn:Eg; [|discriminate]. cbn [option_map] in Er'. injection Er' as <-.
      destruct (ack_go_spec _ _ _ _ _ _ R4 Hk Eg) as (G1 & G2 & G3 & G4).
      pose proof Hwf as Hwf'. unfold WF in Hwf'. rewrite Hr in Hwf'.
      assert (Hpfx : wfl 0 (size m) pfx) by (eapply wfl_app_l; eauto).
      assert (Hn : nop pfx) by (eapply wfl_nop_prefix; eauto).
      destruct (back_merge_wfl Recved s 0 (size m) pfx Hpfx Hn Ho ltac:(lia) R2 ltac:(discriminate)) as (B1 & B2 & B3).
      assert (Orig : forall i, s <= i -> colr m i = col_from k rest' i).
      { intros i Hi. unfold colr. rewrite Hr. rewrite col_from_app_ge by (eapply offs_lt_le; eauto; lia).
        cbn [col_from]. destruct (N.ltb_spec i s); [lia|reflexivity]. }
      apply ack_finish; auto.
      * apply back_merge_last.
      * intros i Hi. rewrite back_merge_col. unfold colr. rewrite Hr.
        rewrite (col_from_app_lt Recved pfx s (size m) [(s, Recved)]); [|cbn [wfl]; repeat split; auto; try lia; intro; congruence|lia].
        symmetry. eapply col_from_app_lt with (lo := s) (sz := size m); [|lia].
        cbn [wfl]. repeat split; auto; lia.
      * intros i Hi. rewrite G3 by lia. now rewrite Orig by lia.
      * intros i Hi. rewrite Orig by lia. apply G4. lia.
    + eapply ack_err_spec; eauto. eapply wfl_cons_lo; eauto.
      cbn [wfl] in Hrest. lia.
Qed.

(* ------------------------------------------------------------------ *)
(* may_loss *)

Definition lossf (c : colour) : colour := match c with Flighting => Lost | _ => c end.

Lemma loss_both sz e : forall l,
  (forall lo pre t, wfl lo sz l -> lo <= e -> (pre = Flighting \/ pre = Lost) -> loss_go sz e pre l = Some t ->
      e <= sz /\ wfl lo sz t /\
      (forall i, i < sz -> col_from Lost t i = if i <? e then lossf (col_from pre l i) else col_from pre l i) /\
      (forall i, i < e -> col_from pre l i <> Pending))
  /\
  (forall lo t, wfl lo sz l -> lo <= e -> lost_from sz e l = Some t ->
      e <= sz /\ wfl lo sz t /\
      (forall i, i < sz -> col_from Recved t i = if i <? e then lossf (col_from Recved l i) else col_from Recved l i) /\
      (forall i, i < e -> col_from Recved l i <> Pending)).
Proof.
  induction l as [|[o k] r [IH1 IH2]].
  - split.
    + intros lo pre t _ Hlo Hp E. cbn [loss_go] in E.
      destruct (N.ltb_spec sz e); [discriminate|]. injection E as <-.
      split; [lia|]. split; [|split].
      * destruct ((e <? sz) && colour_eqb pre Flighting) eqn:C; [|exact I].
        apply andb_true_iff in C. destruct C as [C1 _]. apply N.ltb_lt in C1.
        cbn [wfl]. repeat split; auto; try lia; intro; congruence.
      * intros i Hi. cbn [col_from]. destruct (N.ltb_spec e sz); cbn [andb].
        -- destruct Hp as [-> | ->]; cbn [colour_eqb col_from lossf]; destruct (N.ltb_spec i e); reflexivity.
        -- assert (i < e) by lia. destruct (N.ltb_spec i e); [|lia].
           destruct Hp as [-> | ->]; reflexivity.
      * intros i _. cbn [col_from]. destruct Hp as [-> | ->]; discriminate.
    + intros lo t _ Hlo E. cbn [lost_from] in E.
      destruct (N.ltb_spec sz e); [discriminate|]. injection E as <-.
      split; [lia|]. split; [exact I|]. split.
      * intros i Hi. cbn [col_from lossf]. destruct (i <? e); reflexivity.
      * intros i _. cbn [col_from]. discriminate.
  - split.
    + intros lo pre t Hw Hlo Hp E. cbn [loss_go] in E.
      cbn [wfl] in Hw. destruct Hw as (A & B & C & D).
      assert (Hpre : lossf pre = Lost /\ pre <> Pending) by (destruct Hp as [-> | ->]; split; try reflexivity; discriminate).
      destruct Hpre as [Hpl Hpn].
      destruct (N.ltb_spec o e) as [Hoe|Hoe].
      * destruct k.
        -- discriminate.
        -- destruct (IH1 (o + 1) Flighting t D ltac:(lia) ltac:(now left) E) as (I1 & I2 & I3 & I4).
           split; [exact I1|]. split; [eapply wfl_weaken; [|exact I2]; lia|]. split.
           ++ intros i Hi. cbn [col_from]. destruct (N.ltb_spec i o).
              ** rewrite (col_from_lt Lost (o + 1) sz t i I2 ltac:(lia)). destruct (N.ltb_spec i e); [now rewrite Hpl|lia].
              ** apply I3; exact Hi.
           ++ intros i Hi. cbn [col_from]. destruct (N.ltb_spec i o); [exact Hpn|]. apply I4; exact Hi.
        -- destruct (IH1 (o + 1) Lost t D ltac:(lia) ltac:(now right) E) as (I1 & I2 & I3 & I4).
           split; [exact I1|]. split; [eapply wfl_weaken; [|exact I2]; lia|]. split.
           ++ intros i Hi. cbn [col_from]. destruct (N.ltb_spec i o).
              ** rewrite (col_from_lt Lost (o + 1) sz t i I2 ltac:(lia)). destruct (N.ltb_spec i e); [now rewrite Hpl|lia].
              ** apply I3; exact Hi.
           ++ intros i Hi. cbn [col_from]. destruct (N.ltb_spec i o); [exact Hpn|]. apply I4; exact Hi.
        -- destruct (lost_from sz e r) as [t'|] eqn:El; [|discriminate]. cbn [option_map] in E. injection E as <-.
           destruct (IH2 (o + 1) t' D ltac:(lia) eq_refl) as (I1 & I2 & I3 & I4).
           split; [exact I1|]. split; [cbn [wfl]; repeat split; auto; intro; congruence|]. split.
           ++ intros i Hi. cbn [col_from]. destruct (N.ltb_spec i o).
              ** destruct (N.ltb_spec i e); [now rewrite Hpl|lia].
              ** apply I3; exact Hi.
           ++ intros i Hi. cbn [col_from]. destruct (N.ltb_spec i o); [exact Hpn|]. apply I4; exact Hi.
      * destruct (N.eqb_spec o e) as [Heq|Hne].
        -- injection E as <-. subst o. split; [lia|].
           assert (Hwl : wfl lo sz ((e, k) :: r)) by (cbn [wfl]; repeat split; auto).
           split; [apply (wfl_drop_while Lost lo sz ((e, k) :: r)); exact Hwl|]. split.
           ++ intros i Hi. rewrite (col_from_drop_while Lost lo sz ((e, k) :: r)) by exact Hwl.
              cbn [col_from]. destruct (N.ltb_spec i e); [now rewrite Hpl|reflexivity].
           ++ intros i Hi. cbn [col_from]. destruct (N.ltb_spec i e); [exact Hpn|lia].
        -- assert (He : e < o) by lia. injection E as <-. split; [lia|]. split; [|split].
           ++ destruct (colour_eqb pre Flighting).
              ** cbn [wfl]. split; [lia|]. split; [lia|]. split; [intro; congruence|]. repeat split; auto; lia.
              ** cbn [wfl]. repeat split; auto.
           ++ intros i Hi. destruct Hp as [-> | ->]; cbn [colour_eqb col_from lossf];
                destruct (N.ltb_spec i e); destruct (N.ltb_spec i o); try lia; reflexivity.
           ++ intros i Hi. cbn [col_from]. destruct (N.ltb_spec i o); [exact Hpn|lia].
    + intros lo t Hw Hlo E. cbn [lost_from] in E.
      cbn [wfl] in Hw. destruct Hw as (A & B & C & D).
      destruct (N.ltb_spec o e) as [Hoe|Hoe].
      * destruct k.
        -- discriminate.
        -- destruct (loss_go sz e Flighting r) as [t'|] eqn:El; [|discriminate]. cbn [option_map] in E. injection E as <-.
           destruct (IH1 (o + 1) Flighting t' D ltac:(lia) ltac:(now left) El) as (I1 & I2 & I3 & I4).
           split; [exact I1|]. split; [cbn [wfl]; repeat split; auto; intro; congruence|]. split.
           ++ intros i Hi. cbn [col_from]. destruct (N.ltb_spec i o).
              ** destruct (N.ltb_spec i e); reflexivity.
              ** apply I3; exact Hi.
           ++ intros i Hi. cbn [col_from]. destruct (N.ltb_spec i o); [discriminate|]. apply I4; exact Hi.
        -- destruct (loss_go sz e Lost r) as [t'|] eqn:El; [|discriminate]. cbn [option_map] in E. injection E as <-.
           destruct (IH1 (o + 1) Lost t' D ltac:(lia) ltac:(now right) El) as (I1 & I2 & I3 & I4).
           split; [exact I1|]. split; [cbn [wfl]; repeat split; auto; intro; congruence|]. split.
           ++ intros i Hi. cbn [col_from]. destruct (N.ltb_spec i o).
              ** destruct (N.ltb_spec i e); reflexivity.
              ** apply I3; exact Hi.
           ++ intros i Hi. cbn [col_from]. destruct (N.ltb_spec i o); [discriminate|]. apply I4; exact Hi.
        -- destruct (lost_from sz e r) as [t'|] eqn:El; [|discriminate]. cbn [option_map] in E. injection E as <-.
           destruct (IH2 (o + 1) t' D ltac:(lia) eq_refl) as (I1 & I2 & I3 & I4).
           split; [exact I1|]. split; [cbn [wfl]; repeat split; auto; intro; congruence|]. split.
           ++ intros i Hi. cbn [col_from]. destruct (N.ltb_spec i o).
              ** destruct (N.ltb_spec i e); reflexivity.
              ** apply I3; exact Hi.
           ++ intros i Hi. cbn [col_from]. destruct (N.ltb_spec i o); [discriminate|]. apply I4; exact Hi.
      * assert (Triv : forall i, i < sz ->
           col_from Recved ((o, k) :: r) i = if i <? e then lossf (col_from Recved ((o, k) :: r) i) else col_from Recved ((o, k) :: r) i).
        { intros i Hi. destruct (N.ltb_spec i e); [|reflexivity]. cbn [col_from]. destruct (N.ltb_spec i o); [reflexivity|lia]. }
        assert (NoP : forall i, i < e -> col_from Recved ((o, k) :: r) i <> Pending).
        { intros i Hi. cbn [col_from]. destruct (N.ltb_spec i o); [discriminate|lia]. }
        assert (Hwl : wfl lo sz ((o, k) :: r)) by (cbn [wfl]; repeat split; auto).
        destruct (N.eqb_spec o e) as [Heq|Hne].
        -- subst o. destruct k; injection E as <-; (split; [lia|]); try (split; [exact Hwl|split; [exact Triv|exact NoP]]).
           split; [|split; [|exact NoP]].
           ++ cbn [wfl]. split; [exact A|]. split; [exact B|]. split; [intro; congruence|]. apply wfl_drop_while; exact D.
           ++ intros i Hi. rewrite Triv by exact Hi.
              cbn [col_from]. destruct (N.ltb_spec i e); [reflexivity|].
              destruct (N.ltb_spec i e); [lia|]. eapply col_from_drop_while; eauto.
        -- injection E as <-. split; [lia|]. split; [exact Hwl|split; [exact Triv|exact NoP]].
Qed.

Definition loss_post (m : bufmap) (s e : N) (l' : list run) : Prop :=
  e <= size m /\ wfl 0 (size m) l' /\
  (forall i, i < size m -> col_from Recved l' i = if (s <=? i) && (i <? e) then lossf (colr m i) else colr m i) /\
  (forall i, s <= i < e -> colr m i <> Pending).

Lemma loss_finish m s e kept t m' :
  s < e -> e <= size m -> wfl 0 (size m) kept -> nop kept -> offs_lt m' kept -> s <= m' <= s + 1 ->
  wfl m' (size m) t ->
  (forall i, i < s -> col_from Recved kept i = colr m i) ->
  (m' = s + 1 -> last_colour Recved kept = lossf (colr m s)) ->
  (forall i, m' <= i < size m ->
     col_from (last_colour Recved kept) t i = if i <? e then lossf (colr m i) else colr m i) ->
  (forall i, s <= i < e -> colr m i <> Pending) ->
  loss_post m s e (kept ++ t).
Proof.
  intros Hse He Hk Hn Ho Hm Ht Hlow Hat Hhigh Hnp.
  destruct (assemble kept t m' (size m) Hk Hn Ho Ht) as (A1 & A2 & A3).
  unfold loss_post. split; [exact He|]. split; [exact A1|]. split; [|exact Hnp].
  intros i Hi. destruct (N.ltb_spec i m') as [Him|Him].
  - rewrite A2 by exact Him. destruct (N.leb_spec s i); cbn [andb].
    + assert (i = s) by lia. subst i. destruct (N.ltb_spec s e); [|lia].
      rewrite col_from_all_le by (eapply offs_lt_le; eauto; lia). apply Hat. lia.
    + apply Hlow. lia.
  - rewrite A3 by lia. rewrite Hhigh by lia.
    destruct (N.leb_spec s i); [reflexivity|lia].
Qed.

Lemma loss_err_spec m s e pfx rest l' :
  WF m -> s < e -> runs m = pfx ++ rest -> offs_lt s pfx -> wfl (s + 1) (size m) rest ->
  loss_err (size m) s e pfx rest = Some l' -> loss_post m s e l'.
Proof.
  intros Hwf Hse Hr Ho Hrest E. unfold WF in Hwf. rewrite Hr in Hwf.
  assert (Hpfx : wfl 0 (size m) pfx) by (eapply wfl_app_l; eauto).
  assert (Hrest_s : wfl s (size m) rest) by (eapply wfl_weaken; [|exact Hrest]; lia).
  unfold loss_err in E.
  assert (Orig : forall i, s <= i -> colr m i = col_from (last_colour Recved pfx) rest i).
  { intros i Hi. unfold colr. rewrite Hr. apply col_from_app_ge. eapply offs_lt_le; eauto. lia. }
  assert (Orig2 : forall i, i < s -> colr m i = col_from Recved pfx i).
  { intros i Hi. unfold colr. rewrite Hr. eapply col_from_app_lt with (lo := s); [exact Hrest_s|lia]. }
  assert (FinR : forall t, last_colour Recved pfx = Recved -> lost_from (size m) e rest = Some t ->
            e <= size m /\ wfl s (size m) t /\
            (forall i, s <= i < size m -> col_from Recved t i = if i <? e then lossf (colr m i) else colr m i) /\
            (forall i, s <= i < e -> colr m i <> Pending)).
  { intros t Hpre El. destruct (proj2 (loss_both (size m) e rest) s t Hrest_s ltac:(lia) El) as (G1 & G2 & G3 & G4).
    split; [exact G1|]. split; [exact G2|]. split.
    - intros i Hi. rewrite G3 by lia. rewrite Orig by lia. now rewrite Hpre.
    - intros i Hi. rewrite Orig by lia. rewrite Hpre. apply G4. lia. }
  assert (FinG : forall pre t, last_colour Recved pfx = pre -> pre = Flighting \/ pre = Lost ->
            loss_go (size m) e pre rest = Some t ->
            e <= size m /\ wfl (s + 1) (size m) t /\
            (forall i, s <= i < size m -> col_from Lost t i = if i <? e then lossf (colr m i) else colr m i) /\
            (forall i, s <= i < e -> colr m i <> Pending)).
  { intros pre t Hpre Hp El.
    destruct (proj1 (loss_both (size m) e rest) (s + 1) pre t Hrest ltac:(lia) Hp El) as (G1 & G2 & G3 & G4).
    split; [exact G1|]. split; [exact G2|]. split.
    - intros i Hi. rewrite G3 by lia. rewrite Orig by lia. now rewrite Hpre.
    - intros i Hi. rewrite Orig by lia. rewrite Hpre. apply G4. lia. }
  destruct pfx as [|p0 pfx0] eqn:Epfx.
  - destruct (FinR l' eq_refl E) as (F1 & F2 & F3 & F4).
    change l' with ([] ++ l'). apply loss_finish with (m' := s); auto; try constructor; try lia.
    + intros i Hi. rewrite Orig2 by lia. reflexivity.
  - rewrite <- Epfx in *. clear Epfx p0 pfx0.
    destruct (last_colour Recved pfx) eqn:Elc; [discriminate| | |].
    + destruct (loss_go (size m) e Flighting rest) as [t|] eqn:Eg; [|discriminate]. cbn [option_map] in E. injection E as <-.
      destruct (FinG Flighting t eq_refl ltac:(now left) Eg) as (F1 & F2 & F3 & F4).
      assert (Hn : nop pfx) by (eapply wfl_nop_last; [exact Hpfx|rewrite Elc; discriminate]).
      destruct (wfl_snoc (size m) pfx s Lost Hpfx Hn Ho ltac:(lia) ltac:(discriminate)) as (S1 & S2 & S3).
      apply loss_finish with (m' := s + 1); auto; try lia.
      * intros i Hi. rewrite Orig2 by lia. eapply col_from_app_lt with (lo := s) (sz := size m); [|lia].
        cbn [wfl]. repeat split; auto; try lia; intro; congruence.
      * intros _. rewrite last_colour_app. cbn [snd]. rewrite Orig by lia.
        rewrite (col_from_lt Flighting (s + 1) (size m) rest s Hrest ltac:(lia)). reflexivity.
      * intros i Hi. rewrite last_colour_app. cbn [snd]. apply F3. lia.
    + destruct (loss_go (size m) e Lost rest) as [t|] eqn:Eg; [|discriminate]. cbn [option_map] in E. injection E as <-.
      destruct (FinG Lost t eq_refl ltac:(now right) Eg) as (F1 & F2 & F3 & F4).
      assert (Hn : nop pfx) by (eapply wfl_nop_last; [exact Hpfx|rewrite Elc; discriminate]).
      apply loss_finish with (m' := s); auto; try lia.
      * eapply wfl_weaken; [|exact F2]. lia.
      * intros i Hi. now rewrite Orig2 by lia.
      * intros i Hi. rewrite Elc. apply F3. lia.
    + destruct (lost_from (size m) e rest) as [t|] eqn:Eg; [|discriminate]. cbn [option_map] in E. injection E as <-.
      destruct (FinR t eq_refl eq_refl) as (F1 & F2 & F3 & F4).
      assert (Hn : nop pfx) by (eapply wfl_nop_last; [exact Hpfx|rewrite Elc; discriminate]).
      apply loss_finish with (m' := s); auto; try lia.
      * intros i Hi. now rewrite Orig2 by lia.
      * intros i Hi. rewrite Elc. apply F3. lia.
Qed.

Lemma may_loss_spec m s e m' :
  WF m -> s < e -> may_loss m s e = Some m' ->
  size m' = size m /\ loss_post m s e (runs m').
Proof.
  intros Hwf Hse E. unfold may_loss in E.
  destruct (split_lt s (runs m)) as [pfx rest] eqn:Es.
  destruct (split_lt_spec _ _ _ _ _ _ Hwf Es) as (Hr & Ho & Hrest).
  replace (N.max 0 s) with s in Hrest by lia.
  match type of E with option_map _ ?r = _ => destruct r as [l'|] eqn:Er; [|discriminate] end.
  cbn [option_map] in E. injection E as <-. cbn [size runs]. split; [reflexivity|].
  destruct rest as [|[o k] rest'].
  - eapply loss_err_spec; eauto.
  - destruct (N.eqb_spec o s) as [->|Hne].
    + cbn [wfl] in Hrest. destruct Hrest as (R1 & R2 & R3 & R4).
      pose proof Hwf as Hwf'. unfold WF in Hwf'. rewrite Hr in Hwf'.
      assert (Hpfx : wfl 0 (size m) pfx) by (eapply wfl_app_l; eauto).
      assert (Hn : nop pfx) by (eapply wfl_nop_prefix; eauto).
      assert (Orig : forall i, s <= i -> colr m i = col_from k rest' i).
      { intros i Hi. unfold colr. rewrite Hr. rewrite col_from_app_ge by (eapply offs_lt_le; eauto; lia).
        cbn [col_from]. destruct (N.ltb_spec i s); [lia|reflexivity]. }
      assert (Orig_s : colr m s = k).
      { rewrite Orig by lia. eapply col_from_lt; eauto. lia. }
      assert (Orig2 : forall c i, i < s -> col_from Recved (pfx ++ [(s, c)]) i = colr m i).
      { intros c i Hi. unfold colr. rewrite Hr.
        rewrite (col_from_app_lt Recved pfx s (size m) [(s, c)]); [|cbn [wfl]; repeat split; auto; try lia; intro Hc; reflexivity|lia].
        symmetry. eapply col_from_app_lt with (lo := s) (sz := size m); [|lia].
        cbn [wfl]. repeat split; auto; lia. }
      destruct k.
      * discriminate.
      * (* Flighting *)
        destruct (loss_go (size m) e Flighting rest') as [t|] eqn:Eg; [|discriminate]. cbn [option_map] in Er. injection Er as <-.
        destruct (proj1 (loss_both (size m) e rest') (s + 1) Flighting t R4 ltac:(lia) ltac:(now left) Eg) as (G1 & G2 & G3 & G4).
        destruct (back_merge_wfl Lost s 0 (size m) pfx Hpfx Hn Ho ltac:(lia) R2 ltac:(discriminate)) as (B1 & B2 & B3).
        apply loss_finish with (m' := s + 1); auto; try lia.
        -- intros i Hi. rewrite back_merge_col. apply Orig2; exact Hi.
        -- intros _. rewrite back_merge_last, Orig_s. reflexivity.
        -- intros i Hi. rewrite back_merge_last. rewrite G3 by lia. now rewrite Orig by lia.
        -- intros i Hi. rewrite Orig by lia. apply G4. lia.
      * (* Lost *)
        destruct (loss_go (size m) e Lost rest') as [t|] eqn:Eg; [|discriminate]. cbn [option_map] in Er. injection Er as <-.
        destruct (proj1 (loss_both (size m) e rest') (s + 1) Lost t R4 ltac:(lia) ltac:(now right) Eg) as (G1 & G2 & G3 & G4).
        destruct (wfl_snoc (size m) pfx s Lost Hpfx Hn Ho R2 ltac:(discriminate)) as (S1 & S2 & S3).
        apply loss_finish with (m' := s + 1); auto; try lia.
        -- intros _. rewrite last_colour_app, Orig_s. reflexivity.
        -- intros i Hi. rewrite last_colour_app. cbn [snd]. rewrite G3 by lia. now rewrite Orig by lia.
        -- intros i Hi. rewrite Orig by lia. apply G4. lia.
      * (* Recved *)
        destruct (lost_from (size m) e rest') as [t|] eqn:Eg; [|discriminate]. cbn [option_map] in Er. injection Er as <-.
        destruct (proj2 (loss_both (size m) e rest') (s + 1) t R4 ltac:(lia) Eg) as (G1 & G2 & G3 & G4).
        destruct (wfl_snoc (size m) pfx s Recved Hpfx Hn Ho R2 ltac:(discriminate)) as (S1 & S2 & S3).
        replace (pfx ++ (s, Recved) :: t) with ((pfx ++ [(s, Recved)]) ++ t) by (rewrite <- app_assoc; reflexivity).
        apply loss_finish with (m' := s + 1); auto; try lia.
        -- intros _. rewrite last_colour_app, Orig_s. reflexivity.
        -- intros i Hi. rewrite last_colour_app. cbn [snd]. rewrite G3 by lia. now rewrite Orig by lia.
        -- intros i Hi. rewrite Orig by lia. apply G4. lia.
    + eapply loss_err_spec; eauto. eapply wfl_cons_lo; eauto.
      cbn [wfl] in Hrest. lia.
Qed.

(* ------------------------------------------------------------------ *)
(* pick *)

Definition skipped (flow win : N) (x : run) : Prop :=
  win <= fst x \/ snd x = Flighting \/ snd x = Recved \/ (snd x = Pending /\ flow = 0).

Lemma pick_scan_spec flow win : forall l w f,
  match pick_scan flow win l w f with
  | (Some (pre, (start, c), rest), _) =>
      l = pre ++ (start, c) :: rest /\ start < win /\ (c = Lost \/ (c = Pending /\ flow <> 0)) /\
      Forall (skipped flow win) pre
  | (None, _) => Forall (skipped flow win) l
  end.
Proof.
  induction l as [|[o k] r IH]; intros w f; cbn [pick_scan]; [constructor|].
  assert (Cont : forall w' f', skipped flow win (o, k) ->
     match (match pick_scan flow win r w' f' with
            | (Some (p, x, t), s) => (Some ((o, k) :: p, x, t), s)
            | (None, s) => (None, s)
            end) with
     | (Some (pre, (start, c), rest), _) =>
        (o, k) :: r = pre ++ (start, c) :: rest /\ start < win /\ (c = Lost \/ (c = Pending /\ flow <> 0)) /\
        Forall (skipped flow win) pre
     | (None, _) => Forall (skipped flow win) ((o, k) :: r)
     end).
  { intros w' f' Hs. specialize (IH w' f'). destruct (pick_scan flow win r w' f') as [[[[p [st c]] t]|] sg].
    - destruct IH as (I1 & I2 & I3 & I4). split; [cbn [app]; now rewrite I1|]. split; [exact I2|]. split; [exact I3|].
      constructor; assumption.
    - constructor; assumption. }
  destruct (N.leb_spec win o).
  - apply Cont. left. exact H.
  - destruct k.
    + destruct (N.eqb_spec flow 0).
      * apply Cont. right; right; right. split; [reflexivity|assumption].
      * split; [reflexivity|]. split; [exact H|]. split; [right; split; [reflexivity|assumption]|constructor].
    + apply Cont. right; left; reflexivity.
    + split; [reflexivity|]. split; [exact H|]. split; [left; reflexivity|constructor].
    + apply Cont. right; right; left; reflexivity.
Qed.

Lemma wfl_app_offs lo sz a o k t : wfl lo sz (a ++ (o, k) :: t) -> offs_lt o a.
Proof.
  revert lo; induction a as [|[o' k'] r IH]; intros lo H; [constructor|].
  cbn [app wfl] in H. destruct H as (A & B & C & D). constructor.
  - cbn [fst]. apply wfl_app_r in D. cbn [wfl] in D. lia.
  - eapply IH; eauto.
Qed.

Lemma col_from_in cur l i c : col_from cur l i = c -> c = cur \/ exists o, In (o, c) l /\ o <= i.
Proof.
  revert cur; induction l as [|[o k] r IH]; intros cur H; cbn [col_from] in H; [left; congruence|].
  destruct (N.ltb_spec i o); [left; congruence|].
  destruct (IH _ H) as [->|[o' [Hin Ho']]].
  - right. exists o. split; [now left|assumption].
  - right. exists o'. split; [now right|assumption].
Qed.

Definition pick_post (m : bufmap) (flow avail : N) (m' : bufmap) (start fin : N) (fresh : bool) : Prop :=
  size m' = size m /\ WF m' /\ start < fin /\ fin <= size m /\ fin - start <= avail /\
  exists c, (c = Lost \/ (c = Pending /\ flow <> 0 /\ fin - start <= flow)) /\ fresh = is_pending c /\
    (forall i, start <= i < fin -> colr m i = c) /\
    (forall i, i < size m -> colr m' i = if (start <=? i) && (i <? fin) then Flighting else colr m i) /\
    (forall i, i < start -> colr m i = Flighting \/ colr m i = Recved).

Lemma pick_spec m pred flow win m' start fin fresh :
  WF m -> size m <= win -> (forall o a, pred o = Some a -> 1 <= a) ->
  pick m pred flow win = PickOk m' start fin fresh ->
  exists avail, pred start = Some avail /\ pick_post m flow avail m' start fin fresh.
Proof.
  intros Hwf Hwin Hpred E. unfold pick in E.
  pose proof (pick_scan_spec flow win (runs m) true false) as Hs.
  destruct (pick_scan flow win (runs m) true false) as [[[[pre [st c]] rest]|] [w f]]; [|discriminate].
  destruct Hs as (Hr & Hst & Hc & Hskip).
  destruct (pred st) as [avail|] eqn:Ep; [|discriminate].
  pose proof (Hpred _ _ Ep) as Hav.
  set (allowance := match c with Lost => avail | _ => N.min avail flow end) in *.
  destruct (two64 <=? st + allowance); [discriminate|].
  unfold WF in Hwf. rewrite Hr in Hwf.
  assert (Hpre : wfl 0 (size m) pre) by (eapply wfl_app_l; eauto).
  assert (Hn : nop pre) by (eapply wfl_nop_prefix; eauto).
  assert (Ho : offs_lt st pre) by (eapply wfl_app_offs; eauto).
  pose proof (wfl_app_r _ _ _ _ Hwf) as Htail. cbn [wfl] in Htail. destruct Htail as (T1 & T2 & T3 & T4).
  assert (Hal : 1 <= allowance /\ allowance <= avail /\ (c = Pending -> allowance <= flow)).
  { unfold allowance. destruct Hc as [->|[-> Hf]]; repeat split; try lia; intro; try discriminate; lia. }
  destruct Hal as (Hal1 & Hal2 & Hal3).
  destruct (back_merge_wfl Flighting st 0 (size m) pre Hpre Hn Ho ltac:(lia) T2 ltac:(discriminate)) as (B1 & B2 & B3).
  assert (Orig : forall i, st <= i -> colr m i = col_from c rest i).
  { intros i Hi. unfold colr. rewrite Hr. rewrite col_from_app_ge by (eapply offs_lt_le; eauto; lia).
    cbn [col_from]. destruct (N.ltb_spec i st); [lia|reflexivity]. }
  assert (Low : forall i, i < st -> col_from Recved (back_merge Flighting st pre) i = colr m i).
  { intros i Hi. rewrite back_merge_col. unfold colr. rewrite Hr.
    rewrite (col_from_app_lt Recved pre st (size m) [(st, Flighting)]); [|cbn [wfl]; repeat split; auto; try lia; intro Hx; congruence|lia].
    symmetry. eapply col_from_app_lt with (lo := st) (sz := size m); [|lia].
    cbn [wfl]. repeat split; auto; lia. }
  assert (Before : forall i, i < st -> colr m i = Flighting \/ colr m i = Recved).
  { intros i Hi. rewrite <- Low by exact Hi. rewrite back_merge_col.
    rewrite (col_from_app_lt Recved pre st (size m) [(st, Flighting)]); [|cbn [wfl]; repeat split; auto; try lia; intro Hx; congruence|lia].
    destruct (col_from_in Recved pre i _ eq_refl) as [Hq|[o [Hin Hoi]]]; [right; exact Hq|].
    rewrite Forall_forall in Hskip. specialize (Hskip _ Hin). unfold skipped in Hskip. cbn [fst snd] in Hskip.
    unfold offs_lt in Ho. rewrite Forall_forall in Ho. specialize (Ho _ Hin). cbn [fst] in Ho.
    unfold nop in Hn. rewrite Forall_forall in Hn. specialize (Hn _ Hin). cbn [snd] in Hn.
    destruct Hskip as [Hk|[Hk|[Hk|[Hk _]]]]; [lia|now left|now right|congruence]. }
  set (nxt := match rest with (o, _) :: _ => o | [] => size m end) in *.
  assert (Hnxt : st < nxt /\ nxt <= size m /\ N.min nxt win = nxt).
  { unfold nxt. destruct rest as [|[o k] r]; [lia|]. cbn [wfl] in T4. lia. }
  destruct Hnxt as (N1 & N2 & N3). rewrite N3 in E.
  assert (Cc : forall i, st <= i < nxt -> col_from c rest i = c).
  { intros i Hi. unfold nxt in Hi. destruct rest as [|[o k] r]; [reflexivity|].
    cbn [col_from]. destruct (N.ltb_spec i o); [reflexivity|lia]. }
  destruct (N.ltb_spec (st + allowance) nxt) as [Hsp|Hsp]; injection E as <- <- <- <-; (exists avail; split; [exact Ep|]).
  - (* the run is split *)
    assert (Ht : wfl (st + 1) (size m) ((st + allowance, c) :: rest)).
    { cbn [wfl]. split; [lia|]. split; [lia|]. split; [exact T3|].
      unfold nxt in Hsp. destruct rest as [|[o k] r]; [exact I|]. eapply wfl_cons_lo; eauto. lia. }
    destruct (assemble _ _ (st + 1) (size m) B1 B3 B2 Ht) as (A1 & A2 & A3).
    unfold pick_post. cbn [size runs]. split; [reflexivity|]. split; [exact A1|].
    split; [lia|]. split; [lia|]. split; [lia|].
    exists c. split; [|split; [reflexivity|split; [|split; [|exact Before]]]].
    + destruct Hc as [->|[-> Hf]]; [now left|right]. repeat split; auto. specialize (Hal3 eq_refl). lia.
    + intros i Hi. rewrite Orig by lia. apply Cc. lia.
    + intros i Hi. unfold colr at 1. cbn [runs].
      destruct (N.leb_spec st i); destruct (N.ltb_spec i (st + allowance)); cbn [andb].
      * destruct (N.eq_dec i st) as [->|Hne].
        -- rewrite A2 by lia. rewrite col_from_all_le by (eapply offs_lt_le; eauto; lia). apply back_merge_last.
        -- rewrite A3 by lia. rewrite back_merge_last. cbn [col_from].
           destruct (N.ltb_spec i (st + allowance)); [reflexivity|lia].
      * rewrite A3 by lia. rewrite back_merge_last. cbn [col_from].
        destruct (N.ltb_spec i (st + allowance)); [lia|]. now rewrite Orig by lia.
      * rewrite A2 by lia. apply Low. lia.
      * rewrite A2 by lia. apply Low. lia.
  - (* the whole run is taken, following Flighting runs are merged *)
    assert (Ht : wfl (st + 1) (size m) (drop_while Flighting rest)) by (apply wfl_drop_while; exact T4).
    destruct (assemble _ _ (st + 1) (size m) B1 B3 B2 Ht) as (A1 & A2 & A3).
    unfold pick_post. cbn [size runs]. split; [reflexivity|]. split; [exact A1|].
    split; [lia|]. split; [lia|]. split; [lia|].
    exists c. split; [|split; [reflexivity|split; [|split; [|exact Before]]]].
    + destruct Hc as [->|[-> Hf]]; [now left|right]. repeat split; auto. specialize (Hal3 eq_refl). lia.
    + intros i Hi. rewrite Orig by lia. apply Cc. lia.
    + intros i Hi. unfold colr at 1. cbn [runs].
      destruct (N.leb_spec st i); destruct (N.ltb_spec i nxt); cbn [andb].
      * destruct (N.eq_dec i st) as [->|Hne].
        -- rewrite A2 by lia. rewrite col_from_all_le by (eapply offs_lt_le; eauto; lia). apply back_merge_last.
        -- rewrite A3 by lia. rewrite back_merge_last.
           rewrite (col_from_drop_while Flighting (st + 1) (size m) rest) by exact T4.
           unfold nxt in H0. destruct rest as [|[o k] r]; [reflexivity|]. cbn [col_from].
           destruct (N.ltb_spec i o); [reflexivity|lia].
      * rewrite A3 by lia. rewrite back_merge_last.
        rewrite (col_from_drop_while Flighting (st + 1) (size m) rest) by exact T4.
        rewrite Orig by lia. unfold nxt in H0. destruct rest as [|[o k] r]; [lia|].
        apply col_from_ge_hd. lia.
      * rewrite A2 by lia. apply Low. lia.
      * rewrite A2 by lia. apply Low. lia.
Qed.

(* ------------------------------------------------------------------ *)
(* extend_to, shift, resend_flighting, sent *)

Lemma wfl_sz_mono lo sz sz' l : sz <= sz' -> wfl lo sz l -> wfl lo sz' l.
Proof.
  intro H. revert lo; induction l as [|[o k] r IH]; intros lo Hw; cbn [wfl] in *; [trivial|].
  destruct Hw as (A & B & C & D). repeat split; auto. lia.
Qed.

Lemma extend_to_spec m pos m' :
  WF m -> extend_to m pos = Some m' ->
  size m <= pos /\ size m' = pos /\ WF m' /\
  (forall i, i < size m -> colr m' i = colr m i) /\
  (forall i, size m <= i < pos -> colr m' i = Pending).
Proof.
  intros Hwf E. unfold extend_to in E.
  destruct ((two62 <=? pos) || (pos <? size m)) eqn:G; [discriminate|].
  apply orb_false_iff in G. destruct G as [_ G]. apply N.ltb_ge in G.
  destruct (N.ltb_spec (size m) pos) as [Hlt|Hge].
  - assert (Cases : (last_colour Recved (runs m) = Pending /\ runs m <> [] /\ m' = mkmap (runs m) pos) \/
                    (last_colour Recved (runs m) <> Pending /\ m' = mkmap (runs m ++ [(size m, Pending)]) pos)).
    { destruct (last_colour Recved (runs m)) eqn:El; destruct (runs m) as [|x r] eqn:Er;
        try (cbn [last_colour] in El; discriminate); injection E as <-;
        try (left; repeat split; congruence); right; split; try reflexivity; discriminate. }
    destruct Cases as [(Hl & Hne & ->)|(Hl & ->)]; cbn [size]; (split; [lia|]); (split; [reflexivity|]).
    + split; [unfold WF; cbn [runs size]; eapply wfl_sz_mono; [|exact Hwf]; lia|]. split.
      * intros i Hi. reflexivity.
      * intros i Hi. unfold colr. cbn [runs]. rewrite col_from_all_le; [exact Hl|].
        pose proof (wfl_offs_ge _ _ _ Hwf) as Hf. eapply Forall_impl; [|exact Hf]. cbn. intros; lia.
    + assert (Hn : nop (runs m)) by (eapply wfl_nop_last; eauto).
      assert (Ho : offs_lt (size m) (runs m)).
      { pose proof (wfl_offs_ge _ _ _ Hwf) as Hf. eapply Forall_impl; [|exact Hf]. cbn. intros; lia. }
      split; [|split].
      * unfold WF. cbn [runs size]. apply wfl_app_intro with (m := size m); auto; try lia.
        -- eapply wfl_sz_mono; [|exact Hwf]; lia.
        -- cbn [wfl]. repeat split; auto; lia.
      * intros i Hi. unfold colr. cbn [runs]. eapply col_from_app_lt with (lo := size m) (sz := pos); [|exact Hi].
        cbn [wfl]. repeat split; auto; lia.
      * intros i Hi. unfold colr. cbn [runs]. rewrite col_from_app_ge by (eapply offs_lt_le; eauto; lia).
        cbn [col_from]. destruct (N.ltb_spec i (size m)); [lia|reflexivity].
  - injection E as <-. assert (pos = size m) by lia. subst pos.
    split; [lia|]. split; [reflexivity|]. split; [exact Hwf|]. split; [reflexivity|intros; lia].
Qed.

Lemma drop_while_hd c l o k r : drop_while c l = (o, k) :: r -> k <> c.
Proof.
  induction l as [|[o' k'] r' IH]; cbn [drop_while]; [discriminate|].
  destruct (colour_eqb k' c) eqn:E; [exact IH|]. intro H. injection H as -> -> ->. now apply colour_eqb_neq.
Qed.

Lemma shift_spec m m2 pos :
  WF m -> shift m = (m2, pos) ->
  size m2 = size m /\ WF m2 /\ (forall i, colr m2 i = colr m i) /\
  pos <= size m /\ (forall i, i < pos -> colr m i = Recved) /\ (pos < size m -> colr m pos <> Recved).
Proof.
  intros Hwf E. unfold shift in E. injection E as <- <-. cbn [size].
  assert (Hw2 : wfl 0 (size m) (drop_while Recved (runs m))) by (apply wfl_drop_while; exact Hwf).
  assert (Hc : forall i, col_from Recved (drop_while Recved (runs m)) i = colr m i).
  { intro i. unfold colr. eapply col_from_drop_while; eauto. }
  split; [reflexivity|]. split; [exact Hw2|]. split; [exact Hc|].
  destruct (drop_while Recved (runs m)) as [|[o k] r] eqn:Ed.
  - split; [lia|]. split; [|lia]. intros i _. rewrite <- Hc. reflexivity.
  - cbn [wfl] in Hw2. destruct Hw2 as (A & B & C & D). split; [lia|]. split.
    + intros i Hi. rewrite <- Hc. cbn [col_from]. destruct (N.ltb_spec i o); [reflexivity|lia].
    + intros _. rewrite <- Hc. cbn [col_from]. destruct (N.ltb_spec o o); [lia|].
      rewrite (col_from_lt k (o + 1) (size m) r o D ltac:(lia)). eapply drop_while_hd; eauto.
Qed.

Definition resend_run (x : run) : run := match x with (o, Flighting) => (o, Lost) | _ => x end.

Lemma resend_spec m :
  WF m -> size (resend_flighting m) = size m /\ WF (resend_flighting m) /\
  (forall i, colr (resend_flighting m) i = lossf (colr m i)).
Proof.
  intros Hwf. unfold resend_flighting. cbn [size]. split; [reflexivity|]. split.
  - unfold WF in *. cbn [runs size]. revert Hwf. generalize 0. generalize (size m).
    induction (runs m) as [|[o k] r IH]; intros sz lo H; cbn [map wfl] in *; [trivial|].
    destruct H as (A & B & C & D).
    assert (wfl lo sz ((o, lossf k) :: map (fun x : run => match x with (o, Flighting) => (o, Lost) | _ => x end) r)).
    { cbn [wfl]. split; [exact A|]. split; [exact B|]. split; [|apply IH; exact D].
      intro Hk. destruct k; cbn [lossf] in Hk; try discriminate. rewrite (C eq_refl). reflexivity. }
    destruct k; exact H.
  - intro i. unfold colr. cbn [runs].
    assert (G : forall cur, col_from (lossf cur) (map (fun x : run => match x with (o, Flighting) => (o, Lost) | _ => x end) (runs m)) i
                            = lossf (col_from cur (runs m) i)).
    { induction (runs m) as [|[o k] r IH]; intro cur; cbn [map col_from]; [reflexivity|].
      assert (col_from (lossf cur) ((o, lossf k) :: map (fun x : run => match x with (o, Flighting) => (o, Lost) | _ => x end) r) i
              = lossf (if i <? o then cur else col_from k r i)).
      { cbn [col_from]. destruct (i <? o); [reflexivity|apply IH]. }
      destruct k; exact H. }
    apply (G Recved).
Qed.

Definition is_sent (m : bufmap) (x : N) : Prop :=
  x <= size m /\ (forall i, x <= i < size m -> colr m i = Pending) /\ (forall i, i < x -> colr m i <> Pending).

Lemma is_sent_unique m x y : is_sent m x -> is_sent m y -> x = y.
Proof.
  intros (X1 & X2 & X3) (Y1 & Y2 & Y3).
  destruct (N.lt_trichotomy x y) as [H|[H|H]]; [|exact H|].
  - exfalso. apply (Y3 x H). apply X2. lia.
  - exfalso. apply (X3 y H). apply Y2. lia.
Qed.

Lemma last_run_snoc a x : last_run (a ++ [x]) = Some x.
Proof.
  induction a as [|y a IH]; [reflexivity|]. cbn [app last_run].
  destruct (a ++ [x]) eqn:E; [destruct a; discriminate|]. exact IH.
Qed.

Lemma col_from_nop cur l i : nop l -> cur <> Pending -> col_from cur l i <> Pending.
Proof.
  revert cur; induction l as [|[o k] r IH]; intros cur Hn Hc; cbn [col_from]; [exact Hc|].
  inversion Hn; subst. destruct (i <? o); [exact Hc|]. apply IH; assumption.
Qed.

Lemma sent_of_spec m : WF m -> is_sent m (sent_of m).
Proof.
  intros Hwf. unfold sent_of, is_sent, colr. unfold WF in Hwf.
  revert Hwf. generalize (runs m) as l0. intro l0.
  destruct l0 as [|x l _] using rev_ind; intro Hwf.
  - cbn. split; [lia|]. split; [intros; lia|]. intros; discriminate.
  - rewrite last_run_snoc. destruct x as [o k].
    pose proof (wfl_app_r _ _ _ _ Hwf) as Hx. cbn [wfl] in Hx. destruct Hx as (X1 & X2 & _).
    assert (Hn : nop l) by (eapply wfl_nop_prefix; eauto).
    assert (Ho : offs_lt o l) by (eapply wfl_app_offs; eauto).
    destruct k.
    + split; [lia|]. split.
      * intros i Hi. rewrite col_from_app_ge by (eapply offs_lt_le; eauto; lia).
        cbn [col_from]. destruct (N.ltb_spec i o); [lia|reflexivity].
      * intros i Hi. rewrite (col_from_app_lt Recved l o (size m) [(o, Pending)]); [|cbn [wfl]; repeat split; auto; lia|exact Hi].
        apply col_from_nop; [exact Hn|discriminate].
    + split; [lia|]. split; [intros; lia|]. intros i _. apply col_from_nop; [|discriminate].
      apply nop_app; [exact Hn|constructor; [discriminate|constructor]].
    + split; [lia|]. split; [intros; lia|]. intros i _. apply col_from_nop; [|discriminate].
      apply nop_app; [exact Hn|constructor; [discriminate|constructor]].
    + split; [lia|]. split; [intros; lia|]. intros i _. apply col_from_nop; [|discriminate].
      apply nop_app; [exact Hn|constructor; [discriminate|constructor]].
Qed.

(* ------------------------------------------------------------------ *)
(* SendBuf: invariant and per-operation facts *)

Record Inv (b : sndbuf) : Prop := mkInv {
  inv_wf : WF (st b);
  inv_size : size (st b) = N.min (written b) (max_data b);
  inv_small : size (st b) < two62 }.

(* [base] is the first byte that is not acknowledged *)
Definition Tight (b : sndbuf) : Prop :=
  base b <= size (st b) /\ (forall i, i < base b -> colr (st b) i = Recved) /\
  (base b < size (st b) -> colr (st b) (base b) <> Recved).

(* a byte that is not Pending stays not Pending *)
Definition nopend (m m' : bufmap) : Prop :=
  forall i, i < size m -> colr m i <> Pending -> i < size m' /\ colr m' i <> Pending.

Lemma sent_same m m' :
  WF m -> WF m' -> size m' = size m -> (forall i, i < size m -> (colr m' i = Pending <-> colr m i = Pending)) ->
  sent_of m' = sent_of m.
Proof.
  intros H H' Hs Hc. apply (is_sent_unique m'); [apply sent_of_spec; exact H'|].
  destruct (sent_of_spec m H) as (S1 & S2 & S3). unfold is_sent. rewrite Hs. split; [exact S1|]. split.
  - intros i Hi. apply Hc; [lia|]. apply S2; exact Hi.
  - intros i Hi Hp. apply (S3 i Hi). apply Hc; [lia|exact Hp].
Qed.

Lemma lossf_pending c : lossf c = Pending <-> c = Pending.
Proof. destruct c; cbn; split; intro; congruence. Qed.

Lemma lossf_recved c : lossf c = Recved <-> c = Recved.
Proof. destruct c; cbn; split; intro; congruence. Qed.

Lemma Inv_init cap : Inv (with_capacity cap) /\ Tight (with_capacity cap).
Proof.
  split.
  - constructor; unfold with_capacity, written, WF, empty_map; cbn [st size runs base retained max_data wfl];
      [exact I|lia|reflexivity].
  - unfold Tight, with_capacity, empty_map; cbn [st size runs base]. split; [lia|]. split; intros; lia.
Qed.

(* extend_to inside write / extend *)
Lemma grow_facts b m' pos ret' max' :
  Inv b -> extend_to (st b) pos = Some m' -> pos = N.min (base b + ret') max' ->
  let b' := mksb (base b) ret' max' m' in
  Inv b' /\ sent b' = sent b /\ nopend (st b) m' /\ (Tight b -> Tight b').
Proof.
  intros [Hwf Hsz Hsm] E Hpos b'.
  destruct (extend_to_spec _ _ _ Hwf E) as (X1 & X2 & X3 & X4 & X5).
  assert (Hsm' : size m' < two62).
  { unfold extend_to in E. destruct (N.leb_spec two62 pos); [discriminate|]. lia. }
  subst b'. split; [constructor; unfold written; cbn [st base retained max_data]; [exact X3|lia|exact Hsm']|].
  split; [|split].
  - unfold sent; cbn [st]. apply (is_sent_unique m'); [apply sent_of_spec; exact X3|].
    destruct (sent_of_spec _ Hwf) as (S1 & S2 & S3). unfold is_sent. split; [lia|]. split.
    + intros i Hi. destruct (N.lt_ge_cases i (size (st b))).
      * rewrite X4 by assumption. apply S2. lia.
      * apply X5. lia.
    + intros i Hi. rewrite X4 by lia. apply S3; exact Hi.
  - intros i Hi Hc. split; [lia|]. now rewrite X4 by exact Hi.
  - intros (T1 & T2 & T3). unfold Tight; cbn [st base]. split; [lia|]. split.
    + intros i Hi. rewrite X4 by lia. apply T2; exact Hi.
    + intros Hb. destruct (N.lt_ge_cases (base b) (size (st b))).
      * rewrite X4 by assumption. apply T3; assumption.
      * rewrite X5 by lia. discriminate.
Qed.

(* an update that keeps the size and the set of Pending bytes, and moves nothing into or out of
   Recved below [base] *)
Lemma recolour_facts b m' :
  Inv b -> WF m' -> size m' = size (st b) ->
  (forall i, i < size (st b) -> (colr m' i = Pending <-> colr (st b) i = Pending)) ->
  let b' := mksb (base b) (retained b) (max_data b) m' in
  Inv b' /\ sent b' = sent b /\ nopend (st b) m'.
Proof.
  intros [Hwf Hsz Hsm] Hwf' Hs Hc b'. subst b'. split; [|split].
  - constructor; unfold written in *; cbn [st base retained max_data]; [exact Hwf'|rewrite Hs; exact Hsz|rewrite Hs; exact Hsm].
  - unfold sent; cbn [st]. apply sent_same; assumption.
  - intros i Hi Hp. split; [lia|]. intro Hq. apply Hp. apply Hc; assumption.
Qed.

Definition total_written (ops : list sb_op) : N :=
  fold_right (fun o acc => match o with SbWrite len => len + acc | _ => acc end) 0 ops.

Definition dwritten (o : sb_op) : N := match o with SbWrite len => len | _ => 0 end.

Definition sent_after (b : sndbuf) (o : sb_op) (out : sb_out) : N :=
  match o, out with
  | SbForget, _ => 0
  | _, OPick s e true _ => sent b + (e - s)
  | _, _ => sent b
  end.

Lemma pred_of_pos cap blk : cap <> 0 -> forall o a, pred_of cap blk o = Some a -> 1 <= a.
Proof. intros H o a. unfold pred_of. destruct (o <? blk); [|discriminate]. intro E. injection E as <-. lia. Qed.

Lemma pick_up_facts c b pred flow b' s e fr d :
  Inv b -> (forall o a, pred o = Some a -> 1 <= a) ->
  pick_up c b pred flow = UpOk b' s e fr d ->
  exists avail, pred s = Some avail /\
    pick_post (st b) flow avail (st b') s e fr /\
    base b' = base b /\ retained b' = retained b /\ max_data b' = max_data b /\ d = data_of c b s e.
Proof.
  intros [Hwf Hsz Hsm] Hp E. unfold pick_up in E.
  destruct (pick (st b) pred flow (max_data b)) as [m' s0 e0 f0| |] eqn:Ep; try discriminate.
  injection E as <- <- <- <- <-.
  assert (Hle : size (st b) <= max_data b) by lia.
  destruct (pick_spec _ _ _ _ _ _ _ _ Hwf Hle Hp Ep) as (avail & Ha & Hpost).
  exists avail. cbn [st base retained max_data]. split; [exact Ha|]. split; [exact Hpost|]. repeat split.
Qed.

Lemma step_pick c b pred flow b' s e fr d :
  Inv b -> (forall o a, pred o = Some a -> 1 <= a) ->
  pick_up c b pred flow = UpOk b' s e fr d ->
  Inv b' /\ written b' = written b /\ sent b' = (if fr then sent b + (e - s) else sent b) /\
  nopend (st b) (st b') /\ (Tight b -> Tight b' /\ d = slice c s (e - s)).
Proof.
  intros HI Hp E. destruct (pick_up_facts _ _ _ _ _ _ _ _ _ HI Hp E) as (avail & Ha & Hpost & Eb & Er & Em & Ed).
  destruct HI as [Hwf Hsz Hsm].
  destruct Hpost as (P1 & P2 & P3 & P4 & P5 & col & Hcol & Hfr & P6 & P7 & P8).
  assert (HI' : Inv b').
  { constructor; [exact P2| |rewrite P1; exact Hsm]. unfold written. rewrite P1, Eb, Er, Em. exact Hsz. }
  assert (Hnp : nopend (st b) (st b')).
  { intros i Hi Hc. split; [lia|]. rewrite P7 by exact Hi.
    destruct ((s <=? i) && (i <? e)); [discriminate|exact Hc]. }
  split; [exact HI'|]. split; [unfold written; now rewrite Eb, Er|]. split; [|split; [exact Hnp|]].
  - destruct (sent_of_spec _ Hwf) as (S1 & S2 & S3). unfold sent.
    destruct Hcol as [->|(-> & Hflow & Hfl)]; cbn in Hfr; subst fr.
    + (* retransmission: the set of Pending bytes is unchanged *)
      apply sent_same; auto. intros i Hi. rewrite P7 by exact Hi.
      destruct (N.leb_spec s i); destruct (N.ltb_spec i e); cbn [andb]; try tauto.
      rewrite (P6 i) by lia. split; discriminate.
    + (* fresh data: sent() was the start of the range and moves to its end *)
      assert (Hs : sent_of (st b) = s).
      { destruct (N.lt_trichotomy (sent_of (st b)) s) as [H|[H|H]]; [|exact H|].
        - exfalso. destruct (P8 _ H) as [Hq|Hq]; rewrite S2 in Hq by lia; discriminate.
        - exfalso. apply (S3 s H). apply P6. lia. }
      rewrite Hs. replace (s + (e - s)) with e by lia.
      apply (is_sent_unique (st b')); [apply sent_of_spec; exact P2|].
      unfold is_sent. rewrite P1. split; [exact P4|]. split.
      * intros i Hi. rewrite P7 by lia. destruct (N.leb_spec s i); destruct (N.ltb_spec i e); cbn [andb]; try lia.
        apply S2. lia.
      * intros i Hi. rewrite P7 by lia. destruct (N.leb_spec s i); destruct (N.ltb_spec i e); cbn [andb]; try lia; try discriminate.
        apply S3. lia.
  - intros (T1 & T2 & T3).
    assert (Hbs : base b <= s).
    { destruct (N.le_gt_cases (base b) s); [assumption|]. exfalso.
      assert (colr (st b) s = col) by (apply P6; lia). rewrite T2 in H0 by assumption.
      destruct Hcol as [->|(-> & _)]; discriminate. }
    split.
    + unfold Tight. rewrite Eb, P1. split; [exact T1|]. split.
      * intros i Hi. rewrite P7 by lia. destruct (N.leb_spec s i); cbn [andb]; [lia|]. apply T2; exact Hi.
      * intros Hb. rewrite P7 by exact Hb. destruct ((s <=? base b) && (base b <? e)); [discriminate|]. apply T3; exact Hb.
    + rewrite Ed. unfold data_of. unfold written in Hsz.
      replace (N.max s (base b)) with s by lia.
      replace (N.min e (base b + retained b)) with e by lia. reflexivity.
Qed.

Lemma step_ack_sent b s e b' :
  Inv b -> s < e -> on_data_acked_sent b s e = Some b' ->
  Inv b' /\ written b' = written b /\ sent b' = sent b /\ nopend (st b) (st b') /\ (Tight b -> Tight b') /\
  e <= size (st b) /\
  (forall i, i < size (st b) -> colr (st b') i = if (s <=? i) && (i <? e) then Recved else colr (st b) i) /\
  (forall i, s <= i < e -> colr (st b) i <> Pending).
Proof.
  intros HI Hse E. pose proof HI as [Hwf Hsz Hsm]. unfold on_data_acked_sent in E.
  destruct (N.leb_spec e s); [lia|].
  destruct (ack_rcvd (st b) s e) as [m1|] eqn:Ea; [|discriminate].
  destruct (ack_rcvd_spec _ _ _ _ Hwf Hse Ea) as (A1 & A2 & A3 & A4 & A5).
  destruct (shift m1) as [m2 pos] eqn:Es.
  assert (Hwf1 : WF m1) by (unfold WF; rewrite A1; exact A3).
  destruct (shift_spec _ _ _ Hwf1 Es) as (H1 & H2 & H3 & H4 & H5 & H6).
  assert (Hcol : forall i, i < size (st b) -> colr m2 i = if (s <=? i) && (i <? e) then Recved else colr (st b) i).
  { intros i Hi. rewrite H3. apply A4; exact Hi. }
  assert (Hp : forall i, i < size (st b) -> (colr m2 i = Pending <-> colr (st b) i = Pending)).
  { intros i Hi. rewrite Hcol by exact Hi. destruct (N.leb_spec s i); destruct (N.ltb_spec i e); cbn [andb]; try tauto.
    split; [discriminate|]. intro Hq. exfalso. apply (A5 i); [lia|exact Hq]. }
  destruct (recolour_facts b m2 HI H2 ltac:(lia) Hp) as (R1 & R2 & R3).
  assert (Hpos : pos <= written b) by (unfold written in *; lia).
  assert (Common : forall bb, st bb = m2 -> max_data bb = max_data b -> written bb = written b -> Inv bb /\ sent bb = sent b).
  { intros bb E1 E2 E3. destruct R1 as [Q1 Q2 Q3]. cbn [st written base retained max_data] in *. split.
    - constructor; rewrite ?E1, ?E2, ?E3; assumption.
    - unfold sent in *. cbn [st] in R2. rewrite E1. exact R2. }
  assert (TightPos : Tight b -> base b <= pos).
  { intros (T1 & T2 & T3). destruct (N.le_gt_cases (base b) pos); [assumption|]. exfalso.
    apply H6; [lia|]. rewrite <- H3, Hcol by lia. destruct ((s <=? pos) && (pos <? e)); [reflexivity|]. apply T2; assumption. }
  destruct (N.ltb_spec (base b) pos) as [Hbp|Hbp]; injection E as <-; cbn [st].
  - destruct (Common (mksb pos (retained b - N.min (pos - base b) (retained b)) (max_data b) m2) eq_refl eq_refl) as (C1 & C2).
    { unfold written in *. cbn [base retained]. lia. }
    split; [exact C1|]. split; [unfold written in *; cbn [base retained]; lia|]. split; [exact C2|]. split; [exact R3|].
    split; [|split; [exact A2|split; [exact Hcol|exact A5]]].
    intros HT. unfold Tight. cbn [base st]. rewrite H1, A1. split; [lia|]. split.
    + intros i Hi. rewrite H3. apply H5; exact Hi.
    + intros Hb. rewrite H3. apply H6. lia.
  - destruct (Common (mksb (base b) (retained b) (max_data b) m2) eq_refl eq_refl eq_refl) as (C1 & C2).
    split; [exact C1|]. split; [reflexivity|]. split; [exact C2|]. split; [exact R3|].
    split; [|split; [exact A2|split; [exact Hcol|exact A5]]].
    intros HT. pose proof (TightPos HT) as Hle. assert (pos = base b) by lia. subst pos.
    unfold Tight. cbn [base st]. rewrite H1, A1. split; [lia|]. split.
    + intros i Hi. rewrite H3. apply H5; exact Hi.
    + intros Hb. rewrite H3. apply H6. lia.
Qed.

Lemma step_loss_sent b s e b' :
  Inv b -> s < e -> may_loss_data_sent b s e = Some b' ->
  Inv b' /\ written b' = written b /\ sent b' = sent b /\ nopend (st b) (st b') /\ (Tight b -> Tight b') /\
  e <= size (st b) /\
  (forall i, i < size (st b) -> colr (st b') i = if (s <=? i) && (i <? e) then lossf (colr (st b) i) else colr (st b) i) /\
  (forall i, s <= i < e -> colr (st b) i <> Pending).
Proof.
  intros HI Hse E. pose proof HI as [Hwf Hsz Hsm]. unfold may_loss_data_sent in E.
  destruct (N.leb_spec e s); [lia|].
  destruct (may_loss (st b) s e) as [m1|] eqn:Ea; [|discriminate]. injection E as <-.
  destruct (may_loss_spec _ _ _ _ Hwf Hse Ea) as (A1 & A2 & A3 & A4 & A5).
  assert (Hwf1 : WF m1) by (unfold WF; rewrite A1; exact A3).
  assert (Hp : forall i, i < size (st b) -> (colr m1 i = Pending <-> colr (st b) i = Pending)).
  { intros i Hi. unfold colr at 1. rewrite A4 by exact Hi. destruct ((s <=? i) && (i <? e)); [apply lossf_pending|tauto]. }
  destruct (recolour_facts b m1 HI Hwf1 A1 Hp) as (R1 & R2 & R3).
  split; [exact R1|]. split; [reflexivity|]. split; [exact R2|]. split; [exact R3|].
  split; [|split; [exact A2|split; [exact A4|exact A5]]].
  intros (T1 & T2 & T3). unfold Tight. cbn [base st]. rewrite A1. split; [exact T1|]. split.
  - intros i Hi. unfold colr. rewrite A4 by lia. destruct ((s <=? i) && (i <? e)); [|apply T2; exact Hi].
    apply lossf_recved. apply T2; exact Hi.
  - intros Hb. unfold colr. rewrite A4 by exact Hb. destruct ((s <=? base b) && (base b <? e)); [|apply T3; exact Hb].
    intro Hq. apply (proj1 (lossf_recved _)) in Hq. exact (T3 Hb Hq).
Qed.

Lemma step_resend b :
  Inv b -> Inv (resend b) /\ written (resend b) = written b /\ sent (resend b) = sent b /\
  nopend (st b) (st (resend b)) /\ (Tight b -> Tight (resend b)) /\
  (forall i, colr (st (resend b)) i = lossf (colr (st b) i)).
Proof.
  intros HI. pose proof HI as [Hwf Hsz Hsm].
  destruct (resend_spec _ Hwf) as (A1 & A2 & A3).
  assert (Hp : forall i, i < size (st b) -> (colr (resend_flighting (st b)) i = Pending <-> colr (st b) i = Pending)).
  { intros i _. rewrite A3. apply lossf_pending. }
  destruct (recolour_facts b _ HI A2 A1 Hp) as (R1 & R2 & R3).
  split; [exact R1|]. split; [reflexivity|]. split; [exact R2|]. split; [exact R3|]. split; [|exact A3].
  intros (T1 & T2 & T3). unfold Tight, resend. cbn [base st]. rewrite A1. split; [exact T1|]. split.
  - intros i Hi. rewrite A3. apply lossf_recved. apply T2; exact Hi.
  - intros Hb. rewrite A3. intro Hq. apply (proj1 (lossf_recved _)) in Hq. exact (T3 Hb Hq).
Qed.

(* ------------------------------------------------------------------ *)
(* all operations, all operation lists *)

(* class of operation lists the theorems quantify over.
   non-strict: every operation list (no side condition at all);
   strict: forget_sent_state is only used while nothing has been released (finding F28 otherwise) *)
Definition class_okb (strict : bool) (b : sndbuf) (o : sb_op) : bool :=
  match o with
  | SbForget => if strict then base b =? 0 else true
  | _ => true
  end.

Fixpoint run_ok (strict : bool) (c : N -> Z) (b : sndbuf) (ops : list sb_op) : option (sndbuf * list sb_out) :=
  match ops with
  | [] => Some (b, [])
  | o :: r =>
      if class_okb strict b o then
        match sb_exec c b o with
        | (Some b1, out) =>
            match run_ok strict c b1 r with
            | Some (b2, outs) => Some (b2, out :: outs)
            | None => None
            end
        | (None, _) => None
        end
      else None
  end.

(* [b] is the state and [outs] the results after running [ops] on SendBuf::with_capacity(cap) without
   any failed assertion *)
Definition reach (strict : bool) (c : N -> Z) (cap : N) (ops : list sb_op) (b : sndbuf) (outs : list sb_out) : Prop :=
  run_ok strict c (with_capacity cap) ops = Some (b, outs).

Lemma run_ok_execs strict c ops : forall b b' outs,
  run_ok strict c b ops = Some (b', outs) -> sb_execs c (Some b) ops = (Some b', outs).
Proof.
  induction ops as [|o r IH]; intros b b' outs H; cbn [run_ok sb_execs] in *.
  - now injection H as <- <-.
  - destruct (class_okb strict b o); [|discriminate].
    destruct (sb_exec c b o) as [[b1|] out]; [|discriminate].
    destruct (run_ok strict c b1 r) as [[b2 outs2]|] eqn:E; [|discriminate]. injection H as <- <-.
    destruct b1 as [bb rr mm ss]. rewrite (IH _ _ _ E). reflexivity.
Qed.

Lemma run_ok_weaken c ops : forall b b' outs,
  run_ok true c b ops = Some (b', outs) -> run_ok false c b ops = Some (b', outs).
Proof.
  induction ops as [|o r IH]; intros b b' outs H; cbn [run_ok] in *; [exact H|].
  destruct (class_okb true b o) eqn:Ec; [|discriminate].
  assert (class_okb false b o = true) by (destruct o; cbn in *; auto). rewrite H0.
  destruct (sb_exec c b o) as [[b1|] out]; [|discriminate].
  destruct (run_ok true c b1 r) as [[b2 outs2]|] eqn:E; [|discriminate].
  rewrite (IH _ _ _ E). exact H.
Qed.

Lemma nopend_refl m : nopend m m.
Proof. intros i Hi Hp. auto. Qed.

(* SendBuf::on_data_acked / may_loss_data cut the reported range down to its sent part
   [s, min e sent) first (repair of finding F70): no side condition on the range is left *)
Lemma ack_sent_shape b s e b' : on_data_acked_sent b s e = Some b' -> max_data b' = max_data b.
Proof.
  unfold on_data_acked_sent. destruct (e <=? s); [intro E; injection E as <-; reflexivity|].
  destruct (ack_rcvd _ _ _); [|discriminate]. destruct (shift _). destruct (base b <? n); intro E; injection E as <-; reflexivity.
Qed.

Lemma loss_sent_shape b s e b' : may_loss_data_sent b s e = Some b' ->
  max_data b' = max_data b /\ base b' = base b /\ retained b' = retained b.
Proof.
  unfold may_loss_data_sent. destruct (e <=? s); [intro E; injection E as <-; auto|].
  destruct (may_loss _ _ _); [|discriminate]. intro E; injection E as <-; auto.
Qed.

Lemma inv_same_size b b' : Inv b -> Inv b' -> written b' = written b -> max_data b' = max_data b -> size (st b') = size (st b).
Proof. intros [_ Z2 _] [_ Z1 _] Hw Hm. rewrite Z1, Z2, Hw, Hm. reflexivity. Qed.

Lemma step_ack b s e b' :
  Inv b -> on_data_acked b s e = Some b' ->
  Inv b' /\ written b' = written b /\ sent b' = sent b /\ nopend (st b) (st b') /\ (Tight b -> Tight b') /\
  max_data b' = max_data b /\ size (st b') = size (st b) /\
  (forall i, i < size (st b) -> colr (st b') i = if (s <=? i) && (i <? N.min e (sent b)) then Recved else colr (st b) i).
Proof.
  intros HI E. unfold on_data_acked in E. pose proof (ack_sent_shape _ _ _ _ E) as Hm.
  destruct (N.leb_spec (N.min e (sent b)) s) as [Hes|Hes].
  - unfold on_data_acked_sent in E. rewrite (proj2 (N.leb_le _ _) Hes) in E. injection E as <-.
    split; [exact HI|]. split; [reflexivity|]. split; [reflexivity|]. split; [apply nopend_refl|]. split; [auto|].
    split; [reflexivity|]. split; [reflexivity|].
    intros i _. destruct (N.leb_spec s i); destruct (N.ltb_spec i (N.min e (sent b))); cbn [andb]; try reflexivity. lia.
  - destruct (step_ack_sent _ _ _ _ HI Hes E) as (A1 & A2 & A3 & A4 & A5 & _ & A7 & _).
    split; [exact A1|]. split; [exact A2|]. split; [exact A3|]. split; [exact A4|]. split; [exact A5|].
    split; [exact Hm|]. split; [apply inv_same_size; assumption|exact A7].
Qed.

Lemma step_loss b s e b' :
  Inv b -> may_loss_data b s e = Some b' ->
  Inv b' /\ written b' = written b /\ sent b' = sent b /\ nopend (st b) (st b') /\ (Tight b -> Tight b') /\
  max_data b' = max_data b /\ size (st b') = size (st b) /\
  (forall i, i < size (st b) -> colr (st b') i = if (s <=? i) && (i <? N.min e (sent b)) then lossf (colr (st b) i) else colr (st b) i) /\
  base b' = base b /\ retained b' = retained b.
Proof.
  intros HI E. unfold may_loss_data in E. destruct (loss_sent_shape _ _ _ _ E) as (Hm & Hb & Hr).
  destruct (N.leb_spec (N.min e (sent b)) s) as [Hes|Hes].
  - unfold may_loss_data_sent in E. rewrite (proj2 (N.leb_le _ _) Hes) in E. injection E as <-.
    split; [exact HI|]. split; [reflexivity|]. split; [reflexivity|]. split; [apply nopend_refl|]. split; [auto|].
    split; [reflexivity|]. split; [reflexivity|]. split; [|split; reflexivity].
    intros i _. destruct (N.leb_spec s i); destruct (N.ltb_spec i (N.min e (sent b))); cbn [andb]; try reflexivity. lia.
  - destruct (step_loss_sent _ _ _ _ HI Hes E) as (A1 & A2 & A3 & A4 & A5 & _ & A7 & _).
    split; [exact A1|]. split; [exact A2|]. split; [exact A3|]. split; [exact A4|]. split; [exact A5|].
    split; [exact Hm|]. split; [apply inv_same_size; assumption|]. split; [exact A7|]. split; assumption.
Qed.

Lemma step_all strict c b o b' out :
  Inv b -> class_okb strict b o = true -> sb_exec c b o = (Some b', out) ->
  Inv b' /\ written b' = written b + dwritten o /\ sent b' = sent_after b o out /\
  (o <> SbForget -> nopend (st b) (st b')) /\ (strict = true -> Tight b -> Tight b').
Proof.
  intros HI Hc E. destruct o as [len|mx|cap flow blk|s e|s e| |]; cbn [sb_exec class_okb dwritten sent_after] in *.
  - (* write *)
    unfold write in E. destruct (N.eqb_spec len 0) as [->|Hne].
    + injection E as <- <-. split; [exact HI|]. split; [lia|]. split; [reflexivity|]. split; [intros _; apply nopend_refl|auto].
    + destruct (extend_to (st b) (N.min (written b + len) (max_data b))) as [m'|] eqn:Ee; [|discriminate].
      injection E as <- <-.
      destruct (grow_facts b m' _ (retained b + len) (max_data b) HI Ee) as (G1 & G2 & G3 & G4).
      { unfold written. f_equal. lia. }
      split; [exact G1|]. split; [unfold written; cbn [base retained]; lia|]. split; [exact G2|].
      split; [intros _; exact G3|intros _; exact G4].
  - (* extend *)
    unfold extend in E. destruct (mx <? max_data b); [discriminate|].
    destruct (extend_to (st b) (N.min (written b) mx)) as [m'|] eqn:Ee; [|discriminate]. injection E as <- <-.
    destruct (grow_facts b m' _ (retained b) mx HI Ee eq_refl) as (G1 & G2 & G3 & G4).
    split; [exact G1|]. split; [unfold written; cbn [base retained]; lia|]. split; [exact G2|].
    split; [intros _; exact G3|intros _; exact G4].
  - (* pick *)
    destruct (N.eqb_spec cap 0) as [->|Hcap]; [discriminate|].
    destruct (pick_up c b (pred_of cap blk) flow) as [b1 s e fr d|w f g|] eqn:Ep; [| |discriminate].
    + injection E as <- <-.
      destruct (step_pick _ _ _ _ _ _ _ _ _ HI (pred_of_pos cap blk Hcap) Ep) as (P1 & P2 & P3 & P4 & P5).
      split; [exact P1|]. split; [lia|]. split; [destruct fr; exact P3|]. split; [intros _; exact P4|].
      intros _ HT. apply P5; exact HT.
    + injection E as <- <-. split; [exact HI|]. split; [lia|]. split; [reflexivity|]. split; [intros _; apply nopend_refl|auto].
  - (* ack *)
    destruct (on_data_acked b s e) as [b1|] eqn:Ea; [|discriminate]. injection E as <- <-.
    destruct (step_ack _ _ _ _ HI Ea) as (A1 & A2 & A3 & A4 & A5 & _).
    split; [exact A1|]. split; [lia|]. split; [exact A3|]. split; [intros _; exact A4|intros _; exact A5].
  - (* loss *)
    destruct (may_loss_data b s e) as [b1|] eqn:Ea; [|discriminate]. injection E as <- <-.
    destruct (step_loss _ _ _ _ HI Ea) as (A1 & A2 & A3 & A4 & A5 & _).
    split; [exact A1|]. split; [lia|]. split; [exact A3|]. split; [intros _; exact A4|intros _; exact A5].
  - (* resend_flighting *)
    injection E as <- <-. destruct (step_resend b HI) as (A1 & A2 & A3 & A4 & A5 & _).
    split; [exact A1|]. split; [lia|]. split; [exact A3|]. split; [intros _; exact A4|intros _; exact A5].
  - (* forget_sent_state *)
    injection E as <- <-. unfold forget_sent_state.
    split; [constructor; unfold written, WF, empty_map; cbn [st size runs base retained max_data wfl]; [exact I|lia|reflexivity]|].
    split; [unfold written; cbn [base retained]; lia|]. split; [reflexivity|]. split; [congruence|].
    intros -> _. apply N.eqb_eq in Hc. unfold Tight, empty_map. cbn [base st size runs]. rewrite Hc.
    split; [lia|]. split; intros; lia.
Qed.

(* sum of the lengths reported as fresh since the last forget_sent_state, starting from [acc] *)
Fixpoint fresh_sum (acc : N) (ops : list sb_op) (outs : list sb_out) : N :=
  match ops, outs with
  | o :: r, out :: r' =>
      fresh_sum (match o, out with
                 | SbForget, _ => 0
                 | _, OPick s e true _ => acc + (e - s)
                 | _, _ => acc
                 end) r r'
  | _, _ => acc
  end.

Lemma run_spec strict c ops : forall b b' outs,
  Inv b -> run_ok strict c b ops = Some (b', outs) ->
  Inv b' /\ written b' = written b + total_written ops /\
  (strict = true -> Tight b -> Tight b') /\ fresh_sum (sent b) ops outs = sent b'.
Proof.
  induction ops as [|o r IH]; intros b b' outs HI H; cbn [run_ok] in H.
  - injection H as <- <-. unfold total_written. cbn [fold_right fresh_sum].
    split; [exact HI|]. split; [lia|]. split; [auto|reflexivity].
  - destruct (class_okb strict b o) eqn:Ec; [|discriminate].
    destruct (sb_exec c b o) as [[b1|] out] eqn:Ee; [|discriminate].
    destruct (run_ok strict c b1 r) as [[b2 outs2]|] eqn:Er; [|discriminate]. injection H as <- <-.
    destruct (step_all _ _ _ _ _ _ HI Ec Ee) as (S1 & S2 & S3 & S4 & S5).
    destruct (IH _ _ _ S1 Er) as (I1 & I2 & I3 & I4).
    split; [exact I1|]. split; [|split].
    + rewrite I2, S2. unfold total_written. cbn [fold_right]. fold (total_written r). destruct o; cbn [dwritten]; lia.
    + intros Hs HT. apply I3; [exact Hs|]. apply S5; assumption.
    + cbn [fresh_sum]. rewrite <- I4, S3. unfold sent_after. destruct o; try reflexivity.
Qed.

Lemma reach_inv strict c cap ops b outs : reach strict c cap ops b outs ->
  Inv b /\ written b = total_written ops /\ (strict = true -> Tight b) /\ fresh_sum 0 ops outs = sent b.
Proof.
  intro H. destruct (Inv_init cap) as [I0 T0].
  destruct (run_spec _ _ _ _ _ _ I0 H) as (R1 & R2 & R3 & R4).
  split; [exact R1|]. split; [rewrite R2; unfold written, with_capacity; cbn [base retained]; lia|].
  split; [intro Hs; apply R3; assumption|exact R4].
Qed.

(* ------------------------------------------------------------------ *)
(* statements used by Properties/C09.v *)

Definition in_range (s e i : N) : bool := (s <=? i) && (i <? e).

Lemma colour_at_some m i c : colour_at m i = Some c <-> i < size m /\ colr m i = c.
Proof.
  rewrite colour_at_colr. destruct (N.ltb_spec i (size m)); split.
  - intro Hq. injection Hq as <-. split; [assumption|reflexivity].
  - intros [_ <-]. reflexivity.
  - discriminate.
  - intros [H1 _]. lia.
Qed.

(* --- refinement of every BufMap operation to the pointwise colour specification --- *)

Lemma p_c09_ref_ack : forall m s e m', WF m -> s < e -> ack_rcvd m s e = Some m' ->
  WF m' /\ size m' = size m /\ e <= size m /\
  (forall i, s <= i < e -> colour_at m i <> Some Pending) /\
  (forall i, colour_at m' i = if in_range s e i then Some Recved else colour_at m i).
Proof.
  intros m s e m' Hwf Hse E. destruct (ack_rcvd_spec _ _ _ _ Hwf Hse E) as (A1 & A2 & A3 & A4 & A5).
  split; [unfold WF; rewrite A1; exact A3|]. split; [exact A1|]. split; [exact A2|]. split.
  - intros i Hi Hc. apply colour_at_some in Hc. destruct Hc as [_ Hc]. exact (A5 i Hi Hc).
  - intros i. rewrite !colour_at_colr, A1. unfold in_range. destruct (N.ltb_spec i (size m)).
    + unfold colr at 1. rewrite A4 by assumption. destruct ((s <=? i) && (i <? e)); reflexivity.
    + destruct (N.leb_spec s i); destruct (N.ltb_spec i e); cbn [andb]; try reflexivity. lia.
Qed.

Lemma p_c09_ref_loss : forall m s e m', WF m -> s < e -> may_loss m s e = Some m' ->
  WF m' /\ size m' = size m /\ e <= size m /\
  (forall i, s <= i < e -> colour_at m i <> Some Pending) /\
  (forall i, colour_at m' i = if in_range s e i then option_map lossf (colour_at m i) else colour_at m i).
Proof.
  intros m s e m' Hwf Hse E. destruct (may_loss_spec _ _ _ _ Hwf Hse E) as (A1 & A2 & A3 & A4 & A5).
  split; [unfold WF; rewrite A1; exact A3|]. split; [exact A1|]. split; [exact A2|]. split.
  - intros i Hi Hc. apply colour_at_some in Hc. destruct Hc as [_ Hc]. exact (A5 i Hi Hc).
  - intros i. rewrite !colour_at_colr, A1. unfold in_range. destruct (N.ltb_spec i (size m)).
    + unfold colr at 1. rewrite A4 by assumption. destruct ((s <=? i) && (i <? e)); reflexivity.
    + destruct ((s <=? i) && (i <? e)); reflexivity.
Qed.

Lemma p_c09_ref_pick : forall m pred flow win m' s e fr,
  WF m -> size m <= win -> (forall o a, pred o = Some a -> 1 <= a) ->
  pick m pred flow win = PickOk m' s e fr ->
  WF m' /\ size m' = size m /\ s < e /\ e <= size m /\
  (exists a, pred s = Some a /\ e - s <= a) /\
  (exists col, (col = Lost \/ (col = Pending /\ flow <> 0 /\ e - s <= flow)) /\ fr = is_pending col /\
               forall i, s <= i < e -> colour_at m i = Some col) /\
  (forall i, i < s -> colour_at m i = Some Flighting \/ colour_at m i = Some Recved) /\
  (forall i, colour_at m' i = if in_range s e i then Some Flighting else colour_at m i).
Proof.
  intros m pred flow win m' s e fr Hwf Hwin Hp E.
  destruct (pick_spec _ _ _ _ _ _ _ _ Hwf Hwin Hp E) as (a & Ha & P1 & P2 & P3 & P4 & P5 & col & Hcol & Hfr & P6 & P7 & P8).
  split; [exact P2|]. split; [exact P1|]. split; [exact P3|]. split; [exact P4|].
  split; [exists a; split; assumption|]. split; [|split].
  - exists col. split; [exact Hcol|]. split; [exact Hfr|]. intros i Hi. apply colour_at_some. split; [lia|]. apply P6; exact Hi.
  - intros i Hi. destruct (P8 i Hi) as [H|H]; [left|right]; apply colour_at_some; (split; [lia|exact H]).
  - intros i. rewrite !colour_at_colr, P1. unfold in_range. destruct (N.ltb_spec i (size m)).
    + rewrite P7 by assumption. destruct ((s <=? i) && (i <? e)); reflexivity.
    + destruct (N.leb_spec s i); destruct (N.ltb_spec i e); cbn [andb]; try reflexivity. lia.
Qed.

Lemma p_c09_ref_extend_to : forall m pos m', WF m -> extend_to m pos = Some m' ->
  WF m' /\ size m <= pos /\ size m' = pos /\
  (forall i, colour_at m' i = if i <? size m then colour_at m i else if i <? pos then Some Pending else None).
Proof.
  intros m pos m' Hwf E. destruct (extend_to_spec _ _ _ Hwf E) as (X1 & X2 & X3 & X4 & X5).
  split; [exact X3|]. split; [exact X1|]. split; [exact X2|].
  intros i. rewrite !colour_at_colr, X2. destruct (N.ltb_spec i (size m)).
  - destruct (N.ltb_spec i pos); [|lia]. now rewrite X4.
  - destruct (N.ltb_spec i pos); [|reflexivity]. rewrite X5 by lia. reflexivity.
Qed.

Lemma p_c09_ref_shift : forall m m2 pos, WF m -> shift m = (m2, pos) ->
  WF m2 /\ size m2 = size m /\ (forall i, colour_at m2 i = colour_at m i) /\
  pos <= size m /\ (forall i, i < pos -> colour_at m i = Some Recved) /\
  (pos < size m -> colour_at m pos <> Some Recved).
Proof.
  intros m m2 pos Hwf E. destruct (shift_spec _ _ _ Hwf E) as (H1 & H2 & H3 & H4 & H5 & H6).
  split; [exact H2|]. split; [exact H1|]. split; [|split; [exact H4|split]].
  - intro i. rewrite !colour_at_colr, H1, H3. reflexivity.
  - intros i Hi. apply colour_at_some. split; [lia|apply H5; exact Hi].
  - intros Hp Hc. apply colour_at_some in Hc. destruct Hc as [_ Hc]. exact (H6 Hp Hc).
Qed.

Lemma p_c09_ref_resend : forall m, WF m ->
  WF (resend_flighting m) /\ size (resend_flighting m) = size m /\
  (forall i, colour_at (resend_flighting m) i = option_map lossf (colour_at m i)).
Proof.
  intros m Hwf. destruct (resend_spec _ Hwf) as (A1 & A2 & A3).
  split; [exact A2|]. split; [exact A1|]. intro i. rewrite !colour_at_colr, A1, A3.
  destruct (i <? size m); reflexivity.
Qed.

(* --- invariant over all operation lists --- *)

Lemma p_c09_inv : forall c cap ops b outs, reach false c cap ops b outs ->
  WF (st b) /\ size (st b) = N.min (written b) (max_data b) /\ written b = total_written ops /\
  sb_execs c (Some (with_capacity cap)) ops = (Some b, outs).
Proof.
  intros c cap ops b outs H. destruct (reach_inv _ _ _ _ _ _ H) as ([I1 I2 I3] & R2 & _ & _).
  split; [exact I1|]. split; [exact I2|]. split; [exact R2|]. apply run_ok_execs with (strict := false). exact H.
Qed.

(* --- retain: nothing unacknowledged is dropped --- *)

Lemma p_c09_retain : forall c cap ops b outs, reach true c cap ops b outs ->
  written b = total_written ops /\
  base b <= size (st b) /\ size (st b) <= written b /\
  (forall i, i < base b -> colour_at (st b) i = Some Recved) /\
  (base b < size (st b) -> colour_at (st b) (base b) <> Some Recved) /\
  (forall s e, base b <= s -> e <= written b -> data_of c b s e = slice c s (e - s)).
Proof.
  intros c cap ops b outs H. destruct (reach_inv _ _ _ _ _ _ H) as ([I1 I2 I3] & R2 & R3 & _).
  destruct (R3 eq_refl) as (T1 & T2 & T3).
  split; [exact R2|]. split; [exact T1|]. split; [lia|]. split; [|split].
  - intros i Hi. apply colour_at_some. split; [lia|apply T2; exact Hi].
  - intros Hb Hc. apply colour_at_some in Hc. destruct Hc as [_ Hc]. exact (T3 Hb Hc).
  - intros s e Hs He. unfold data_of. unfold written in He. replace (N.max s (base b)) with s by lia.
    replace (N.min e (base b + retained b)) with e by lia. reflexivity.
Qed.

(* --- pick --- *)

Lemma p_c09_pick : forall c cap ops b outs pred flow b' s e fr d,
  reach true c cap ops b outs -> (forall o a, pred o = Some a -> 1 <= a) ->
  pick_up c b pred flow = UpOk b' s e fr d ->
  s < e /\ e <= N.min (written b) (max_data b) /\
  (exists a, pred s = Some a /\ e - s <= a) /\
  (exists col, (col = Lost \/ col = Pending) /\ (fr = true <-> col = Pending) /\
               forall i, s <= i < e -> colour_at (st b) i = Some col) /\
  (fr = true -> flow <> 0 /\ e - s <= flow) /\
  (forall i, i < s -> colour_at (st b) i = Some Flighting \/ colour_at (st b) i = Some Recved) /\
  (forall i, colour_at (st b') i = if in_range s e i then Some Flighting else colour_at (st b) i) /\
  d = slice c s (e - s).
Proof.
  intros c cap ops b outs pred flow b' s e fr d H Hp E.
  destruct (reach_inv _ _ _ _ _ _ H) as (HI & _ & R3 & _). specialize (R3 eq_refl).
  destruct (pick_up_facts _ _ _ _ _ _ _ _ _ HI Hp E) as (a & Ha & Hpost & _).
  destruct (step_pick _ _ _ _ _ _ _ _ _ HI Hp E) as (_ & _ & _ & _ & P5). destruct (P5 R3) as [_ Hd].
  destruct HI as [I1 I2 I3].
  destruct Hpost as (P1 & P2 & P3 & P4 & P5' & col & Hcol & Hfr & P6 & P7 & P8).
  split; [exact P3|]. split; [lia|]. split; [exists a; split; assumption|]. split; [|split; [|split; [|split]]].
  - exists col. split; [destruct Hcol as [->|(-> & _)]; auto|]. split.
    + subst fr. destruct Hcol as [->|(-> & _)]; cbn; split; intro; congruence.
    + intros i Hi. apply colour_at_some. split; [lia|apply P6; exact Hi].
  - intros ->. destruct Hcol as [->|(-> & Hf & Hl)]; [discriminate|]. split; assumption.
  - intros i Hi. destruct (P8 i Hi) as [Hq|Hq]; [left|right]; apply colour_at_some; (split; [lia|exact Hq]).
  - intros i. rewrite !colour_at_colr, P1. unfold in_range. destruct (N.ltb_spec i (size (st b))).
    + rewrite P7 by assumption. destruct ((s <=? i) && (i <? e)); reflexivity.
    + destruct (N.leb_spec s i); destruct (N.ltb_spec i e); cbn [andb]; try reflexivity. lia.
  - exact Hd.
Qed.

(* --- fresh once --- *)

(* Pending is exactly the suffix [sent, size) *)
Lemma p_c09_pending_suffix : forall c cap ops b outs, reach false c cap ops b outs ->
  sent b <= size (st b) /\ forall i, colour_at (st b) i = Some Pending <-> sent b <= i < size (st b).
Proof.
  intros c cap ops b outs H. destruct (reach_inv _ _ _ _ _ _ H) as ([I1 I2 I3] & _).
  destruct (sent_of_spec _ I1) as (S1 & S2 & S3). split; [exact S1|].
  intro i. rewrite colour_at_some. unfold sent. split.
  - intros [Hi Hc]. split; [|exact Hi]. destruct (N.le_gt_cases (sent_of (st b)) i); [assumption|].
    exfalso. exact (S3 i H0 Hc).
  - intros Hi. split; [lia|apply S2; exact Hi].
Qed.

(* no operation except forget_sent_state turns a byte Pending again *)
Lemma p_c09_no_repending : forall c cap ops b outs o b' out i col,
  reach false c cap ops b outs -> sb_exec c b o = (Some b', out) ->
  o <> SbForget -> colour_at (st b) i = Some col -> col <> Pending ->
  exists col', colour_at (st b') i = Some col' /\ col' <> Pending.
Proof.
  intros c cap ops b outs o b' out i col H E Ho Hcol Hne.
  assert (Hc : class_okb false b o = true) by (destruct o; reflexivity).
  destruct (reach_inv _ _ _ _ _ _ H) as (HI & _).
  destruct (step_all _ _ _ _ _ _ HI Hc E) as (_ & _ & _ & S4 & _).
  apply colour_at_some in Hcol. destruct Hcol as [Hi Hq].
  destruct (S4 Ho i Hi ltac:(congruence)) as [Hi' Hq'].
  exists (colr (st b') i). split; [apply colour_at_some; split; [exact Hi'|reflexivity]|exact Hq'].
Qed.

(* the fresh lengths since the last forget add up to sent(); a fresh pick starts at sent() and moves
   it to the end of the range, so the fresh ranges tile [0, sent) : every byte is fresh at most once *)
Lemma p_c09_fresh_sum : forall c cap ops b outs, reach false c cap ops b outs -> fresh_sum 0 ops outs = sent b.
Proof. intros c cap ops b outs H. exact (proj2 (proj2 (proj2 (reach_inv _ _ _ _ _ _ H)))). Qed.

Lemma p_c09_fresh_at_sent : forall c cap ops b outs pred flow b' s e d,
  reach false c cap ops b outs -> (forall o a, pred o = Some a -> 1 <= a) ->
  pick_up c b pred flow = UpOk b' s e true d -> s = sent b /\ e = sent b' /\ s < e.
Proof.
  intros c cap ops b outs pred flow b' s e d H Hp E.
  destruct (reach_inv _ _ _ _ _ _ H) as (HI & _).
  destruct (step_pick _ _ _ _ _ _ _ _ _ HI Hp E) as (_ & _ & P3 & _).
  destruct (pick_up_facts _ _ _ _ _ _ _ _ _ HI Hp E) as (a & Ha & Hpost & _).
  destruct Hpost as (P1 & P2 & P3' & P4 & P5' & col & Hcol & Hfr & P6 & P7 & P8).
  destruct HI as [I1 I2 I3]. destruct (sent_of_spec _ I1) as (S1 & S2 & S3).
  assert (col = Pending) by (destruct Hcol as [->|(-> & _)]; [discriminate|reflexivity]). subst col.
  assert (Hs : sent b = s).
  { unfold sent. destruct (N.lt_trichotomy (sent_of (st b)) s) as [Hq|[Hq|Hq]]; [|exact Hq|].
    - exfalso. destruct (P8 _ Hq) as [Hx|Hx]; rewrite S2 in Hx by lia; discriminate.
    - exfalso. apply (S3 s Hq). apply P6. lia. }
  split; [now symmetry|]. split; [rewrite P3; lia|exact P3'].
Qed.

Lemma p_c09_sent_mono : forall c cap ops b outs o b' out,
  reach false c cap ops b outs -> sb_exec c b o = (Some b', out) ->
  o <> SbForget -> sent b <= sent b'.
Proof.
  intros c cap ops b outs o b' out H E Ho.
  assert (Hc : class_okb false b o = true) by (destruct o; reflexivity).
  destruct (reach_inv _ _ _ _ _ _ H) as (HI & _).
  destruct (step_all _ _ _ _ _ _ HI Hc E) as (_ & _ & S3 & _).
  rewrite S3. unfold sent_after. destruct o; try lia; try congruence; destruct out as [| ? ? [] ?| |]; lia.
Qed.

(* --- lost bytes are offered again --- *)

Lemma pick_lost_ok m cap flow win i :
  WF m -> size m <= win -> size m < two62 -> i < size m -> colr m i = Lost -> cap < two62 ->
  exists m' s e fr, pick m (fun _ => Some cap) flow win = PickOk m' s e fr.
Proof.
  intros Hwf Hwin Hsm Hi Hc Hcap. unfold pick.
  pose proof (pick_scan_spec flow win (runs m) true false) as Hs.
  destruct (pick_scan flow win (runs m) true false) as [[[[pre [st0 c0]] rest]|] [w f]].
  - destruct Hs as (Hr & Hst & Hc0 & _).
    assert (Hst0 : st0 < size m).
    { unfold WF in Hwf. rewrite Hr in Hwf. apply wfl_app_r in Hwf. cbn [wfl] in Hwf. lia. }
    set (allowance := match c0 with Lost => cap | _ => N.min cap flow end).
    assert (allowance <= cap) by (unfold allowance; destruct c0; lia).
    destruct (N.leb_spec two64 (st0 + allowance)).
    + exfalso. unfold two64, two62 in *. lia.
    + destruct (st0 + allowance <? _); eauto.
  - exfalso. unfold colr in Hc. destruct (col_from_in _ _ _ _ Hc) as [Hq|[o [Hin Ho]]]; [discriminate|].
    rewrite Forall_forall in Hs. specialize (Hs _ Hin). unfold skipped in Hs. cbn [fst snd] in Hs.
    destruct Hs as [Hk|[Hk|[Hk|[Hk _]]]]; try discriminate. lia.
Qed.

Lemma p_c09_lost_reoffered : forall c cap ops b outs i k flow,
  reach false c cap ops b outs -> colour_at (st b) i = Some Lost -> 1 <= k -> k < two62 ->
  exists b' s e d, pick_up c b (fun _ => Some k) flow = UpOk b' s e false d /\ s <= i /\ s < e /\
                   forall j, s <= j < e -> colour_at (st b) j = Some Lost.
Proof.
  intros c cap ops b outs i k flow H Hc Hk1 Hk2.
  destruct (reach_inv _ _ _ _ _ _ H) as (HI & _). pose proof HI as [I1 I2 I3].
  apply colour_at_some in Hc. destruct Hc as [Hi Hc].
  destruct (pick_lost_ok (st b) k flow (max_data b) i I1 ltac:(lia) I3 Hi Hc Hk2) as (m' & s & e & fr & Ep).
  assert (Hp : forall (o a : N), (fun _ : N => Some k) o = Some a -> 1 <= a) by (intros o a Hq; injection Hq as <-; exact Hk1).
  assert (Eu : pick_up c b (fun _ => Some k) flow = UpOk (mksb (base b) (retained b) (max_data b) m') s e fr (data_of c b s e))
    by (unfold pick_up; rewrite Ep; reflexivity).
  destruct (pick_up_facts _ _ _ _ _ _ _ _ _ HI Hp Eu) as (a & Ha & Hpost & _).
  destruct Hpost as (P1 & P2 & P3 & P4 & P5 & col & Hcol & Hfr & P6 & P7 & P8).
  assert (Hsi : s <= i).
  { destruct (N.le_gt_cases s i); [assumption|]. exfalso. destruct (P8 i H0) as [Hq|Hq]; congruence. }
  destruct (sent_of_spec _ I1) as (S1 & S2 & S3).
  assert (Hcl : col = Lost).
  { destruct Hcol as [->|(-> & _)]; [reflexivity|]. exfalso.
    assert (Hps : colr (st b) s = Pending) by (apply P6; lia).
    assert (sent_of (st b) <= s).
    { destruct (N.le_gt_cases (sent_of (st b)) s); [assumption|]. exfalso. exact (S3 s H0 Hps). }
    rewrite S2 in Hc by lia. discriminate. }
  subst col. cbn in Hfr. subst fr.
  eexists _, s, e, _. split; [exact Eu|]. split; [exact Hsi|]. split; [exact P3|].
  intros j Hj. apply colour_at_some. split; [lia|apply P6; exact Hj].
Qed.

(* --- completion --- *)

Lemma p_c09_complete : forall c cap ops b outs, reach true c cap ops b outs ->
  (is_all_rcvd b = true <-> forall i, i < written b -> colour_at (st b) i = Some Recved).
Proof.
  intros c cap ops b outs H. destruct (reach_inv _ _ _ _ _ _ H) as ([I1 I2 I3] & _ & R3 & _).
  destruct (R3 eq_refl) as (T1 & T2 & T3). unfold is_all_rcvd, written in *. split.
  - intros Hr i Hi. apply N.eqb_eq in Hr. apply colour_at_some. split; [lia|]. apply T2. lia.
  - intros Hall. apply N.eqb_eq.
    destruct (N.eq_dec (retained b) 0) as [Hz|Hnz]; [exact Hz|exfalso].
    assert (Hb : base b < base b + retained b) by lia.
    specialize (Hall (base b) Hb). apply colour_at_some in Hall. destruct Hall as [Hs Hq].
    exact (T3 Hs Hq).
Qed.

(* ------------------------------------------------------------------ *)
(* [reach false] is nothing but "sb_execs ends in a live state": no side condition on the op list *)

Lemma sb_execs_none c ops : fst (sb_execs c None ops) = None.
Proof.
  induction ops as [|o r IH]; cbn [sb_execs]; [reflexivity|].
  destruct (sb_execs c None r) as [b2 outs]. exact IH.
Qed.

Lemma execs_run_ok c ops : forall b b' outs,
  sb_execs c (Some b) ops = (Some b', outs) -> run_ok false c b ops = Some (b', outs).
Proof.
  induction ops as [|o r IH]; intros b b' outs H; cbn [run_ok sb_execs] in *.
  - now injection H as <- <-.
  - assert (Hc : class_okb false b o = true) by (destruct o; reflexivity). rewrite Hc.
    destruct (sb_exec c b o) as [[b1|] out].
    + destruct (sb_execs c (Some b1) r) as [b2 outs2] eqn:E. injection H as -> <-.
      rewrite (IH _ _ _ E). reflexivity.
    + pose proof (sb_execs_none c r) as Hn. destruct (sb_execs c None r) as [b2 outs2].
      cbn [fst] in Hn. subst b2. discriminate.
Qed.

(* every successful pick has a non-empty range: over ALL operation lists (empty and inverted
   ack / loss ranges, forget_sent_state anywhere) *)
Lemma p_c09_pick_nonempty : forall c cap ops b outs pred flow b' s e fr d,
  sb_execs c (Some (with_capacity cap)) ops = (Some b, outs) ->
  (forall o a, pred o = Some a -> 1 <= a) ->
  pick_up c b pred flow = UpOk b' s e fr d -> s < e.
Proof.
  intros c cap ops b outs pred flow b' s e fr d H Hp E.
  apply execs_run_ok in H. destruct (reach_inv false c cap ops b outs H) as (HI & _).
  destruct (pick_up_facts _ _ _ _ _ _ _ _ _ HI Hp E) as (a & _ & Hpost & _).
  destruct Hpost as (_ & _ & P3 & _). exact P3.
Qed.

(* empty / inverted ranges are ignored by on_data_acked and may_loss_data *)
Lemma p_c09_empty_range_noop : forall b s e, e <= s ->
  on_data_acked b s e = Some b /\ may_loss_data b s e = Some b.
Proof.
  intros b s e H. unfold on_data_acked, may_loss_data, on_data_acked_sent, may_loss_data_sent.
  destruct (N.leb_spec (N.min e (sent b)) s); [split; reflexivity|lia].
Qed.

Lemma run_ok_snoc strict c ops : forall b0 b outs o b' out,
  run_ok strict c b0 ops = Some (b, outs) -> class_okb strict b o = true -> sb_exec c b o = (Some b', out) ->
  run_ok strict c b0 (ops ++ [o]) = Some (b', outs ++ [out]).
Proof.
  induction ops as [|o1 r IH]; intros b0 b outs o b' out H Hc E; cbn [run_ok app] in *.
  - injection H as <- <-. rewrite Hc, E. reflexivity.
  - destruct (class_okb strict b0 o1); [|discriminate].
    destruct (sb_exec c b0 o1) as [[b1|] out1]; [|discriminate].
    destruct (run_ok strict c b1 r) as [[b2 outs2]|] eqn:Er; [|discriminate]. injection H as <- <-.
    rewrite (IH _ _ _ _ _ _ Er Hc E). reflexivity.
Qed.

(* forget_sent_state while nothing has been released (base = 0, its only reachable use: 0-RTT
   rejection) stays inside the strict class, so c09_retain / c09_pick / c09_complete keep holding
   for the state after it and for every strict continuation; the whole written data is still held *)
Lemma p_c09_forget_safe_at_base0 : forall c cap ops b outs,
  reach true c cap ops b outs -> base b = 0 ->
  reach true c cap (ops ++ [SbForget]) (forget_sent_state b) (outs ++ [OUnit]) /\
  written (forget_sent_state b) = written b /\ base (forget_sent_state b) = 0 /\
  (forall i, colour_at (st (forget_sent_state b)) i = None) /\
  (forall s e, e <= written b -> data_of c (forget_sent_state b) s e = slice c s (e - s)).
Proof.
  intros c cap ops b outs H Hb. split; [|split; [|split; [|split]]].
  - unfold reach in *. eapply run_ok_snoc; [exact H| |reflexivity]. cbn [class_okb]. now apply N.eqb_eq.
  - reflexivity.
  - exact Hb.
  - intro i. rewrite colour_at_colr. unfold forget_sent_state, empty_map. cbn [st size].
    destruct (N.ltb_spec i 0); [lia|reflexivity].
  - intros s e He. unfold data_of, forget_sent_state, written in *. cbn [base retained]. rewrite Hb in *.
    replace (N.max s 0) with s by lia. replace (N.min e (0 + retained b)) with e by lia. reflexivity.
Qed.

(* ------------------------------------------------------------------ *)
(* the full-strength data statement fails outside the strict class: concrete witness *)

(* F29 (fixed by `fix: SendBuf ignores empty ranges ...`): empty ranges are ignored, so the former
   witness write 5; pick; loss 5..5 leaves the map untouched and the next pick is refused *)
Lemma p_c09_f29_regression :
  exists b outs, sb_execs content (Some (with_capacity 6)) [SbWrite 5; SbPick 5 5 100; SbLoss 5 5; SbAck 5 5; SbLoss 7 2] = (Some b, outs) /\
    runs (st b) = [(0, Flighting)] /\
    pick_up content b (fun _ => Some 3) 3 = UpErr true false false.
Proof. vm_compute. eexists _, _. split; [reflexivity|]. split; reflexivity. Qed.

(* F28: forget_sent_state after an acknowledgement released bytes from the deque: the bytes are
   Pending again, are offered as fresh data, but the data handed out is not the written slice *)
Lemma p_c09_pick_data_refuted :
  exists ops b outs b' d, sb_execs content (Some (with_capacity 4)) ops = (Some b, outs) /\
    pick_up content b (fun _ => Some 4) 4 = UpOk b' 0 4 true d /\ d <> slice content 0 4 /\ lenN d = 2.
Proof.
  exists [SbWrite 4; SbPick 4 4 100; SbAck 0 2; SbForget; SbExtend 4]. vm_compute.
  eexists _, _, _, _. split; [reflexivity|]. split; [reflexivity|]. split; [discriminate|reflexivity].
Qed.


(* ------------------------------------------------------------------ *)
(* the operations fail (PV) only when the Rust's debug assertions fail: under the preconditions
   "range end within size, no Pending byte covered" they succeed *)

Lemma no_pending_tail pre o k r lo sz e :
  wfl lo sz ((o, k) :: r) -> o < e -> (forall i, i < e -> col_from pre ((o, k) :: r) i <> Pending) ->
  k <> Pending /\ (forall i, i < e -> col_from k r i <> Pending).
Proof.
  intros Hw Hoe H. cbn [wfl] in Hw. destruct Hw as (A & B & C & D).
  assert (Hk : k <> Pending).
  { specialize (H o Hoe). cbn [col_from] in H. destruct (N.ltb_spec o o); [lia|].
    rewrite (col_from_lt k (o + 1) sz r o D ltac:(lia)) in H. exact H. }
  split; [exact Hk|]. intros i Hi. destruct (N.lt_ge_cases i o).
  - rewrite (col_from_lt k (o + 1) sz r i D ltac:(lia)). exact Hk.
  - specialize (H i Hi). cbn [col_from] in H. destruct (N.ltb_spec i o); [lia|exact H].
Qed.

Lemma ack_go_total sz e : forall l lo pre,
  wfl lo sz l -> e <= sz -> (forall i, i < e -> col_from pre l i <> Pending) -> ack_go sz e pre l <> None.
Proof.
  induction l as [|[o k] r IH]; intros lo pre Hw He H; cbn [ack_go].
  - destruct (N.ltb_spec sz e); [lia|discriminate].
  - destruct (N.ltb_spec o e) as [Hoe|Hoe].
    + destruct (no_pending_tail _ _ _ _ _ _ _ Hw Hoe H) as [Hk Ht].
      cbn [wfl] in Hw. destruct Hw as (A & B & C & D).
      destruct k; [congruence|eapply IH; eauto..].
    + destruct (o =? e); discriminate.
Qed.

Lemma loss_total sz e : forall l,
  (forall lo pre, wfl lo sz l -> e <= sz -> (forall i, i < e -> col_from pre l i <> Pending) -> loss_go sz e pre l <> None) /\
  (forall lo, wfl lo sz l -> e <= sz -> (forall i, i < e -> col_from Recved l i <> Pending) -> lost_from sz e l <> None).
Proof.
  induction l as [|[o k] r [IH1 IH2]]; split.
  - intros lo pre _ He _. cbn [loss_go]. destruct (N.ltb_spec sz e); [lia|discriminate].
  - intros lo _ He _. cbn [lost_from]. destruct (N.ltb_spec sz e); [lia|discriminate].
  - intros lo pre Hw He H. cbn [loss_go]. destruct (N.ltb_spec o e) as [Hoe|Hoe].
    + destruct (no_pending_tail _ _ _ _ _ _ _ Hw Hoe H) as [Hk Ht].
      cbn [wfl] in Hw. destruct Hw as (A & B & C & D).
      destruct k; [congruence|eapply IH1; eauto|eapply IH1; eauto|].
      specialize (IH2 _ D He Ht). destruct (lost_from sz e r); [discriminate|congruence].
    + destruct (o =? e); discriminate.
  - intros lo Hw He H. cbn [lost_from]. destruct (N.ltb_spec o e) as [Hoe|Hoe].
    + destruct (no_pending_tail _ _ _ _ _ _ _ Hw Hoe H) as [Hk Ht].
      cbn [wfl] in Hw. destruct Hw as (A & B & C & D).
      destruct k; [congruence| | |].
      * specialize (IH1 _ Flighting D He Ht). destruct (loss_go sz e Flighting r); [discriminate|congruence].
      * specialize (IH1 _ Lost D He Ht). destruct (loss_go sz e Lost r); [discriminate|congruence].
      * specialize (IH2 _ D He Ht). destruct (lost_from sz e r); [discriminate|congruence].
    + destruct (o =? e); discriminate.
Qed.

Lemma option_map_some {A B} (f : A -> B) x : x <> None -> option_map f x <> None.
Proof. destruct x; [discriminate|congruence]. Qed.

(* facts about the split point shared by ack_rcvd and may_loss *)
Lemma split_point m s e pfx rest :
  WF m -> s < e -> e <= size m -> (forall i, s <= i < e -> colr m i <> Pending) ->
  split_lt s (runs m) = (pfx, rest) ->
  wfl s (size m) rest /\
  (forall o k rest', rest = (o, k) :: rest' -> o = s ->
     k <> Pending /\ wfl (s + 1) (size m) rest' /\ forall i, i < e -> col_from k rest' i <> Pending) /\
  ((forall o k rest', rest = (o, k) :: rest' -> o <> s) ->
     last_colour Recved pfx <> Pending /\ forall i, i < e -> col_from (last_colour Recved pfx) rest i <> Pending).
Proof.
  intros Hwf Hse He Hnp Es.
  destruct (split_lt_spec _ _ _ _ _ _ Hwf Es) as (Hr & Ho & Hrest).
  replace (N.max 0 s) with s in Hrest by lia.
  assert (Orig : forall i, s <= i -> colr m i = col_from (last_colour Recved pfx) rest i).
  { intros i Hi. unfold colr. rewrite Hr. apply col_from_app_ge. eapply offs_lt_le; eauto. lia. }
  split; [exact Hrest|]. split.
  - intros o k rest' -> ->. cbn [wfl] in Hrest. destruct Hrest as (A & B & C & D).
    assert (Hks : colr m s = k).
    { rewrite Orig by lia. cbn [col_from]. destruct (N.ltb_spec s s); [lia|]. eapply col_from_lt; eauto. lia. }
    assert (Hk : k <> Pending) by (rewrite <- Hks; apply Hnp; lia).
    split; [exact Hk|]. split; [exact D|]. intros i Hi. destruct (N.lt_ge_cases i (s + 1)).
    + rewrite (col_from_lt k (s + 1) (size m) rest' i D ltac:(lia)). exact Hk.
    + specialize (Hnp i ltac:(lia)). rewrite Orig in Hnp by lia. cbn [col_from] in Hnp.
      destruct (N.ltb_spec i s); [lia|exact Hnp].
  - intros Hne.
    assert (Hrest1 : wfl (s + 1) (size m) rest).
    { destruct rest as [|[o k] rest']; [exact I|]. eapply wfl_cons_lo; eauto.
      specialize (Hne o k rest' eq_refl). cbn [wfl] in Hrest. lia. }
    assert (Hls : colr m s = last_colour Recved pfx).
    { rewrite Orig by lia. eapply col_from_lt; eauto. lia. }
    assert (Hl : last_colour Recved pfx <> Pending) by (rewrite <- Hls; apply Hnp; lia).
    split; [exact Hl|]. intros i Hi. destruct (N.lt_ge_cases i (s + 1)).
    + rewrite (col_from_lt _ (s + 1) (size m) rest i Hrest1 ltac:(lia)). exact Hl.
    + rewrite <- Orig by lia. apply Hnp. lia.
Qed.

Lemma p_c09_ack_total : forall m s e, WF m -> s < e -> e <= size m ->
  (forall i, s <= i < e -> colour_at m i <> Some Pending) -> ack_rcvd m s e <> None.
Proof.
  intros m s e Hwf Hse He Hnp0.
  assert (Hnp : forall i, s <= i < e -> colr m i <> Pending).
  { intros i Hi Hc. apply (Hnp0 i Hi). apply colour_at_some. split; [lia|exact Hc]. }
  unfold ack_rcvd. destruct (split_lt s (runs m)) as [pfx rest] eqn:Es.
  destruct (split_point _ _ _ _ _ Hwf Hse He Hnp Es) as (Hrest & HOk & HErr).
  apply option_map_some.
  assert (ErrCase : (forall o k rest', rest = (o, k) :: rest' -> o <> s) -> ack_err (size m) s e pfx rest <> None).
  { intros Hne. destruct (HErr Hne) as [Hl Ht]. unfold ack_err.
    destruct pfx as [|p0 pfx0] eqn:Epfx.
    - eapply ack_go_total; eauto.
    - rewrite <- Epfx in *. destruct (last_colour Recved pfx) eqn:El; [congruence| | |];
        apply option_map_some; eapply ack_go_total; eauto. }
  destruct rest as [|[o k] rest'].
  - apply ErrCase. intros; discriminate.
  - destruct (N.eqb_spec o s) as [->|Hne].
    + destruct (HOk _ _ _ eq_refl eq_refl) as (Hk & Hw & Ht).
      destruct k; [congruence|..]; apply option_map_some; eapply ack_go_total; eauto.
    + apply ErrCase. intros o' k' r' Hq. injection Hq as <- <- <-. exact Hne.
Qed.

Lemma p_c09_loss_total : forall m s e, WF m -> s < e -> e <= size m ->
  (forall i, s <= i < e -> colour_at m i <> Some Pending) -> may_loss m s e <> None.
Proof.
  intros m s e Hwf Hse He Hnp0.
  assert (Hnp : forall i, s <= i < e -> colr m i <> Pending).
  { intros i Hi Hc. apply (Hnp0 i Hi). apply colour_at_some. split; [lia|exact Hc]. }
  unfold may_loss. destruct (split_lt s (runs m)) as [pfx rest] eqn:Es.
  destruct (split_point _ _ _ _ _ Hwf Hse He Hnp Es) as (Hrest & HOk & HErr).
  apply option_map_some.
  assert (ErrCase : (forall o k rest', rest = (o, k) :: rest' -> o <> s) -> loss_err (size m) s e pfx rest <> None).
  { intros Hne. destruct (HErr Hne) as [Hl Ht]. unfold loss_err.
    destruct pfx as [|p0 pfx0] eqn:Epfx.
    - eapply (proj2 (loss_total (size m) e rest)); eauto.
    - rewrite <- Epfx in *. destruct (last_colour Recved pfx) eqn:El; [congruence| | |]; apply option_map_some.
      + eapply (proj1 (loss_total (size m) e rest)); eauto.
      + eapply (proj1 (loss_total (size m) e rest)); eauto.
      + eapply (proj2 (loss_total (size m) e rest)); eauto. }
  destruct rest as [|[o k] rest'].
  - apply ErrCase. intros; discriminate.
  - destruct (N.eqb_spec o s) as [->|Hne].
    + destruct (HOk _ _ _ eq_refl eq_refl) as (Hk & Hw & Ht).
      destruct k; [congruence|..]; apply option_map_some.
      * eapply (proj1 (loss_total (size m) e rest')); eauto.
      * eapply (proj1 (loss_total (size m) e rest')); eauto.
      * eapply (proj2 (loss_total (size m) e rest')); eauto.
    + apply ErrCase. intros o' k' r' Hq. injection Hq as <- <- <-. exact Hne.
Qed.

(* ------------------------------------------------------------------ *)
(* finding F70 (repaired): SendBuf::on_data_acked / may_loss_data act on the sent part of the reported
   range only.  In every state that satisfies the invariant - so after every operation list - NO report,
   whatever its range, can fail one of BufMap's assertions, and the never-sent bytes keep their colour *)

Lemma report_total b s e : Inv b -> on_data_acked b s e <> None /\ may_loss_data b s e <> None.
Proof.
  intros [Hwf Hsz Hsm]. destruct (sent_of_spec _ Hwf) as (S1 & S2 & S3).
  unfold on_data_acked, may_loss_data, on_data_acked_sent, may_loss_data_sent, sent.
  destruct (N.leb_spec (N.min e (sent_of (st b))) s) as [H|H]; [split; discriminate|].
  assert (Hnp : forall i, s <= i < N.min e (sent_of (st b)) -> colour_at (st b) i <> Some Pending).
  { intros i Hi Hc. apply colour_at_some in Hc. destruct Hc as [_ Hc]. apply (S3 i); [lia|exact Hc]. }
  split.
  - pose proof (p_c09_ack_total (st b) s _ Hwf H ltac:(lia) Hnp) as Hn.
    destruct (ack_rcvd (st b) s (N.min e (sent_of (st b)))); [|congruence].
    destruct (shift b0). destruct (base b <? n); discriminate.
  - pose proof (p_c09_loss_total (st b) s _ Hwf H ltac:(lia) Hnp) as Hn.
    destruct (may_loss (st b) s (N.min e (sent_of (st b)))); [discriminate|congruence].
Qed.

Lemma p_c09_report_total : forall c cap ops b outs s e, reach false c cap ops b outs ->
  on_data_acked b s e <> None /\ may_loss_data b s e <> None.
Proof.
  intros c cap ops b outs s e H. destruct (reach_inv _ _ _ _ _ _ H) as (HI & _). apply report_total; exact HI.
Qed.

Lemma p_c09_report_ack : forall c cap ops b outs s e b', reach false c cap ops b outs ->
  on_data_acked b s e = Some b' ->
  written b' = written b /\ sent b' = sent b /\ max_data b' = max_data b /\ size (st b') = size (st b) /\
  (forall i, colour_at (st b') i = if in_range s (N.min e (sent b)) i then Some Recved else colour_at (st b) i).
Proof.
  intros c cap ops b outs s e b' H E. destruct (reach_inv _ _ _ _ _ _ H) as (HI & _).
  destruct (step_ack _ _ _ _ HI E) as (A1 & A2 & A3 & _ & _ & A6 & A7 & A8).
  split; [exact A2|]. split; [exact A3|]. split; [exact A6|]. split; [exact A7|].
  pose proof HI as [Hwf _ _]. destruct (sent_of_spec _ Hwf) as (S1 & _ & _).
  intro i. rewrite !colour_at_colr, A7. unfold in_range. destruct (N.ltb_spec i (size (st b))) as [Hi|Hi].
  - rewrite A8 by exact Hi. destruct ((s <=? i) && (i <? N.min e (sent b))); reflexivity.
  - destruct (N.leb_spec s i); destruct (N.ltb_spec i (N.min e (sent b))); cbn [andb]; try reflexivity.
    unfold sent in *. lia.
Qed.

Lemma p_c09_report_loss : forall c cap ops b outs s e b', reach false c cap ops b outs ->
  may_loss_data b s e = Some b' ->
  written b' = written b /\ sent b' = sent b /\ max_data b' = max_data b /\ size (st b') = size (st b) /\
  base b' = base b /\ retained b' = retained b /\
  (forall i, colour_at (st b') i = if in_range s (N.min e (sent b)) i then option_map lossf (colour_at (st b) i) else colour_at (st b) i).
Proof.
  intros c cap ops b outs s e b' H E. destruct (reach_inv _ _ _ _ _ _ H) as (HI & _).
  destruct (step_loss _ _ _ _ HI E) as (A1 & A2 & A3 & _ & _ & A6 & A7 & A8 & A9 & A10).
  split; [exact A2|]. split; [exact A3|]. split; [exact A6|]. split; [exact A7|]. split; [exact A9|]. split; [exact A10|].
  intro i. rewrite !colour_at_colr, A7. unfold in_range. destruct (N.ltb_spec i (size (st b))) as [Hi|Hi].
  - rewrite A8 by exact Hi. destruct ((s <=? i) && (i <? N.min e (sent b))); reflexivity.
  - destruct ((s <=? i) && (i <? N.min e (sent b))); reflexivity.
Qed.

(* a report that lies completely in the never-sent part leaves the buffer as it is *)
Lemma p_c09_stale_report_noop : forall b s e, sent b <= s ->
  on_data_acked b s e = Some b /\ may_loss_data b s e = Some b.
Proof.
  intros b s e H. unfold on_data_acked, may_loss_data, on_data_acked_sent, may_loss_data_sent.
  destruct (N.leb_spec (N.min e (sent b)) s); [split; reflexivity|lia].
Qed.

(* 0-RTT rejection (forget_sent_state at base 0, then the window of the real handshake): nothing counts
   as sent, so every report about a frame of a rejected 0-RTT packet is ignored - until data is sent again *)
Lemma p_c09_forget_then_reports : forall c cap ops b outs mx b1,
  reach true c cap ops b outs -> base b = 0 -> extend (forget_sent_state b) mx = Some b1 ->
  reach true c cap (ops ++ [SbForget; SbExtend mx]) b1 (outs ++ [OUnit; OUnit]) /\
  sent b1 = 0 /\ written b1 = written b /\ base b1 = 0 /\
  (forall s e, on_data_acked b1 s e = Some b1 /\ may_loss_data b1 s e = Some b1).
Proof.
  intros c cap ops b outs mx b1 H Hb E.
  destruct (p_c09_forget_safe_at_base0 _ _ _ _ _ H Hb) as (R1 & _).
  assert (R2 : reach true c cap ((ops ++ [SbForget]) ++ [SbExtend mx]) b1 ((outs ++ [OUnit]) ++ [OUnit])).
  { unfold reach in *. eapply run_ok_snoc; [exact R1|reflexivity|]. cbn [sb_exec]. rewrite E. reflexivity. }
  rewrite <- !app_assoc in R2. cbn [app] in R2.
  assert (Hs : sent b1 = 0).
  { unfold extend in E. destruct (mx <? max_data (forget_sent_state b)); [discriminate|].
    remember (N.min (written (forget_sent_state b)) mx) as pos.
    destruct (extend_to (st (forget_sent_state b)) pos) as [m'|] eqn:Ee; [|discriminate]. injection E as <-.
    unfold sent. cbn [st]. unfold extend_to in Ee. cbn [forget_sent_state st empty_map size runs last_colour] in Ee.
    destruct ((two62 <=? pos) || (pos <? 0)); [discriminate|].
    destruct (0 <? pos); injection Ee as <-; reflexivity. }
  assert (Hw : written b1 = written b /\ base b1 = 0).
  { unfold extend in E. destruct (mx <? max_data (forget_sent_state b)); [discriminate|].
    destruct (extend_to _ _); [|discriminate]. injection E as <-. unfold written. cbn [base retained forget_sent_state]. auto. }
  split; [exact R2|]. split; [exact Hs|]. split; [apply Hw|]. split; [apply Hw|].
  intros s e. apply p_c09_stale_report_noop. lia.
Qed.

(* regression for F70: 10 bytes, 6 sent in 0-RTT, rejection (forget + new window 8); the loss and the
   acknowledgement of the 0-RTT frame 0..6 are ignored; 3 bytes are sent again; the loss report of the
   0-RTT frame now marks exactly these 3 bytes Lost (and not the never-sent rest), an acknowledgement of the
   0-RTT frame marks exactly these 3 bytes Recved; the rest is still offered as fresh data *)
Lemma p_c09_f70_regression :
  exists b outs, sb_execs content (Some (with_capacity 10))
      [SbWrite 10; SbPick 6 6 100; SbForget; SbExtend 8; SbLoss 0 6; SbAck 0 6; SbPick 3 3 100; SbLoss 0 6] = (Some b, outs) /\
    runs (st b) = [(0, Lost); (3, Pending)] /\ sent b = 3 /\ base b = 0 /\ retained b = 10 /\
    (exists b', on_data_acked b 0 6 = Some b' /\ runs (st b') = [(3, Pending)] /\ base b' = 3 /\ retained b' = 7 /\
       exists b'' d, pick_up content b' (fun _ => Some 10) 10 = UpOk b'' 3 8 true d /\ d = slice content 3 5).
Proof.
  vm_compute. eexists _, _. split; [reflexivity|]. split; [reflexivity|]. split; [reflexivity|]. split; [reflexivity|].
  split; [reflexivity|]. eexists. split; [reflexivity|]. split; [reflexivity|]. split; [reflexivity|]. split; [reflexivity|].
  eexists _, _. split; reflexivity.
Qed.
