(* Lifting of the per-flow theorems of Proofs/Streams.v to the two-endpoint system of
   Model/Streams.v: [sys_step] applies to a flow only operations that are [justified] by the
   frames of that same flow in the pool, hence every flow of a reachable system state is
   [flow_reach]able with the projection of the pool on its key. *)
From Coq Require Import List NArith ZArith Bool Lia.
From GQ Require Import Lib.Base Lib.Slice Model.SendBuf Model.RecvBuf Model.Streams Proofs.Streams.
From GQ Require Model.StreamCtl.
Import ListNotations.
Local Open Scope N_scope.

Arguments N.add : simpl never.
Arguments N.sub : simpl never.
Arguments N.min : simpl never.
Arguments N.max : simpl never.

Notation alookup := StreamCtl.alookup.
Notation aupdate := StreamCtl.aupdate.

(* ---- association lists *)
Lemma alookup_aupdate_same {A} (l : list (N * A)) k v v0 :
  alookup l k = Some v0 -> alookup (aupdate l k v) k = Some v.
Proof.
  induction l as [|[k' v'] t IH]; cbn [StreamCtl.alookup StreamCtl.aupdate]; [discriminate|].
  destruct (N.eqb_spec k' k) as [->|NE]; intro H.
  - cbn [StreamCtl.alookup]. now rewrite N.eqb_refl.
  - cbn [StreamCtl.alookup]. destruct (N.eqb_spec k' k); [contradiction|]. apply IH; exact H.
Qed.

Lemma alookup_aupdate_other {A} (l : list (N * A)) k k2 v :
  k2 <> k -> alookup (aupdate l k v) k2 = alookup l k2.
Proof.
  intro NE. induction l as [|[k' v'] t IH]; cbn [StreamCtl.alookup StreamCtl.aupdate]; [reflexivity|].
  destruct (N.eqb_spec k' k) as [->|NE'].
  - cbn [StreamCtl.alookup]. destruct (N.eqb_spec k k2); [congruence|reflexivity].
  - cbn [StreamCtl.alookup]. destruct (N.eqb_spec k' k2); [reflexivity|exact IH].
Qed.

(* ---- the pool seen by one flow *)
Definition proj (key : N) (pool : list (N * fframe)) : list fframe :=
  map snd (filter (fun kf : N * fframe => fst kf =? key) pool).

Lemma proj_app key a b : proj key (a ++ b) = proj key a ++ proj key b.
Proof. unfold proj. now rewrite filter_app, map_app. Qed.

Lemma proj_tag_same key fr : proj key (map (fun f => (key, f)) fr) = fr.
Proof.
  unfold proj. induction fr as [|f t IH]; [reflexivity|]. cbn [map filter fst]. rewrite N.eqb_refl.
  cbn [map snd]. now rewrite IH.
Qed.

Lemma proj_tag_other key k2 fr : k2 <> key -> proj k2 (map (fun f => (key, f)) fr) = [].
Proof.
  intro NE. unfold proj. induction fr as [|f t IH]; [reflexivity|]. cbn [map filter fst].
  destruct (N.eqb_spec key k2); [congruence|exact IH].
Qed.

Lemma nth_proj pool i key f : nthN pool i = Some (key, f) -> In f (proj key pool).
Proof.
  unfold nthN. intro H. apply nth_error_In in H. unfold proj.
  apply in_map_iff. exists (key, f). split; [reflexivity|]. apply filter_In. split; [exact H|].
  cbn [fst]. apply N.eqb_refl.
Qed.

(* ---- the system invariant *)
Definition SysInv (s : sys) : Prop :=
  forall key fl, alookup (sy_flows s) key = Some fl -> flow_reach (cof key) fl (proj key (sy_pool s)).

Definition same_fp (s s' : sys) : Prop := sy_flows s' = sy_flows s /\ sy_pool s' = sy_pool s.

Lemma SysInv_same s s' : same_fp s s' -> SysInv s -> SysInv s'.
Proof. intros [E1 E2] H key fl. rewrite E1, E2. apply H. Qed.

Lemma same_fp_refl s : same_fp s s.
Proof. split; reflexivity. Qed.
Lemma same_fp_closed s : same_fp s (set_closed s).
Proof. split; reflexivity. Qed.
Lemma same_fp_cursor s side c : same_fp s (set_cursor s side c).
Proof. unfold set_cursor. destruct (side =? 0); split; reflexivity. Qed.
Lemma same_fp_learn s j : same_fp s (learn s j).
Proof. unfold learn. destruct (nthN (sy_dirs s) j); [destruct (n =? 0)|]; split; reflexivity. Qed.

Lemma on_flow_inv s key o s' fr out :
  SysInv s -> on_flow s key o = Some (s', fr, out) -> justified (proj key (sy_pool s)) o -> SysInv s'.
Proof.
  intros HI E Hj. unfold on_flow in E. destruct (alookup (sy_flows s) key) as [fl|] eqn:El; [|discriminate].
  destruct (flow_step (cof key) fl o) as [[fl' fr0] out0] eqn:Es. injection E as <- <- <-.
  intros k2 fl2. cbn [sy_flows sy_pool set_pool set_flows]. rewrite proj_app.
  destruct (N.eq_dec k2 key) as [->|NE].
  - rewrite (alookup_aupdate_same _ _ _ _ El). intro Hq. injection Hq as <-.
    rewrite proj_tag_same. eapply fr_step; [apply HI; exact El|exact Hj|exact Es].
  - rewrite (alookup_aupdate_other _ _ _ _ NE), (proj_tag_other _ _ _ NE), app_nil_r. apply HI.
Qed.

Lemma app_call_inv s key o extra s' obs :
  SysInv s -> justified (proj key (sy_pool s)) o -> app_call s key o extra = (s', obs) -> SysInv s'.
Proof.
  intros HI Hj E. unfold app_call in E. destruct (on_flow s key o) as [[[s1 fr] out]|] eqn:Eo.
  - injection E as <- _. pose proof (on_flow_inv _ _ _ _ _ _ HI Eo Hj) as H1.
    destruct (fo_err out); [exact (SysInv_same _ _ (same_fp_closed s1) H1)|exact H1].
  - injection E as <- _. exact HI.
Qed.

(* ---- packet loading *)
Lemma pred_of_packet_pos cap sid tok : 1 <= tok -> pred_pos (pred_of_packet cap sid tok).
Proof.
  intros Ht o a. unfold pred_of_packet, StreamCtl.est_cap.
  destruct (cap <=? StreamCtl.frame_least sid o) eqn:E; [discriminate|].
  apply N.leb_gt in E. intro H. injection H as <-. lia.
Qed.

Lemma try_streams_inv skeys cap credit : forall order s s' r,
  Forall (fun st : N * N => 1 <= snd st) order -> SysInv s ->
  try_streams s skeys order cap credit = (s', r) -> SysInv s'.
Proof.
  induction order as [|[sid tok] rest IH]; intros s s' r Hf HI E; cbn [try_streams] in E.
  - injection E as <- _. exact HI.
  - inversion Hf as [|x l Hx Hl]; subst. cbn [snd] in Hx.
    destruct (alookup skeys sid) as [key|]; [|eapply IH; eauto].
    destruct (on_flow s key (FTry (pred_of_packet cap sid tok) credit)) as [[[s1 fr] out]|] eqn:Eo; [|eapply IH; eauto].
    assert (H1 : SysInv s1).
    { eapply on_flow_inv; [exact HI|exact Eo|]. cbn [justified]. apply pred_of_packet_pos; exact Hx. }
    destruct (fo_pick out); [injection E as <- _; exact H1|eapply IH; eauto].
Qed.

Lemma load_order_tokens rot cursor keys : Forall (fun st : N * N => 1 <= snd st) (load_order rot cursor keys).
Proof.
  assert (A : forall l, Forall (fun st : N * N => 1 <= snd st) (map (fun k => (k, StreamCtl.DEFAULT_TOKENS)) l)).
  { intro l. apply Forall_forall. intros x Hx. apply in_map_iff in Hx. destruct Hx as [k [<- _]]. cbn. unfold StreamCtl.DEFAULT_TOKENS. lia. }
  unfold load_order. destruct cursor as [[c tok]|]; [|apply A].
  destruct (N.eqb_spec tok 0) as [Z|NZ]; [destruct rot; apply A|].
  apply Forall_app. split; [|apply A]. destruct (existsb (N.eqb c) keys); constructor; [cbn; lia|constructor].
Qed.

Lemma emit_inv s side cap flowlim s' r : SysInv s -> emit s side cap flowlim = (s', r) -> SysInv s'.
Proof.
  intros HI E. unfold emit in E. destruct (cap <? StreamCtl.STREAM_FRAME_MAX); [injection E as <- _; exact HI|].
  destruct (try_streams s (outgoing_keys s side) _ cap (N.min flowlim cap)) as [s1 [[[[key sid] tok] p]|]] eqn:Et.
  - injection E as <- _. apply (SysInv_same _ _ (same_fp_cursor s1 side _)).
    eapply try_streams_inv; [apply load_order_tokens|exact HI|exact Et].
  - injection E as <- _. eapply try_streams_inv; [apply load_order_tokens|exact HI|exact Et].
Qed.

Lemma sys_step_inv s o s' obs : SysInv s -> sys_step s o = (s', obs) -> SysInv s'.
Proof.
  intros HI E. unfold sys_step in E. destruct (sy_closed s); [injection E as <- _; exact HI|].
  assert (Miss : forall a b c d, missing s a b c d = (s', obs) -> SysInv s').
  { intros a b c d Em. unfold missing in Em. injection Em as <- _. exact HI. }
  destruct o as [side j n|side j|side j|side j n|side j err|side j err|side cap fl|i|i|i].
  - destruct ((side <? 2) && has_writer s side j); [|eapply Miss; eauto]. eapply app_call_inv; [exact HI| |exact E]. exact I.
  - destruct ((side <? 2) && has_writer s side j); [|eapply Miss; eauto]. eapply app_call_inv; [exact HI| |exact E]. exact I.
  - destruct ((side <? 2) && has_writer s side j); [|eapply Miss; eauto]. eapply app_call_inv; [exact HI| |exact E]. exact I.
  - destruct ((side <? 2) && has_reader s side j); [|eapply Miss; eauto]. eapply app_call_inv; [exact HI| |exact E]. exact I.
  - destruct ((side <? 2) && has_writer s side j); [|eapply Miss; eauto]. eapply app_call_inv; [exact HI| |exact E]. exact I.
  - destruct ((side <? 2) && has_reader s side j); [|eapply Miss; eauto]. eapply app_call_inv; [exact HI| |exact E]. exact I.
  - destruct (side <? 2); [|injection E as <- _; exact HI].
    destruct (emit s side cap fl) as [s1 r] eqn:Ee. pose proof (emit_inv _ _ _ _ _ _ HI Ee) as H1.
    destruct r as [[[key sid] p]|]; injection E as <- _; exact H1.
  - destruct (nthN (sy_pool s) i) as [[key f]|] eqn:En; [|injection E as <- _; exact HI].
    pose proof (nth_proj _ _ _ _ En) as Hin.
    assert (G : forall s1 o extra, same_fp s s1 -> justified (proj key (sy_pool s)) o ->
                app_call s1 key o extra = (s', obs) -> SysInv s').
    { intros s1 o extra Hs1 Hj Ea. pose proof (SysInv_same _ _ Hs1 HI) as HI1. destruct Hs1 as [_ Hp].
      eapply app_call_inv; [exact HI1| |exact Ea]. rewrite Hp. exact Hj. }
    assert (L : forall b : bool, same_fp s (if b then learn s (key_stream key) else s))
      by (intros [|]; [apply same_fp_learn|apply same_fp_refl]).
    destruct f as [off len fin d|err final|err]; cbv zeta in E.
    + eapply (G _ _ _ (L _)); [|exact E]. cbn [justified]. eauto.
    + eapply (G _ _ _ (L _)); [|exact E]. cbn [justified]. eauto.
    + eapply (G _ _ _ (L _)); [|exact E]. exact I.
  - destruct (nthN (sy_pool s) i) as [[key f]|] eqn:En; [|injection E as <- _; exact HI].
    pose proof (nth_proj _ _ _ _ En) as Hin.
    destruct f as [off len fin d|err final|err].
    + eapply app_call_inv; [exact HI| |exact E]. cbn [justified]. eauto.
    + eapply app_call_inv; [exact HI| |exact E]. exact I.
    + injection E as <- _. exact HI.
  - destruct (nthN (sy_pool s) i) as [[key f]|] eqn:En; [|injection E as <- _; exact HI].
    pose proof (nth_proj _ _ _ _ En) as Hin.
    destruct f as [off len fin d|err final|err]; try (injection E as <- _; exact HI).
    eapply app_call_inv; [exact HI| |exact E]. cbn [justified]. eauto.
Qed.

Lemma sys_exec_inv ops : forall s, SysInv s -> SysInv (sys_exec s ops).
Proof.
  induction ops as [|o rest IH]; intros s HI; cbn [sys_exec]; [exact HI|].
  apply IH. destruct (sys_step s o) as [s' obs] eqn:E. cbn [fst]. eapply sys_step_inv; eauto.
Qed.

Lemma init_flows_new w dirs : forall j key fl, alookup (init_flows w dirs j) key = Some fl -> fl = new_flow w.
Proof.
  induction dirs as [|d t IH]; intros j key fl; cbn [init_flows StreamCtl.alookup]; [discriminate|].
  destruct (2 * j =? key); [intro H; now injection H|].
  destruct (d =? 0); cbn [app StreamCtl.alookup].
  - destruct (2 * j + 1 =? key); [intro H; now injection H|apply IH].
  - apply IH.
Qed.

Lemma SysInv_init rot w dirs : SysInv (sys_init rot w dirs).
Proof.
  intros key fl H. cbn [sys_init sy_flows sy_pool] in *. rewrite (init_flows_new _ _ _ _ _ H). apply fr_init.
Qed.

(* every flow of every state the two-endpoint system can reach *)
Lemma p_c01_reach_system : forall rot w dirs ops key fl,
  alookup (sy_flows (sys_exec (sys_init rot w dirs) ops)) key = Some fl ->
  flow_reach (cof key) fl (proj key (sy_pool (sys_exec (sys_init rot w dirs) ops))).
Proof. intros rot w dirs ops key fl H. exact (sys_exec_inv ops _ (SysInv_init rot w dirs) key fl H). Qed.

Lemma p_c01_safety_system : forall rot w dirs ops key fl,
  alookup (sy_flows (sys_exec (sys_init rot w dirs) ops)) key = Some fl ->
  is_prefix (rc_got (fl_rcv fl)) (written_bytes (cof key) fl) /\
  (rc_eos (fl_rcv fl) = true ->
   rc_got (fl_rcv fl) = written_bytes (cof key) fl /\ sn_shutcalled (fl_snd fl) = true).
Proof. intros rot w dirs ops key fl H. exact (p_c01_safety _ _ _ (p_c01_reach_system _ _ _ _ _ _ H)). Qed.

(* ------------------------------------------------------------------ *)
(* the cursor: whatever Output.cursor holds, one try_load_data_into_once visits every member of the
   output set, each exactly once, with at least one token *)
Lemma load_order_visits rot cursor keys k :
  In k keys -> exists tok, In (k, tok) (load_order rot cursor keys) /\ 1 <= tok.
Proof.
  intro Hin. unfold load_order.
  assert (A : forall l, In k l -> In (k, StreamCtl.DEFAULT_TOKENS) (map (fun x => (x, StreamCtl.DEFAULT_TOKENS)) l))
    by (intros l H; apply in_map_iff; exists k; auto).
  assert (T : 1 <= StreamCtl.DEFAULT_TOKENS) by (unfold StreamCtl.DEFAULT_TOKENS; lia).
  destruct cursor as [[c tok]|].
  2:{ exists StreamCtl.DEFAULT_TOKENS. split; [apply A; apply -> in_rev; exact Hin|exact T]. }
  destruct (N.eqb_spec tok 0) as [Z|NZ].
  - exists StreamCtl.DEFAULT_TOKENS. split; [|exact T]. destruct rot; apply A; apply in_or_app.
    + destruct (N.lt_ge_cases k c); [left|right]; apply -> in_rev; apply filter_In; (split; [exact Hin|]);
        [apply N.ltb_lt; assumption|apply N.leb_le; assumption].
    + destruct (N.le_gt_cases k c); [left|right]; apply -> in_rev; apply filter_In; (split; [exact Hin|]);
        [apply N.leb_le; assumption|apply N.ltb_lt; assumption].
  - destruct (N.lt_trichotomy k c) as [H|[H|H]].
    + exists StreamCtl.DEFAULT_TOKENS. split; [|exact T]. apply in_or_app. right. apply A. apply in_or_app. left.
      apply -> in_rev. apply filter_In. split; [exact Hin|apply N.ltb_lt; exact H].
    + subst k. exists tok. split; [|lia]. apply in_or_app. left.
      assert (E : existsb (N.eqb c) keys = true) by (apply existsb_exists; exists c; split; [exact Hin|apply N.eqb_refl]).
      rewrite E. now left.
    + exists StreamCtl.DEFAULT_TOKENS. split; [|exact T]. apply in_or_app. right. apply A. apply in_or_app. right.
      apply -> in_rev. apply filter_In. split; [exact Hin|apply N.ltb_lt; exact H].
Qed.

(* a failed round leaves no stream untried: if try_streams ends without a frame, every listed stream whose
   flow exists was offered the packet *)
Lemma try_streams_none_all skeys cap credit : forall order s s',
  try_streams s skeys order cap credit = (s', None) ->
  forall sid tok key, In (sid, tok) order -> alookup skeys sid = Some key ->
    (exists fl, alookup (sy_flows s) key = Some fl) ->
    exists s1 s2 fr out, on_flow s1 key (FTry (pred_of_packet cap sid tok) credit) = Some (s2, fr, out) /\ fo_pick out = None.
Proof.
  induction order as [|[sid0 tok0] rest IH]; intros s s' E sid tok key Hin Hk Hfl; [destruct Hin|].
  cbn [try_streams] in E.
  assert (Keep : forall s1 o s2 fr out k2, on_flow s1 k2 o = Some (s2, fr, out) ->
                 (exists fl, alookup (sy_flows s1) key = Some fl) -> exists fl, alookup (sy_flows s2) key = Some fl).
  { intros s1 o s2 fr out k2 Eo [fl Hf]. unfold on_flow in Eo. destruct (alookup (sy_flows s1) k2) as [fl2|] eqn:E2; [|discriminate].
    destruct (flow_step (cof k2) fl2 o) as [[fl2' fr0] out0]. injection Eo as <- _ _. cbn [sy_flows set_pool set_flows].
    destruct (N.eq_dec key k2) as [->|NE]; [rewrite (alookup_aupdate_same _ _ _ _ E2); eauto|rewrite (alookup_aupdate_other _ _ _ _ NE); eauto]. }
  destruct Hin as [Hq|Hin].
  - injection Hq as -> ->. rewrite Hk in E.
    destruct (on_flow s key (FTry (pred_of_packet cap sid tok) credit)) as [[[s1 fr] out]|] eqn:Eo.
    + destruct (fo_pick out) eqn:Ep; [discriminate|]. exists s, s1, fr, out. auto.
    + exfalso. destruct Hfl as [fl Hf]. unfold on_flow in Eo. rewrite Hf in Eo.
      destruct (flow_step (cof key) fl _) as [[a b] c0]. discriminate.
  - destruct (alookup skeys sid0) as [key0|]; [|eapply IH; eauto].
    destruct (on_flow s key0 (FTry (pred_of_packet cap sid0 tok0) credit)) as [[[s1 fr] out]|] eqn:Eo; [|eapply IH; eauto].
    destruct (fo_pick out); [discriminate|]. eapply IH; eauto.
Qed.

(* ------------------------------------------------------------------ *)
(* rotation of the cursor (finding F60).  The output set is sorted by stream id.  As coded, a cursor
   stream that has used up its tokens heads the next round again; with the repaired order it closes it. *)
Fixpoint asc (l : list N) : Prop :=
  match l with
  | [] => True
  | x :: t => Forall (fun y => x < y) t /\ asc t
  end.

Lemma asc_ainsert {A} (l : list (N * A)) k v : asc (map fst l) -> asc (map fst (StreamCtl.ainsert l k v)).
Proof.
  induction l as [|[k' v'] t IH]; cbn [StreamCtl.ainsert map fst asc]; [intros _; split; [constructor|exact I]|].
  intros [Hf Ha]. destruct (N.ltb_spec k k') as [Hlt|Hge].
  - cbn [map fst asc]. split; [|split; assumption]. constructor; [exact Hlt|].
    eapply Forall_impl; [|exact Hf]. intros y Hy. cbn in Hy. lia.
  - destruct (N.eqb_spec k' k) as [->|NE]; cbn [map fst asc]; [split; assumption|].
    split; [|apply IH; exact Ha].
    assert (Hin : forall y, In y (map fst (StreamCtl.ainsert t k v)) -> y = k \/ In y (map fst t)).
    { clear. induction t as [|[a b] r IHr]; cbn [StreamCtl.ainsert map fst]; intros y H.
      - destruct H as [H|[]]; auto.
      - destruct (k <? a); cbn [map fst] in H; [destruct H as [H|H]; auto|].
        destruct (a =? k); cbn [map fst] in H; [destruct H as [H|H]; auto; right; now right|].
        destruct H as [H|H]; [right; now left|]. destruct (IHr _ H); auto. right; now right. }
    apply Forall_forall. intros y Hy. destruct (Hin _ Hy) as [->|Hy']; [lia|].
    rewrite Forall_forall in Hf. apply Hf. exact Hy'.
Qed.

Lemma outgoing_keys_asc s side : asc (map fst (outgoing_keys s side)).
Proof.
  unfold outgoing_keys. induction (sy_flows s) as [|kf t IH]; cbn [fold_right]; [exact I|].
  cbv zeta. destruct (_ && _ && _); [apply asc_ainsert; exact IH|exact IH].
Qed.

Lemma filter_ge_head c : forall keys, asc keys -> In c keys -> exists t, filter (fun k => c <=? k) keys = c :: t.
Proof.
  induction keys as [|x r IH]; intros Ha Hin; [destruct Hin|]. cbn [asc] in Ha. destruct Ha as [Hf Ha]. cbn [filter].
  destruct Hin as [->|Hin].
  - rewrite N.leb_refl. eauto.
  - rewrite Forall_forall in Hf. specialize (Hf _ Hin). destruct (N.leb_spec c x); [lia|]. apply IH; assumption.
Qed.

Lemma filter_le_last c : forall keys, asc keys -> In c keys -> exists t, filter (fun k => k <=? c) keys = t ++ [c].
Proof.
  induction keys as [|x r IH]; intros Ha Hin; [destruct Hin|]. cbn [asc] in Ha. destruct Ha as [Hf Ha]. cbn [filter].
  destruct Hin as [->|Hin].
  - rewrite N.leb_refl. exists []. cbn [app]. f_equal.
    clear -Hf. induction r as [|y r IH]; [reflexivity|]. inversion Hf; subst. cbn [filter].
    destruct (N.leb_spec y c); [lia|]. apply IH; assumption.
  - pose proof Hf as Hf'. rewrite Forall_forall in Hf'. specialize (Hf' _ Hin). destruct (N.leb_spec x c); [|lia].
    destruct (IH Ha Hin) as [t Ht]. exists (x :: t). rewrite Ht. reflexivity.
Qed.

(* as coded: no rotation *)
Lemma p_c01_cursor_no_rotation : forall c keys, asc keys -> In c keys ->
  exists rest, load_order false (Some (c, 0)) keys = (c, StreamCtl.DEFAULT_TOKENS) :: rest.
Proof.
  intros c keys Ha Hin. unfold load_order. cbn [N.eqb]. destruct (filter_le_last c keys Ha Hin) as [t Ht].
  rewrite Ht, rev_app_distr. cbn [rev app map]. eauto.
Qed.

(* repaired: the exhausted stream is offered the packet only after every other member of the output set *)
Lemma p_c01_cursor_rotates : forall c keys, asc keys -> In c keys ->
  exists front, load_order true (Some (c, 0)) keys = front ++ [(c, StreamCtl.DEFAULT_TOKENS)] /\
    forall k, In k keys -> k <> c -> In (k, StreamCtl.DEFAULT_TOKENS) front.
Proof.
  intros c keys Ha Hin. unfold load_order. cbn [N.eqb]. destruct (filter_ge_head c keys Ha Hin) as [t Ht].
  rewrite Ht. cbn [rev]. rewrite app_assoc, map_app. cbn [map].
  eexists. split; [reflexivity|]. intros k Hk Hne. apply in_map_iff. exists k. split; [reflexivity|].
  apply in_or_app. destruct (N.lt_ge_cases k c) as [Hlt|Hge].
  - left. apply -> in_rev. apply filter_In. split; [exact Hk|apply N.ltb_lt; exact Hlt].
  - right. apply -> in_rev. assert (Hf : In k (filter (fun k0 => c <=? k0) keys)) by (apply filter_In; split; [exact Hk|apply N.leb_le; exact Hge]).
    rewrite Ht in Hf. destruct Hf as [Hq|Hf]; [congruence|exact Hf].
Qed.
