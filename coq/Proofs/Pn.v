(* Proofs about PacketNumber::encode / decode (Model/Pn.v): C07 decode clauses. *)
From Coq Require Import List ZArith Bool Lia.
From GQ Require Import Model.Pn.
Import ListNotations.
Local Open Scope Z_scope.

Ltac Zify.zify_post_hook ::= Z.div_mod_to_equations.

(* `(expected & !mask) | truncated` is `(expected / win) * win + truncated` when truncated < win *)
Lemma lor_ldiff_pow2 : forall e t n, 0 <= n -> 0 <= t < 2 ^ n ->
  Z.lor (Z.ldiff e (2 ^ n - 1)) t = (e / 2 ^ n) * 2 ^ n + t.
Proof.
  intros e t n Hn Ht.
  replace (2 ^ n - 1) with (Z.ones n) by (rewrite Z.ones_equiv; lia).
  rewrite Z.ldiff_ones_r by lia.
  rewrite Z.shiftr_div_pow2, Z.shiftl_mul_pow2 by lia.
  assert (Hland : Z.land (e / 2 ^ n * 2 ^ n) t = 0).
  { apply Z.bits_inj'. intros i Hi. rewrite Z.land_spec, Z.bits_0.
    destruct (Z_lt_le_dec i n) as [Hlt | Hge].
    - rewrite Z.mul_pow2_bits_low by lia. reflexivity.
    - replace t with (t mod 2 ^ n) by (apply Z.mod_small; lia).
      rewrite Z.mod_pow2_bits_high by lia. apply andb_false_r. }
  rewrite <- Z.lxor_lor by exact Hland.
  symmetry. apply Z.add_nocarry_lxor. exact Hland.
Qed.

(* generic window lemma: a payload that is pn reduced to the width decodes to pn whenever pn
   lies in (expected - hwin, expected + hwin] *)
Definition bits_of (p : pnum) : Z := 8 * width p.

Lemma decode_window : forall p pn e,
  payload p = pn mod 2 ^ bits_of p ->
  0 <= pn -> 0 <= e < 2 ^ 63 ->
  e - 2 ^ bits_of p / 2 < pn <= e + 2 ^ bits_of p / 2 ->
  decode p e = DecOk pn.
Proof.
  intros p pn e Hpay Hpn He Hwin.
  unfold decode. fold (bits_of p).
  assert (Hb : bits_of p = 8 \/ bits_of p = 16 \/ bits_of p = 24 \/ bits_of p = 32)
    by (unfold bits_of; destruct p; cbn; lia).
  rewrite Hpay. unfold U64.
  destruct Hb as [H|[H|[H|H]]]; rewrite H in *;
  (rewrite lor_ldiff_pow2; [| lia | apply Z.mod_pos_bound; lia]);
  [ change (2 ^ 8) with 256 in * | change (2 ^ 16) with 65536 in *
  | change (2 ^ 24) with 16777216 in * | change (2 ^ 32) with 4294967296 in * ];
  change (2 ^ 64) with 18446744073709551616; change (2 ^ 63) with 9223372036854775808 in He;
  repeat match goal with
  | |- context [if ?c then _ else _] =>
      let E := fresh "E" in destruct c eqn:E;
      rewrite ?andb_true_iff, ?andb_false_iff, ?Z.leb_le, ?Z.leb_gt, ?Z.ltb_lt, ?Z.ltb_ge in E
  end; try (f_equal; lia); try (exfalso; lia).
Qed.

Lemma wire_payload : forall p, 0 <= payload p ->
  payload (wire p) = match p with U24 x => x mod 2 ^ 24 | _ => payload p end.
Proof.
  intros [x|x|x|x] H; cbn [wire payload]; try reflexivity.
  change (2 ^ 16) with 65536. change (2 ^ 8) with 256. change (2 ^ 24) with 16777216.
  cbn [payload] in H. lia.
Qed.

Lemma width_wire : forall p, width (wire p) = width p.
Proof. destruct p; reflexivity. Qed.

(* the number chosen by encode, reduced as it is on the wire, is pn modulo its width, and the
   distance to largest_acked is below half the window *)
Lemma encode_spec : forall pn la, 0 <= la <= pn -> pn - la < 2 ^ 31 ->
  exists p, encode pn la = EncOk p /\
            payload (wire p) = pn mod 2 ^ bits_of p /\ bits_of (wire p) = bits_of p /\
            pn - la < 2 ^ bits_of p / 2 /\ payload p = pn mod 2 ^ bits_of p.
Proof.
  intros pn la Hla Hd. unfold encode, U64.
  change (2 ^ 31) with 2147483648 in Hd.
  destruct (pn <? la) eqn:E1; [apply Z.ltb_lt in E1; lia|].
  change (2 ^ 64) with 18446744073709551616.
  destruct (18446744073709551616 <=? (pn - la) * 2) eqn:E2; [apply Z.leb_le in E2; lia|].
  change (2 ^ 16 - 1) with 65535. change (2 ^ 8) with 256. change (2 ^ 16) with 65536.
  change (2 ^ 24) with 16777216. change (2 ^ 32) with 4294967296.
  destruct (Z.max ((pn - la) * 2) 65535 <? 256) eqn:E3; [apply Z.ltb_lt in E3; lia|].
  destruct (Z.max ((pn - la) * 2) 65535 <? 65536) eqn:E4.
  { apply Z.ltb_lt in E4. eexists; split; [reflexivity|]. unfold bits_of; cbn [wire width payload].
    change (2 ^ (8 * 2)) with 65536. split; [|split; [|split]]; [first [reflexivity | lia] | reflexivity | lia | first [reflexivity | lia]]. }
  destruct (Z.max ((pn - la) * 2) 65535 <? 16777216) eqn:E5.
  { apply Z.ltb_lt in E5. eexists; split; [reflexivity|]. unfold bits_of; cbn [wire width payload].
    change (2 ^ (8 * 3)) with 16777216. change (2 ^ 16) with 65536. change (2 ^ 8) with 256.
    split; [|split; [|split]]; [first [reflexivity | lia] | reflexivity | lia | first [reflexivity | lia]]. }
  destruct (Z.max ((pn - la) * 2) 65535 <? 4294967296) eqn:E6.
  { apply Z.ltb_lt in E6. eexists; split; [reflexivity|]. unfold bits_of; cbn [wire width payload].
    change (2 ^ (8 * 4)) with 4294967296.
    split; [|split; [|split]]; [first [reflexivity | lia] | reflexivity | lia | first [reflexivity | lia]]. }
  apply Z.ltb_ge in E6. lia.
Qed.

(* C07 decode clause, guard found by sweeps: la <= exp <= pn (the DESIGN guard la < exp is a
   special case), la < 2^62, pn - la < 2^31 *)
Lemma p_c07_decode_wide : forall pn la exp,
  0 <= la < 2 ^ 62 -> pn - la < 2 ^ 31 -> la <= exp <= pn ->
  exists p, encode pn la = EncOk p /\ decode (wire p) exp = DecOk pn.
Proof.
  intros pn la exp Hla Hd He.
  destruct (encode_spec pn la) as (p & Henc & Hpay & Hbits & Hhalf & Hdir); [lia | lia |].
  exists p. split; [exact Henc|].
  assert (Hb : bits_of p = 8 \/ bits_of p = 16 \/ bits_of p = 24 \/ bits_of p = 32)
    by (unfold bits_of; destruct p; cbn; lia).
  apply decode_window.
  - rewrite Hbits. exact Hpay.
  - lia.
  - change (2 ^ 62) with 4611686018427387904 in Hla. change (2 ^ 31) with 2147483648 in Hd.
    change (2 ^ 63) with 9223372036854775808. lia.
  - rewrite Hbits.
    destruct Hb as [H|[H|[H|H]]]; rewrite H in *;
    [ change (2 ^ 8) with 256 in * | change (2 ^ 16) with 65536 in *
    | change (2 ^ 24) with 16777216 in * | change (2 ^ 32) with 4294967296 in * ]; lia.
Qed.

Lemma p_c07_decode : forall pn la exp,
  0 <= la < 2 ^ 62 -> pn - la < 2 ^ 31 -> la < exp <= pn ->
  exists p, encode pn la = EncOk p /\ decode (wire p) exp = DecOk pn.
Proof. intros. apply p_c07_decode_wide; lia. Qed.

(* a reordered packet (pn below the receiver's expectation) still decodes while it is inside
   the half window *)
Lemma p_c07_decode_reordered : forall pn la exp,
  0 <= la <= pn -> pn - la < 2 ^ 31 -> 0 <= exp < 2 ^ 63 ->
  pn < exp -> exp - pn < 2 ^ 15 ->
  exists p, encode pn la = EncOk p /\ decode (wire p) exp = DecOk pn.
Proof.
  intros pn la exp Hla Hd He Hlt Hnear.
  destruct (encode_spec pn la) as (p & Henc & Hpay & Hbits & Hhalf & Hdir); [lia | lia |].
  exists p. split; [exact Henc|].
  assert (Hb : bits_of p = 16 \/ bits_of p = 24 \/ bits_of p = 32).
  { unfold encode in Henc. unfold bits_of.
    destruct (pn <? la); [discriminate|]. destruct (U64 <=? (pn - la) * 2); [discriminate|].
    change (2 ^ 16 - 1) with 65535 in Henc. change (2 ^ 8) with 256 in Henc.
    destruct (Z.max ((pn - la) * 2) 65535 <? 256) eqn:E; [apply Z.ltb_lt in E; lia|].
    repeat match type of Henc with (if ?c then _ else _) = _ => destruct c end;
      inversion Henc; subst; cbn; lia. }
  apply decode_window.
  - rewrite Hbits. exact Hpay.
  - lia.
  - lia.
  - rewrite Hbits. change (2 ^ 15) with 32768 in Hnear.
    destruct Hb as [H|[H|H]]; rewrite H in *;
    [ change (2 ^ 16) with 65536 in * | change (2 ^ 24) with 16777216 in * | change (2 ^ 32) with 4294967296 in * ]; lia.
Qed.

Lemma p_c07_encode_total : forall pn la,
  0 <= la <= pn -> pn - la < 2 ^ 31 ->
  encode pn la <> EncPanic /\ encode pn la <> EncOverflow /\
  exists p, encode pn la = EncOk p /\ 2 <= width p <= 4.
Proof.
  intros pn la Hla Hd.
  destruct (encode_spec pn la Hla Hd) as (p & Henc & _ & _ & Hhalf & _).
  rewrite Henc. split; [discriminate|split; [discriminate|]].
  exists p. split; [reflexivity|].
  unfold encode in Henc.
  destruct (pn <? la); [discriminate|]. destruct (U64 <=? (pn - la) * 2); [discriminate|].
  change (2 ^ 16 - 1) with 65535 in Henc. change (2 ^ 8) with 256 in Henc.
  destruct (Z.max ((pn - la) * 2) 65535 <? 256) eqn:E; [apply Z.ltb_lt in E; lia|].
  repeat match type of Henc with (if ?c then _ else _) = _ => destruct c end;
    inversion Henc; subst; cbn; lia.
Qed.

(* the guard pn - la < 2^31 is exact: one more and encode panics *)
Lemma p_c07_encode_limit : forall la, 0 <= la < 2 ^ 62 -> encode (la + 2 ^ 31) la = EncPanic.
Proof.
  intros la Hla. unfold encode, U64.
  change (2 ^ 62) with 4611686018427387904 in Hla.
  change (2 ^ 31) with 2147483648. change (2 ^ 64) with 18446744073709551616.
  change (2 ^ 16 - 1) with 65535. change (2 ^ 8) with 256. change (2 ^ 16) with 65536.
  change (2 ^ 24) with 16777216. change (2 ^ 32) with 4294967296.
  replace (la + 2147483648 - la) with 2147483648 by lia.
  destruct (la + 2147483648 <? la) eqn:E1; [apply Z.ltb_lt in E1; lia|].
  reflexivity.
Qed.

(* since the fix of F31 (`U24(pn as u32 & 0x00ff_ffff)`) the in-memory value returned by encode
   decodes like its wire form: the clause holds without going through put_packet_number *)
Lemma p_c07_decode_direct : forall pn la exp,
  0 <= la < 2 ^ 62 -> pn - la < 2 ^ 31 -> la <= exp <= pn ->
  exists p, encode pn la = EncOk p /\ decode p exp = DecOk pn /\ wire p = p.
Proof.
  intros pn la exp Hla Hd He.
  destruct (encode_spec pn la) as (p & Henc & Hpay & Hbits & Hhalf & Hdir); [lia | lia |].
  exists p. split; [exact Henc|].
  assert (Hb : bits_of p = 8 \/ bits_of p = 16 \/ bits_of p = 24 \/ bits_of p = 32)
    by (unfold bits_of; destruct p; cbn; lia).
  split.
  - apply decode_window.
    + exact Hdir.
    + lia.
    + change (2 ^ 62) with 4611686018427387904 in Hla. change (2 ^ 31) with 2147483648 in Hd.
      change (2 ^ 63) with 9223372036854775808. lia.
    + destruct Hb as [H|[H|[H|H]]]; rewrite H in *;
      [ change (2 ^ 8) with 256 in * | change (2 ^ 16) with 65536 in *
      | change (2 ^ 24) with 16777216 in * | change (2 ^ 32) with 4294967296 in * ]; lia.
  - destruct p as [x|x|x|x]; try reflexivity.
    unfold bits_of in Hdir. cbn [payload width] in Hdir. change (2 ^ (8 * 3)) with 16777216 in Hdir.
    cbn [wire]. f_equal. change (2 ^ 16) with 65536. change (2 ^ 8) with 256. lia.
Qed.

(* decode of a U24 whose payload exceeds 24 bits (constructible through the public enum, and what
   encode returned before the fix) still differs from its wire form: the regression witness *)
Lemma p_c07_decode_unreduced_u24 :
  decode (U24 67108865) 67108862 = DecOk 100663297 /\ decode (wire (U24 67108865)) 67108862 = DecOk 67108865
  /\ encode 67108865 67068865 = EncOk (U24 1).
Proof. vm_compute. repeat split. Qed.

(* outside the 3-byte width the in-memory value is already the wire value *)
Lemma wire_id : forall p, (forall x, p <> U24 x) -> wire p = p.
Proof. destruct p; intros H; try reflexivity. exfalso. eapply H. reflexivity. Qed.
