//! Correspondence stream `wakers_d` (C16): the DatagramReader / DatagramIncoming protocol of qdatagram on the REAL
//! objects.  CASE cfg: `13`.  POLL 0 = poll_recv / NOTIFY v = recv_datagram([v]) / CLOSE = on_conn_error / DROPW
use std::task::Poll;

use bytes::Bytes;
use hproto::{Obs, Op};
use qbase::error::{Error, ErrorKind, QuicError};
use qbase::frame::DatagramFrame;
use qbase::varint::VarInt;
use qdatagram::{DatagramIncoming, DatagramReader};

#[path = "../../../hproto/src/wakers_common.rs"]
mod wc;
use wc::{SKIP, Waiters, wid};

struct St {
    ws: Waiters,
    p: Option<(DatagramIncoming, DatagramReader)>,
}

fn new_case(cfg: &[&str]) -> St {
    let id: u32 = cfg.first().and_then(|s| s.parse().ok()).unwrap_or(0);
    let p = if id == 13 {
        let inc = DatagramIncoming::new(1200);
        let rd = inc.new_reader().unwrap();
        Some((inc, rd))
    } else {
        None
    };
    St { ws: Waiters::new(), p }
}

fn step(st: &mut St, op: &Op, _i: usize) -> Obs {
    let ws = &st.ws;
    let Some((inc, rd)) = st.p.as_mut() else { return ws.obs(SKIP) };
    let code: i64 = match (op.tag, op.args.len()) {
        (0, 1) => match wid(op, 0) {
            Some(0) => match rd.poll_recv(&mut ws.cx(0)) {
                Poll::Pending => 0,
                Poll::Ready(Ok(b)) => 100 + b.first().copied().unwrap_or(0) as i64,
                Poll::Ready(Err(_)) => 2,
            },
            _ => SKIP,
        },
        (1, 1) if op.args[0] >= 0 && op.args[0] < 100 => {
            let data = Bytes::from(vec![op.args[0] as u8]);
            match inc.recv_datagram(DatagramFrame::new(true, VarInt::from_u32(1)), data) {
                Ok(()) => 0,
                Err(_) => 1,
            }
        }
        (2, 0) => {
            inc.on_conn_error(&Error::Quic(QuicError::with_default_fty(ErrorKind::Internal, "verif")));
            0
        }
        (3, 1) => match wid(op, 0) {
            Some(_) => 0,
            None => SKIP,
        },
        _ => SKIP,
    };
    ws.obs(code)
}

fn main() {
    hproto::run(new_case, step);
}
