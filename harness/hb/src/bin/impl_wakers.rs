//! Correspondence stream `wakers` (C16): the waiter/notifier protocols that live in qbase, driven on the
//! REAL objects, single-threaded, one method call per op, with counting wakers.
//! CASE cfg: `<protocol id>`; ids: 1 SendWaker, 2 AsyncDeque, 3 ArcReceiving, 4 Wakers (WakerVec),
//! 5 ArcParameters, 6 CidCell + SendWaker, 17 Wakers::combine_with over a mock event source
use std::future::Future;
use std::pin::{Pin, pin};
use std::task::Poll;

use std::cell::{Cell, RefCell};
use std::sync::Arc;
use std::task::Waker;

use hproto::{Obs, Op};
use qbase::ArcReceiving;
use qbase::cid::{ArcCidCell, ArcRemoteCids, ConnectionId};
use qbase::error::{Error, ErrorKind, QuicError};
use qbase::frame::io::{ReceiveFrame, SendFrame};
use qbase::frame::{NewConnectionIdFrame, RetireConnectionIdFrame};
use qbase::net::tx::{ArcSendWaker, Signals};
use qbase::param::{ArcParameters, ClientParameters, ParameterId, Parameters, ServerParameters};
use qbase::util::{ArcAsyncDeque, Wakers};
use qbase::varint::VarInt;

#[path = "../../../hproto/src/wakers_common.rs"]
mod wc;
use wc::{SKIP, Waiters, wid};

#[derive(Clone, Default)]
struct Retired;
impl SendFrame<RetireConnectionIdFrame> for Retired {
    fn send_frame<I: IntoIterator<Item = RetireConnectionIdFrame>>(&self, _iter: I) {}
}

struct WakerVecCase {
    wakers: Option<Arc<Wakers>>,
    flag: bool,
}

struct CidCase {
    cids: ArcRemoteCids<Retired>,
    cell: ArcCidCell<Retired>,
    sw: ArcSendWaker,
    seq: u32,
}

/// what `UdpSocketController` wraps with `Wakers::combine_with`: a source with a readiness counter and ONE
/// registration slot that is taken when the source fires (edge-triggered, as tokio's ScheduledIo)
struct CombineCase {
    wakers: Arc<Wakers>,
    ready: Cell<u64>,
    slot: RefCell<Option<Waker>>,
    closed: Cell<bool>,
}

impl CombineCase {
    /// the event source fires: whoever registered last (the combined waker) is woken
    fn fire(&self) {
        let w = self.slot.borrow_mut().take();
        if let Some(w) = w {
            w.wake();
        }
    }
    /// UdpSocketController::poll_close
    fn close(&self) {
        self.wakers.wake_all();
        self.closed.set(true);
    }
}

enum Proto {
    Combine(CombineCase),
    SendWaker(ArcSendWaker),
    Deque(ArcAsyncDeque<u64>),
    Receiving(ArcReceiving<u64>),
    WakerVec(WakerVecCase),
    Params(ArcParameters),
    Cid(CidCase),
    Unknown,
}

fn odcid() -> ConnectionId {
    ConnectionId::from_slice(b"odcid___")
}
fn server_cid() -> ConnectionId {
    ConnectionId::from_slice(b"server__")
}
fn server_params(good: bool) -> ServerParameters {
    let mut p = ServerParameters::default();
    let scid = if good { server_cid() } else { ConnectionId::from_slice(b"wrong___") };
    p.set(ParameterId::InitialSourceConnectionId, scid).unwrap();
    p.set(ParameterId::OriginalDestinationConnectionId, odcid()).unwrap();
    p
}
fn conn_error() -> Error {
    Error::Quic(QuicError::with_default_fty(ErrorKind::Internal, "verif"))
}

struct St {
    ws: Waiters,
    p: Proto,
}

fn new_case(cfg: &[&str]) -> St {
    let id: u32 = cfg.first().and_then(|s| s.parse().ok()).unwrap_or(0);
    let p = match id {
        1 => Proto::SendWaker(ArcSendWaker::new()),
        2 => Proto::Deque(ArcAsyncDeque::new()),
        3 => Proto::Receiving(ArcReceiving::default()),
        4 => Proto::WakerVec(WakerVecCase { wakers: Some(Arc::new(Wakers::new())), flag: false }),
        5 => Proto::Params(ArcParameters::from(Parameters::new_client(
            ClientParameters::default(),
            None,
            odcid(),
        ))),
        6 => {
            let cids = ArcRemoteCids::new(8, Retired);
            let cell = cids.apply_dcid();
            Proto::Cid(CidCase { cids, cell, sw: ArcSendWaker::new(), seq: 0 })
        }
        17 => Proto::Combine(CombineCase {
            wakers: Arc::new(Wakers::new()),
            ready: Cell::new(0),
            slot: RefCell::new(None),
            closed: Cell::new(false),
        }),
        _ => Proto::Unknown,
    };
    St { ws: Waiters::new(), p }
}

fn sig(v: i128) -> Signals {
    Signals::from_bits_retain((v as u64 & 0xffff) as u16)
}

fn step(st: &mut St, op: &Op, _i: usize) -> Obs {
    let ws = &st.ws;
    let code: i64 = match (&mut st.p, op.tag, op.args.len()) {
        // ---------------- SendWaker: POLL w mask / NOTIFY mask / DROPW w
        (Proto::SendWaker(sw), 0, 2) => match wid(op, 0) {
            Some(0) => {
                let fut = pin!(sw.wait_for(sig(op.args[1])));
                match fut.poll(&mut ws.cx(0)) {
                    Poll::Pending => 0,
                    Poll::Ready(()) => 1,
                }
            }
            _ => SKIP,
        },
        (Proto::SendWaker(sw), 1, 1) => {
            sw.wake_by(sig(op.args[0]));
            0
        }
        // ---------------- AsyncDeque: POLL w / NOTIFY 0 v (push_back) / 1 v (push_front) / 2 v… (extend) / CLOSE
        (Proto::Deque(d), 0, 1) => match wid(op, 0) {
            Some(0) => match d.poll_pop(&mut ws.cx(0)) {
                Poll::Pending => 0,
                Poll::Ready(None) => 2,
                Poll::Ready(Some(v)) => 100 + v as i64,
            },
            _ => SKIP,
        },
        (Proto::Deque(d), 1, n) if n >= 1 => match (op.args[0], n) {
            (0, 2) => {
                d.push_back(op.u(1));
                0
            }
            (1, 2) => {
                d.push_front(op.u(1));
                0
            }
            (2, _) => {
                let mut r: &ArcAsyncDeque<u64> = d;
                r.extend(op.args[1..].iter().map(|v| *v as u64));
                0
            }
            _ => SKIP,
        },
        (Proto::Deque(d), 2, 0) => {
            d.close();
            0
        }
        // ---------------- ArcReceiving: POLL w / NOTIFY v (recv_frame) / CLOSE (reset)
        (Proto::Receiving(r), 0, 1) => match wid(op, 0) {
            Some(0) => match Pin::new(r).poll(&mut ws.cx(0)) {
                Poll::Pending => 0,
                Poll::Ready(Ok(Some(v))) => 100 + v as i64,
                Poll::Ready(Ok(None)) => 3,
                Poll::Ready(Err(_)) => 2,
            },
            _ => SKIP,
        },
        (Proto::Receiving(r), 1, 1) => {
            let _ = r.recv_frame(op.u(0));
            0
        }
        (Proto::Receiving(r), 2, 0) => {
            r.reset();
            0
        }
        // ---------------- Wakers: POLL w = register, then check the harness-owned flag / NOTIFY 0 = set flag +
        //                  wake_all, NOTIFY 1 = wake_all only / CLOSE = drop the vector
        (Proto::WakerVec(c), 0, 1) => match (wid(op, 0), &c.wakers) {
            (Some(_), None) => 2,
            (Some(w), Some(wk)) => {
                wk.register(ws.waker(w));
                if c.flag { 1 } else { 0 }
            }
            _ => SKIP,
        },
        (Proto::WakerVec(c), 1, 1) => match (op.args[0], &c.wakers) {
            (0 | 1, None) => 0,
            (0, Some(wk)) => {
                c.flag = true;
                wk.wake_all();
                0
            }
            (1, Some(wk)) => {
                wk.wake_all();
                0
            }
            _ => SKIP,
        },
        (Proto::WakerVec(c), 2, 0) => {
            c.wakers = None;
            0
        }
        // ---------------- ArcParameters: POLL w = remote_ready() / NOTIFY 0 = recv_remote_params(good),
        //                  1 = initial_scid_from_peer_need_equal, 2 = recv_remote_params(mismatching) / CLOSE
        (Proto::Params(p), 0, 1) => match wid(op, 0) {
            Some(w) => {
                let fut = pin!(p.remote_ready());
                match fut.poll(&mut ws.cx(w)) {
                    Poll::Pending => 0,
                    Poll::Ready(Ok(_)) => 1,
                    Poll::Ready(Err(_)) => 2,
                }
            }
            None => SKIP,
        },
        (Proto::Params(p), 1, 1) => match p.lock_guard() {
            Err(_) => SKIP,
            Ok(mut g) => match op.args[0] {
                0 | 2 if g.is_remote_params_received() => SKIP,
                0 | 2 => match g.recv_remote_params(server_params(op.args[0] == 0)) {
                    Ok(()) => 0,
                    Err(_) => 1,
                },
                1 if g.initial_scid_from_peer().is_some() => SKIP,
                1 => match g.initial_scid_from_peer_need_equal(server_cid()) {
                    Ok(()) => 0,
                    Err(_) => 1,
                },
                _ => SKIP,
            },
        },
        (Proto::Params(p), 2, 0) => {
            p.on_conn_error(&conn_error());
            0
        }
        // ---------------- CidCell: POLL 0 = borrow_cid(tx_waker), then tx_waker.wait_for(signals) if it said Err /
        //                  NOTIFY = NEW_CONNECTION_ID (next sequence number) / CLOSE = retire
        (Proto::Cid(c), 0, 1) => match wid(op, 0) {
            Some(0) => match c.cell.borrow_cid(c.sw.clone()) {
                Ok(Some(_cid)) => 1,
                Ok(None) => 2,
                Err(signals) => {
                    let fut = pin!(c.sw.wait_for(signals));
                    match fut.poll(&mut ws.cx(0)) {
                        Poll::Pending => 0,
                        Poll::Ready(()) => 4,
                    }
                }
            },
            _ => SKIP,
        },
        (Proto::Cid(c), 1, 0) => {
            if c.seq >= 8 {
                SKIP
            } else {
                let cid = ConnectionId::from_slice(&[c.seq as u8 + 1; 8]);
                let frame = NewConnectionIdFrame::new(cid, VarInt::from_u32(c.seq), VarInt::from_u32(0));
                c.seq += 1;
                match c.cids.recv_frame(frame) {
                    Ok(_) => 0,
                    Err(_) => 1,
                }
            }
        }
        (Proto::Cid(c), 2, 0) => {
            c.cell.retire();
            0
        }
        // ---------------- Wakers::combine_with: POLL w k = combine_with(cx_w, inner poll of kind k) on the shared source:
        //                  k = 0 check readiness, else store the combined waker; 1 = throttled inner poll (wakes the
        //                  waker it was given, Pending); 2 = as 0, and a datagram arrives right after the inner poll
        //                  registered; 3 = as 0, and poll_close runs at that point /
        //                  NOTIFY 0 = a datagram arrives (readiness + fire), 1 = spurious fire / CLOSE = poll_close
        (Proto::Combine(c), 0, 2) => match (wid(op, 0), op.args[1]) {
            (Some(_), 0..=3) if c.closed.get() => 2,
            (Some(w), k @ 0..=3) => {
                let c: &CombineCase = c;
                let r = c.wakers.combine_with(&mut ws.cx(w), |cx| {
                    if k == 1 {
                        cx.waker().wake_by_ref();
                        return Poll::Pending;
                    }
                    if c.ready.get() > 0 {
                        c.ready.set(c.ready.get() - 1);
                        return Poll::Ready(());
                    }
                    *c.slot.borrow_mut() = Some(cx.waker().clone());
                    // the other thread's turn, between this registration and whatever combine_with does next
                    if k == 2 {
                        c.ready.set(c.ready.get() + 1);
                        c.fire();
                    } else if k == 3 {
                        c.close();
                    }
                    Poll::Pending
                });
                match r {
                    Poll::Pending => 0,
                    Poll::Ready(()) => 1,
                }
            }
            _ => SKIP,
        },
        (Proto::Combine(c), 1, 1) => match op.args[0] {
            0 | 1 if c.closed.get() => 0,
            0 => {
                c.ready.set(c.ready.get() + 1);
                c.fire();
                0
            }
            1 => {
                c.fire();
                0
            }
            _ => SKIP,
        },
        (Proto::Combine(c), 2, 0) => {
            if !c.closed.get() {
                c.close();
            }
            0
        }
        // ---------------- DROPW w: the task drops its future; no call into the object
        (Proto::Unknown, _, _) => SKIP,
        (_, 3, 1) => match wid(op, 0) {
            Some(_) => 0,
            None => SKIP,
        },
        _ => SKIP,
    };
    ws.obs(code)
}

fn main() {
    hproto::run(new_case, step);
}
