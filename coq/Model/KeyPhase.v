(* Model of qbase/src/packet/keys.rs : OneRttPacketKeys as a state machine over key GENERATIONS.
   Definitions only.

   `secrets.next_packet_keys()` yields the packet keys of generation 1, 2, 3, … in this order (the
   keys the handshake installed are generation 0); a key is represented by its generation number:
   the generation-g key one endpoint protects with (`local`) is the generation-g key the other
   endpoint opens with (`remote[..]`).

     new(remote, local, secrets)   [k_init]
     update()                      [k_update]      cur_phase.toggle(); remote[cur] = Some(next); local = next
     phase_out()                   [k_phase_out]   remote[!cur].take()   — has NO caller in the workspace
     get_remote(key_phase, _pn)    [k_get_remote]  if key_phase != cur && remote[key_phase].is_none() { update() }
                                                   remote[key_phase].clone().unwrap()     (unwrap = [GPanic])
     get_local()                   [k_get_local]   (cur_phase, local)
 *)
From Coq Require Import List ZArith NArith Bool.
Import ListNotations.
Local Open Scope N_scope.

Record kstate := mkK { k_cur : bool; k_next : N; k_rem0 : option N; k_rem1 : option N; k_loc : N }.

Definition k_init : kstate := mkK false 1 (Some 0) None 0.

Definition k_slot (s : kstate) (p : bool) : option N := if p then k_rem1 s else k_rem0 s.
Definition k_set_slot (s : kstate) (p : bool) (v : option N) : kstate :=
  if p then mkK (k_cur s) (k_next s) (k_rem0 s) v (k_loc s)
  else mkK (k_cur s) (k_next s) v (k_rem1 s) (k_loc s).

Definition k_update (s : kstate) : kstate :=
  let c := negb (k_cur s) in
  let g := k_next s in
  k_set_slot (mkK c (g + 1) (k_rem0 s) (k_rem1 s) g) c (Some g).

Definition k_phase_out (s : kstate) : kstate := k_set_slot s (negb (k_cur s)) None.

Inductive gres := GKey (g : N) | GPanic.

Definition is_none {A} (o : option A) : bool := match o with None => true | Some _ => false end.

Definition k_get_remote (s : kstate) (p : bool) : gres * kstate :=
  let s' := if negb (Bool.eqb p (k_cur s)) && is_none (k_slot s p) then k_update s else s in
  (match k_slot s' p with Some g => GKey g | None => GPanic end, s').

Definition k_get_local (s : kstate) : bool * N := (k_cur s, k_loc s).

(* ------------------------------------------------------------------ *)
(* one direction of a connection: a sender whose current generation is [gs] (its key phase bit is
   gs mod 2: the phase toggles at every update) and the receiver's OneRttPacketKeys.
   Events, under the discipline of RFC 9001 §6 (an endpoint does not start another update before
   the peer has followed the previous one, so the two ends are never more than one generation apart):
     ESenderUpdate   the sender moves to generation gs+1 (its own initiative, or following the receiver)
     EDeliver        a packet of the sender's CURRENT generation reaches the receiver: get_remote(gs mod 2)
     ERecvUpdate     the receiver calls update() itself (allowed while it is not ahead of the sender)
     ERecvPhaseOut   the receiver calls phase_out() (allowed while it is not ahead of the sender: the
                     sender no longer uses the generation that is discarded) *)
Inductive kev := ESenderUpdate | EDeliver | ERecvUpdate | ERecvPhaseOut.

Definition phase_of (g : N) : bool := N.odd g.

Record ksys := mkS { s_gs : N; s_b : kstate; s_sel : list (N * gres) }.   (* log of (generation sent, key selected) *)

Definition sys_init : ksys := mkS 0 k_init [].

(* None = the event is not enabled in this state *)
Definition sys_step (get : kstate -> bool -> gres * kstate) (s : ksys) (e : kev) : option ksys :=
  match e with
  | ESenderUpdate => if s_gs s <=? k_loc (s_b s) then Some (mkS (s_gs s + 1) (s_b s) (s_sel s)) else None
  | EDeliver => let r := get (s_b s) (phase_of (s_gs s)) in
                Some (mkS (s_gs s) (snd r) (s_sel s ++ [(s_gs s, fst r)]))
  | ERecvUpdate => if k_loc (s_b s) <=? s_gs s then Some (mkS (s_gs s) (k_update (s_b s)) (s_sel s)) else None
  | ERecvPhaseOut => if k_loc (s_b s) <=? s_gs s then Some (mkS (s_gs s) (k_phase_out (s_b s)) (s_sel s)) else None
  end.

Fixpoint sys_run (get : kstate -> bool -> gres * kstate) (s : ksys) (l : list kev) : option ksys :=
  match l with
  | [] => Some s
  | e :: r => match sys_step get s e with Some s' => sys_run get s' r | None => None end
  end.

(* every delivered packet was opened with the generation it was protected with *)
Definition sel_ok (x : N * gres) : Prop := snd x = GKey (fst x).
