(* Model of qcongestion/src/packets.rs : PacketSpace::{update_largest_acked_packet, on_ack_rcvd,
   no_ack_eliciting_in_flight, detect_lost_packets, discard}.  Definitions only.

   `sent_packets` is a VecDeque in send order; the callers (and the harness) only ever append
   strictly increasing packet numbers, so it is sorted.  On a sorted deque
   * the index walk of `on_ack_rcvd` (binary search for the largest, then one downward merge with
     the descending ACK ranges) visits, in descending order, exactly the packets whose number lies
     in a range — [ack_walk] recurses to the tail first for the same order of
     `on_packet_acked` calls (the congestion-avoidance division makes the order observable);
   * `binary_search_by(pn.cmp(x)).unwrap_or_else(|i| i.saturating_sub(1))` is the number of
     packets below x when x is present, and that number minus one (saturating) otherwise
     ([bsearch_idx]).
   Equality with the Rust is checked by the correspondence stream `cc`, not proved.
   The loss test uses deque *indices* for the packet threshold, as coded.
   [detect_walk]/[detect_lost] take the variant flag of finding F15 (see below). *)
From Coq Require Import List ZArith Bool.
From GQ Require Export Model.NewReno.
Import ListNotations.
Local Open Scope Z_scope.

Definition PACKET_THRESHOLD : Z := 3.
Definition PERSISTENT_LOSS_THRESHOLD : Z := 3.

Record space := mkspace {
  s_la : option Z;         (* largest_acked_packet *)
  s_tolae : option Z;      (* time_of_last_ack_eliciting_packet *)
  s_loss_time : option Z;
  s_sent : list pkt;
  s_mad : Z }.             (* PacketSpace.max_ack_delay (0 for Initial/Handshake) *)

Definition space_new (mad : Z) : space := mkspace None None None [] mad.

Definition update_la (s : space) (pn : Z) : space :=
  mkspace (match s_la s with Some n => Some (Z.max n pn) | None => Some pn end)
          (s_tolae s) (s_loss_time s) (s_sent s) (s_mad s).

(* ACK ranges as (hi, lo), descending *)
Definition in_ranges (pn : Z) (rs : list (Z * Z)) : bool :=
  existsb (fun r => (snd r <=? pn) && (pn <=? fst r)) rs.

Definition is_acked (p : pkt) : bool := pstate_eqb (p_st p) AckedS.
Definition is_inflight (p : pkt) : bool := pstate_eqb (p_st p) Inflight.

(* result of the walk: controller, packets, include_ack_eliciting, largest newly acked (pn, time_sent) *)
Fixpoint ack_walk (r : reno) (ps : list pkt) (rs : list (Z * Z))
  : reno * list pkt * bool * option (Z * Z) :=
  match ps with
  | [] => (r, [], false, None)
  | p :: rest =>
      let '(r1, rest', e1, l1) := ack_walk r rest rs in
      if in_ranges (p_pn p) rs && negb (is_acked p) then
        (on_packet_acked r1 p, set_st p AckedS :: rest', e1 || p_elic p,
         match l1 with
         | Some (n, t) => if n <? p_pn p then Some (p_pn p, p_time p) else Some (n, t)
         | None => Some (p_pn p, p_time p)
         end)
      else (r1, p :: rest', e1, l1)
  end.

Fixpoint pop_front (ps : list pkt) : list pkt :=
  match ps with
  | p :: rest => if is_inflight p then ps else pop_front rest
  | [] => []
  end.

(* PacketSpace::on_ack_rcvd : None = early return *)
Definition space_on_ack (s : space) (r : reno) (rs : list (Z * Z))
  : space * reno * option (bool * (Z * Z)) :=
  match s_sent s with
  | [] => (s, r, None)
  | _ =>
      let '(r1, ps, e, l) := ack_walk r (s_sent s) rs in
      let s1 := mkspace (s_la s) (s_tolae s) (s_loss_time s) (pop_front ps) (s_mad s) in
      match l with
      | Some lg => (s1, r1, Some (e, lg))
      | None => (s1, r1, None)
      end
  end.

Definition no_elic_inflight (s : space) : bool :=
  forallb (fun p => negb (p_elic p) || negb (is_inflight p)) (s_sent s).

Definition count_below (x : Z) (ps : list pkt) : Z :=
  Z.of_nat (length (filter (fun p => p_pn p <? x) ps)).

Definition bsearch_idx (ps : list pkt) (x : Z) : Z :=
  let i := count_below x ps in
  if existsb (fun p => p_pn p =? x) ps then i else Z.max 0 (i - 1).

Definition opt_min (a : option Z) (t : Z) : option Z :=
  match a with Some x => Some (Z.min x t) | None => Some t end.

(* Variant flag [fx] (finding F15).  [fx = true]: the code after its `fix:` commit — a detection
   pass only looks at packets numbered below the largest acknowledged number of the space (RFC 9002
   6.1 / A.10) and does nothing while no packet of the space has been acknowledged.
   [fx = false]: the code as it was — every Inflight packet is subject to the age rule and
   `largest_acked_packet.unwrap_or(0)` stands in for a missing acknowledgement. *)

(* the pass over the deque: new packets, lost (index, packet-after-marking), loss_time *)
Fixpoint detect_walk (fx : bool) (la : Z) (ps : list pkt) (idx : Z) (lost_sent_time ld largest_index : Z)
  : list pkt * list (Z * pkt) * option Z :=
  match ps with
  | [] => ([], [], None)
  | p :: rest =>
      let '(rest', lost, lt) := detect_walk fx la rest (idx + 1) lost_sent_time ld largest_index in
      if is_inflight p && (negb fx || (p_pn p <? la)) then
        if (p_time p <? lost_sent_time) || (idx + PACKET_THRESHOLD <=? largest_index) then
          (set_st p Retx :: rest', (idx, set_st p Retx) :: lost, lt)
        else (p :: rest', lost, opt_min lt (p_time p + ld))
      else (p :: rest', lost, lt)
  end.

(* try_fold over the lost indices: Err = persistent *)
Fixpoint persistent_fold (idxs : list Z) (prev : option Z) (count : Z) : bool :=
  match idxs with
  | [] => false
  | i :: rest =>
      let lost_count :=
        match prev with
        | None => 0
        | Some p => if i - p =? 1 then count + 1 else 0
        end in
      if PERSISTENT_LOSS_THRESHOLD <=? lost_count + 1 then true
      else persistent_fold rest (Some i) lost_count
  end.

(* the pass proper, [la] = the number the binary search and the filter use *)
Definition detect_pass (fx : bool) (la : Z) (s : space) (r : reno) (ld now : Z)
  : space * reno * list Z * bool :=
  let lost_sent_time := now - ld - s_mad s in
  let li := bsearch_idx (s_sent s) la in
  let '(ps, lost, lt) := detect_walk fx la (s_sent s) 0 lost_sent_time ld li in
  let pers := persistent_fold (map fst lost) None 0 in
  let r1 := match lost with
            | [] => r
            | _ => on_packets_lost r (map snd lost) pers now
            end in
  (mkspace (s_la s) (s_tolae s) lt ps (s_mad s), r1, map (fun x => p_pn (snd x)) lost,
   match lost with [] => false | _ => pers end).

(* PacketSpace::detect_lost_packets ; returns the lost packet numbers (what may_loss receives)
   and whether the pass flagged `persistent_lost`.  Repaired code: `loss_time = None`, then
   `let Some(largest_acked) = self.largest_acked_packet else { return empty }` *)
Definition detect_lost (fx : bool) (s : space) (r : reno) (ld now : Z)
  : space * reno * list Z * bool :=
  match s_la s with
  | Some n => detect_pass fx n s r ld now
  | None =>
      if fx then (mkspace (s_la s) (s_tolae s) None (s_sent s) (s_mad s), r, [], false)
      else detect_pass fx 0 s r ld now
  end.

(* PacketSpace::discard *)
Definition space_discard (s : space) (r : reno) : space * reno :=
  (mkspace (s_la s) None None [] (s_mad s),
   remove_from_bif r (filter is_inflight (s_sent s))).
