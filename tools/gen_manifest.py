#!/usr/bin/env python3
"""Writes MANIFEST.json from the per-property modules tools/props/Cxx.py (MANIFEST dict) and
tools/props/not_applicable.json (reasons for the properties not claimed)."""
import importlib, json, os, sys
HERE = os.path.dirname(os.path.abspath(__file__))
ROOT = os.path.dirname(HERE)
sys.path.insert(0, HERE)

ENGINE = "coq-proof+correspondence"


def main():
    props = [json.loads(l) for l in open(os.path.join(ROOT, "properties.jsonl"))]
    na = json.load(open(os.path.join(HERE, "props", "not_applicable.json")))
    checks = []
    not_app = []
    served = []
    for p in props:
        pid = p["id"]
        path = os.path.join(HERE, "props", pid + ".py")
        if os.path.exists(path) and pid not in na:
            mod = importlib.import_module("props." + pid)
            m = mod.MANIFEST
            served.append(pid)
            checks.append({
                "property_id": pid,
                "quick_cmd": "./check %s --tier quick" % pid,
                "thorough_cmd": "./check %s --tier thorough" % pid,
                "evidence_file": "evidence/%s.json" % pid,
                "replay_cmd_template": "./check %s --replay {path}" % pid,
                "engine": ENGINE,
                "level_claimed": {"category": "proof", "text": m["text"], "design_ref": m.get("design_ref", "DESIGN.md §3 " + pid)},
                "level_note": m["note"],
                "technique": m["technique"],
            })
        else:
            not_app.append({"property_id": pid, "reason": na.get(pid, "check not built yet in this revision (planned, see DESIGN.md §3)")})
    hooks_path = os.path.join(HERE, "props", "hooks.json")
    hooks = json.load(open(hooks_path)) if os.path.exists(hooks_path) else {"source_commits": []}
    man = {
        "version": 1,
        "setup_cmd": "./setup.sh",
        "hooks": {"guard": "gmquic_verif",
                  "enable": "RUSTFLAGS=\"--cfg gmquic_verif\" (set by tools/vlib.py for every harness build)",
                  "baseline_off_cmd": "cd /repo && (cargo nextest run --workspace --no-fail-fast --test-threads 8 --offline || cargo test --workspace --no-fail-fast --offline)",
                  "source_commits": hooks["source_commits"], "add_only": True},
        "engines": [{"name": ENGINE, "path": "check", "serves_properties": served,
                     "kind_free_text": "Coq 8.16.1 theorems over hand-written executable Gallina models (coq/), tied to /repo by (a) tables regenerated from the Rust sources on every run (tools/extract_tables.py -> coq/Generated) and (b) a differential correspondence run: Rust harness binaries (harness/) against the OCaml program extracted from the same Gallina definitions (ocaml/driver.ml), plus a direct property oracle on the implementation's observations"}],
        "checks": checks,
        "notes": "see DESIGN.md; ./check <id> --tier quick|thorough; known findings in known_findings.json",
        "not_applicable": not_app,
    }
    with open(os.path.join(ROOT, "MANIFEST.json"), "w") as f:
        json.dump(man, f, indent=1)
    print("MANIFEST.json: %d checks, %d not claimed" % (len(checks), len(not_app)))


if __name__ == "__main__":
    main()
