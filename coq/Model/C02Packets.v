(* C02 — a small ABSTRACT packet layer of its own (the packet-protection model of C06 is not part of
   this copy of the framework): protected packets crossing an adversarial network, the receiver's
   packet-number de-duplication (the role of the received journal, C10) and frame dispatch.
   Definitions only; the ideal-AEAD assumption appears as a Section hypothesis in Proofs/C02Packets.v. *)
From Coq Require Import List NArith Bool.
Import ListNotations.
Local Open Scope N_scope.

Section Receiver.
  Variables pkt frame : Type.
  (* removing packet protection with the receiver's keys: packet number and frames, or failure *)
  Variable open : pkt -> option (N * list frame).

  (* receiver state: packet numbers already processed *)
  Definition seen (st : list N) (pn : N) : bool := existsb (N.eqb pn) st.

  (* one datagram's packet: frames handed to the handlers, packet number recorded *)
  Definition recv_pkt (st : list N) (p : pkt) : list N * option (N * list frame) :=
    match open p with
    | None => (st, None)                                   (* does not authenticate: dropped *)
    | Some (pn, fs) => if seen st pn then (st, None)       (* duplicate packet number: dropped *)
                       else (pn :: st, Some (pn, fs))
    end.

  (* whatever the network delivers, in whatever order, any number of times *)
  Fixpoint recv_all (st : list N) (ps : list pkt) : list (N * list frame) :=
    match ps with
    | [] => []
    | p :: r => match recv_pkt st p with
                | (st', Some x) => x :: recv_all st' r
                | (st', None) => recv_all st' r
                end
    end.

  Definition processed (delivered : list pkt) : list (N * list frame) := recv_all [] delivered.
  Definition dispatched (delivered : list pkt) : list frame := concat (map snd (processed delivered)).
End Receiver.
