(* C04 cost model of qbase/src/cid/remote_cid.rs (RemoteCids::{recv_new_cid_frame, retire_prior_to,
   arrange_idle_cid}), qbase/src/cid/local_cid.rs (LocalCids::{set_limit, recv_retire_cid_frame,
   issue_new_cid}) and the part of qbase/src/util/index_deque.rs they use (insert with gap filling,
   drain_to, advance, reset_offset).  Definitions only.

   Abstraction: a connection ID is its presence bit.  An IndexDeque is (offset, list of cells).
   A path's CidCell is the bit "still holds the connection ID it was given" (no path of the
   harness borrows its ID, so a cell holds at most one: `assign` on a cell that holds one emits one
   RETIRE_CONNECTION_ID for the old one).  Every handler comes in two forms that share all their
   arithmetic:
     * [.._cost] / [.._frames] / [.._err] : integers computed WITHOUT building the new state, so
       that a NEW_CONNECTION_ID with sequence number 2^62-1 can be costed;
     * [.._apply] : the new state (lists), used only when the cost is small.
   Proofs/C04Cid.v shows the two forms agree (cells allocated by [_apply] = the gap counted by
   [_cost], frames = the counted ones).

   Cost unit: one loop iteration or one allocated cell or one frame pushed to the send queue. *)
From Coq Require Import List ZArith Bool.
Import ListNotations.
Local Open Scope Z_scope.

Definition b2z (b : bool) : Z := if b then 1 else 0.
Definition zlen {A} (l : list A) : Z := Z.of_nat (length l).

(* error kinds as printed by the harness *)
Definition E_NONE : Z := 0.
Definition E_FRAME_ENCODING : Z := 7.
Definition E_TRANSPORT_PARAMETER : Z := 8.
Definition E_CONNECTION_ID_LIMIT : Z := 9.
Definition E_PROTOCOL_VIOLATION : Z := 10.
Definition E_STREAM_LIMIT : Z := 4.

(* ------------------------------------------------------------------ RemoteCids *)
Record rcids := mkrc {
  rc_off : Z; rc_cells : list bool;      (* cid_deque: true = Some(seq, cid, token) *)
  rc_roff : Z; rc_nready : Z;            (* ready_cells: offset and length (every ready cell holds an ID) *)
  rc_pending : list bool;                (* pending_cells, front first: true = the cell still holds an ID *)
  rc_limit : Z;                          (* active_cid_limit *)
  rc_cursor : Z }.

Definition rc_len (s : rcids) : Z := zlen (rc_cells s).
Definition rc_size (s : rcids) : Z := rc_len s + rc_nready s + zlen (rc_pending s).

(* IndexDeque::get(i) is Some(Some _) *)
Definition cells_has (off : Z) (cells : list bool) (i : Z) : bool :=
  (off <=? i) && (i <? off + zlen cells) && nth (Z.to_nat (i - off)) cells false.

(* arrange_idle_cid: walk the pending cells while the deque has an ID at the cursor.
   returns (cells assigned, RETIRE frames emitted by CidCell::assign, pending cells left) *)
Fixpoint arrange (has : Z -> bool) (pend : list bool) (cur : Z) : Z * Z * list bool :=
  match pend with
  | [] => (0, 0, [])
  | h :: rest =>
      if has cur then let '(n, f, r) := arrange has rest (cur + 1) in (n + 1, f + b2z h, r)
      else (0, 0, pend)
  end.

(* apply_dcid *)
Definition rc_apply_dcid (s : rcids) : rcids :=
  let pend := rc_pending s ++ [false] in
  let '(n, _, r) := arrange (cells_has (rc_off s) (rc_cells s)) pend (rc_cursor s) in
  mkrc (rc_off s) (rc_cells s) (rc_roff s) (rc_nready s + n) r (rc_limit s) (rc_cursor s + n).

(* new(limit); apply_dcid; apply_initial_dcid *)
Definition rc_init (limit : Z) : rcids := mkrc 0 [true] 0 1 [] limit 1.

(* -- the arithmetic of recv_new_cid_frame(seq, retire_prior_to) -- *)
(* IndexDeque::insert: cells default-filled between the old end and seq *)
Definition rc_gap (s : rcids) (seq : Z) : Z := Z.max 0 (seq - (rc_off s + rc_len s)).
Definition rc_len_ins (s : rcids) (seq : Z) : Z := Z.max (rc_len s) (seq - rc_off s + 1).
Definition rc_retires (s : rcids) (rpt : Z) : bool := rc_roff s <? rpt.
(* drain_to(rpt): cells dropped from the front *)
Definition rc_drained (s : rcids) (seq rpt : Z) : Z :=
  if rc_retires s rpt then Z.min (Z.max rpt (rc_off s)) (rc_off s + rc_len_ins s seq) - rc_off s else 0.
Definition rc_off_after (s : rcids) (seq rpt : Z) : Z := rc_off s + rc_drained s seq rpt.
(* ready cells popped and pushed back to pending *)
Definition rc_popped (s : rcids) (rpt : Z) : Z :=
  if rc_retires s rpt then
    if rc_nready s =? 0 then 0 else Z.min (rc_roff s + rc_nready s) rpt - rc_roff s
  else 0.
(* RETIRE_CONNECTION_ID frames for sequence numbers no cell ever used: one frame per NUMBER *)
Definition rc_gap_frames (s : rcids) (rpt : Z) : Z :=
  if rc_retires s rpt then
    if rc_nready s =? 0 then rpt - rc_roff s
    else Z.max 0 (rpt - (rc_roff s + rc_nready s))
  else 0.
Definition rc_cursor_after (s : rcids) (rpt : Z) : Z :=
  if rc_retires s rpt then Z.max (rc_cursor s) rpt else rc_cursor s.
Definition rc_pending_after (s : rcids) (rpt : Z) : list bool :=
  rc_pending s ++ repeat true (Z.to_nat (rc_popped s rpt)).
(* is there an ID at index i after insert(seq) and drain_to(rpt)? *)
Definition rc_has_after (s : rcids) (seq rpt : Z) (i : Z) : bool :=
  (rc_off_after s seq rpt <=? i) && ((i =? seq) || cells_has (rc_off s) (rc_cells s) i).

Definition rc_over_limit (s : rcids) (seq rpt : Z) : bool := rc_limit s <? Z.max 0 (seq - rpt).

(* debug_assert! in drain_to: end >= offset (its other half, end <= offset+len, holds because rpt <= seq) *)
Definition rc_new_panics (s : rcids) (seq rpt : Z) : bool :=
  negb (rc_over_limit s seq rpt) && negb (seq <? rc_off s) && rc_retires s rpt && (rpt <? rc_off s).

Definition rc_new_err (s : rcids) (seq rpt : Z) : Z :=
  if rc_over_limit s seq rpt then E_CONNECTION_ID_LIMIT else E_NONE.

Definition rc_new_frames (s : rcids) (seq rpt : Z) : Z :=
  if rc_over_limit s seq rpt then 0
  else if seq <? rc_off s then 0
  else
    let '(_, f, _) := arrange (rc_has_after s seq rpt) (rc_pending_after s rpt) (rc_cursor_after s rpt) in
    rc_gap_frames s rpt + f.

(* retire_prior_to alone *)
Definition rc_retire_cost (s : rcids) (seq rpt : Z) : Z :=
  1 + rc_drained s seq rpt + rc_popped s rpt + rc_gap_frames s rpt.

Definition rc_new_cost (s : rcids) (seq rpt : Z) : Z :=
  if rc_over_limit s seq rpt then 1
  else if seq <? rc_off s then 1
  else
    let '(n, _, _) := arrange (rc_has_after s seq rpt) (rc_pending_after s rpt) (rc_cursor_after s rpt) in
    1 + (rc_gap s seq + 1) + rc_retire_cost s seq rpt + (n + 1).

(* cells the deque allocates while handling the frame *)
Definition rc_new_cells (s : rcids) (seq rpt : Z) : Z :=
  if rc_over_limit s seq rpt then 0 else if seq <? rc_off s then 0 else rc_gap s seq.

(* -- the same handler as a state transformer -- *)
Fixpoint set_nth_b (n : nat) (l : list bool) : list bool :=
  match l, n with
  | [], _ => []
  | _ :: r, O => true :: r
  | y :: r, S k => y :: set_nth_b k r
  end.

Definition cells_insert (off : Z) (cells : list bool) (seq : Z) : list bool :=
  let pos := seq - off in
  if pos <? zlen cells then set_nth_b (Z.to_nat pos) cells
  else cells ++ repeat false (Z.to_nat (pos - zlen cells)) ++ [true].

Definition rc_new_apply (s : rcids) (seq rpt : Z) : rcids :=
  if rc_over_limit s seq rpt then s
  else if seq <? rc_off s then s
  else
    let cells1 := cells_insert (rc_off s) (rc_cells s) seq in
    let d := rc_drained s seq rpt in
    let cells2 := skipn (Z.to_nat d) cells1 in
    let off2 := rc_off s + d in
    let popped := rc_popped s rpt in
    let roff2 := if rc_retires s rpt then
                   (if rc_nready s =? 0 then rpt
                    else if rc_roff s + rc_nready s <? rpt then rpt else rc_roff s + popped)
                 else rc_roff s in
    let nready2 := if rc_retires s rpt then rc_nready s - popped else rc_nready s in
    let cur2 := rc_cursor_after s rpt in
    let '(n, _, r) := arrange (cells_has off2 cells2) (rc_pending_after s rpt) cur2 in
    mkrc off2 cells2 roff2 (nready2 + n) r (rc_limit s) (cur2 + n).

(* ------------------------------------------------------------------ LocalCids *)
Record lcids := mklc { lc_off : Z; lc_cells : list bool; lc_limit : option Z }.
Definition lc_init : lcids := mklc 0 [true; true] None.
Definition lc_len (s : lcids) : Z := zlen (lc_cells s).
Definition lc_next (s : lcids) : Z := lc_off s + lc_len s.      (* IndexDeque::largest *)

(* set_limit(n): issues one connection ID (one NEW_CONNECTION_ID frame, one deque cell) per number
   between the next sequence number and n *)
Definition lc_set_err (s : lcids) (n : Z) : Z := if n <? 2 then E_TRANSPORT_PARAMETER else E_NONE.
Definition lc_set_frames (s : lcids) (n : Z) : Z := if n <? 2 then 0 else Z.max 0 (n - lc_next s).
Definition lc_set_cost (s : lcids) (n : Z) : Z := 1 + lc_set_frames s n.
Definition lc_set_apply (s : lcids) (n : Z) : lcids :=
  if n <? 2 then s
  else mklc (lc_off s) (lc_cells s ++ repeat true (Z.to_nat (lc_set_frames s n))) (Some n).

(* recv_retire_cid_frame(seq) *)
Fixpoint leading_none (l : list bool) : nat :=
  match l with false :: r => S (leading_none r) | _ => O end.
Fixpoint clear_nth (n : nat) (l : list bool) : list bool :=
  match l, n with
  | [], _ => []
  | _ :: r, O => false :: r
  | y :: r, S k => y :: clear_nth k r
  end.

(* [strict_kind] = true is RFC 9000 19.16 (PROTOCOL_VIOLATION); false is the code (CONNECTION_ID_LIMIT_ERROR) *)
Definition lc_retire_err (rfc_kind : bool) (s : lcids) (seq : Z) : Z :=
  if lc_next s <=? seq then (if rfc_kind then E_PROTOCOL_VIOLATION else E_CONNECTION_ID_LIMIT) else E_NONE.
Definition lc_retire_hits (s : lcids) (seq : Z) : bool :=
  (seq <? lc_next s) && cells_has (lc_off s) (lc_cells s) seq.
Definition lc_retire_frames (s : lcids) (seq : Z) : Z := if lc_retire_hits s seq then 1 else 0.
Definition lc_retire_advance (s : lcids) (seq : Z) : nat :=
  leading_none (clear_nth (Z.to_nat (seq - lc_off s)) (lc_cells s)).
Definition lc_retire_cost (s : lcids) (seq : Z) : Z :=
  if lc_retire_hits s seq then 2 + Z.of_nat (lc_retire_advance s seq) else 1.
Definition lc_retire_apply (s : lcids) (seq : Z) : lcids :=
  if lc_retire_hits s seq then
    let n := lc_retire_advance s seq in
    mklc (lc_off s + Z.of_nat n)
         (skipn n (clear_nth (Z.to_nat (seq - lc_off s)) (lc_cells s)) ++ [true]) (lc_limit s)
  else s.
