(* C08 — the receive buffer reassembles any fragment sequence into the original bytes.
   Only the property theorems live here: each is closed by a lemma of Proofs/RecvBuf.v, its
   statement is pinned by a Check, and its assumptions are printed for the audit. *)
From Coq Require Import List NArith ZArith.
From GQ Require Import Lib.Base Model.RecvBuf Proofs.RecvBuf.
Import ListNotations.
Local Open Scope N_scope.

Theorem c08_inv : forall c ops b outs, reach c ops b outs -> Inv c b.
Proof. exact p_c08_inv. Qed.

Theorem c08_read_prefix : forall c ops b outs, reach c ops b outs ->
  bytes_of outs = slice c 0 (nread b).
Proof. exact p_c08_read_prefix. Qed.

Theorem c08_coverage : forall c ops b outs, reach c ops b outs ->
  forall i, covered b i <-> arrived ops i.
Proof. exact p_c08_coverage. Qed.

Theorem c08_fresh_sum : forall c ops b outs, reach c ops b outs ->
  fresh_of outs = max_end ops /\ largest b = max_end ops.
Proof. exact p_c08_fresh_sum. Qed.

Theorem c08_read_exact : forall c ops b outs room b' out,
  reach c ops b outs -> try_read b room = (b', out) ->
  exists a, contiguous_arrived ops (nread b) a /\
            out = slice c (nread b) (N.min room a) /\ nread b' = nread b + N.min room a.
Proof. exact p_c08_read_exact. Qed.

Theorem c08_next_exact : forall c ops b outs b' d,
  reach c ops b outs -> try_next b = (b', d) ->
  exists a, contiguous_arrived ops (nread b) a /\
    match d with
    | None => a = 0 /\ b' = b
    | Some out => exists k, 0 < k <= a /\ out = slice c (nread b) k /\ nread b' = nread b + k
    end.
Proof. exact p_c08_next_exact. Qed.

(* non-vacuity: a history with overlap, duplicate, out-of-order arrival, an empty piece and
   interleaved reads is reachable, and its reads are the content prefix *)
Example c08_nonvacuous :
  let ops := [RbRecv 4 3; RbRecv 0 2; RbRead 10; RbRecv 1 5; RbRecv 9 0; RbNext; RbRecv 4 3; RbRecv 6 6; RbRead 3; RbRead 100] in
  let '(b, outs) := rb_execs content empty_buf ops in
  bytes_of outs = slice content 0 12 /\ nread b = 12 /\ fresh_of outs = 12 /\ segs b = [].
Proof. vm_compute. repeat split. Qed.

Print Assumptions c08_inv.
Print Assumptions c08_read_prefix.
Print Assumptions c08_coverage.
Print Assumptions c08_fresh_sum.
Print Assumptions c08_read_exact.
Print Assumptions c08_next_exact.
Print Assumptions c08_nonvacuous.
