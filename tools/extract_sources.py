#!/usr/bin/env python3
"""Regenerates coq/Generated/Sources.v from the Rust sources (fail-closed):

  * the packet-assembly SOURCE LIST per packet space, read from `Components::packages` in
    qconnection/src/path/burst.rs (`let <space>_packages = …;` + the `DataSources { … }` literal);
  * the number of call sites of the datagram loader (`…datagram….try_load_data_into(`) and of
    `Package` impls for the datagram types outside qdatagram's own forwarding method;
  * three shape facts of the send path the C15 model relies on (one `balance()` per segment, Initial-bearing
    datagrams padded to the whole buffer, one `on_sent(sum)` after the whole burst).

Any shape this script does not recognise raises (the check then reports the table by name)."""
import os
import re
import sys

HERE = os.path.dirname(os.path.abspath(__file__))
ROOT = os.path.dirname(HERE)

SOURCE_OF_FIELD = {          # self.<field> inside `packages` -> source constructor (None = auxiliary argument)
    "crypto_streams": "SrcCrypto",
    "reliable_frames": "SrcReliable",
    "data_streams": "SrcStreams",
    "datagram_flow": "SrcDatagram",
    "flow_ctrl": None,
}
SPACES = [("initial", "SpInitial"), ("zero_rtt", "SpZeroRtt"), ("handshake", "SpHandshake"), ("one_rtt", "SpOneRtt")]


def strip_comments(src):
    """removes // and /* */ comments and the contents of string literals (keeps line structure)"""
    out = []
    i, n = 0, len(src)
    while i < n:
        c = src[i]
        if src.startswith("//", i):
            while i < n and src[i] != "\n":
                i += 1
        elif src.startswith("/*", i):
            depth = 1
            i += 2
            while i < n and depth:
                if src.startswith("/*", i):
                    depth += 1
                    i += 2
                elif src.startswith("*/", i):
                    depth -= 1
                    i += 2
                else:
                    if src[i] == "\n":
                        out.append("\n")
                    i += 1
        elif c == '"':
            out.append('"')
            i += 1
            while i < n and src[i] != '"':
                if src[i] == "\\":
                    i += 1
                if i < n and src[i] == "\n":
                    out.append("\n")
                i += 1
            out.append('"')
            i += 1
        else:
            out.append(c)
            i += 1
    return "".join(out)


def balanced(src, start, open_ch="{", close_ch="}"):
    """src[start] == open_ch ; returns index just after the matching close"""
    assert src[start] == open_ch, "expected %r at %d" % (open_ch, start)
    depth = 0
    i = start
    while i < len(src):
        if src[i] == open_ch:
            depth += 1
        elif src[i] == close_ch:
            depth -= 1
            if depth == 0:
                return i + 1
        i += 1
    raise ValueError("unbalanced %s" % open_ch)


def fn_body(src, name, what):
    m = re.search(r"\bfn\s+%s\b" % re.escape(name), src)
    if not m:
        raise ValueError("%s: fn %s not found" % (what, name))
    # first '{' after the signature at paren/angle depth 0 (patterns in the parameter list contain braces)
    i = m.end()
    i = src.index("(", i)
    i = balanced(src, i, "(", ")")
    j = src.index("{", i)
    return src[j:balanced(src, j)]


def statement_end(src, i):
    """index of the ';' ending the statement starting at i (depth 0 w.r.t. () [] {})"""
    depth = 0
    while i < len(src):
        c = src[i]
        if c in "([{":
            depth += 1
        elif c in ")]}":
            depth -= 1
        elif c == ";" and depth == 0:
            return i
        i += 1
    raise ValueError("unterminated statement")


def extract_sources(repo):
    path = os.path.join(repo, "qconnection", "src", "path", "burst.rs")
    src = strip_comments(open(path).read())
    body = fn_body(src, "packages", "burst.rs")
    lets = {}
    for m in re.finditer(r"\blet\s+(\w+)\s*=", body):
        end = statement_end(body, m.end())
        lets[m.group(1)] = body[m.end():end]
    m = re.search(r"DataSources\s*\{", body)
    if not m:
        raise ValueError("burst.rs: DataSources literal not found in Components::packages")
    lit = body[m.end() - 1:balanced(body, m.end() - 1)]
    table = {}
    for field, ctor in SPACES:
        fm = re.search(r"\b%s\s*:\s*Box::new\(\s*(\w+)\s*\)" % field, lit)
        if not fm:
            raise ValueError("burst.rs: field `%s` of DataSources not of the form Box::new(<ident>)" % field)
        var = fm.group(1)
        if var not in lets:
            raise ValueError("burst.rs: `%s` is not a local of Components::packages" % var)
        expr = lets[var]
        srcs = []
        for sm in re.finditer(r"\bself\s*\.\s*(\w+)", expr):
            f = sm.group(1)
            if f not in SOURCE_OF_FIELD:
                raise ValueError("burst.rs: unknown package source `self.%s` in `%s` (extend SOURCE_OF_FIELD)" % (f, var))
            if SOURCE_OF_FIELD[f] is not None:
                srcs.append(SOURCE_OF_FIELD[f])
        # locals used inside the expression are not followed: refuse them
        for lm in re.finditer(r"\b(\w+)\b", expr):
            if lm.group(1) in lets and lm.group(1) != var:
                raise ValueError("burst.rs: `%s` refers to local `%s` (not understood)" % (var, lm.group(1)))
        if not srcs:
            raise ValueError("burst.rs: no source recognised in `%s`" % var)
        table[ctor] = srcs
    return table


def count_datagram_loader_uses(repo):
    """call sites `<something datagram>.try_load_data_into(` and Package impls for Datagram* types, outside
    qdatagram/src (whose lib.rs only forwards to writer.rs) and outside target/"""
    calls = 0
    impls = 0
    for top in sorted(os.listdir(repo)):
        d = os.path.join(repo, top)
        if top in ("target", ".git") or not os.path.isdir(d):
            continue
        for root, dirs, files in os.walk(d):
            dirs[:] = [x for x in dirs if x not in ("target", ".git")]
            for fn in files:
                if not fn.endswith(".rs"):
                    continue
                p = os.path.join(root, fn)
                s = strip_comments(open(p, errors="replace").read())
                rel = os.path.relpath(p, repo)
                impls += len(re.findall(r"\bimpl\b[^{;]*\bPackage\s*<[^{;]*\bfor\s+&?\s*(?:'\w+\s+)?Datagram(?:Flow|Outgoing)\b", s))
                if rel.startswith("qdatagram" + os.sep):
                    continue
                calls += len(re.findall(r"\bdatagram\w*\s*(?:\(\s*\))?\s*\.\s*try_load_data_into\s*\(", s, re.I))
    return calls, impls


def burst_shape(repo):
    b = strip_comments(open(os.path.join(repo, "qconnection", "src", "path", "burst.rs")).read())
    p = strip_comments(open(os.path.join(repo, "qconnection", "src", "path.rs")).read())
    load_spaces = fn_body(b, "load_spaces", "burst.rs")
    assembler = fn_body(b, "assembler", "burst.rs")
    new = fn_body(b, "new", "burst.rs")          # PacketsAssembler::new is the first `fn new` of the file
    burst_fn = fn_body(b, "burst", "burst.rs")
    send_packets = fn_body(p, "send_packets", "path.rs")
    if "load_spaces" not in burst_fn:
        raise ValueError("burst.rs: Burst::burst no longer calls load_spaces")
    per_segment = bool(re.search(r"self\s*\.\s*assembler\s*\(\s*\)", load_spaces)) and \
        "PacketsAssembler::new" in assembler and bool(re.search(r"anti_amplifier\s*\.\s*balance\s*\(\s*\)", new)) and \
        not re.search(r"on_sent\s*\(", b.replace("idle_timer.on_sent(", ""))
    m = re.search(r"if\s+loaded_initial\s*\{", load_spaces)
    pad_full = False
    if m:
        blk = load_spaces[m.end() - 1:balanced(load_spaces, m.end() - 1)]
        pad_full = bool(re.search(r"buffer\s*\.\s*put_bytes\s*\(\s*0\s*,\s*buffer\s*\.\s*remaining_mut\s*\(\s*\)\s*\)", blk)) and \
            bool(re.search(r"return\s+Ok\s*\(\s*\(\s*origin\s*,", blk))
    debit_sum = bool(re.search(r"on_sent\s*\(\s*bufs\s*\.\s*iter\s*\(\s*\)\s*\.\s*map\s*\(\s*\|\s*s\s*\|\s*s\s*\.\s*len\s*\(\s*\)\s*\)\s*\.\s*sum\s*\(\s*\)\s*\)", send_packets))
    if not re.search(r"on_sent\s*\(", send_packets):
        raise ValueError("path.rs: send_packets no longer debits the anti-amplifier (shape not understood)")
    return per_segment, pad_full, debit_sum


def aa_shape(repo):
    """on_sent debits with a saturating read-modify-write (fetch_update + saturating_sub), not a wrapping fetch_sub"""
    a = strip_comments(open(os.path.join(repo, "qconnection", "src", "path", "aa.rs")).read())
    on_sent = fn_body(a, "on_sent", "aa.rs")
    wrapping = bool(re.search(r"credit\s*\.\s*fetch_sub\s*\(", on_sent))
    saturating = bool(re.search(r"credit\s*\.\s*fetch_update\s*\(", on_sent)) and \
        bool(re.search(r"\.\s*saturating_sub\s*\(\s*amount\s*\)", on_sent))
    if not wrapping and not saturating:
        raise ValueError("aa.rs: on_sent debits the credit in a way this extractor does not recognise")
    return saturating and not wrapping


def coq_bool(b):
    return "true" if b else "false"


def render(repo):
    table = extract_sources(repo)
    calls, impls = count_datagram_loader_uses(repo)
    per_segment, pad_full, debit_sum = burst_shape(repo)
    saturating = aa_shape(repo)
    lines = ["(* GENERATED by tools/extract_sources.py from qconnection/src/path/{burst.rs,aa.rs}, qconnection/src/path.rs and a",
             "   scan of every .rs file for uses of the datagram loader.  Rewritten on every run of ./check C19 / C15. *)",
             "From Coq Require Import List.",
             "Import ListNotations.",
             "",
             "Inductive space := SpInitial | SpZeroRtt | SpHandshake | SpOneRtt.",
             "Inductive source := SrcCrypto | SrcReliable | SrcStreams | SrcDatagram.",
             "",
             "(* Components::packages: the data sources boxed into DataSources, per packet space, in order *)",
             "Definition sources (s : space) : list source :=",
             "  match s with"]
    for _, ctor in SPACES:
        lines.append("  | %s => [%s]" % (ctor, "; ".join(table[ctor])))
    lines += ["  end.",
              "",
              "(* call sites of the datagram loader outside qdatagram, and Package impls for DatagramFlow/DatagramOutgoing *)",
              "Definition datagram_loader_calls : nat := %d." % calls,
              "Definition datagram_package_impls : nat := %d." % impls,
              "",
              "(* shape of the send path (C15) *)",
              "Definition burst_shape_balance_per_segment : bool := %s.   (* load_spaces: self.assembler() -> balance(); no debit inside burst.rs *)" % coq_bool(per_segment),
              "Definition burst_shape_pad_initial_to_full : bool := %s.   (* if loaded_initial { put_bytes(0, remaining); return Ok((origin, ..)) } *)" % coq_bool(pad_full),
              "Definition burst_shape_debit_sum_after_burst : bool := %s. (* send_packets: on_sent(bufs.iter().map(|s| s.len()).sum()) *)" % coq_bool(debit_sum),
              "Definition aa_shape_on_sent_saturating : bool := %s.        (* on_sent: credit.fetch_update(.., |c| Some(c.saturating_sub(amount))) *)" % coq_bool(saturating),
              ""]
    return "\n".join(lines), {"sources": table, "calls": calls, "impls": impls,
                              "shape": (per_segment, pad_full, debit_sum), "saturating": saturating}


def regen(repo=None):
    sys.path.insert(0, HERE)
    import vlib
    repo = repo or vlib.REPO
    text, info = render(repo)
    out = os.path.join(ROOT, "coq", "Generated", "Sources.v")
    os.makedirs(os.path.dirname(out), exist_ok=True)
    vlib.write_if_changed(out, text)
    return info


if __name__ == "__main__":
    info = regen(sys.argv[1] if len(sys.argv) > 1 else None)
    print(info)
