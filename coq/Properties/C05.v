(* C05 — every encodable value decodes back to itself, in the size it declared.
   Only the property theorems live here; proofs are in Proofs/Wire.v and Proofs/Frames.v. *)
From Coq Require Import List ZArith.
From GQ Require Import Lib.Wire Model.Varint Model.Frames Model.Packets Model.Params Model.Admission Proofs.Wire Proofs.Frames Proofs.Packets Proofs.Admission.
Import ListNotations.
Local Open Scope Z_scope.

(* variable-length integers round-trip at every width and take the size they announce *)
Theorem c05_varint_rt : forall x rest, varint_ok x -> be_varint (put_varint x ++ rest) = Ok x rest.
Proof. exact be_varint_put_varint. Qed.

Theorem c05_varint_size : forall x, zlen (put_varint x) = varint_size x.
Proof. exact put_varint_length. Qed.

(* the frame-type table regenerated from the Rust source is a bijection on the 40 concrete types *)
Theorem c05_frame_type_rt : forall t, ft_of_code (code_of_ft t) = Some t.
Proof. exact ft_roundtrip. Qed.

Theorem c05_frame_type_inj : forall v t, ft_of_code v = Some t -> code_of_ft t = v.
Proof. exact ft_decode_encode. Qed.

(* every well-formed frame of every kind, in every packet type that admits it, decodes back to
   itself and consumes exactly the bytes written (frames without a length field come last) *)
Theorem c05_frame_rt : forall p f rest,
  wf_frame f -> belongs (frame_type f) p = true -> tail_ok f rest ->
  be_frame p (put_frame f ++ rest) = FOk (zlen (put_frame f)) f (frame_type f).
Proof. exact p_c05_frame_rt. Qed.

(* the announced size is the number of bytes written (plus the body of data-bearing frames) … *)
Theorem c05_frame_size : forall f, wf_frame f -> zlen (put_frame f) = wire_size f.
Proof. exact p_c05_size. Qed.

(* … and never exceeds the announced maximum, so a frame admitted by size always fits *)
Theorem c05_frame_max : forall f, wf_frame f -> encoding_size f <= max_encoding_size f.
Proof. exact p_c05_max. Qed.

(* admission by size (Package::dump): an admitted frame occupies no more than the remaining space *)
Theorem c05_admission : forall f remaining, wf_frame f -> admitted remaining f = true ->
  match f with Crypto _ _ | Stream _ _ _ _ _ | Datagram _ _ => True | _ => zlen (put_frame f) <= remaining end.
Proof. exact p_c05_admission_plain. Qed.

(* STREAM frames are admitted through estimate_max_capacity + encoding_strategy: padding plus frame fit the
   space, the assert and dump's own test cannot fail, a frame without a length field fills the packet *)
Theorem c05_stream_admission : forall capacity sid off len cap_data,
  varint_ok sid -> varint_ok off -> 0 <= len ->
  stream_estimate capacity sid off = Some cap_data -> len <= cap_data ->
  exists explicit pad, encoding_strategy capacity sid off len = Some (explicit, pad) /\
    0 <= pad /\
    stream_written sid off len explicit pad <= capacity /\
    (explicit = false -> stream_written sid off len explicit pad = capacity) /\
    (STREAM_FRAME_MAX_ENCODING_SIZE <= capacity - pad \/
     stream_least sid off + (if explicit then varint_size len else 0) <= capacity - pad).
Proof. exact p_c05_stream_admission. Qed.

(* CRYPTO frames: the estimate is the largest data length whose frame fits *)
Theorem c05_crypto_estimate : forall capacity off n, 0 <= capacity ->
  crypto_estimate capacity off = Some (Some n) ->
  0 < n /\ 1 + varint_size off + varint_size n + n <= capacity /\
  (capacity < 1 + varint_size off + varint_size (n + 1) + (n + 1)).
Proof. exact p_c05_crypto_estimate. Qed.

Theorem c05_crypto_estimate_total : forall capacity off, 0 <= capacity <= 2 ^ 30 -> crypto_estimate capacity off <> None.
Proof. exact p_c05_crypto_estimate_total. Qed.

(* packet type byte(s) and headers of all six kinds (connection-id lengths 0..20, any token) *)
Theorem c05_packet_type_rt : forall t rest, be_packet_type (put_packet_type t ++ rest) = TOk t rest.
Proof. exact p_c05_packet_type_rt. Qed.

Theorem c05_header_rt : forall h n rest, wf_header h -> htail_ok h rest -> dcid_len_of h n ->
  be_header (header_type h) n (skipn (length (put_packet_type (header_type h))) (put_header h) ++ rest) = Ok h rest.
Proof. exact p_c05_header_body_rt. Qed.

Theorem c05_header_size : forall h, wf_header h ->
  match h with HVN _ _ _ | HRetry _ _ _ _ => True | _ => zlen (put_header h) = header_size h end.
Proof. exact p_c05_header_size. Qed.

(* transport parameters: any list of entries legal for the sender's role (ids from the regenerated
   table, values of the prescribed type, within bounds) parses back to the map those entries define *)
Theorem c05_params_rt : forall r l, Forall (wf_entry r) l ->
  parse_loop (S (length (put_params l))) r [] (put_params l) = PaOk (set_list l).
Proof. exact p_c05_params_rt. Qed.

Theorem c05_params_lookup : forall l id, pm_get (set_list l) id = last_value l id None.
Proof. exact set_list_get. Qed.

(* non-vacuity: concrete well-formed frames of the three historically defective kinds *)
Example c05_nonvacuous :
  wf_frame (NewToken (repeat 7 70)) /\ wire_size (NewToken (repeat 7 70)) = 73 /\
  wf_frame (Crypto (2 ^ 61) [1; 2; 3]) /\
  be_frame POneRtt (put_frame (Crypto (2 ^ 61) [1; 2; 3]) ++ [9]) = FOk 13 (Crypto (2 ^ 61) [1; 2; 3]) TCrypto /\
  encoding_size (CloseQuic 10 4030102 [104; 105]) = 9 /\ zlen (put_frame (CloseQuic 10 4030102 [104; 105])) = 9.
Proof. vm_compute. repeat split; congruence. Qed.

Print Assumptions c05_varint_rt.
Print Assumptions c05_varint_size.
Print Assumptions c05_frame_type_rt.
Print Assumptions c05_frame_type_inj.
Print Assumptions c05_frame_rt.
Print Assumptions c05_frame_size.
Print Assumptions c05_frame_max.
Print Assumptions c05_admission.
Print Assumptions c05_stream_admission.
Print Assumptions c05_crypto_estimate.
Print Assumptions c05_crypto_estimate_total.
Print Assumptions c05_packet_type_rt.
Print Assumptions c05_header_rt.
Print Assumptions c05_header_size.
Print Assumptions c05_params_rt.
Print Assumptions c05_params_lookup.
Print Assumptions c05_nonvacuous.
