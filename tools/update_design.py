#!/usr/bin/env python3
"""update_design.py: rewrites the generated tables of DESIGN.md §8 (between the BEGIN/END markers)"""
import os, subprocess
ROOT = os.path.dirname(os.path.dirname(os.path.abspath(__file__)))
p = os.path.join(ROOT, "DESIGN.md")
s = open(p).read()
a = s.index("<!-- BEGIN GENERATED TABLES -->") + len("<!-- BEGIN GENERATED TABLES -->")
b = s.index("<!-- END GENERATED TABLES -->")
t = subprocess.run([os.path.join(ROOT, "tools", "design_tables.py")], stdout=subprocess.PIPE, text=True).stdout
open(p, "w").write(s[:a] + "\n" + t + s[b:])
