"""C06 — packet protection round-trips and rejects any modified packet."""
from vlib import Case
from props import _journal as J

PROP_FILE = "Properties/C06.v"
RULE = ("stream protect: a case is a sequence of BUILD / OPEN / FLIP / RESEAL-WITH-RESERVED-BITS / UPDATE / GET_REMOTE ops (toy keys: bytes compared; real rustls keys: "
        "outcomes compared); non-trivial = some packet built with payload+tag exactly at the 20-byte sampling minimum, or with a packet-number "
        "length >= 3, or under key phase 1 / a key generation >= 1; distinct by hash of the op list")
TRUSTED_BASE = [
    "CRYPTOGRAPHY IS ASSUMED: AEAD (rustls::quic::PacketKey) and header-protection mask (HeaderProtectionKey) are Section variables enc/dec/mask of "
    "coq/Model/Protect.v with hypotheses round trip, ciphertext length = |p|+16, dec accepts only what enc produced, and (tamper theorem only) the "
    "no-forgery premise: no segment of the adversary's datagram is a valid AEAD output for inputs other than the honest ones; all keys are honest keys",
    "the way a mask is applied (first byte low 4/5 bits, then pn_len bytes, pn_len from the unmasked first byte) is rustls' xor_in_place, written out in the model",
    "models coq/Model/Protect.v, KeyPhase.v, ProtectIO.v transcribe io.rs / encrypt.rs / decrypt.rs / keys.rs / route/packet.rs; equality with the Rust is "
    "checked by stream `protect` (toy cipher defined on both sides, byte for byte), not proved; the toy cipher is NOT authentic and is used for layout only",
    "real rustls/ring keys (Initial keys, 1-RTT keys and Secrets from an in-process TLS 1.3 handshake) are exercised by the oracle only: supporting evidence, not proof",
]
MODELLED = ("qbase/src/packet/io.rs PacketWriter::{new_long,new_short}, PacketLayout, encrypt_and_protect_packet; encrypt.rs; decrypt.rs; type.rs SpecificBits; "
            "keys.rs OneRttPacketKeys::{update,phase_out,get_remote,get_local}; qinterface/src/component/route/packet.rs CipherPacket::decrypt_{long,short}_packet; "
            "be_packet and PacketNumber from C03/C07's models. qconnection/src/tx.rs only forwards to PacketWriter and is not modelled separately; "
            "ArcKeys/ArcOneRttKeys wakers and the qlog events are not modelled")
ASSUMPTIONS = ["ideal AEAD and header protection (Section hypotheses, see trusted base)",
               "the receiver's expected packet number decodes the truncated number to the number sent (property C07's guard)",
               "key-phase clause: RFC 9001 section 6 discipline — the two ends are never more than one key generation apart"]

MANIFEST = {
    "text": "Machine-checked Coq theorems (Properties/C06.v) over a model of PacketWriter / encrypt_and_protect_packet / remove_protection_of_*_packet / "
            "decrypt_packet / CipherPacket::decrypt_*_packet with the AEAD and the header-protection mask as Section variables: header protection is a "
            "bijection on packets (protect then unprotect and unprotect then protect are identities, sample taken 4 bytes after the pn offset); a packet "
            "built for any data header, pn length 1..4, key phase and body with pn_len+|body|+16 >= 20 is recovered (header, pn, key phase, body) by the "
            "receive path; ANY datagram other than the one sent (every single-bit flip included), or the same one presented under another key or decoded to "
            "another packet number, is dropped (no frame is dispatched, no connection error) unless it contains a fresh AEAD forgery — every bit of the packet is covered by "
            "the AAD, the ciphertext or the mask-determined fields. OneRttPacketKeys as a machine over key generations: get_remote never panics; the receiver "
            "selects the sender's generation if phase_out() runs between updates; without it (nobody calls it) the statement is REFUTED at the second "
            "update (finding F20) and holds for generations <= 1. After the repair of finding F45 (reserved bits judged only on an authenticated "
            "packet) every such datagram is DROPPED, never answered with a connection error (c06_tamper_discarded), while an authentic packet with "
            "reserved bits set still gives PROTOCOL_VIOLATION. Model tied to the Rust by stream `protect`.",
    "note": "Level is PARTIAL by design: cryptography is an assumption (ideal AEAD as Section hypotheses), real rustls keys are exercised only by the "
            "harness/oracle (round trips and all single-bit flips of Initial and 1-RTT packets) outside the model; the toy cipher shared by model and harness "
            "ties only the layout. The parse of the protected first byte/length field in the round-trip theorem is a hypothesis discharged by computation on "
            "instances (c06_nonvacuous) and by the correspondence run.",
    "technique": "Coq proof (list surgery + Z bit lemmas for the mask; inductive invariant over key generations; vm_compute witnesses) + differential "
                 "correspondence model/implementation with a toy cipher defined on both sides + oracle runs with real rustls keys",
}


def content(i):
    return (i * 131 + (i // 256) * 17 + 7) % 256


def varint_size(x):
    return 1 if x < 64 else 2 if x < 16384 else 4 if x < (1 << 30) else 8


def ints(line):
    return [int(x) for x in line.split()]


def hdr_len(ty, dl, sl, tl):
    if ty == 3:
        return 1 + dl
    return 5 + 1 + dl + 1 + sl + ((varint_size(tl) + tl) if ty == 0 else 0)


def eff_pn(w, pn, la):
    """-> (width, truncated) or None when PacketNumber::encode panics"""
    if w == 0:
        if pn < la or pn - la >= 2**31:
            return None
        return J.rfc_encode(pn, la)
    w = min(w, 4)
    return w, pn % 2**(8 * w)


def code_decode(w, trunc, exp):
    """PacketNumber::decode as coded (number.rs)"""
    win = 1 << (8 * w)
    hwin = win // 2
    cand = (exp & ~(win - 1)) | trunc
    if exp >= hwin and cand <= exp - hwin:
        return cand + win
    if cand > exp + hwin and cand > win:
        return cand - win
    return cand


def build_expect(ty, dl, sl, tl, w, pn, la, plen, bufsz):
    """expected outcome class of a BUILD and the packet length (direct statement of io.rs' preconditions)"""
    e = eff_pn(w, pn, la)
    if e is None:
        return 4, None, None
    hl = hdr_len(ty, dl, sl, tl) + (0 if ty == 3 else 2)
    if bufsz < hl + 20:
        return 1, None, e
    if plen > bufsz - 16 - hl - e[0]:
        return 2, None, e
    if e[0] + plen + 16 < 20 or (ty != 3 and e[0] + plen + 16 >= 2**14):
        return 3, None, e
    return 0, hl + e[0] + plen + 16, e


def check_clear_bytes(b, ty, dl, sl, tl, w, plen, ps):
    """the parts of a protected packet that are not masked/encrypted"""
    if ty == 3:
        if b[0] & 0xE0 != 0x40 | (0x20 if ps & 2 else 0):
            return "first byte %02x" % b[0]
        if bytes(b[1:1 + dl]) != bytes(content(i) for i in range(dl)):
            return "dcid"
        return None
    if b[0] & 0xF0 != 0xC0 | (ty << 4):
        return "first byte %02x" % b[0]
    if b[1:5] != [0, 0, 0, 1]:
        return "version"
    p = 5
    if b[p] != dl or bytes(b[p + 1:p + 1 + dl]) != bytes(content(i) for i in range(dl)):
        return "dcid"
    p += 1 + dl
    if b[p] != sl or bytes(b[p + 1:p + 1 + sl]) != bytes(content(100 + i) for i in range(sl)):
        return "scid"
    p += 1 + sl
    if ty == 0:
        vs = varint_size(tl)
        v = int.from_bytes(bytes(b[p:p + vs]), "big") & ((1 << (8 * vs - 2)) - 1)
        if v != tl or bytes(b[p + vs:p + vs + tl]) != bytes(content(200 + i) for i in range(tl)):
            return "token"
        p += vs + tl
    if (b[p] << 8 | b[p + 1]) != 0x4000 | (w + plen + 16):
        return "length field %02x%02x, expected %04x" % (b[p], b[p + 1], 0x4000 | (w + plen + 16))
    return None


def oracle(case, obs):
    if len(obs) != len(case.ops):
        return "length: %d observations for %d ops (%s)" % (len(obs), len(case.ops), obs[-1] if obs else "")
    last = None          # dict describing the last built packet, None when the build failed
    flips = set()
    ga = 0               # generation of A's local key (from the implementation's own observations)
    gb_spec = 0          # generation B must have reached (spec): max of what it accepted / its own updates
    disc = True          # RFC 9001 discipline still respected in this case
    phased = False       # B called phase_out() since its key generation last changed
    for k, ((tag, a), line) in enumerate(zip(case.ops, obs)):
        if line.startswith("!"):
            return "abnormal: op %d (%s) -> %s" % (k, tag, line)
        v = ints(line)
        if tag in (0, 7, 9):
            flips = set()
            if tag == 0:
                ty, dl, sl, tl, w, pn, la, plen, ps, bufsz, kid, hid = a
                mode = "toy"
            elif tag == 7:
                dl, w, pn, la, plen, spin, bufsz = a
                ty, sl, tl, ps, kid, hid, mode = 3, 0, 0, (spin & 1) * 2, None, None, "real1"
            else:
                ty, dl, sl, tl, w, pn, la, plen, bufsz = a
                ty = min(ty, 2)
                ps, kid, hid, mode = 0, None, None, "reali"
            cls, ln, e = build_expect(ty, dl, sl, tl, w, pn, la, plen, bufsz)
            if v[0] != cls:
                return "buildclass: op %d build outcome %d, expected %d (args %s)" % (k, v[0], cls, a)
            if cls != 0:
                last = None
                continue
            phase = ps & 1
            if tag == 0:
                b = v[1:]
                if len(b) != ln:
                    return "buildlen: op %d packet of %d bytes, expected %d" % (k, len(b), ln)
                m = check_clear_bytes(b, ty, dl, sl, tl, e[0], plen, ps)
                if m:
                    return "layout: op %d unprotected part of the packet is wrong: %s" % (k, m)
            else:
                if v[1] != ln:
                    return "buildlen: op %d packet of %d bytes, expected %d" % (k, v[1], ln)
                if tag == 7:
                    phase, ga = v[2], v[3]
                    if phase != ga % 2:
                        return "phasebit: op %d sender at generation %d uses key phase %d" % (k, ga, phase)
            last = dict(mode=mode, ty=ty, dl=dl, w=e[0], trunc=e[1], pn=pn, plen=plen, phase=phase if ty == 3 else 0, spin=1 if (ty == 3 and ps & 2) else 0,
                        kid=kid, hid=hid, len=ln, gen=ga if tag == 7 else None)
        elif tag == 2:
            if last is not None and v[0] != -1:
                flips ^= {a[0]}
        elif tag == 11:
            # the same packet made again by a key holder who sets reserved bits (harness code, toy keys)
            if last is not None and last["mode"] == "toy":
                if v[0] != last["len"]:
                    return "op11: op %d re-sealed packet of %d bytes, expected %d" % (k, v[0], last["len"])
                flips = set()
                last["rsv"] = a[0] & (0x18 if last["ty"] == 3 else 0x0c)
            elif v[0] != -1:
                return "op11: op %d re-sealed a packet that is not a toy packet" % k
        elif tag in (4, 8, 10):
            if last is None:
                continue
            if (tag == 4) != (last["mode"] == "toy") or (tag == 8) != (last["mode"] == "real1") or (tag == 10) != (last["mode"] == "reali"):
                if v[0] == 0:
                    return "crosskey: op %d a packet protected with other keys was accepted" % k
                continue
            if tag == 4:
                dlrx, exp, kid, hid = a
                samekey = kid == last["kid"]
                samehp = hid == last["hid"]
                keydiff = (kid - last["kid"]) % 256 != 0 or ((kid // 256) - (last["kid"] // 256)) % 256 != 0
            else:
                exp = a[0]
                dlrx, samekey, samehp, keydiff = last["dl"], True, True, False
            accepted = v[0] == 0
            intact = not flips
            pn_ok = exp >= 0 and code_decode(last["w"], last["trunc"], exp) == last["pn"]
            dl_ok = last["ty"] != 3 or dlrx == last["dl"]
            authentic = intact and samekey and samehp and pn_ok and dl_ok
            rsv = last.get("rsv", 0)
            if v[0] == 3 and not (authentic and rsv):
                return "connerr: op %d a packet that is not authentic (%s) raises a connection error (PROTOCOL_VIOLATION) instead of being dropped" % (
                    k, ("bits %s flipped" % sorted(flips)[:4]) if not intact else "other key, header key, packet number or dcid length")
            if authentic and rsv:
                if v[0] != 3:
                    return "reserved: op %d an authentic packet with reserved bits %#x set is not answered with a connection error (outcome %s)" % (k, rsv, line[:40])
                continue
            if intact and samekey and samehp and pn_ok and dl_ok:
                honest = True
                if tag == 8:
                    # key-phase clause: B must pick the generation A used as long as the discipline holds
                    honest = disc and abs(last["gen"] - gb_spec) <= 1
                if not accepted:
                    if tag == 8 and not honest:
                        continue
                    if tag == 8:
                        return "keyphase: op %d an unmodified packet protected with key generation %d (phase %d) is not accepted by the receiver%s" % (
                            k, last["gen"], last["phase"], "" if phased else " (no phase_out since the receiver's last key change)")
                    return "roundtrip: op %d an unmodified packet is not accepted: %s" % (k, line[:60])
                body = bytes(content(1000 + i) for i in range(last["plen"]))
                if tag == 4:
                    kind, total, pn, phase, spin = v[1:6]
                    got = bytes(v[6:])
                    if (kind, total, pn, phase, spin) != (last["ty"] + 2, last["len"], last["pn"], last["phase"], last["spin"]):
                        return "roundtrip: op %d recovered (kind,total,pn,phase,spin)=%s, sent %s" % (k, (kind, total, pn, phase, spin), (last["ty"] + 2, last["len"], last["pn"], last["phase"], last["spin"]))
                elif tag == 8:
                    pn, got = v[1], bytes(v[2:])
                    if pn != last["pn"]:
                        return "roundtrip: op %d recovered pn %d, sent %d" % (k, pn, last["pn"])
                    if last["gen"] > gb_spec:
                        gb_spec, phased = last["gen"], False
                else:
                    kind, pn, got = v[1], v[2], bytes(v[3:])
                    if (kind, pn) != (last["ty"] + 2, last["pn"]):
                        return "roundtrip: op %d recovered (kind,pn)=%s, sent %s" % (k, (kind, pn), (last["ty"] + 2, last["pn"]))
                if got != body:
                    return "roundtrip: op %d recovered body differs from the body sent (%d vs %d bytes)" % (k, len(got), len(body))
            else:
                must_reject = (not intact) or keydiff or (tag != 4 and not pn_ok)
                if accepted and must_reject:
                    why = "bits %s flipped" % sorted(flips)[:4] if not intact else "another key" if keydiff else "another packet number"
                    return "tamper: op %d a packet presented with %s was ACCEPTED" % (k, why)
        elif tag == 3:
            if a[0] & 1:
                if gb_spec > ga:
                    disc = False
                gb_spec += 1
                phased = False
            else:
                ga = v[1]
                if ga > gb_spec + 1:
                    disc = False
        elif tag == 5:
            if a[0] & 1:
                if gb_spec > ga:
                    disc = False       # discards the key the sender is still using
                phased = True
        elif tag == 6:
            if v[0] == 9:
                return "getremote-panic: op %d get_remote panicked" % k
            # direct calls move the ends outside the packet flow the oracle tracks
            disc = False
        elif tag == 1:
            if v[0] == 0 and not case.meta.get("valid_open"):
                return "tamper: op %d arbitrary bytes were ACCEPTED" % k
    return None


def classify(case, msg, obs):
    if msg.startswith("keyphase:"):
        # F20: sender at generation >= 2, no phase_out ever called on the receiver
        import re
        m = re.search(r"generation (\d+)", msg)
        if m and int(m.group(1)) >= 2 and "no phase_out since" in msg:
            return "F20"
    return None


def nontrivial(case):
    g = 0
    for t, a in case.ops:
        if t == 0:
            ty, dl, sl, tl, w, pn, la, plen, ps = a[:9]
            e = eff_pn(w, pn, la)
            if e and (e[0] + plen + 16 == 20 or e[0] >= 3 or (ty == 3 and ps & 1)):
                return True
        elif t == 7:
            e = eff_pn(a[1], a[2], a[3])
            if e and (e[0] + a[4] + 16 == 20 or e[0] >= 3 or g >= 1):
                return True
        elif t == 9:
            e = eff_pn(a[4], a[5], a[6])
            if e and (e[0] + a[7] + 16 == 20 or e[0] >= 3):
                return True
        elif t in (3, 6):
            g += 1
    return False


def hist(case):
    lab = []
    names = {0: "build", 1: "open", 2: "flip", 3: "update", 4: "openlast", 5: "phaseout", 6: "getremote", 7: "rbuild", 8: "ropen", 9: "ribuild", 10: "riopen", 11: "reseal-reserved"}
    nflip = 0
    for t, a in case.ops:
        if t == 2:
            nflip += 1
            continue
        lab.append("op:" + names.get(t, str(t)))
        if t == 0:
            lab.append("type:%d" % a[0])
            lab.append("dcid:%s" % ("0" if a[1] == 0 else "20" if a[1] == 20 else "1-19"))
            e = eff_pn(a[4], a[5], a[6])
            lab.append("pnlen:%s" % (e[0] if e else "panic"))
            tot = (e[0] if e else 0) + a[7] + 16
            lab.append("payload:%s" % ("<20" if tot < 20 else "=20" if tot == 20 else "<=64" if tot <= 64 else "<=1200" if tot <= 1200 else ">1200"))
            if a[0] == 3:
                lab.append("phase:%d" % (a[8] & 1))
        elif t == 7:
            lab.append("real1rtt")
        elif t == 9:
            lab.append("realinitial")
    if nflip:
        lab.append("flips:%s" % ("1-10" if nflip <= 10 else "11-100" if nflip <= 100 else ">100"))
    return lab


def rnd_pn(rng):
    r = rng.random()
    la = 0 if r < 0.3 else rng.randrange(0, 2**16) if r < 0.6 else rng.randrange(0, 2**40) if r < 0.9 else rng.randrange(2**61, 2**62 - 2**32)
    r = rng.random()
    d = rng.randrange(0, 100) if r < 0.4 else rng.randrange(0, 2**15 + 10) if r < 0.6 else rng.randrange(2**15, 2**23 + 10) if r < 0.8 else rng.randrange(2**23, 2**31)
    return la + d, la


def gen(rng, tier):
    cases = []
    n = [0]

    def add(ops, pre="c", meta=None):
        cases.append(Case("%s%d" % (pre, n[0]), ops, meta=meta))
        n[0] += 1

    # ---- 1. round trips with toy keys: every type x every dcid length, pn lengths, boundary payloads
    reps = 1 if tier == "quick" else 6
    for _ in range(reps):
        for ty in range(4):
            for dl in range(21):
                for w in (0, 1, 2, 3, 4):
                    sl = rng.randrange(0, 21)
                    tl = rng.choice([0, 1, 5, 63, 64, 200]) if ty == 0 else 0
                    pn, la = rnd_pn(rng)
                    e = eff_pn(w, pn, la)
                    ew = e[0] if e else 2
                    bufsz = rng.choice([1200, 1200, 1452, 1500, 64, 100, hdr_len(ty, dl, sl, tl) + 22, hdr_len(ty, dl, sl, tl) + 19])
                    hl = hdr_len(ty, dl, sl, tl) + (0 if ty == 3 else 2)
                    full = max(0, bufsz - 16 - hl - ew)
                    plen = rng.choice([max(0, 4 - ew), max(0, 4 - ew), max(0, 3 - ew), 5, 20, rng.randrange(0, 64), rng.randrange(0, 1200), full, full, full + 1])
                    ps = rng.randrange(0, 4)
                    kid, hid = rng.randrange(0, 60000), rng.randrange(0, 60000)
                    exp = rng.choice([pn, pn, la if w == 0 else pn, (la + pn) // 2 if w == 0 else pn])
                    ops = [(0, [ty, dl, sl, tl, w, pn, la, plen, ps, bufsz, kid, hid]),
                           (4, [dl, exp, kid, hid])]
                    # presentation under another key / another header key / another pn / another dcid length / refusing decoder
                    ops.append((4, [dl, exp, kid + rng.choice([1, 2, 255, 256, 257]), hid]))
                    ops.append((4, [dl, pn + 2**(8 * ew), kid, hid]))
                    ops.append((4, [dl, -1, kid, hid]))
                    if ty == 3 and dl > 0:
                        ops.append((4, [dl - 1, exp, kid, hid]))
                    # a few single-bit flips (restored afterwards)
                    cls, ln, _ = build_expect(ty, dl, sl, tl, w, pn, la, plen, bufsz)
                    if cls == 0:
                        for _f in range(3):
                            i = rng.randrange(0, 8 * ln) if rng.random() < 0.5 else rng.randrange(0, min(8 * ln, 8 * (hl + ew + 20)))
                            ops += [(2, [i]), (4, [dl, exp, kid, hid]), (2, [i])]
                        ops.append((4, [dl, exp, kid, hid]))
                        if rng.random() < 0.5:
                            # a key holder sets reserved bits: connection error; tampering with THAT packet: dropped again
                            r = rng.choice([4, 8, 12, 16, 24, 28, 3, 0x60])
                            i = rng.randrange(0, 8 * ln)
                            ops += [(11, [r]), (4, [dl, exp, kid, hid]), (4, [dl, exp, kid + 1, hid]), (2, [i]), (4, [dl, exp, kid, hid]), (2, [i]),
                                    (4, [dl, exp, kid, hid]), (11, [0]), (4, [dl, exp, kid, hid])]
                    add(ops, "rt")
    # a long packet that would need a 4-byte length field: encode_varint(.., Two) asserts
    add([(0, [2, 8, 8, 0, 2, 7, 0, 16366, 0, 20000, 5, 6]), (0, [2, 8, 8, 0, 2, 7, 0, 16365, 0, 20000, 5, 6]), (4, [8, 7, 5, 6]),
         (0, [3, 8, 0, 0, 2, 7, 0, 30000, 1, 40000, 5, 6]), (4, [8, 7, 5, 6])], "big")

    # ---- 2. every single-bit corruption of small packets (toy)
    combos = [(ty, w, ph) for ty in range(4) for w in (1, 2, 3, 4) for ph in ((0, 1) if ty == 3 else (0,))]
    if tier == "quick":
        combos = [c for i, c in enumerate(combos) if i % 2 == 0 or c[0] == 3]
    for (ty, w, ph) in combos:
        dl = rng.choice([0, 1, 4, 8]) if ty == 3 else rng.choice([0, 3, 8])
        sl = rng.randrange(0, 5)
        tl = rng.choice([0, 3]) if ty == 0 else 0
        pn = rng.randrange(0, 2**(8 * w))
        plen = rng.choice([max(0, 4 - w), 4, 9])
        kid, hid = rng.randrange(0, 60000), rng.randrange(0, 60000)
        ps = ph + 2 * rng.randrange(0, 2)
        cls, ln, _ = build_expect(ty, dl, sl, tl, w, pn, 0, plen, 1200)
        ops = [(0, [ty, dl, sl, tl, w, pn, 0, plen, ps, 1200, kid, hid]), (4, [dl, pn, kid, hid])]
        for i in range(8 * ln):
            ops += [(2, [i]), (4, [dl, pn, kid, hid]), (2, [i])]
        ops.append((4, [dl, pn, kid, hid]))
        if ph == 0 and w in (1, 3):
            # every single-bit flip of an authentic packet whose reserved bits are set: dropped, never the connection error
            ops += [(11, [rng.choice([8, 16, 24]) if ty == 3 else rng.choice([4, 8, 12])]), (4, [dl, pn, kid, hid])]
            for i in range(8 * ln):
                ops += [(2, [i]), (4, [dl, pn, kid, hid]), (2, [i])]
        add(ops, "flipall")

    # ---- 3. real rustls keys: Initial packets and 1-RTT packets, round trip + every single-bit flip
    nreal = 4 if tier == "quick" else 60
    for j in range(nreal):
        ty = j % 3
        dl = rng.choice([8, 8, 1, 20, 0]) if j else 8
        sl, tl = rng.randrange(0, 21), rng.choice([0, 16])
        w = rng.choice([0, 1, 2, 3, 4])
        pn, la = rnd_pn(rng)
        e = eff_pn(w, pn, la)
        if e is None:
            continue
        plen = rng.choice([max(0, 4 - e[0]), 10, 40])
        cls, ln, _ = build_expect(ty, dl, sl, tl, w, pn, la, plen, 1200)
        ops = [(9, [ty, dl, sl, tl, w, pn, la, plen, 1200]), (10, [pn]), (10, [pn + 2**(8 * e[0])]), (8, [pn])]
        for i in range(8 * ln):
            ops += [(2, [i]), (10, [pn]), (2, [i])]
        ops.append((10, [pn]))
        add(ops, "realinit")
    for j in range(nreal):
        dl = rng.choice([8, 0, 20, 5])
        w = rng.choice([0, 1, 2, 3, 4])
        pn, la = rnd_pn(rng)
        e = eff_pn(w, pn, la)
        if e is None:
            continue
        plen = rng.choice([max(0, 4 - e[0]), 10, 33])
        cls, ln, _ = build_expect(3, dl, 0, 0, w, pn, la, plen, 1200)
        pre = []
        if j % 2:
            pre = [(3, [0]), (7, [dl, w, pn, la, plen, 0, 1200]), (8, [pn])]      # first key update of the peer, followed by B
            pn += 1
        ops = pre + [(7, [dl, w, pn, la, plen, j & 1, 1200]), (8, [pn]), (10, [pn])]
        ops.append((8, [pn + 2**(8 * e[0])]))
        for i in range(8 * ln):
            ops += [(2, [i]), (8, [pn]), (2, [i])]
        ops.append((8, [pn]))
        add(ops, "real1rtt")

    # ---- 4. key phase: update sequences on the real OneRttPacketKeys
    nk = 200 if tier == "quick" else 6000
    for j in range(nk):
        ops = []
        pn = 1
        style = j % 4
        for _ in range(rng.randrange(2, 14)):
            r = rng.random()
            if style == 0:          # peer-initiated updates only, packets in between (F20 at the second update)
                if r < 0.4:
                    ops.append((3, [0]))
                ops += [(7, [8, 2, pn, 0, 20, 0, 1200]), (8, [pn])]
                pn += 1
            elif style == 1:        # the intended discipline: B phases the old key out once A has followed
                if r < 0.5:
                    ops += [(5, [1]), (3, [0])]
                ops += [(7, [8, 2, pn, 0, 20, 0, 1200]), (8, [pn])]
                pn += 1
            elif style == 2:        # both ends update, packets in between
                if r < 0.25:
                    ops.append((3, [0]))
                elif r < 0.4:
                    ops.append((3, [1]))
                elif r < 0.5:
                    ops.append((5, [1]))
                ops += [(7, [8, 2, pn, 0, 20, 0, 1200]), (8, [pn])]
                pn += 1
            else:                   # direct calls in any order
                c = rng.randrange(0, 5)
                if c == 0:
                    ops.append((3, [rng.randrange(0, 2)]))
                elif c == 1:
                    ops.append((5, [rng.randrange(0, 2)]))
                elif c == 2:
                    ops.append((6, [rng.randrange(0, 2), rng.randrange(0, 2), pn]))
                else:
                    ops += [(7, [8, 2, pn, 0, 20, 0, 1200]), (8, [pn])]
                pn += 1
        add(ops, "kp")

    # ---- 5. malformed / arbitrary datagrams through the receive path (toy keys)
    nm = 600 if tier == "quick" else 20000
    for j in range(nm):
        r = rng.random()
        dl = rng.randrange(0, 21)
        if r < 0.3:
            b = bytes(rng.randrange(0, 256) for _ in range(rng.choice([0, 1, 5, 19, 20, 21, 22, 40, 60, 100])))
        elif r < 0.65:      # short header shape
            b = bytes([rng.choice([0x40, 0x60, 0x00, 0x7f]) | rng.randrange(0, 32)]) + bytes(rng.randrange(0, 256) for _ in range(dl + rng.choice([0, 3, 19, 20, 21, 30, 50])))
        else:               # long header shape, version 1 mostly
            first = 0x80 | rng.choice([0x40, 0x40, 0x40, 0]) | (rng.randrange(0, 4) << 4) | rng.randrange(0, 16)
            ver = rng.choice([1, 1, 1, 0, 2])
            d, s = rng.choice([0, 8, 20, 21]), rng.choice([0, 8, 20, 25])
            pay = rng.choice([0, 5, 19, 20, 21, 40])
            ln = rng.choice([pay, pay, pay + 1, max(0, pay - 1), 0])
            tok = rng.choice([b"", b"\x00", b"\x03abc"]) if (first >> 4) & 3 == 0 else b""
            b = bytes([first]) + ver.to_bytes(4, "big") + bytes([d]) + bytes(rng.randrange(0, 256) for _ in range(min(d, 20))) + \
                bytes([s]) + bytes(rng.randrange(0, 256) for _ in range(min(s, 20))) + tok + (0x4000 | ln).to_bytes(2, "big") + \
                bytes(rng.randrange(0, 256) for _ in range(pay)) + bytes(rng.randrange(0, 256) for _ in range(rng.choice([0, 0, 7])))
        add([(1, [dl, rng.choice([0, 0, 5, 70000, -1]), rng.randrange(0, 1000), rng.randrange(0, 1000), b])], "mal")
    return cases


def mutate(rng, case, j):
    ops = [(t, list(a)) for t, a in case.ops]
    if not ops:
        return Case("mu%d" % j, ops)
    i = rng.randrange(len(ops))
    t, a = ops[i]
    if t in (0, 7, 9) and a:
        k = rng.randrange(len(a))
        a[k] = max(0, a[k] + rng.choice([-1, 1, 2, 16, 255]))
        if t == 0:
            a[0] %= 4
            a[1] %= 21
            a[2] %= 21
            a[4] %= 5
    elif t == 2:
        a[0] = max(0, a[0] + rng.choice([-8, -1, 1, 8]))
    elif t == 11:
        a[0] = rng.choice([0, 4, 8, 12, 16, 24])
    elif t in (4, 8, 10):
        k = rng.randrange(len(a))
        a[k] = a[k] + rng.choice([-1, 1, 256])
        if t == 4:
            a[0] %= 21
    elif t == 1:
        b = bytearray(a[4]) if isinstance(a[4], (bytes, bytearray)) else bytearray()
        if b:
            b[rng.randrange(len(b))] ^= 1 << rng.randrange(8)
        a[4] = bytes(b)
    elif t in (3, 5):
        a[0] ^= 1
    ops[i] = (t, a)
    return Case("mu%d" % j, ops, meta=dict(case.meta))


STREAMS = [
    {"name": "protect", "pkg": "hq", "bin": "impl_protect",
     "gen": gen, "oracle": oracle, "nontrivial": nontrivial, "hist": hist, "mutate": mutate, "classify": classify,
     "profiles": ("debug",), "profiles_thorough": ("debug",), "rule": RULE},
]
