import re,sys
SYMS=["detect_lost","on_packet_sent","cc_on_ack","on_loss_detection_timeout","cc_step","cc_obs","cc_run","reach","burst","run_ops","run_from","cc_states"]
pat=re.compile(r"(?<![\w.'])("+"|".join(SYMS)+r")(?![\w'])")
def transform(s):
    out=[];i=0
    for m in pat.finditer(s):
        out.append(s[i:m.end()]);i=m.end()
        pre=s[:m.start()]
        # inside cbn [...] ?
        lb=pre.rfind("["); rb=pre.rfind("]")
        if lb>rb and re.search(r"cbn\s*$",pre[:lb]): continue
        # unfold list?
        if re.search(r"unfold\s+([\w']+\s*,\s*)*$",pre): continue
        # followed by something that makes it an application?
        nxt=s[m.end():m.end()+1]
        if nxt not in " \n": continue
        rest=s[m.end():].lstrip()
        if rest.startswith(("in ","in\n",":=",":",")",".",";","|","->","as ","=")) : continue
        out.append(" fx")
    out.append(s[i:])
    return "".join(out)
for f in sys.argv[1:]:
    s=open(f).read()
    open(f,"w").write(transform(s))
