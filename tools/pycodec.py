"""Independent Python reference for the QUIC wire formats used by the generators and oracles
(RFC 9000 §16–19 + the project's extension frames).  Written from the RFC, not from the Rust or
the Coq model: it is the third implementation the other two are compared with."""

VARINT_MAX = (1 << 62) - 1
BOUNDARY = [0, 1, 63, 64, 16383, 16384, (1 << 30) - 1, 1 << 30, (1 << 62) - 1]


def varint(x):
    assert 0 <= x <= VARINT_MAX, x
    if x < 1 << 6:
        return bytes([x])
    if x < 1 << 14:
        return (x | (1 << 14)).to_bytes(2, "big")
    if x < 1 << 30:
        return (x | (2 << 30)).to_bytes(4, "big")
    return (x | (3 << 62)).to_bytes(8, "big")


def varint_size(x):
    return 1 if x < 64 else 2 if x < 16384 else 4 if x < (1 << 30) else 8


def varint_nonminimal(x, width):
    tag = {1: 0, 2: 1, 4: 2, 8: 3}[width]
    assert x < 1 << (8 * width - 2)
    return (x | (tag << (8 * width - 2))).to_bytes(width, "big")


# frame type codes
PADDING, PING, ACK, ACK_ECN, RESET_STREAM, STOP_SENDING, CRYPTO, NEW_TOKEN = range(8)
STREAM = 0x08
MAX_DATA, MAX_STREAM_DATA, MAX_STREAMS_BI, MAX_STREAMS_UNI = 0x10, 0x11, 0x12, 0x13
DATA_BLOCKED, STREAM_DATA_BLOCKED, STREAMS_BLOCKED_BI, STREAMS_BLOCKED_UNI = 0x14, 0x15, 0x16, 0x17
NEW_CONNECTION_ID, RETIRE_CONNECTION_ID, PATH_CHALLENGE, PATH_RESPONSE = 0x18, 0x19, 0x1a, 0x1b
CLOSE_QUIC, CLOSE_APP, HANDSHAKE_DONE = 0x1c, 0x1d, 0x1e
DATAGRAM, DATAGRAM_LEN = 0x30, 0x31
ADD_ADDRESS4, ADD_ADDRESS6, PUNCH_ME_NOW4, PUNCH_ME_NOW6, REMOVE_ADDRESS, PUNCH_HELLO, PUNCH_DONE = range(0x3d7e90, 0x3d7e97)

ALL_CODES = list(range(0, 0x1f)) + [0x30, 0x31] + list(range(0x3d7e90, 0x3d7e97))

# which packet types (0 initial, 1 handshake, 2 0-RTT, 3 1-RTT) may carry a frame type (RFC 9000 table 3;
# extension frames: application data packets)
def allowed_ptypes(code):
    ihol = {PADDING: "ih01", PING: "ih01", ACK: "ih1", ACK_ECN: "ih1", CRYPTO: "ih1", NEW_TOKEN: "1",
            PATH_RESPONSE: "1", HANDSHAKE_DONE: "1", CLOSE_QUIC: "ih01"}
    s = ihol.get(code, "01")
    return [k for k, ch in enumerate("ih01") if ch in s]


def pb(b):
    return [len(b)] + list(b)


def encode_frame(code, f, enc=None):
    """f = canonical field list (coq/Model/FramesIO.v frame_fields); returns wire bytes.
    `enc` replaces the minimal varint encoder (used to produce legal non-minimal encodings, RFC 9000 §16)"""
    enc = enc or varint
    out = bytearray(enc(code))
    it = iter(f)

    def nxt():
        return next(it)

    def nbytes():
        n = nxt()
        return bytes(nxt() for _ in range(n))
    if code in (PADDING, PING, HANDSHAKE_DONE):
        pass
    elif code in (ACK, ACK_ECN):
        largest, delay, first, n = nxt(), nxt(), nxt(), nxt()
        out += enc(largest) + enc(delay) + enc(n) + enc(first)
        for _ in range(n):
            out += enc(nxt()) + enc(nxt())
        if nxt() == 1:
            out += enc(nxt()) + enc(nxt()) + enc(nxt())
    elif code == RESET_STREAM:
        out += enc(nxt()) + enc(nxt()) + enc(nxt())
    elif code == STOP_SENDING:
        out += enc(nxt()) + enc(nxt())
    elif code == CRYPTO:
        off = nxt()
        d = nbytes()
        out += enc(off) + enc(len(d)) + d
    elif code == NEW_TOKEN:
        d = nbytes()
        out += enc(len(d)) + d
    elif STREAM <= code <= STREAM + 7:
        sid, off, lb, fin = nxt(), nxt(), nxt(), nxt()
        d = nbytes()
        out += enc(sid)
        if off != 0:
            out += enc(off)
        if lb:
            out += enc(len(d))
        out += d
    elif code in (MAX_DATA, DATA_BLOCKED, RETIRE_CONNECTION_ID, REMOVE_ADDRESS, MAX_STREAMS_BI, MAX_STREAMS_UNI,
                  STREAMS_BLOCKED_BI, STREAMS_BLOCKED_UNI):
        out += enc(nxt())
    elif code in (MAX_STREAM_DATA, STREAM_DATA_BLOCKED):
        out += enc(nxt()) + enc(nxt())
    elif code == NEW_CONNECTION_ID:
        seq, rpt = nxt(), nxt()
        cid = nbytes()
        tok = nbytes()
        out += enc(seq) + enc(rpt) + bytes([len(cid)]) + cid + tok
    elif code in (PATH_CHALLENGE, PATH_RESPONSE):
        out += nbytes()
    elif code == CLOSE_QUIC:
        k, ft = nxt(), nxt()
        r = nbytes()
        out += enc(k) + enc(ft) + enc(len(r)) + r
    elif code == CLOSE_APP:
        c = nxt()
        r = nbytes()
        out += enc(c) + enc(len(r)) + r
    elif code in (DATAGRAM, DATAGRAM_LEN):
        d = nbytes()
        if code == DATAGRAM_LEN:
            out += enc(len(d))
        out += d
    elif code in (ADD_ADDRESS4, ADD_ADDRESS6):
        seq, port, ip, tire, nat = nxt(), nxt(), nxt(), nxt(), nxt()
        out += enc(seq) + port.to_bytes(2, "big") + ip.to_bytes(16 if code == ADD_ADDRESS6 else 4, "big") + enc(tire) + enc(nat)
    elif code in (PUNCH_ME_NOW4, PUNCH_ME_NOW6):
        l, r, port, ip, tire, nat = nxt(), nxt(), nxt(), nxt(), nxt(), nxt()
        out += enc(l) + enc(r) + port.to_bytes(2, "big") + ip.to_bytes(16 if code == PUNCH_ME_NOW6 else 4, "big") + enc(tire) + enc(nat)
    elif code in (PUNCH_HELLO, PUNCH_DONE):
        out += enc(nxt()) + enc(nxt()) + enc(nxt())
    else:
        raise ValueError(code)
    return bytes(out)


def data_len(code, f):
    """length of the data body that encoding_size does not count (CRYPTO / STREAM / DATAGRAM)"""
    if code == CRYPTO:
        return f[1]
    if STREAM <= code <= STREAM + 7:
        return f[4]
    if code in (DATAGRAM, DATAGRAM_LEN):
        return f[0]
    return 0


VALID_ERROR_KINDS = list(range(0, 0x11)) + [0x100, 0x128, 0x1ff]


def widening_encoder(rng):
    """a varint encoder that picks, at random, a wider-than-necessary (still legal) encoding"""
    def enc(x):
        w = varint_size(x)
        if rng.random() < 0.5:
            w = rng.choice([k for k in (1, 2, 4, 8) if k >= w])
        return varint_nonminimal(x, w)
    return enc


def rand_varint(rng):
    r = rng.random()
    if r < 0.45:
        return rng.choice(BOUNDARY)
    if r < 0.6:
        return max(0, min(VARINT_MAX, rng.choice(BOUNDARY) + rng.randint(-2, 2)))
    if r < 0.8:
        return rng.randint(0, 300)
    return rng.getrandbits(rng.choice([8, 14, 30, 40, 62]))


def rand_bytes(rng, n):
    return bytes(rng.getrandbits(8) for _ in range(n))


def rand_ip(rng, bits):
    """address values incl. the special IPv6 forms a dual-stack socket reports (IPv4-mapped ::ffff:a.b.c.d,
    IPv4-compatible ::a.b.c.d, loopback, unspecified, link-local, multicast)"""
    if bits == 32:
        return rng.choice([0, 1, 0x7f000001, 0xffffffff, 0xc0000207, rng.getrandbits(32)])
    v4 = rng.choice([0x7f000001, 0xc0000207, 0xffffffff, rng.getrandbits(32)])
    return rng.choice([0, 1, (1 << 128) - 1, (0xffff << 32) | v4, v4, 0xfe80 << 112 | rng.getrandbits(64),
                       0xff02 << 112 | 1, 0x20010db8 << 96 | rng.getrandbits(96), rng.getrandbits(128)])


def rand_len(rng):
    return rng.choice([0, 0, 1, 2, 5, 20, 62, 63, 64, 65, 200, 1200])


def rand_frame(rng, code=None, small=False):
    """random well-formed frame value as (code, fields)"""
    if code is None:
        code = rng.choice(ALL_CODES)
    v = lambda: rand_varint(rng)
    u32 = lambda: rng.choice([0, 1, 63, 64, 16383, 16384, (1 << 30) - 1, 1 << 30, (1 << 32) - 1, rng.getrandbits(32)])
    ln = (lambda: rng.choice([0, 1, 3, 8])) if small else (lambda: rand_len(rng))
    if code in (PADDING, PING, HANDSHAKE_DONE):
        f = []
    elif code in (ACK, ACK_ECN):
        # a well-formed ACK never computes a negative packet number (RFC 9000 19.3.1; the decoder rejects it)
        n = rng.choice([0, 0, 1, 2, 5, 63, 64, 70]) if not small else rng.choice([0, 1, 2])
        largest = v() if n < 5 else max(v(), 1 << 20)     # room for the 63/64/70-range forms
        first = (min(v(), largest) if n < 5 and rng.random() < 0.7 else rng.randint(0, min(largest, 300)))
        smallest = largest - first
        rs = []
        for _ in range(n):
            if smallest < 2:
                break
            g = min(v(), smallest - 2) if rng.random() < 0.3 else rng.randint(0, min(smallest - 2, 70))
            a = min(v(), smallest - 2 - g) if rng.random() < 0.3 else rng.randint(0, min(smallest - 2 - g, 70))
            rs += [g, a]
            smallest -= g + 2 + a
        f = [largest, v(), first, len(rs) // 2] + rs
        f += ([1, v(), v(), v()] if code == ACK_ECN else [0])
    elif code == RESET_STREAM:
        f = [v(), v(), v()]
    elif code == STOP_SENDING:
        f = [v(), v()]
    elif code == CRYPTO:
        d = rand_bytes(rng, ln())
        off = min(v(), VARINT_MAX - len(d))
        f = [off] + pb(d)
    elif code == NEW_TOKEN:
        n = rng.choice([1, 2, 20, 62, 63, 64, 65, 100, 300, 16383, 16384]) if not small else rng.choice([1, 2, 63, 64])
        f = pb(rand_bytes(rng, n))
    elif STREAM <= code <= STREAM + 7:
        d = rand_bytes(rng, ln())
        off = 0 if not (code & 4) else max(1, min(v(), VARINT_MAX - len(d)))
        f = [v(), off, 1 if code & 2 else 0, code & 1] + pb(d)
    elif code in (MAX_STREAMS_BI, MAX_STREAMS_UNI):
        f = [min(v(), (1 << 60) - 1)]
    elif code in (MAX_DATA, DATA_BLOCKED, RETIRE_CONNECTION_ID, REMOVE_ADDRESS, STREAMS_BLOCKED_BI, STREAMS_BLOCKED_UNI):
        f = [v()]
    elif code in (MAX_STREAM_DATA, STREAM_DATA_BLOCKED):
        f = [v(), v()]
    elif code == NEW_CONNECTION_ID:
        seq = v()
        rpt = min(v(), seq)
        f = [seq, rpt] + pb(rand_bytes(rng, rng.choice([1, 4, 8, 19, 20]))) + pb(rand_bytes(rng, 16))
    elif code in (PATH_CHALLENGE, PATH_RESPONSE):
        f = pb(rand_bytes(rng, 8))
    elif code == CLOSE_QUIC:
        r = bytes(rng.choice(b"abcdefghij xyz") for _ in range(rng.choice([0, 1, 5, 63, 64, 300])))
        f = [rng.choice(VALID_ERROR_KINDS), rng.choice(ALL_CODES)] + pb(r)
    elif code == CLOSE_APP:
        r = bytes(rng.choice(b"abcdefghij xyz") for _ in range(rng.choice([0, 1, 5, 63, 64, 300])))
        f = [v()] + pb(r)
    elif code in (DATAGRAM, DATAGRAM_LEN):
        f = pb(rand_bytes(rng, ln()))
    elif code in (ADD_ADDRESS4, ADD_ADDRESS6):
        ipbits = 128 if code == ADD_ADDRESS6 else 32
        f = [u32(), rng.choice([0, 1, 443, 65535]), rand_ip(rng, ipbits), u32(), rng.randint(0, 5)]
    elif code in (PUNCH_ME_NOW4, PUNCH_ME_NOW6):
        ipbits = 128 if code == PUNCH_ME_NOW6 else 32
        f = [u32(), u32(), rng.choice([0, 1, 443, 65535]), rand_ip(rng, ipbits), u32(), rng.randint(0, 5)]
    elif code in (PUNCH_HELLO, PUNCH_DONE):
        f = [u32(), u32(), u32()]
    else:
        raise ValueError(code)
    return code, f


# ------------------------------------------------------------------------------------------
# packet headers (RFC 9000 §17) and transport parameters (§18)
# ------------------------------------------------------------------------------------------

H_VN, H_RETRY, H_INITIAL, H_ZERO_RTT, H_HANDSHAKE, H_ONE_RTT = range(6)


def encode_header(kind, f):
    """f = canonical field list of coq/Model/PacketsIO.v header_fields"""
    it = iter(f)

    def nbytes():
        n = next(it)
        return bytes(next(it) for _ in range(n))
    if kind == H_ONE_RTT:
        spin = next(it)
        d = nbytes()
        return bytes([0x40 | (0x20 if spin else 0)]) + d
    d = nbytes()
    s = nbytes()
    cids = bytes([len(d)]) + d + bytes([len(s)]) + s
    if kind == H_VN:
        n = next(it)
        vs = [next(it) for _ in range(n)]
        return bytes([0x80]) + (0).to_bytes(4, "big") + cids + b"".join(v.to_bytes(4, "big") for v in vs)
    first = {H_INITIAL: 0xc0, H_ZERO_RTT: 0xd0, H_HANDSHAKE: 0xe0, H_RETRY: 0xf0}[kind]
    out = bytes([first]) + (1).to_bytes(4, "big") + cids
    if kind == H_RETRY:
        tok = nbytes()
        integ = nbytes()
        return out + tok + integ
    if kind == H_INITIAL:
        tok = nbytes()
        return out + varint(len(tok)) + tok
    return out


def rand_cid(rng, lo=0):
    return rand_bytes(rng, rng.choice([lo, max(lo, 1), 4, 8, 8, 19, 20]))


def rand_header(rng, kind=None):
    if kind is None:
        kind = rng.randrange(6)
    if kind == H_ONE_RTT:
        return kind, [rng.randint(0, 1)] + pb(rand_cid(rng))
    f = pb(rand_cid(rng)) + pb(rand_cid(rng))
    if kind == H_VN:
        n = rng.choice([0, 1, 2, 5])
        f += [n] + [rng.choice([1, 2, 0xff00001d, rng.getrandbits(32)]) for _ in range(n)]
    elif kind == H_RETRY:
        f += pb(rand_bytes(rng, rng.choice([0, 1, 16, 40]))) + pb(rand_bytes(rng, 16))
    elif kind == H_INITIAL:
        f += pb(rand_bytes(rng, rng.choice([0, 0, 1, 20, 63, 64, 200])))
    return kind, f


def header_size(kind, f):
    """bytes before the Length field"""
    return len(encode_header(kind, f))


def data_packet(rng, kind, f, payload_len, garbage=b""):
    """a whole protected-looking packet: header, Length (long headers), payload bytes"""
    h = encode_header(kind, f)
    body = rand_bytes(rng, payload_len)
    if kind == H_ONE_RTT:
        return h + body, len(h)
    ln = varint(payload_len)
    return h + ln + body + garbage, len(h) + len(ln)


# (id, value type) per RFC 9000 §18.2 + datagram (RFC 9221) + the project's extensions
P_VARINT, P_BOOL, P_BYTES, P_DURATION, P_TOKEN, P_CID, P_PREF = range(7)
PARAMS = {
    0x00: P_CID, 0x01: P_DURATION, 0x02: P_TOKEN, 0x03: P_VARINT, 0x04: P_VARINT, 0x05: P_VARINT, 0x06: P_VARINT,
    0x07: P_VARINT, 0x08: P_VARINT, 0x09: P_VARINT, 0x0a: P_VARINT, 0x0b: P_DURATION, 0x0c: P_BOOL, 0x0d: P_PREF,
    0x0e: P_VARINT, 0x0f: P_CID, 0x10: P_CID, 0x20: P_VARINT, 0x2ab2: P_BOOL, 0xffee: P_BYTES,
}
SERVER_ONLY = {0x00, 0x02, 0x0d, 0x10}
CLIENT_ONLY = {0xffee}
BOUNDS = {0x03: (1200, 65527), 0x08: (0, (1 << 60) - 1), 0x09: (0, (1 << 60) - 1), 0x0a: (0, 20), 0x0b: (0, 16383),
          0x0e: (2, VARINT_MAX)}
REQUIRED = {0: [0x0f], 1: [0x0f, 0x00]}


def encode_param(pid, ty, v):
    """v: int | None | bytes | (a4, a6, cid, tok)"""
    out = varint(pid)
    if ty in (P_VARINT, P_DURATION):
        return out + varint(varint_size(v)) + varint(v)
    if ty == P_BOOL:
        return out + varint(0)
    if ty in (P_BYTES, P_TOKEN, P_CID):
        return out + varint(len(v)) + v
    a4, a6, cid, tok = v
    body = a4 + a6 + bytes([len(cid)]) + cid + tok
    return out + varint(len(body)) + body


def param_fields(pid, ty, v):
    """canonical print of one parameter (coq/Model/PacketsIO.v print_params)"""
    if ty == P_VARINT:
        return [pid, 0, v]
    if ty == P_BOOL:
        return [pid, 1]
    if ty == P_BYTES:
        return [pid, 2] + pb(v)
    if ty == P_DURATION:
        return [pid, 3, v]
    if ty == P_TOKEN:
        return [pid, 4] + pb(v)
    if ty == P_CID:
        return [pid, 5] + pb(v)
    a4, a6, cid, tok = v
    return [pid, 6] + pb(a4) + pb(a6) + pb(cid) + pb(tok)


def rand_param_value(rng, pid):
    ty = PARAMS[pid]
    if ty in (P_VARINT, P_DURATION):
        if pid in BOUNDS:
            lo, hi = BOUNDS[pid]
            return rng.choice([lo, hi, lo + 1, max(lo, hi - 1), rng.randint(lo, min(hi, lo + 100000))])
        return rand_varint(rng)
    if ty == P_BOOL:
        return None
    if ty == P_BYTES:
        return rand_bytes(rng, rng.choice([0, 1, 5, 63, 64, 300]))
    if ty == P_TOKEN:
        return rand_bytes(rng, 16)
    if ty == P_CID:
        return rand_cid(rng)
    return (rand_bytes(rng, 6), rand_bytes(rng, 18), rand_cid(rng), rand_bytes(rng, 16))


def rand_params(rng, role):
    """a valid parameter set sent by `role` (0 client, 1 server): dict id -> value"""
    ids = [p for p in PARAMS if not ((role == 0 and p in SERVER_ONLY) or (role == 1 and p in CLIENT_ONLY))]
    chosen = set(REQUIRED[role])
    for p in ids:
        if rng.random() < 0.45:
            chosen.add(p)
    return dict((p, rand_param_value(rng, p)) for p in sorted(chosen))
